package main

import (
	"fmt"
	"go/constant"
	"go/token"
	"go/types"
	"strings"

	"golang.org/x/tools/go/ssa"
)

func checkC01(c *Ctx) {
	r := c.R
	r.Decides = append(r.Decides,
		"K1 header symmetry: (*DHCPv4).ToBytes and FromBytes have the slot sequence [1,1,1,1,4,2,2,4,4,4,4,16,64,128,4] of RFC 2131 §2, slot i written from and read into the same field, hlen slot = len(ClientHWAddr), cookie = magic constant (E2 rows)",
		"K2 name capacity: names are copied into 64/128-byte arrays bounded by N-1 (strpad(63)/strpad(127)) and the reader cuts at the first NUL",
		"K3 option instance split (RFC 3396) in Options.Marshal: one value n is the length byte, the slice written and the slice carried on; n is len(data) clamped to 255; the loop runs while data is non-empty; zero-length values take a path writing code,0; every key other than Pad/End is written (schema row of Marshal)",
		"K4 reassembly: the value stored for a code is append(previous value of that code, chunk consumed in this iteration)",
		"K5 every key of the option map is collected by sortedKeys: an iteration bypasses the collecting append only for key == 82 / key == 255 (re-appended after the sort)")
	r.NotDecided = append(r.NotDecided, "equality of values for all inputs (net.IP.To4, map semantics)", "combinations of options", "OptionValue constructors (C17)")
	e2CheckLayouts(c, "C01-K1", isV4Header, 3)
	byteOrderRule(c, "C01-K6", []string{"dhcpv4", "iana", "rfc1035label"}, 10)
	c01Names(c, "C01-K2")
	decoderKeepsResult(c, "C01-K7", c.P.Func(modPath+"/dhcpv4.FromBytes"))
	c01Split(c)
	c09Reassembly2(c, "C01-K4")
	sortedKeysComplete(c, "C01-K5")
	c07SortedKeys(c)
}

// c01Names: K2 reader side
func c01Names(c *Ctx, rule string) {
	r, sx := c.R, c.Sx()
	f := c.P.Func(modPath + "/dhcpv4.FromBytes")
	if f == nil {
		r.Undecided(rule, "dhcpv4.FromBytes", "-", "not found")
		return
	}
	n := 0
	allInstrs(f, func(in ssa.Instruction) {
		st, ok := in.(*ssa.Store)
		if !ok {
			return
		}
		fa, ok := st.Addr.(*ssa.FieldAddr)
		if !ok {
			return
		}
		name := derefStruct(fa.X.Type()).Field(fa.Field).Name()
		if name != "ServerHostName" && name != "BootFileName" {
			return
		}
		n++
		s := sx.Of(st.Val).String()
		nc := nulCutOf(st.Val, 0)
		_, isArr := nc.root.(*ssa.Alloc)
		okCut := nc.ok && nc.cuts > 0 && isArr
		r.Check(okCut, rule, "dhcpv4.FromBytes: "+name+" is the array cut at the first NUL (or whole)", c.P.ipos(st), "value is string(field[:index of the first zero octet]) / string(field) — also through an unexported helper with exactly that body", name+" is "+s)
		// without a NUL the whole field is the name: a constant fallback for the cut equals the array length (a name that
		// fills its field completely is legal on the wire)
		if okCut {
			r.Check(!nc.shortFallback, rule, "dhcpv4.FromBytes: "+name+" without a NUL is the whole field", c.P.ipos(st), "the fallback of the cut is the whole field", fmt.Sprintf("a %s field without a zero octet is cut short: the last octets are dropped", name))
		}
	})
	r.Check(n == 2, rule, "dhcpv4.FromBytes: both names decoded", c.P.pos(f.Pos()), "instance count", fmt.Sprintf("%d name stores", n))
}

// c01Split: K3
func c01Split(c *Ctx) {
	r, sx := c.R, c.Sx()
	var f *ssa.Function
	for _, g := range c.P.MethodsNamed("Marshal") {
		if n := recvNamed(g); n != nil && n.Obj().Name() == "Options" && pkgPathOf(g) == modPath+"/dhcpv4" {
			f = g
		}
	}
	if f == nil {
		r.Undecided("C01-K3", "dhcpv4.Options.Marshal", "-", "not found")
		return
	}
	key := func(s string) string { return "dhcpv4.Options.Marshal: " + s }
	// the chunk loop: a loop whose header tests len(data) > 0 with data a φ
	// the value write may sit in an unexported helper of the package that Marshal calls (marshalOption(b, code, data))
	var wb *ssa.Call
	for _, g := range marshalHelpers(c, f) {
		allInstrs(g, func(in ssa.Instruction) {
			if cl, ok := in.(*ssa.Call); ok && wb == nil && cl.Call.StaticCallee() != nil && strings.HasSuffix(funcKey(cl.Call.StaticCallee()), "uio.Lexer).WriteBytes") {
				wb = cl
			}
		})
	}
	if wb != nil {
		f = wb.Parent()
	}
	if wb == nil {
		r.Undecided("C01-K3", key("value write"), c.P.pos(f.Pos()), "no WriteBytes")
		return
	}
	sl, ok := wb.Call.Args[1].(*ssa.Slice)
	if !ok || sl.Low != nil || sl.High == nil {
		r.Violation("C01-K3", key("instance carries data[:n]"), c.P.ipos(wb), "the bytes written are not data[:n]: "+sx.Of(wb.Call.Args[1]).String())
		return
	}
	n := sl.High
	data, isPhi := sl.X.(*ssa.Phi)
	if !isPhi {
		r.Violation("C01-K3", key("data is loop-carried"), c.P.ipos(wb), "the value being split is not a loop-carried slice")
		return
	}
	// length byte
	var lenWrite *ssa.Call
	for _, in := range wb.Block().Instrs {
		if cl, ok := in.(*ssa.Call); ok && cl.Call.StaticCallee() != nil && strings.HasSuffix(funcKey(cl.Call.StaticCallee()), "uio.Lexer).Write8") {
			if cv, ok := cl.Call.Args[1].(*ssa.Convert); ok && cv.X == n {
				lenWrite = cl
			}
		}
	}
	r.Check(lenWrite != nil, "C01-K3", key("length byte is uint8(n) of the same n"), c.P.ipos(wb), "value identity", "the length byte written is not the n used to slice the value")
	// carried slice data[n:]
	okCarry := false
	for _, e := range data.Edges {
		if s2, ok := e.(*ssa.Slice); ok && s2.X == ssa.Value(data) && s2.Low == n && s2.High == nil {
			okCarry = true
		}
	}
	r.Check(okCarry, "C01-K3", key("remainder carried on is data[n:] of the same n"), c.P.ipos(wb), "φ edge is slice(data, n, _)", "the remainder for the next instance is not data[n:]")
	// n = φ(len(data), 255) with guard len > 255, or the builtin min(len(data), 255)
	okClamp := false
	if cl, ok := n.(*ssa.Call); ok && isBuiltinCall(cl.Common(), "min") && len(cl.Call.Args) == 2 {
		isLenData := func(v ssa.Value) bool { return lenOperand(v) == ssa.Value(data) }
		is255 := func(v ssa.Value) bool { k, ok := intConst(v); return ok && k == 255 }
		okClamp = (isLenData(cl.Call.Args[0]) && is255(cl.Call.Args[1])) || (isLenData(cl.Call.Args[1]) && is255(cl.Call.Args[0]))
	}
	if ph, ok := n.(*ssa.Phi); ok && len(ph.Edges) == 2 {
		var hasLen, has255 bool
		for _, e := range ph.Edges {
			if k, ok := intConst(e); ok && k == 255 {
				has255 = true
			}
			if cl, ok := e.(*ssa.Call); ok && isBuiltinCall(cl.Common(), "len") && cl.Call.Args[0] == ssa.Value(data) {
				hasLen = true
			}
		}
		// the 255 edge is taken exactly when len(data) > 255
		if hasLen && has255 {
			for i, e := range ph.Edges {
				if k, ok := intConst(e); ok && k == 255 {
					pred := ph.Block().Preds[i]
					// pred (or its dominating If) requires len(data) > 255
					for _, b := range f.Blocks {
						iff := ifOf(b)
						if iff == nil {
							continue
						}
						bo, ok := iff.Cond.(*ssa.BinOp)
						if !ok {
							continue
						}
						isLen := func(v ssa.Value) bool {
							cl, ok := v.(*ssa.Call)
							return ok && isBuiltinCall(cl.Common(), "len") && cl.Call.Args[0] == ssa.Value(data)
						}
						if bo.Op == token.GTR && isLen(bo.X) {
							if k2, ok := intConst(bo.Y); ok && k2 == 255 && (b.Succs[0] == pred || b.Succs[0] == ph.Block()) {
								okClamp = true
							}
						}
						if bo.Op == token.LSS && isLen(bo.Y) {
							if k2, ok := intConst(bo.X); ok && k2 == 255 && (b.Succs[0] == pred || b.Succs[0] == ph.Block()) {
								okClamp = true
							}
						}
					}
				}
			}
		}
	}
	r.Check(okClamp, "C01-K3", key("n is len(data) clamped to 255"), c.P.ipos(wb), "n = φ(len(data), 255) under len(data) > 255", "the instance length is not min(len(data), 255): "+sx.Of(n).String()+" (a 256-byte chunk does not fit the length byte; a smaller cap is legal but a different clamp than reviewed)")
	// loop condition: len(data) > 0
	hdr := data.Block()
	okLoop := false
	if iff := ifOf(hdr); iff != nil {
		s := sx.Of(iff.Cond).String()
		okLoop = strings.HasPrefix(s, "bin[<](const(0),len(") && hdr.Succs[0] == wb.Block() || strings.HasPrefix(s, "bin[<](const(0),len(")
	}
	r.Check(okLoop, "C01-K3", key("chunk loop runs while data is non-empty"), c.P.ipos(hdr.Instrs[len(hdr.Instrs)-1]), "loop test len(data) > 0", "the chunk loop's condition is not len(data) > 0")
}

// c09Reassembly2: the reassembly rule under another clause id
func c09Reassembly2(c *Ctx, rule string) {
	r, sx := c.R, c.Sx()
	var fn *ssa.Function
	for _, f := range c.P.ModuleFuncs() {
		if pkgPathOf(f) == modPath+"/dhcpv4" && f.Name() == "fromBytesCheckEnd" {
			fn = f
		}
	}
	if fn == nil {
		r.Undecided(rule, "dhcpv4 option loop", "-", "fromBytesCheckEnd not found")
		return
	}
	n := 0
	allInstrs(fn, func(in ssa.Instruction) {
		mu, ok := in.(*ssa.MapUpdate)
		if !ok {
			return
		}
		n++
		s := sx.Of(mu.Value).String()
		ks := sx.Of(mu.Key).String()
		want := "call[builtin append](lookup(" + sx.Of(mu.Map).String() + "," + ks + "),"
		okApp := strings.HasPrefix(s, want) && strings.Contains(s[len(want):], "uio.Lexer).Consume]")
		r.Check(okApp, rule, "dhcpv4.fromBytesCheckEnd: stored value is append(previous value of the same code, consumed chunk) in this order", c.P.ipos(mu), "symx", "stored value is "+s)
		// key is the code byte read in this iteration
		r.Check(strings.Contains(ks, "uio.Lexer).Read8]"), rule, "dhcpv4.fromBytesCheckEnd: key is the code byte of this instance", c.P.ipos(mu), "symx", "key is "+ks)
	})
	r.Check(n == 1, rule, "dhcpv4.fromBytesCheckEnd: one store per option instance", c.P.pos(fn.Pos()), "instance count", fmt.Sprintf("%d map stores", n))
	// every instance whose value was consumed is stored: no path leads from the Consume call back to the next
	// iteration without passing the map store (a `continue` on a test of the value drops instances)
	var mu *ssa.MapUpdate
	var cons *ssa.Call
	allInstrs(fn, func(in ssa.Instruction) {
		if m, ok := in.(*ssa.MapUpdate); ok {
			mu = m
		}
		if cl, ok := in.(*ssa.Call); ok && cl.Call.StaticCallee() != nil && strings.HasSuffix(funcKey(cl.Call.StaticCallee()), "uio.Lexer).Consume") && inCycle(cl.Block()) {
			cons = cl
		}
	})
	if mu != nil && cons != nil {
		loop := sccOf(cons.Block())
		skipped := false
		for b := range reachFromSuccs(cons.Block(), nil, map[*ssa.BasicBlock]bool{mu.Block(): true}) {
			// a block of the loop that dominates the Consume block is on the way to the next iteration
			if loop[b] && b != cons.Block() && b.Dominates(cons.Block()) {
				skipped = true
			}
		}
		if cons.Block() == mu.Block() {
			skipped = false
		}
		r.Check(!skipped, rule, "dhcpv4.fromBytesCheckEnd: every consumed instance reaches the store", c.P.ipos(mu), "no path from Consume to the next iteration avoids the map store",
			"an option instance can be consumed and then skipped (a path from Consume back to the loop avoids the store): its bytes are missing from the decoded value")
	}
	// … and every instance whose length octet was read: a zero-length instance (`code 0`) is an instance too — its code must
	// become a key of the map (presence is what Has/len/round trips observe). The length read is the Read8 that sizes the
	// Consume; from its block no path leads back to the next iteration without the store.
	if mu != nil && cons != nil && len(cons.Call.Args) == 2 {
		var lenRead *ssa.Call
		var find func(v ssa.Value, d int)
		find = func(v ssa.Value, d int) {
			if d > 4 || lenRead != nil {
				return
			}
			switch t := v.(type) {
			case *ssa.Call:
				if t.Call.StaticCallee() != nil && strings.HasSuffix(funcKey(t.Call.StaticCallee()), "uio.Lexer).Read8") {
					lenRead = t
				}
			case *ssa.Convert:
				find(t.X, d+1)
			case *ssa.Phi:
				for _, e := range t.Edges {
					find(e, d+1)
				}
			}
		}
		find(cons.Call.Args[1], 0)
		if lenRead != nil && inCycle(lenRead.Block()) {
			loop := sccOf(lenRead.Block())
			skipped := false
			if lenRead.Block() != mu.Block() {
				for b := range reachFromSuccs(lenRead.Block(), nil, map[*ssa.BasicBlock]bool{mu.Block(): true}) {
					if loop[b] && b != lenRead.Block() && b.Dominates(lenRead.Block()) {
						skipped = true
					}
				}
			}
			r.Check(!skipped, rule, "dhcpv4.fromBytesCheckEnd: every instance whose length was read reaches the store", c.P.ipos(lenRead), "no path from the length read to the next iteration avoids the map store",
				"an option instance can be read (code and length) and then skipped — e.g. on length 0: a zero-length option disappears from the decoded packet (its key is never created)")
		} else {
			r.Undecided(rule, "dhcpv4.fromBytesCheckEnd: length read of the option loop", c.P.ipos(cons), "the Consume size is not a Read8 of this loop")
		}
	}
}

// marshalHelpers: f and the functions of its own package it reaches through static calls (depth ≤ 3), f first;
// the key sorter is not part of the write path
func marshalHelpers(c *Ctx, f *ssa.Function) []*ssa.Function {
	out := []*ssa.Function{f}
	seen := map[*ssa.Function]bool{f: true}
	for i := 0; i < len(out) && i < 8; i++ {
		allInstrs(out[i], func(in ssa.Instruction) {
			if cl, ok := in.(*ssa.Call); ok {
				if g := cl.Call.StaticCallee(); g != nil && g.Blocks != nil && g.Pkg == f.Pkg && !seen[g] && g.Name() != "sortedKeys" {
					seen[g] = true
					out = append(out, g)
				}
			}
		})
	}
	return out
}

// nulCut describes a string value built from a byte source by cutting at the first zero octet.
type nulCut struct {
	ok            bool
	root          ssa.Value // the byte source (an array allocation, or a parameter inside a helper)
	cuts          int       // alternatives of the form string(src[:index of NUL])
	wholes        int       // alternatives of the form string(src) / string(src[:len])
	shortFallback bool      // an alternative takes a constant prefix shorter or longer than the source
}

func byteRoot(v ssa.Value) ssa.Value {
	for i := 0; i < 4; i++ {
		if sl, ok := v.(*ssa.Slice); ok && sl.Low == nil && sl.High == nil && sl.Max == nil {
			v = sl.X
			continue
		}
		break
	}
	return v
}

// nulIndexOf: v is the index of the first zero octet of some byte source; returns that source's root
func nulIndexOf(v ssa.Value) (ssa.Value, bool) {
	cl, ok := v.(*ssa.Call)
	if !ok || cl.Call.StaticCallee() == nil || len(cl.Call.Args) != 2 {
		return nil, false
	}
	isZero := func(a ssa.Value) bool {
		k, ok := a.(*ssa.Const)
		if !ok || k.Value == nil {
			return false
		}
		if k.Value.Kind() == constant.String {
			return constant.StringVal(k.Value) == "\x00"
		}
		n, isInt := intConst(a)
		return isInt && n == 0
	}
	if !isZero(cl.Call.Args[1]) {
		return nil, false
	}
	switch funcKey(cl.Call.StaticCallee()) {
	case "strings.Index", "strings.IndexByte", "strings.IndexRune":
		if cv, ok := cl.Call.Args[0].(*ssa.Convert); ok {
			return byteRoot(cv.X), true
		}
	case "bytes.IndexByte", "bytes.IndexRune":
		return byteRoot(cl.Call.Args[0]), true
	}
	return nil, false
}

func (a *nulCut) merge(b nulCut) {
	if !b.ok || (a.root != nil && b.root != a.root) {
		a.ok = false
		return
	}
	a.root = b.root
	a.cuts += b.cuts
	a.wholes += b.wholes
	a.shortFallback = a.shortFallback || b.shortFallback
}

func nulCutOf(v ssa.Value, depth int) nulCut {
	bad := nulCut{}
	if depth > 4 {
		return bad
	}
	switch x := v.(type) {
	case *ssa.Phi:
		out := nulCut{ok: true}
		for _, e := range x.Edges {
			out.merge(nulCutOf(e, depth+1))
			if !out.ok {
				return bad
			}
		}
		return out
	case *ssa.Convert:
		bt, ok := x.Type().Underlying().(*types.Basic)
		if !ok || bt.Info()&types.IsString == 0 {
			return bad
		}
		// `if i := bytes.IndexByte(b, 0); i != -1 { b = b[:i] }; return string(b)`: the converted bytes are chosen by a φ
		if ph, isPhi := x.X.(*ssa.Phi); isPhi && depth < 4 {
			out := nulCut{ok: true}
			for _, e := range ph.Edges {
				// string(e) for each alternative: a synthetic conversion is not needed, the slice cases below only look at e
				out.merge(nulCutOfBytes(e, depth+1))
				if !out.ok {
					return bad
				}
			}
			return out
		}
		return nulCutOfBytes(x.X, depth)
	case *ssa.Call:
		g := x.Call.StaticCallee()
		if g == nil || !inModule(g) || g.Blocks == nil || len(g.Params) != 1 || len(x.Call.Args) != 1 || (g.Object() != nil && g.Object().Exported()) {
			return bad
		}
		out := nulCut{ok: true}
		for _, rt := range returnsOf(g) {
			if len(rt.Results) != 1 {
				return bad
			}
			out.merge(nulCutOf(rt.Results[0], depth+1))
			if !out.ok {
				return bad
			}
		}
		if out.root != ssa.Value(g.Params[0]) {
			return bad
		}
		out.root = byteRoot(x.Call.Args[0])
		return out
	}
	return bad
}

// nulCutOfBytes: what string(b) is, for a byte slice b: the whole root, or the root cut at the first zero octet
func nulCutOfBytes(b ssa.Value, depth int) nulCut {
	bad := nulCut{}
	sl, isSl := b.(*ssa.Slice)
	if !isSl || (sl.Low == nil && sl.High == nil) {
		return nulCut{ok: true, root: byteRoot(b), wholes: 1}
	}
	if sl.Low != nil || sl.Max != nil {
		return bad
	}
	root := byteRoot(sl.X)
	out := nulCut{ok: true, root: root}
	var walk func(h ssa.Value, d int) bool
	walk = func(h ssa.Value, d int) bool {
		if ph, ok := h.(*ssa.Phi); ok && d < 4 {
			for _, e := range ph.Edges {
				if !walk(e, d+1) {
					return false
				}
			}
			return true
		}
		if src, ok := nulIndexOf(h); ok {
			if src != root {
				return false
			}
			out.cuts++
			return true
		}
		if lo := lenOperand(h); lo != nil && byteRoot(lo) == root {
			out.wholes++
			return true
		}
		if k, ok := intConst(h); ok {
			out.wholes++
			full := int64(-1)
			if al, ok := root.(*ssa.Alloc); ok {
				if at, ok := al.Type().(*types.Pointer).Elem().Underlying().(*types.Array); ok {
					full = at.Len()
				}
			}
			if k != full {
				out.shortFallback = true
			}
			return true
		}
		return false
	}
	if !walk(sl.High, 0) {
		return bad
	}
	return out
}
