#!/usr/bin/env python3
"""Writes spec/layouts.json: for every codec function the RFC width skeleton (written by hand from the
RFC text, see DESIGN Appendix A) and the reviewed schema string (fields and transforms per slot).
Run with a schema dump of the *reviewed* tree: bin/dhcpverif schemas /repo json > /tmp/schemas.json"""
import json, re, sys
d = json.load(open(sys.argv[1] if len(sys.argv) > 1 else '/tmp/schemas.json'))

# hand-written: type -> (rfc reference, skeleton of the option VALUE as widths)
# vocabulary: fixed widths in bytes; var = length-prefixed / computed; rest = remainder of the value;
# { … }* = repeated to the end of the value
RFC = {
 # DHCPv4
 'dhcpv4.DHCPv4/enc': ('RFC 2131 §2 Fig.1; RFC 2132 §2 (End); RFC 951 (300-byte minimum)', '1 1 1 1 4 2 2 4 4 4 4 16 64 128 4 opts4 1 ( var |  )'),
 'dhcpv4.FromBytes': ('RFC 2131 §2 Fig.1', '1 1 1 1 4 2 2 4 4 4 4 16 64 128 4 rest'),
 'dhcpv4.IP': ('RFC 2132 §5.3, §9.1, §9.7', '4'), 'dhcpv4.IPs': ('RFC 2132 §3.5-3.13, §8.3, §8.5', '{ 4 }*'),
 'dhcpv4.IPMask': ('RFC 2132 §3.3', '4'), 'dhcpv4.Duration': ('RFC 2132 §9.2, §9.11, §9.12; RFC 8925 §3.1', '4'),
 'dhcpv4.Uint16': ('RFC 2132 §9.10', '2'), 'dhcpv4.MessageType': ('RFC 2132 §9.6', '1'), 'dhcpv4.AutoConfiguration': ('RFC 2563 §2', '1'),
 'dhcpv4.OptionCodeList': ('RFC 2132 §9.8', '{ 1 }*'), 'dhcpv4.String': ('RFC 2132 §3.14 etc.', 'rest'),
 'dhcpv4.Strings': ('RFC 3004 §4', '{ 1 var }*'), 'dhcpv4.Route': ('RFC 3442', '1 var 4'), 'dhcpv4.Routes': ('RFC 3442', '{ 1 var 4 }*'),
 'dhcpv4.VIVCIdentifiers': ('RFC 3925 §3', '{ 4 1 var }*'), 'dhcpv4.RelayOptions': ('RFC 3046 §2', 'rest'), 'dhcpv4.OptionGeneric': ('RFC 2132 §2', 'rest'),
 'dhcpv4.Options': ('RFC 2132 §2; RFC 3396', 'rest'), 'iana.Archs': ('RFC 4578 §2.1; RFC 5970 §3.3', '{ 2 }*'),
 # DHCPv6
 'dhcpv6.Message': ('RFC 8415 §8', '1 3 rest'), 'dhcpv6.MessageFromBytes': ('RFC 8415 §8', '1 3 rest'), 'dhcpv6.RelayMessageFromBytes': ('RFC 8415 §9', '1 1 16 16 rest'), 'dhcpv6.RelayMessage': ('RFC 8415 §9', '1 1 16 16 rest'), 'dhcpv6.FromBytes': ('RFC 8415 §8-9 (dispatch on msg-type)', '1'),
 'dhcpv6.Options': ('RFC 8415 §21.1', '{ 2 2 var }*'), 'dhcpv6.OptionGeneric': ('RFC 8415 §21.1', 'rest'),
 'dhcpv6.DUIDLLT': ('RFC 8415 §11.2', '2 2 4 rest'), 'dhcpv6.DUIDEN': ('RFC 8415 §11.3', '2 4 rest'), 'dhcpv6.DUIDLL': ('RFC 8415 §11.4', '2 2 rest'),
 'dhcpv6.DUIDUUID': ('RFC 6355 §4', '2 16'), 'dhcpv6.DUIDOpaque': ('RFC 8415 §11.1', '2 rest'), 'dhcpv6.DUIDFromBytes': ('RFC 8415 §11.1', '2 rest'),
 'dhcpv6.Duration': ('RFC 8415 §7.7', '4'),
 'dhcpv6.OptIANA': ('RFC 8415 §21.4', '4 4 4 rest'), 'dhcpv6.OptIAPD': ('RFC 8415 §21.21', '4 4 4 rest'), 'dhcpv6.OptIATA': ('RFC 8415 §21.5', '4 rest'),
 'dhcpv6.OptIAAddress': ('RFC 8415 §21.6', '16 4 4 rest'), 'dhcpv6.OptIAPrefix': ('RFC 8415 §21.22', '4 4 1 16 rest'),
 'dhcpv6.OptionCodes': ('RFC 8415 §21.7', '{ 2 }*'), 'dhcpv6.optElapsedTime': ('RFC 8415 §21.9', '2'), 'dhcpv6.optRelayMsg': ('RFC 8415 §21.10', 'rest'),
 'dhcpv6.OptStatusCode': ('RFC 8415 §21.13', '2 rest'), 'dhcpv6.OptUserClass': ('RFC 8415 §21.15', '{ 2 var }*'), 'dhcpv6.OptVendorClass': ('RFC 8415 §21.16', '4 { 2 var }*'),
 'dhcpv6.OptVendorOpts': ('RFC 8415 §21.17', '4 rest'), 'dhcpv6.optInterfaceID': ('RFC 8415 §21.18', 'rest'), 'dhcpv6.optBootFileURL': ('RFC 5970 §3.1', 'rest'),
 'dhcpv6.optInformationRefreshTime': ('RFC 8415 §21.23', '4'), 'dhcpv6.optDNS': ('RFC 3646 §3', '{ 16 }*'), 'dhcpv6.OptDHCP4oDHCP6Server': ('RFC 7341 §7.2', '{ 16 }*'),
 'dhcpv6.optDomainSearchList': ('RFC 3646 §4', 'rest'), 'dhcpv6.OptRemoteID': ('RFC 4649 §3', '4 rest'), 'dhcpv6.OptFQDN': ('RFC 4704 §4.1', '1 rest'),
 'dhcpv6.OptNTPServer': ('RFC 5908 §4', 'rest'), 'dhcpv6.NTPSuboptionSrvAddr': ('RFC 5908 §4.1', '16'), 'dhcpv6.NTPSuboptionMCAddr': ('RFC 5908 §4.2', '16'), 'dhcpv6.NTPSuboptionSrvFQDN': ('RFC 5908 §4.3', 'rest'),
 'dhcpv6.optBootFileParam': ('RFC 5970 §3.2', '{ 2 var }*'), 'dhcpv6.optClientArchType': ('RFC 5970 §3.3', 'rest'), 'dhcpv6.OptNetworkInterfaceID': ('RFC 5970 §3.4', '1 1 1'),
 'dhcpv6.optClientLinkLayerAddress': ('RFC 6939 §4', '2 rest'), 'dhcpv6.OptDHCPv4Msg': ('RFC 7341 §7.1', 'rest'), 'dhcpv6.Opt4RD': ('RFC 7600 §4.9', 'rest'),
 'dhcpv6.Opt4RDMapRule': ('RFC 7600 §4.9', '1 1 1 1 4 16'), 'dhcpv6.Opt4RDNonMapRule': ('RFC 7600 §4.9', '1 1 2'), 'dhcpv6.optRelayPort': ('RFC 8357 §4.1', '2'),
 'dhcpv6.optClientID': ('RFC 8415 §21.2', 'rest'), 'dhcpv6.optServerID': ('RFC 8415 §21.3', 'rest'),
 'rfc1035label.Labels': ('RFC 1035 §3.1, §4.1.4', 'rest'), 'rfc1035label.FromBytes': ('RFC 1035 §3.1', 'rest'), 'rfc1035label.labelsFromBytes': ('RFC 1035 §3.1', 'rest'),
}

def norm(sk):
    """normalise an extracted skeleton: a trailing variable part is 'rest'; DUID encoders include the 2-byte type the
    per-kind decoders do not see (two-stage decoding)"""
    sk = re.sub(r'enc\([^)]*\)', 'var', sk)
    toks = sk.split(' ')
    if toks and toks[-1] == 'var' and '{' not in sk.split(' ')[-1]:
        # trailing var outside a loop
        depth = 0
        for t in toks[:-1]:
            depth += t.count('{') - t.count('}*')
        if depth == 0:
            toks[-1] = 'rest'
    sk = ' '.join(toks)
    sk = sk.replace('( 8 8 | 16 )', '16').replace('( 4 | var )', '4').replace('( var | 4 )', '4').replace('(  | var )', 'var').replace('( var |  )', '( var |  )')
    sk = sk.replace('{ (  | 2 var ) }*', '{ 2 var }*').replace('(  | { 2 2 var }* )', '{ 2 2 var }*')
    return sk

def typeof(fn):
    m = re.match(r'\(\*?([\w./]+)\)\.(\w+)', fn)
    if m: return m.group(1), m.group(2)
    return fn, ''

out = {}
bad = 0
for fn in sorted(d):
    e = d[fn]
    t, meth = typeof(fn)
    if fn == '(dhcpv4.Options).Marshal':
        # the option list encoder: frozen as extracted (its clauses C01-K3/K4, C07 are judged by dedicated rules)
        out[fn] = {'dir': e['dir'], 'rfc': 'RFC 2132 §2; RFC 3396 (instances of at most 255 bytes); zero-length options kept',
                   'rfc_skeleton': '{ code1 len1 value }* per key, split at 255', 'skeleton': e['skeleton'], 'schema': e['schema']}
        continue
    key = t
    if fn == '(*dhcpv4.DHCPv4).ToBytes': key = 'dhcpv4.DHCPv4/enc'
    if key not in RFC:
        print('NO RFC ROW', fn); bad += 1; continue
    rfc, sk = RFC[key]
    got = norm(e['skeleton'])
    want = sk
    # DUID kinds: decoders see the value after the 2-byte type
    if t.startswith('dhcpv6.DUID') and e['dir'] == 'dec' and t != 'dhcpv6.DUIDFromBytes':
        want = ' '.join(sk.split(' ')[1:])
    if e['dir'] == 'enc' and want.endswith('rest') and got.endswith('var'):
        got = got[:-3] + 'rest'
    if fn == '(*dhcpv6.Options).FromBytes':
        want = 'rest'
    if e['dir'] == 'dec' and fn.endswith('FromBytesWithParser'):
        want = '{ 2 2 var }*'
    if got != want:
        print('MISMATCH %-55s extracted=%-30s rfc=%s' % (fn, got, want)); bad += 1
    out[fn] = {'dir': e['dir'], 'rfc': rfc, 'rfc_skeleton': want, 'skeleton': e['skeleton'], 'schema': e['schema']}
json.dump({'layouts': out}, open('spec/layouts.json', 'w'), indent=1, ensure_ascii=False)
print(len(out), 'rows written;', bad, 'problems')
