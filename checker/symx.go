package main

// symx: canonical expression trees for SSA values, used wherever a rule speaks
// about "the value written", "the key of the lookup", "the condition guarding
// this return". Trees are compared structurally, never as source text.

import (
	"fmt"
	"go/constant"
	"go/token"
	"go/types"
	"sort"
	"strings"

	"golang.org/x/tools/go/ssa"
)

type Sx struct {
	Op   string // param, free, const, field, elem, len, cap, call, conv, bin, un, phi, alloc, global, extract, lookup, slice, assert, closure, fn, mem, opaque, tuple, range, next, makeslice, makemap, iface
	Name string // field name, callee name, operator, const text, type
	Args []*Sx
	V    ssa.Value // originating value (may be nil)
}

func (s *Sx) String() string {
	if s == nil {
		return "?"
	}
	switch s.Op {
	case "param", "free", "const", "global", "alloc", "fn", "opaque":
		return s.Op + "(" + s.Name + ")"
	}
	parts := make([]string, len(s.Args))
	for i, a := range s.Args {
		parts[i] = a.String()
	}
	if s.Op == "phi" {
		sort.Strings(parts)
		// dedupe
		var u []string
		for i, p := range parts {
			if i == 0 || p != parts[i-1] {
				u = append(u, p)
			}
		}
		parts = u
		if len(parts) == 1 {
			return parts[0]
		}
	}
	if s.Name != "" {
		return s.Op + "[" + s.Name + "](" + strings.Join(parts, ",") + ")"
	}
	return s.Op + "(" + strings.Join(parts, ",") + ")"
}

func sxEq(a, b *Sx) bool { return a.String() == b.String() }

// Contains: does any subtree satisfy pred
func (s *Sx) Contains(pred func(*Sx) bool) bool {
	if s == nil {
		return false
	}
	if pred(s) {
		return true
	}
	for _, a := range s.Args {
		if a.Contains(pred) {
			return true
		}
	}
	return false
}

func (s *Sx) Has(op, name string) bool {
	return s.Contains(func(x *Sx) bool { return x.Op == op && (name == "" || x.Name == name) })
}

type symxer struct {
	p     *Prog
	depth int
	memo  map[ssa.Value]*Sx
	busy  map[ssa.Value]bool
	// Unwrap interface boxing/conversions between identical underlying types
	keepConv bool
	// loadVal: for a load resolved to exactly one reaching store, the stored value
	loadVal    map[*ssa.UnOp]ssa.Value
	lastSingle ssa.Value
	inline     bool
}

func newSymx(p *Prog) *symxer {
	return &symxer{p: p, depth: 10, memo: map[ssa.Value]*Sx{}, busy: map[ssa.Value]bool{}, loadVal: map[*ssa.UnOp]ssa.Value{}}
}

func (sx *symxer) Of(v ssa.Value) *Sx { return sx.of(v, sx.depth) }

func constText(c *ssa.Const) string {
	if c.Value == nil {
		return "nil:" + types.TypeString(c.Type(), shortQual)
	}
	if c.Value.Kind() == constant.String {
		return c.Value.ExactString()
	}
	return c.Value.ExactString()
}

func shortQual(p *types.Package) string { return p.Name() }

func (sx *symxer) of(v ssa.Value, d int) *Sx {
	if v == nil {
		return &Sx{Op: "opaque", Name: "nil"}
	}
	if m, ok := sx.memo[v]; ok {
		return m
	}
	if d <= 0 || sx.busy[v] {
		return &Sx{Op: "opaque", Name: v.Name(), V: v}
	}
	sx.busy[v] = true
	r := sx.of1(v, d)
	delete(sx.busy, v)
	r.V = v
	if d == sx.depth {
		sx.memo[v] = r
	}
	return r
}

func (sx *symxer) of1(v ssa.Value, d int) *Sx {
	switch x := v.(type) {
	case *ssa.Parameter:
		idx := -1
		for i, p := range x.Parent().Params {
			if p == x {
				idx = i
			}
		}
		return &Sx{Op: "param", Name: fmt.Sprintf("%s#%d", shortName(x.Parent()), idx)}
	case *ssa.FreeVar:
		// resolve through the unique MakeClosure in the parent
		fn := x.Parent()
		idx := -1
		for i, fv := range fn.FreeVars {
			if fv == x {
				idx = i
			}
		}
		if par := fn.Parent(); par != nil && idx >= 0 {
			var mk *ssa.MakeClosure
			n := 0
			allInstrs(par, func(in ssa.Instruction) {
				if m, ok := in.(*ssa.MakeClosure); ok && m.Fn == fn {
					mk = m
					n++
				}
			})
			if n == 1 {
				return sx.of(mk.Bindings[idx], d-1)
			}
		}
		return &Sx{Op: "free", Name: fmt.Sprintf("%s#%d", shortName(fn), idx)}
	case *ssa.Const:
		return &Sx{Op: "const", Name: constText(x)}
	case *ssa.Global:
		return &Sx{Op: "global", Name: x.Pkg.Pkg.Name() + "." + x.Name()}
	case *ssa.Function:
		return &Sx{Op: "fn", Name: shortName(x)}
	case *ssa.Builtin:
		return &Sx{Op: "fn", Name: "builtin." + x.Name()}
	case *ssa.Alloc:
		return &Sx{Op: "alloc", Name: fmt.Sprintf("%s@%s", types.TypeString(x.Type(), shortQual), shortName(x.Parent())+"/"+x.Name())}
	case *ssa.FieldAddr:
		st := derefStruct(x.X.Type())
		name := fmt.Sprintf("#%d", x.Field)
		if st != nil {
			name = st.Field(x.Field).Name()
		}
		return &Sx{Op: "fieldaddr", Name: name, Args: []*Sx{sx.of(x.X, d-1)}}
	case *ssa.Field:
		st, _ := x.X.Type().Underlying().(*types.Struct)
		name := fmt.Sprintf("#%d", x.Field)
		if st != nil {
			name = st.Field(x.Field).Name()
		}
		return &Sx{Op: "field", Name: name, Args: []*Sx{sx.of(x.X, d-1)}}
	case *ssa.IndexAddr:
		return &Sx{Op: "elemaddr", Args: []*Sx{sx.of(x.X, d-1), sx.of(x.Index, d-1)}}
	case *ssa.Index:
		return &Sx{Op: "elem", Args: []*Sx{sx.of(x.X, d-1), sx.of(x.Index, d-1)}}
	case *ssa.Lookup:
		return &Sx{Op: "lookup", Args: []*Sx{sx.of(x.X, d-1), sx.of(x.Index, d-1)}}
	case *ssa.UnOp:
		if x.Op == token.MUL {
			// load
			if r := sx.load(x, d); r != nil {
				return r
			}
			a := sx.of(x.X, d-1)
			switch a.Op {
			case "fieldaddr":
				return &Sx{Op: "field", Name: a.Name, Args: a.Args}
			case "elemaddr":
				return &Sx{Op: "elem", Args: a.Args}
			}
			return &Sx{Op: "load", Args: []*Sx{a}}
		}
		return &Sx{Op: "un", Name: x.Op.String(), Args: []*Sx{sx.of(x.X, d-1)}}
	case *ssa.BinOp:
		a, b := sx.of(x.X, d-1), sx.of(x.Y, d-1)
		op := x.Op.String()
		switch x.Op {
		case token.ADD, token.MUL, token.EQL, token.NEQ, token.AND, token.OR, token.XOR:
			if x.Op == token.ADD {
				if bt, ok := x.Type().Underlying().(*types.Basic); ok && bt.Info()&types.IsString != 0 {
					break // string concat not commutative
				}
			}
			if a.String() > b.String() {
				a, b = b, a
			}
		case token.GTR:
			op, a, b = "<", b, a
		case token.GEQ:
			op, a, b = "<=", b, a
		}
		return &Sx{Op: "bin", Name: op, Args: []*Sx{a, b}}
	case *ssa.Call:
		if r := sx.inlineHelper(x, 0, d); r != nil {
			return r
		}
		return sx.call(x.Common(), d)
	case *ssa.Convert:
		return &Sx{Op: "conv", Name: types.TypeString(x.Type(), shortQual), Args: []*Sx{sx.of(x.X, d-1)}}
	case *ssa.ChangeType:
		return sx.of(x.X, d)
	case *ssa.ChangeInterface:
		return sx.of(x.X, d)
	case *ssa.MakeInterface:
		if sx.keepConv {
			return &Sx{Op: "iface", Name: types.TypeString(x.X.Type(), shortQual), Args: []*Sx{sx.of(x.X, d-1)}}
		}
		return sx.of(x.X, d)
	case *ssa.SliceToArrayPointer:
		return &Sx{Op: "conv", Name: "arrayptr", Args: []*Sx{sx.of(x.X, d-1)}}
	case *ssa.Phi:
		var args []*Sx
		for _, e := range x.Edges {
			args = append(args, sx.of(e, d-1))
		}
		return &Sx{Op: "phi", Args: args}
	case *ssa.Extract:
		if cl, ok := x.Tuple.(*ssa.Call); ok {
			if r := sx.inlineHelper(cl, x.Index, d); r != nil {
				return r
			}
		}
		t := sx.of(x.Tuple, d-1)
		return &Sx{Op: "extract", Name: fmt.Sprint(x.Index), Args: []*Sx{t}}
	case *ssa.Slice:
		args := []*Sx{sx.of(x.X, d-1)}
		for _, b := range []ssa.Value{x.Low, x.High, x.Max} {
			if b == nil {
				args = append(args, &Sx{Op: "const", Name: "_"})
			} else {
				args = append(args, sx.of(b, d-1))
			}
		}
		return &Sx{Op: "slice", Args: args}
	case *ssa.TypeAssert:
		n := types.TypeString(x.AssertedType, shortQual)
		if x.CommaOk {
			n += ",ok"
		}
		return &Sx{Op: "assert", Name: n, Args: []*Sx{sx.of(x.X, d-1)}}
	case *ssa.MakeClosure:
		var args []*Sx
		for _, b := range x.Bindings {
			args = append(args, sx.of(b, d-1))
		}
		return &Sx{Op: "closure", Name: shortName(x.Fn.(*ssa.Function)), Args: args}
	case *ssa.MakeSlice:
		return &Sx{Op: "makeslice", Name: types.TypeString(x.Type(), shortQual), Args: []*Sx{sx.of(x.Len, d-1), sx.of(x.Cap, d-1)}}
	case *ssa.MakeMap:
		return &Sx{Op: "makemap", Name: types.TypeString(x.Type(), shortQual)}
	case *ssa.MakeChan:
		return &Sx{Op: "makechan", Name: types.TypeString(x.Type(), shortQual), Args: []*Sx{sx.of(x.Size, d-1)}}
	case *ssa.Range:
		return &Sx{Op: "range", Args: []*Sx{sx.of(x.X, d-1)}}
	case *ssa.Next:
		return &Sx{Op: "next", Args: []*Sx{sx.of(x.Iter, d-1)}}
	case *ssa.Select:
		return &Sx{Op: "select", Name: x.Name()}
	}
	return &Sx{Op: "opaque", Name: fmt.Sprintf("%T:%s", v, v.Name())}
}

func (sx *symxer) call(c *ssa.CallCommon, d int) *Sx {
	var args []*Sx
	name := calleeName(c)
	name = strings.ReplaceAll(name, modPath+"/", "")
	if c.IsInvoke() {
		args = append(args, sx.of(c.Value, d-1))
	} else if c.StaticCallee() == nil {
		if _, ok := c.Value.(*ssa.Builtin); !ok {
			args = append(args, sx.of(c.Value, d-1))
		}
	}
	for _, a := range c.Args {
		args = append(args, sx.of(a, d-1))
	}
	if name == "builtin len" && len(args) == 1 {
		return &Sx{Op: "len", Args: args}
	}
	if name == "builtin cap" && len(args) == 1 {
		return &Sx{Op: "cap", Args: args}
	}
	return &Sx{Op: "call", Name: name, Args: args}
}

func derefStruct(t types.Type) *types.Struct {
	if p, ok := t.Underlying().(*types.Pointer); ok {
		t = p.Elem()
	}
	s, _ := t.Underlying().(*types.Struct)
	return s
}

// addrPath describes an address rooted at a local Alloc: alloc + field path.
func addrPath(v ssa.Value) (*ssa.Alloc, string, bool) {
	path := ""
	for {
		switch x := v.(type) {
		case *ssa.Alloc:
			return x, path, true
		case *ssa.FieldAddr:
			path = fmt.Sprintf(".%d%s", x.Field, path)
			v = x.X
		default:
			return nil, "", false
		}
	}
}

// load resolves *addr where addr is rooted at a local Alloc that is stored
// exactly once at that path (whole-cell or field) — the cells go/ssa creates
// for captured variables and for composite literals whose address is taken.
func (sx *symxer) load(u *ssa.UnOp, d int) *Sx {
	al, path, ok := addrPath(u.X)
	if !ok {
		// load through a free variable bound to such a cell
		if fv, ok2 := u.X.(*ssa.FreeVar); ok2 {
			b := sx.binding(fv)
			if b != nil {
				if al2, path2, ok3 := addrPath(b); ok3 {
					return sx.loadCell(al2, path2, d)
				}
			}
		}
		return nil
	}
	// several stores to the same path in the same function: keep only those that reach this load
	if u.Parent() == al.Parent() {
		sx.lastSingle = nil
		if r := sx.loadCellAt(al, path, u, d); r != nil {
			if sx.lastSingle != nil {
				sx.loadVal[u] = sx.lastSingle
			}
			return r
		}
	}
	sx.lastSingle = nil
	r := sx.loadCell(al, path, d)
	if r != nil && sx.lastSingle != nil {
		sx.loadVal[u] = sx.lastSingle
	}
	return r
}

// StoredValue: the single stored value a load was resolved to (nil when unresolved or ambiguous)
func (sx *symxer) StoredValue(u *ssa.UnOp) ssa.Value {
	sx.Of(u)
	return sx.loadVal[u]
}

// loadCellAt: reaching-stores analysis for a local cell whose whole-cell stores all sit in the
// allocating function: the value a load sees is one of the stores that reach it (a store kills the
// earlier ones). Returns nil when the cell has fewer than two stores or is also stored elsewhere.
func (sx *symxer) loadCellAt(al *ssa.Alloc, path string, at ssa.Instruction, d int) *Sx {
	fn := al.Parent()
	var stores []*ssa.Store
	bad := false
	allInstrs(fn, func(in ssa.Instruction) {
		switch t := in.(type) {
		case *ssa.Store:
			a2, p2, ok := addrPath(t.Addr)
			if !ok || a2 != al {
				return
			}
			switch {
			case p2 == path:
				stores = append(stores, t)
			case p2 == "" || path == "" || strings.HasPrefix(path, p2+".") || strings.HasPrefix(p2, path+"."):
				bad = true // overlapping partial store
			}
		case *ssa.MakeClosure:
			// closures that assign the cell defeat the local analysis
			cf := t.Fn.(*ssa.Function)
			for i, b := range t.Bindings {
				if a2, _, ok := addrPath(b); ok && a2 == al {
					for _, r2 := range *cf.FreeVars[i].Referrers() {
						switch st := r2.(type) {
						case *ssa.Store:
							if st.Addr == ssa.Value(cf.FreeVars[i]) {
								bad = true
							}
						case *ssa.FieldAddr:
							bad = true
						}
					}
				}
			}
		}
	})
	if bad {
		return nil
	}
	if len(stores) < 2 {
		return nil
	}
	isStore := map[ssa.Instruction]*ssa.Store{}
	for _, st := range stores {
		isStore[st] = st
	}
	// forward dataflow over blocks: set of stores reaching block entry
	type set map[*ssa.Store]bool
	in := map[*ssa.BasicBlock]set{}
	out := map[*ssa.BasicBlock]set{}
	for _, b := range fn.Blocks {
		in[b], out[b] = set{}, set{}
	}
	transfer := func(b *ssa.BasicBlock, s set, stop ssa.Instruction) (set, bool) {
		cur := set{}
		for k := range s {
			cur[k] = true
		}
		for _, ins := range b.Instrs {
			if ins == stop {
				return cur, true
			}
			if st, ok := isStore[ins]; ok {
				cur = set{st: true}
			}
		}
		return cur, false
	}
	for changed := true; changed; {
		changed = false
		for _, b := range fn.Blocks {
			ns := set{}
			for _, p := range b.Preds {
				for k := range out[p] {
					ns[k] = true
				}
			}
			in[b] = ns
			o, _ := transfer(b, ns, nil)
			if len(o) != len(out[b]) {
				changed = true
			} else {
				for k := range o {
					if !out[b][k] {
						changed = true
					}
				}
			}
			out[b] = o
		}
	}
	reach, _ := transfer(at.Block(), in[at.Block()], at)
	if len(reach) == 0 {
		return nil
	}
	var vals []*Sx
	var ord []*ssa.Store
	for st := range reach {
		ord = append(ord, st)
	}
	sort.Slice(ord, func(i, j int) bool { return ord[i].Pos() < ord[j].Pos() })
	for _, st := range ord {
		vals = append(vals, sx.of(st.Val, d-1))
	}
	if len(vals) == 1 {
		sx.lastSingle = ord[0].Val
		return vals[0]
	}
	sx.lastSingle = nil
	return &Sx{Op: "phi", Args: vals}
}

func (sx *symxer) binding(fv *ssa.FreeVar) ssa.Value {
	fn := fv.Parent()
	idx := -1
	for i, x := range fn.FreeVars {
		if x == fv {
			idx = i
		}
	}
	par := fn.Parent()
	if par == nil || idx < 0 {
		return nil
	}
	var mk *ssa.MakeClosure
	n := 0
	allInstrs(par, func(in ssa.Instruction) {
		if m, ok := in.(*ssa.MakeClosure); ok && m.Fn == fn {
			mk = m
			n++
		}
	})
	if n != 1 {
		return nil
	}
	return mk.Bindings[idx]
}

func (sx *symxer) loadCell(al *ssa.Alloc, path string, d int) *Sx {
	var stores []*ssa.Store
	escapes := false
	var visit func(fn *ssa.Function)
	seenFn := map[*ssa.Function]bool{}
	visit = func(fn *ssa.Function) {
		if seenFn[fn] {
			return
		}
		seenFn[fn] = true
		allInstrs(fn, func(in ssa.Instruction) {
			switch s := in.(type) {
			case *ssa.Store:
				var a2 *ssa.Alloc
				var p2 string
				var ok bool
				if fv, isfv := s.Addr.(*ssa.FreeVar); isfv {
					if b := sx.binding(fv); b != nil {
						a2, p2, ok = addrPath(b)
					}
				} else {
					a2, p2, ok = addrPath(s.Addr)
				}
				if ok && a2 == al {
					if p2 == path || strings.HasPrefix(path, p2+".") || strings.HasPrefix(p2, path+".") || p2 == "" || path == "" {
						stores = append(stores, s)
					}
				}
			case *ssa.MakeClosure:
				for _, b := range s.Bindings {
					if a2, _, ok := addrPath(b); ok && a2 == al {
						visit(s.Fn.(*ssa.Function))
					}
				}
			}
		})
	}
	visit(al.Parent())
	_ = escapes
	var exact []*ssa.Store
	for _, s := range stores {
		var p2 string
		if fv, isfv := s.Addr.(*ssa.FreeVar); isfv {
			_, p2, _ = addrPath(sx.binding(fv))
		} else {
			_, p2, _ = addrPath(s.Addr)
		}
		if p2 == path {
			exact = append(exact, s)
		} else {
			return nil // partial overlap: give up
		}
	}
	if len(exact) == 0 {
		// zero value cell
		return &Sx{Op: "const", Name: "zero:" + types.TypeString(al.Type(), shortQual) + path}
	}
	if len(exact) == 1 {
		r := sx.of(exact[0].Val, d-1)
		sx.lastSingle = exact[0].Val
		return r
	}
	var args []*Sx
	for _, s := range exact {
		args = append(args, sx.of(s.Val, d-1))
	}
	return &Sx{Op: "phi", Name: "", Args: args}
}

// inlineHelper: a call of an unexported, straight-line (single basic block) function of the module is the value
// it returns, with the parameters replaced by the arguments — an expression moved into a small helper keeps its
// canonical form. Anything else (branches, loops, exported API) stays a call node.
func (sx *symxer) inlineHelper(cl *ssa.Call, idx int, d int) *Sx {
	if !sx.inline || d <= 1 {
		return nil
	}
	f := cl.Call.StaticCallee()
	if f == nil || f.Blocks == nil || len(f.Blocks) != 1 || !inModule(f) || token.IsExported(f.Name()) || f.Parent() != nil || len(f.FreeVars) > 0 || f.Signature.Recv() != nil {
		return nil
	}
	if f == cl.Parent() {
		return nil
	}
	ret, ok := f.Blocks[0].Instrs[len(f.Blocks[0].Instrs)-1].(*ssa.Return)
	if !ok || idx >= len(ret.Results) {
		return nil
	}
	for _, in := range f.Blocks[0].Instrs {
		switch in.(type) {
		case *ssa.Go, *ssa.Defer, *ssa.Panic:
			return nil
		}
	}
	if len(cl.Call.Args) != len(f.Params) {
		return nil
	}
	body := sx.of(ret.Results[idx], d-1)
	sub := map[string]*Sx{}
	for i := range f.Params {
		sub[fmt.Sprintf("%s#%d", shortName(f), i)] = sx.of(cl.Call.Args[i], d-1)
	}
	var rew func(t *Sx, depth int) *Sx
	rew = func(t *Sx, depth int) *Sx {
		if t == nil || depth > 40 {
			return t
		}
		if t.Op == "param" {
			if a, ok := sub[t.Name]; ok {
				return a
			}
			return t
		}
		if len(t.Args) == 0 {
			return t
		}
		n := &Sx{Op: t.Op, Name: t.Name, V: t.V, Args: make([]*Sx, len(t.Args))}
		for i, a := range t.Args {
			n.Args[i] = rew(a, depth+1)
		}
		return n
	}
	return rew(body, 0)
}
