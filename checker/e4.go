package main

// E4 — panic obligations: enumerate every instruction that can panic in a
// call-graph closure and close each by a discharge rule, a ledger entry or
// report it (DESIGN §4 E4). E7 — loop audit.

import (
	"bufio"
	"bytes"
	"encoding/json"
	"fmt"
	"go/constant"
	"go/token"
	"go/types"
	"os"
	"os/exec"
	"path/filepath"
	"regexp"
	"sort"
	"strconv"
	"strings"

	"golang.org/x/tools/go/ssa"
)

// ---------------------------------------------------------------------------
// D0: the Go compiler's prove pass

type bceInfo struct {
	unproven map[string]bool // "file:line:col" (relative to repo dir) of every bounds check the compiler kept
	total    int
}

var bceCache = map[string]*bceInfo{}

func compilerBCE(p *Prog) (*bceInfo, error) {
	key := p.Dir + "|" + p.Config.String()
	if b, ok := bceCache[key]; ok {
		return b, nil
	}
	cmd := exec.Command("go", "build",
		"-gcflags="+modPath+"/...=-d=ssa/check_bce/debug=1",
		"-gcflags=github.com/u-root/uio/...=-d=ssa/check_bce/debug=1",
		"./...")
	cmd.Dir = p.Dir
	cmd.Env = childEnv(p.Config)
	var out bytes.Buffer
	cmd.Stdout = &out
	cmd.Stderr = &out
	err := cmd.Run()
	b := &bceInfo{unproven: map[string]bool{}}
	re := regexp.MustCompile(`^(.*?):(\d+):(\d+): Found (IsInBounds|IsSliceInBounds)`)
	sc := bufio.NewScanner(&out)
	sc.Buffer(make([]byte, 1<<20), 1<<24)
	other := []string{}
	for sc.Scan() {
		line := sc.Text()
		m := re.FindStringSubmatch(line)
		if m == nil {
			if strings.HasPrefix(line, "#") || strings.TrimSpace(line) == "" {
				continue
			}
			other = append(other, line)
			continue
		}
		fn := m[1]
		if strings.HasPrefix(fn, "./") {
			fn = fn[2:]
		}
		if filepath.IsAbs(fn) && strings.HasPrefix(fn, p.Dir+"/") {
			fn = fn[len(p.Dir)+1:]
		}
		b.unproven[fn+":"+m[2]+":"+m[3]] = true
		b.total++
	}
	if err != nil {
		return nil, fmt.Errorf("go build for bounds-check diagnostics failed: %v\n%s", err, strings.Join(other, "\n"))
	}
	if b.total < 50 {
		return nil, fmt.Errorf("compiler reported only %d unproven bounds checks: diagnostics not produced (cache/flags?)", b.total)
	}
	bceCache[key] = b
	return b, nil
}

// ---------------------------------------------------------------------------
// ledger

type ledgerEntry struct {
	Key string `json:"key"`
	// KeyPattern: optional regular expression; an obligation without an exact entry is matched against the patterns
	// (the construct descriptor of an obligation depends on how the expression is spelled — buf.String()[1:buf.Len()-1]
	// or s[1:len(s)-1] — while the reason and its machine-checked facts are about the function)
	KeyPattern string   `json:"key_pattern,omitempty"`
	Reason     string   `json:"reason"`
	Requires   []string `json:"requires,omitempty"` // guard facts (symx of conditions, with polarity) that must hold on every path to the instruction
	// CallersAny: every call site (within the analysed closure) of the function containing the
	// obligation must be dominated by a guard fact containing one of these strings
	CallersAny []string `json:"callers_require_any,omitempty"`
	// CallersParamNonNeg: every call site (in the closure) of the function containing the obligation passes,
	// for this parameter (1-based; 0 = unused), a constant >= 0 or the caller's own same-named method's
	// parameter plus a non-negative constant (induction over the call chain)
	CallersParamNonNeg int  `json:"callers_param_nonneg,omitempty"`
	Assume             bool `json:"assumption,omitempty"`
	// SchemaSlots: decoder (or encoder) name -> slot tokens that must occur in its CURRENT E2 schema, e.g.
	// {"dhcpv6.RelayMessageFromBytes": ["16:PeerAddr"]}: the field is filled by a plain 16-byte read
	SchemaSlots map[string][]string `json:"schema_slots,omitempty"`
	// RejectsPresent: decoder name -> substrings each of which must occur in some entry of its CURRENT rejection census
	// (E8), e.g. {"dhcpv6.RelayMessageFromBytes": ["Read8()-13!=0"]}: the decoder still refuses other message types
	RejectsPresent map[string][]string `json:"rejects_present,omitempty"`
	// MadeFields: struct type -> map-typed fields that every allocation of the type in the library initialises with make
	// in the allocating function, e.g. {"dhcpv4.DHCPv4": ["Options"]}: a packet the library built or decoded never
	// carries a nil option map
	MadeFields map[string][]string `json:"made_fields,omitempty"`
}

type ledgerFile struct {
	Entries []ledgerEntry `json:"entries"`
}

func loadLedger(verif string) (map[string]*ledgerEntry, error) {
	b, err := os.ReadFile(filepath.Join(verif, "spec", "ledger.json"))
	if err != nil {
		if os.IsNotExist(err) {
			return map[string]*ledgerEntry{}, nil
		}
		return nil, err
	}
	var lf ledgerFile
	if err := json.Unmarshal(b, &lf); err != nil {
		return nil, fmt.Errorf("spec/ledger.json: %v", err)
	}
	m := map[string]*ledgerEntry{}
	for i := range lf.Entries {
		m[lf.Entries[i].Key] = &lf.Entries[i]
	}
	return m, nil
}

// ---------------------------------------------------------------------------
// closure

func closureOf(p *Prog, roots []*ssa.Function) []*ssa.Function {
	seen := map[*ssa.Function]bool{}
	var work, out []*ssa.Function
	add := func(f *ssa.Function) {
		if f == nil || seen[f] || f.Blocks == nil {
			return
		}
		if !(inModule(f) || inUio(f) || isModuleWrapper(f)) {
			return
		}
		seen[f] = true
		work = append(work, f)
	}
	for _, f := range roots {
		add(f)
	}
	for len(work) > 0 {
		f := work[len(work)-1]
		work = work[:len(work)-1]
		out = append(out, f)
		allInstrs(f, func(in ssa.Instruction) {
			switch x := in.(type) {
			case ssa.CallInstruction:
				for _, cal := range p.Callees(x) {
					add(cal)
				}
			case *ssa.MakeClosure:
				add(x.Fn.(*ssa.Function))
			}
		})
	}
	sortFuncs(out)
	return out
}

// ---------------------------------------------------------------------------
// guard facts: conditions that hold on every path from entry to a block

type guardFact struct {
	cond ssa.Value
	pol  bool
	str  string // symx + polarity
}

type guardCache struct {
	c         *Ctx
	facts     map[*ssa.BasicBlock][]guardFact
	atomCache map[*ssa.Function][]atomFact
}

func newGuardCache(c *Ctx) *guardCache {
	return &guardCache{c: c, facts: map[*ssa.BasicBlock][]guardFact{}}
}

func (g *guardCache) of(b *ssa.BasicBlock) []guardFact {
	if f, ok := g.facts[b]; ok {
		return f
	}
	fn := b.Parent()
	var out []guardFact
	// every atomic condition that holds on all paths to b in the split graph (sgraph.go): for nested ifs this
	// is the classical "every path takes that edge"; for `a && b` materialised as a φ it also yields a and b
	for _, a := range g.atoms(fn) {
		a := a
		if mustPassAtoms(fn, b, func(as []atomFact) bool { return hasAtom(as, a.v, a.val) }) {
			out = append(out, guardFact{cond: a.v, pol: a.val, str: fmt.Sprintf("%s=%v", g.c.Sx().Of(a.v).String(), a.val)})
		}
	}
	g.facts[b] = out
	return out
}

func (g *guardCache) atoms(fn *ssa.Function) []atomFact {
	if g.atomCache == nil {
		g.atomCache = map[*ssa.Function][]atomFact{}
	}
	if a, ok := g.atomCache[fn]; ok {
		return a
	}
	a := atomsIn(fn)
	g.atomCache[fn] = a
	return a
}

// intConst returns the int64 value of a constant operand
func intConst(v ssa.Value) (int64, bool) {
	k, ok := v.(*ssa.Const)
	if !ok || k.Value == nil || k.Value.Kind() != constant.Int {
		return 0, false
	}
	n, exact := constant.Int64Val(k.Value)
	return n, exact
}

// lowerBoundOfLen: the largest m such that the facts imply len(x) >= m, where lenStr is the
// symx string of len(x). Also returns an upper bound (or -1).
func (g *guardCache) lenBounds(b *ssa.BasicBlock, isLenOf func(ssa.Value) bool) (lo int64, hi int64) {
	lo, hi = 0, -1
	upd := func(l, h int64) {
		if l > lo {
			lo = l
		}
		if h >= 0 && (hi < 0 || h < hi) {
			hi = h
		}
	}
	for _, f := range g.of(b) {
		bo, ok := f.cond.(*ssa.BinOp)
		if !ok {
			continue
		}
		var k int64
		var lenLeft bool
		if isLenOf(bo.X) {
			if kk, ok := intConst(bo.Y); ok {
				k, lenLeft = kk, true
			} else {
				continue
			}
		} else if isLenOf(bo.Y) {
			if kk, ok := intConst(bo.X); ok {
				k, lenLeft = kk, false
			} else {
				continue
			}
		} else {
			continue
		}
		op := bo.Op
		if !lenLeft { // k op len  ⇒ len op' k
			switch op {
			case token.LSS:
				op = token.GTR
			case token.LEQ:
				op = token.GEQ
			case token.GTR:
				op = token.LSS
			case token.GEQ:
				op = token.LEQ
			}
		}
		if !f.pol { // negate
			switch op {
			case token.LSS:
				op = token.GEQ
			case token.LEQ:
				op = token.GTR
			case token.GTR:
				op = token.LEQ
			case token.GEQ:
				op = token.LSS
			case token.EQL:
				op = token.NEQ
			case token.NEQ:
				op = token.EQL
			}
		}
		switch op {
		case token.GEQ:
			upd(k, -1)
		case token.GTR:
			upd(k+1, -1)
		case token.EQL:
			upd(k, k)
		case token.LSS:
			upd(0, k-1)
		case token.LEQ:
			upd(0, k)
		case token.NEQ:
			if k == 0 {
				upd(1, -1)
			}
		}
	}
	return
}

// ---------------------------------------------------------------------------
// obligations

type e4Result struct {
	funcs                                                        []*ssa.Function
	nBounds, nAssert, nPanic, nDiv, nSize, nNilMap, nNil, nLoops int
}

type e4Engine struct {
	c            *Ctx
	bce          *bceInfo
	ledger       map[string]*ledgerEntry
	used         map[string]bool
	gc           *guardCache
	funcs        []*ssa.Function
	rule         string // clause id prefix, e.g. C03-K1
	ledgerPrefix string // prefix under which ledger keys are stored (defaults to rule)
	nnDepth      int
	census       map[string][]string
}

func newE4(c *Ctx, rule string) (*e4Engine, error) {
	bce, err := compilerBCE(c.P)
	if err != nil {
		return nil, err
	}
	led, err := loadLedger(c.Verif)
	if err != nil {
		return nil, err
	}
	return &e4Engine{c: c, bce: bce, ledger: led, used: map[string]bool{}, gc: newGuardCache(c), rule: rule}, nil
}

// shortDesc: a short, source-level description of a value (parameter/field/callee names), used in
// obligation keys. No SSA register names, no positions.
// sdSubst: while a helper's guard is rendered in its caller's terms, the helper's parameters stand for the
// descriptions of the arguments (the analysis is single-threaded)
var sdSubst map[ssa.Value]string

func shortDesc(v ssa.Value, d int) string {
	if v == nil {
		return ""
	}
	if sdSubst != nil {
		if s, ok := sdSubst[v]; ok {
			return s
		}
	}
	if d <= 0 {
		return "…"
	}
	switch x := v.(type) {
	case *ssa.Parameter:
		// by position, not by name: renaming a parameter or a local must not change an obligation's key
		if fn := x.Parent(); fn != nil {
			for i, p := range fn.Params {
				if p == x {
					if i == 0 && fn.Signature.Recv() != nil {
						return "recv"
					}
					if fn.Signature.Recv() != nil {
						i--
					}
					return "arg" + strconv.Itoa(i)
				}
			}
		}
		return "arg"
	case *ssa.FreeVar:
		return "captured(" + types.TypeString(x.Type(), shortQual) + ")"
	case *ssa.Const:
		return constText(x)
	case *ssa.Global:
		return x.Name()
	case *ssa.FieldAddr:
		if st := derefStruct(x.X.Type()); st != nil {
			return shortDesc(x.X, d) + "." + st.Field(x.Field).Name()
		}
	case *ssa.Field:
		if st, ok := x.X.Type().Underlying().(*types.Struct); ok {
			return shortDesc(x.X, d) + "." + st.Field(x.Field).Name()
		}
	case *ssa.UnOp:
		if x.Op == token.MUL {
			return shortDesc(x.X, d)
		}
		return x.Op.String() + shortDesc(x.X, d-1)
	case *ssa.IndexAddr:
		return shortDesc(x.X, d-1) + "[" + shortDesc(x.Index, d-1) + "]"
	case *ssa.Index:
		return shortDesc(x.X, d-1) + "[" + shortDesc(x.Index, d-1) + "]"
	case *ssa.Lookup:
		return shortDesc(x.X, d-1) + "[" + shortDesc(x.Index, d-1) + "]"
	case *ssa.Slice:
		return shortDesc(x.X, d-1) + "[" + shortDesc(x.Low, d-1) + ":" + shortDesc(x.High, d-1) + "]"
	case *ssa.Call:
		cc := x.Common()
		n := ""
		switch {
		case cc.IsInvoke():
			n = shortDesc(cc.Value, d-1) + "." + cc.Method.Name()
		case cc.StaticCallee() != nil:
			f := cc.StaticCallee()
			n = f.Name()
			if f.Signature.Recv() != nil && len(cc.Args) > 0 {
				return shortDesc(cc.Args[0], d-1) + "." + n + "()"
			}
		default:
			if b, ok := cc.Value.(*ssa.Builtin); ok {
				n = b.Name()
				var as []string
				for _, a := range cc.Args {
					as = append(as, shortDesc(a, d-1))
				}
				return n + "(" + strings.Join(as, ",") + ")"
			}
			n = shortDesc(cc.Value, d-1)
		}
		return n + "()"
	case *ssa.Alloc:
		if x.Comment == "varargs" || x.Comment == "slicelit" || x.Comment == "complit" || x.Comment == "" {
			return "new " + types.TypeString(x.Type().(*types.Pointer).Elem(), shortQual)
		}
		return "var " + types.TypeString(x.Type().(*types.Pointer).Elem(), shortQual)
	case *ssa.Phi:
		return "φ"
	case *ssa.BinOp:
		return "(" + shortDesc(x.X, d-1) + x.Op.String() + shortDesc(x.Y, d-1) + ")"
	case *ssa.Convert:
		return shortDesc(x.X, d)
	case *ssa.ChangeType:
		return shortDesc(x.X, d)
	case *ssa.MakeInterface:
		return shortDesc(x.X, d)
	case *ssa.Extract:
		return shortDesc(x.Tuple, d) + "#" + strconv.Itoa(x.Index)
	case *ssa.TypeAssert:
		return shortDesc(x.X, d-1) + ".(" + types.TypeString(x.AssertedType, shortQual) + ")"
	case *ssa.MakeSlice:
		return "make(" + shortDesc(x.Len, d-1) + ")"
	case *ssa.Next:
		return "range"
	}
	return types.TypeString(v.Type(), shortQual)
}

// construct descriptor of an instruction: function + kind + short operands + ordinal among equals
func (e *e4Engine) descr(in ssa.Instruction, kind, body string, ord map[string]int) string {
	base := shortName(in.Parent()) + ": " + kind + " " + body
	ord[base]++
	if ord[base] > 1 {
		return fmt.Sprintf("%s #%d", base, ord[base])
	}
	return base
}

func (e *e4Engine) close(in ssa.Instruction, key string, by, detail string, trivial bool) {
	if trivial {
		e.c.R.Trivial(e.rule, key, e.c.P.ipos(in), by)
	} else {
		e.c.R.OK(e.rule, key, e.c.P.ipos(in), by, detail)
	}
}

// open: consult the ledger, else violation
func (e *e4Engine) open(in ssa.Instruction, key, detail string) {
	lp := e.rule
	if e.ledgerPrefix != "" {
		lp = e.ledgerPrefix
	}
	full := lp + ": " + key
	le, ok := e.ledger[full]
	if !ok {
		// a helper split out of a reviewed function (unknown to the baseline, called only from it) inherits that
		// function's entries: the entry's machine-checked facts are evaluated where the construct now lives
		if h := e.c.P.hostOfNewHelper(in.Parent()); h != nil {
			alt := lp + ": " + strings.Replace(key, shortName(in.Parent())+": ", shortName(h)+": ", 1)
			if cand, found := e.ledger[alt]; found {
				le, ok, full = cand, true, alt
			}
		}
	}
	if !ok {
		for k, cand := range e.ledger {
			if cand.KeyPattern == "" {
				continue
			}
			if re, err := regexp.Compile(cand.KeyPattern); err == nil && re.MatchString(full) {
				le, ok = cand, true
				e.used[k] = true
				break
			}
		}
	}
	if ok {
		e.used[full] = true
		// machine-checked facts
		var missing []string
		for _, rq := range le.Requires {
			if !factMatches(e.gc.of(in.Block()), rq) {
				missing = append(missing, rq)
			}
		}
		if len(le.CallersAny) > 0 {
			missing = append(missing, e.callersMissing(in.Parent(), le.CallersAny)...)
		}
		if le.CallersParamNonNeg > 0 {
			missing = append(missing, e.callersParamNonNeg(in.Parent(), le.CallersParamNonNeg)...)
		}
		if len(le.SchemaSlots) > 0 {
			missing = append(missing, e.schemaSlotsMissing(le.SchemaSlots)...)
		}
		if len(le.RejectsPresent) > 0 {
			if e.census == nil {
				e.census = fullCensus(e.c.P)
			}
			for fn, subs := range le.RejectsPresent {
				for _, sub := range subs {
					found := false
					for _, ent := range e.census[fn] {
						if strings.Contains(ent, sub) {
							found = true
						}
					}
					if !found {
						missing = append(missing, "rejection `"+sub+"` of "+fn)
					}
				}
			}
		}
		if len(le.MadeFields) > 0 {
			missing = append(missing, e.madeFieldsMissing(le.MadeFields)...)
		}
		if len(missing) == 0 {
			by := "ledger"
			if le.Assume || len(le.Requires)+len(le.CallersAny)+le.CallersParamNonNeg+len(le.SchemaSlots)+len(le.RejectsPresent)+len(le.MadeFields) == 0 {
				by = "ledger (reasoned, no machine-checked fact)"
			} else {
				by = "ledger + guard facts " + strings.Join(le.Requires, " ∧ ")
				if len(le.CallersAny) > 0 {
					by += " + at every call site one of {" + strings.Join(le.CallersAny, " | ") + "}"
				}
				if len(le.SchemaSlots) > 0 {
					by += fmt.Sprintf(" + wire-schema slots %v present in the current extraction", le.SchemaSlots)
				}
				if len(le.RejectsPresent) > 0 {
					by += fmt.Sprintf(" + rejections %v present in the current census", le.RejectsPresent)
				}
				if len(le.MadeFields) > 0 {
					by += fmt.Sprintf(" + every allocation of the type in the library makes the map fields %v", le.MadeFields)
				}
				if le.CallersParamNonNeg > 0 {
					by += fmt.Sprintf(" + every call site passes a non-negative value for parameter %d (constant, or the caller's own such parameter + constant)", le.CallersParamNonNeg)
				}
			}
			e.c.R.Ledger(e.rule, key, e.c.P.ipos(in), by, le.Reason)
			return
		}
		detail += "; ledger entry exists but its guard fact(s) no longer hold: " + strings.Join(missing, ", ")
	}
	e.c.R.Violation(e.rule, key, e.c.P.ipos(in), detail)
}

// schemaSlotsMissing: see ledgerEntry.SchemaSlots
func (e *e4Engine) schemaSlotsMissing(req map[string][]string) []string {
	var missing []string
	encs, decs := codecFuncs(e.c.P)
	for name, slots := range req {
		var f *ssa.Function
		enc := false
		for _, g := range decs {
			if shortName(g) == name {
				f = g
			}
		}
		for _, g := range encs {
			if shortName(g) == name {
				f, enc = g, true
			}
		}
		if f == nil {
			missing = append(missing, "codec "+name+" not found")
			continue
		}
		ns, und := e2Extract(e.c, f, enc)
		if len(und) > 0 {
			missing = append(missing, "schema of "+name+" not extractable: "+und[0])
			continue
		}
		have := map[string]bool{}
		for _, t := range strings.Fields(e2Str(ns)) {
			have[t] = true
		}
		for _, sl := range slots {
			if !have[sl] {
				missing = append(missing, "slot "+sl+" not in the schema of "+name+" ("+e2Str(ns)+")")
			}
		}
	}
	sort.Strings(missing)
	return missing
}

// callersParamNonNeg: see ledgerEntry.CallersParamNonNeg
func (e *e4Engine) callersParamNonNeg(f *ssa.Function, prm int) []string {
	var missing []string
	n := 0
	// the family: functions with the same method name (mutually recursive printers)
	for _, g := range e.funcs {
		allInstrs(g, func(in ssa.Instruction) {
			ci, ok := in.(ssa.CallInstruction)
			if !ok {
				return
			}
			hit := false
			for _, cal := range e.c.P.Callees(ci) {
				if cal == f {
					hit = true
				}
			}
			if !hit {
				return
			}
			n++
			cc := ci.Common()
			idx := prm
			if cc.IsInvoke() {
				idx = prm - 1
			}
			if idx < 0 || idx >= len(cc.Args) {
				missing = append(missing, "call site "+e.c.P.ipos(in)+": parameter not found")
				return
			}
			a := cc.Args[idx]
			ok2 := e.nonNegative(a)
			if !ok2 {
				// own parameter (+ constant) of a same-named method: induction hypothesis
				base := a
				if bo, isBo := a.(*ssa.BinOp); isBo && bo.Op == token.ADD {
					if k, isK := intConst(bo.Y); isK && k >= 0 {
						base = bo.X
					}
				}
				if p, isP := base.(*ssa.Parameter); isP && p.Parent().Name() == f.Name() {
					ok2 = true
				}
			}
			if !ok2 {
				missing = append(missing, "call site "+e.c.P.ipos(in)+" in "+shortName(g)+" passes "+e.c.Sx().Of(a).String())
			}
		})
	}
	if n == 0 {
		missing = append(missing, "no call site of "+shortName(f)+" in the closure")
	}
	return missing
}

// factMatches: a requirement is "<substring>=><true|false>" (or just a substring): some guard fact
// contains the substring and has that polarity.
func factMatches(facts []guardFact, rq string) bool {
	frag, pol := rq, ""
	if i := strings.LastIndex(rq, "=>"); i >= 0 {
		frag, pol = rq[:i], rq[i+2:]
	}
	for _, f := range facts {
		for _, fs := range []string{f.str, flipCmpFact(f.str)} {
			if fs == "" || !strings.Contains(fs, frag) {
				continue
			}
			if pol == "" || strings.HasSuffix(fs, "="+pol) {
				return true
			}
		}
	}
	return false
}

// flipCmpFact: the same fact written from the other side: bin[<](A,B)=true ≡ bin[<=](B,A)=false and
// bin[<=](A,B)=true ≡ bin[<](B,A)=false (and the two with the polarities exchanged); "" when not a comparison
func flipCmpFact(s string) string {
	var op, other string
	switch {
	case strings.HasPrefix(s, "bin[<]("):
		op, other = "bin[<](", "bin[<=]("
	case strings.HasPrefix(s, "bin[<=]("):
		op, other = "bin[<=](", "bin[<]("
	default:
		return ""
	}
	i := strings.LastIndex(s, ")=")
	if i < 0 {
		return ""
	}
	body, pol := s[len(op):i], s[i+2:]
	j := splitTop(body, ",")
	if j < 0 {
		return ""
	}
	np := "true"
	if pol == "true" {
		np = "false"
	} else if pol != "false" {
		return ""
	}
	return other + body[j+1:] + "," + body[:j] + ")=" + np
}

// callersMissing: call sites of f (in the closure) not dominated by any of the facts
func (e *e4Engine) callersMissing(f *ssa.Function, any []string) []string {
	return e.callersMissingD(f, any, 0)
}

func (e *e4Engine) callersMissingD(f *ssa.Function, any []string, depth int) []string {
	var missing []string
	n := 0
	for _, g := range e.funcs {
		allInstrs(g, func(in ssa.Instruction) {
			ci, ok := in.(ssa.CallInstruction)
			if !ok {
				return
			}
			hit := false
			for _, cal := range e.c.P.Callees(ci) {
				if cal == f {
					hit = true
				}
			}
			if !hit {
				return
			}
			n++
			okc := false
			for _, a := range any {
				if factMatches(e.gc.of(in.Block()), a) {
					okc = true
				}
			}
			if !okc && depth < 3 && len(g.Params) > 0 && len(ci.Common().Args) > 0 && ci.Common().Args[0] == ssa.Value(g.Params[0]) {
				// pass-through wrapper (same receiver handed on): the obligation moves to its callers
				if sub := e.callersMissingD(g, any, depth+1); len(sub) == 0 {
					okc = true
				} else {
					missing = append(missing, sub...)
					return
				}
			}
			if !okc {
				missing = append(missing, "call site "+e.c.P.ipos(in)+" in "+shortName(g)+" lacks {"+strings.Join(any, " | ")+"}")
			}
		})
	}
	if n == 0 {
		missing = append(missing, "no call site of "+shortName(f)+" found in the closure")
	}
	return missing
}

func (e *e4Engine) run(funcs []*ssa.Function) *e4Result {
	e.funcs = funcs
	res := &e4Result{funcs: funcs}
	for _, f := range funcs {
		if inUio(f) {
			if n := recvNamed(f); lookupModel(f) != nil || (n != nil && (n.Obj().Name() == "Lexer" || n.Obj().Name() == "Buffer")) {
				continue // Lexer ADT methods are covered by the model's contract (sizes are checked at their call sites)
			}
		}
		e.fn(f, res)
	}
	return res
}

func (e *e4Engine) fn(f *ssa.Function, res *e4Result) {
	_ = 0
	ord := map[string]int{}
	for _, b := range f.Blocks {
		for _, in := range b.Instrs {
			switch x := in.(type) {
			case *ssa.IndexAddr:
				res.nBounds++
				e.bounds(x, x.X, x.Index, nil, nil, "index", shortDesc(x.X, 4)+"["+shortDesc(x.Index, 3)+"]", ord)
			case *ssa.Index:
				if _, isMap := x.X.Type().Underlying().(*types.Map); isMap {
					continue
				}
				res.nBounds++
				e.bounds(x, x.X, x.Index, nil, nil, "index", shortDesc(x.X, 4)+"["+shortDesc(x.Index, 3)+"]", ord)
			case *ssa.Slice:
				res.nBounds++
				e.bounds(x, x.X, nil, x.Low, x.High, "slice", shortDesc(x.X, 4)+"["+shortDesc(x.Low, 3)+":"+shortDesc(x.High, 3)+"]", ord)
			case *ssa.SliceToArrayPointer:
				res.nBounds++
				key := e.descr(in, "slice-to-array", shortDesc(x.X, 4), ord)
				// a dominating guard that fixes (or bounds from below) the slice's length by the array's
				if pt, ok := x.Type().Underlying().(*types.Pointer); ok {
					if at, ok := pt.Elem().Underlying().(*types.Array); ok {
						lo, _ := e.gc.lenBounds(in.Block(), func(v ssa.Value) bool {
							cl, ok := v.(*ssa.Call)
							return ok && isBuiltinCall(cl.Common(), "len") && cl.Call.Args[0] == x.X
						})
						if lo >= at.Len() {
							e.close(in, key, "D2 dominating guard len(x) >= array length", fmt.Sprintf("len >= %d", lo), false)
							continue
						}
					}
				}
				e.open(in, key, "conversion of a slice to an array pointer panics when the slice is shorter")
			case *ssa.TypeAssert:
				if x.CommaOk {
					continue
				}
				res.nAssert++
				e.assert(x, ord)
			case *ssa.Panic:
				res.nPanic++
				e.explicitPanic(x, ord)
			case *ssa.BinOp:
				if x.Op == token.QUO || x.Op == token.REM {
					if bt, ok := x.Type().Underlying().(*types.Basic); ok && bt.Info()&types.IsInteger != 0 {
						res.nDiv++
						key := e.descr(in, "division", shortDesc(x, 3), ord)
						if k, ok := intConst(x.Y); ok && k != 0 {
							e.close(in, key, "D6 non-zero constant divisor", "", true)
						} else {
							e.open(in, key, "integer division by a value not known to be non-zero")
						}
					}
				}
			case *ssa.MakeSlice:
				res.nSize++
				key := e.descr(in, "make", shortDesc(x.Len, 3), ord)
				if e.nonNegative(x.Len) && e.nonNegative(x.Cap) {
					e.close(in, key, "D5 size is a constant, a len or converted from an unsigned type", "", true)
				} else if pr := e.prover(); pr.lower(x.Len, pr.factsAt(b), 0) >= 0 && pr.lower(x.Cap, pr.factsAt(b), 0) >= 0 {
					e.close(in, key, "D10 relational: size ≥ 0", "", false)
				} else {
					e.open(in, key, "make with a size that may be negative")
				}
			case *ssa.MapUpdate:
				res.nNilMap++
				key := e.descr(in, "map store", shortDesc(x.Map, 4), ord)
				if e.mapNonNil(x.Map, b) {
					e.close(in, key, "map value is a fresh make or guarded non-nil", "", true)
				} else {
					e.open(in, key, "store into a map that may be nil")
				}
			case *ssa.Call:
				e.callSizes(x, ord, res)
			}
		}
	}
}

func (e *e4Engine) nonNegative(v ssa.Value) bool {
	if v == nil {
		return true
	}
	// φ cycles (two loop-carried values feeding each other) must not recurse without bound
	if e.nnDepth > 24 {
		return false
	}
	e.nnDepth++
	defer func() { e.nnDepth-- }()
	switch x := v.(type) {
	case *ssa.Const:
		k, ok := intConst(x)
		return ok && k >= 0
	case *ssa.Call:
		if isBuiltinCall(x.Common(), "len") || isBuiltinCall(x.Common(), "cap") || isBuiltinCall(x.Common(), "min") && false {
			return true
		}
		if f := x.Call.StaticCallee(); f != nil {
			k := funcKey(f)
			if strings.HasSuffix(k, "uio.Buffer).Len") || strings.HasSuffix(k, "uio.Buffer).Cap") {
				return true
			}
		}
	case *ssa.Convert:
		if bt, ok := x.X.Type().Underlying().(*types.Basic); ok && bt.Info()&types.IsUnsigned != 0 {
			// widening from an unsigned type of smaller size
			if tt, ok := x.Type().Underlying().(*types.Basic); ok && sizeofBasic(bt) < sizeofBasic(tt) {
				return true
			}
		}
		if bt, ok := x.X.Type().Underlying().(*types.Basic); ok && bt.Info()&types.IsInteger != 0 {
			return e.nonNegative(x.X) && sizeofBasic(bt) <= sizeofBasic(x.Type().Underlying().(*types.Basic))
		}
	case *ssa.BinOp:
		switch x.Op {
		case token.ADD, token.MUL:
			return e.nonNegative(x.X) && e.nonNegative(x.Y) // modulo overflow of int: sizes here are < 2^17
		case token.QUO, token.REM, token.SHR, token.AND:
			return e.nonNegative(x.X) && e.nonNegative(x.Y)
		}
	case *ssa.Phi:
		for _, ed := range x.Edges {
			if ed == v {
				continue
			}
			if ph, ok := ed.(*ssa.Phi); ok && ph == x {
				continue
			}
			if !e.nonNegativeNoPhi(ed, x) {
				return false
			}
		}
		return true
	}
	return false
}

func (e *e4Engine) nonNegativeNoPhi(v ssa.Value, stop *ssa.Phi) bool {
	if bo, ok := v.(*ssa.BinOp); ok && bo.Op == token.ADD {
		// i+1 style loop counters
		l := bo.X == ssa.Value(stop) || e.nonNegative(bo.X)
		r := bo.Y == ssa.Value(stop) || e.nonNegative(bo.Y)
		return l && r
	}
	if _, ok := v.(*ssa.Phi); ok {
		return false
	}
	return e.nonNegative(v)
}

func sizeofBasic(b *types.Basic) int {
	switch b.Kind() {
	case types.Int8, types.Uint8:
		return 1
	case types.Int16, types.Uint16:
		return 2
	case types.Int32, types.Uint32:
		return 4
	case types.Int64, types.Uint64:
		return 8
	case types.Int, types.Uint, types.Uintptr:
		return 4 // conservative: 32-bit targets are in the thorough tier
	}
	return 8
}

func (e *e4Engine) mapNonNil(m ssa.Value, b *ssa.BasicBlock) bool {
	switch x := m.(type) {
	case *ssa.MakeMap:
		return true
	case *ssa.Phi:
		for _, ed := range x.Edges {
			if !e.mapNonNil(ed, b) {
				return false
			}
		}
		return true
	}
	// guarded by m != nil
	for _, f := range e.gc.of(b) {
		if bo, ok := f.cond.(*ssa.BinOp); ok {
			isNil := func(v ssa.Value) bool { k, ok := v.(*ssa.Const); return ok && k.Value == nil }
			sameM := func(v ssa.Value) bool { return e.c.Sx().Of(v).String() == e.c.Sx().Of(m).String() }
			if (sameM(bo.X) && isNil(bo.Y)) || (sameM(bo.Y) && isNil(bo.X)) {
				if (bo.Op == token.NEQ && f.pol) || (bo.Op == token.EQL && !f.pol) {
					return true
				}
			}
		}
	}
	return false
}

// ---------------------------------------------------------------------------
// bounds

func (e *e4Engine) bounds(in ssa.Instruction, x ssa.Value, idx, lo, hi ssa.Value, kind, body string, ord map[string]int) {
	key := e.descr(in, kind, body, ord)
	pos := e.c.P.ipos(in)
	// D2: whole slice
	if kind == "slice" && lo == nil && hi == nil {
		e.close(in, key, "D2 x[:]", "", true)
		return
	}
	// array length, if x is an array / pointer to array
	alen := int64(-1)
	t := x.Type().Underlying()
	if p, ok := t.(*types.Pointer); ok {
		t = p.Elem().Underlying()
	}
	if a, ok := t.(*types.Array); ok {
		alen = a.Len()
	}
	if alen >= 0 {
		if kind == "index" {
			if k, ok := intConst(idx); ok && k >= 0 && k < alen {
				e.close(in, key, "D1 constant index into fixed array", "", true)
				return
			}
		} else {
			l, h := int64(0), alen
			okc := true
			if lo != nil {
				if k, ok := intConst(lo); ok {
					l = k
				} else {
					okc = false
				}
			}
			if hi != nil {
				if k, ok := intConst(hi); ok {
					h = k
				} else {
					okc = false
				}
			}
			if okc && 0 <= l && l <= h && h <= alen {
				e.close(in, key, "D1 constant bounds within fixed array", "", true)
				return
			}
		}
	}
	// D0: the compiler proved it
	if in.Pos().IsValid() && pos != "-" && !strings.HasPrefix(pos, "/") {
		if !e.bce.unproven[pos] {
			e.close(in, key, "D0 compiler prove pass eliminated the bounds check", "", false)
			return
		}
	} else if in.Pos().IsValid() && strings.HasPrefix(pos, "/") {
		// uio source: absolute path in compiler output as well
		if !e.bce.unproven[pos] {
			e.close(in, key, "D0 compiler prove pass eliminated the bounds check", "", false)
			return
		}
	}
	// D4: dominating guard on len(x)
	sx := e.c.Sx()
	xs := sx.Of(x).String()
	isLenOf := func(v ssa.Value) bool {
		s := sx.Of(v).String()
		return s == "len("+xs+")" || s == "conv[int](len("+xs+"))"
	}
	minLen, _ := e.gc.lenBounds(in.Block(), isLenOf)
	if alen > minLen {
		minLen = alen
	}
	if kind == "index" {
		if k, ok := intConst(idx); ok && k >= 0 && k < minLen {
			e.close(in, key, fmt.Sprintf("D4 dominating guard implies len >= %d", minLen), "", false)
			return
		}
		// i < len(x) guard on the same i
		is := sx.Of(idx).String()
		for _, f := range e.gc.of(in.Block()) {
			if f.str == "bin[<]("+is+",len("+xs+"))=true" || f.str == "bin[<=](len("+xs+"),"+is+")=false" {
				if e.nonNegative(idx) {
					e.close(in, key, "D4 dominating guard i < len(x)", "", false)
					return
				}
			}
		}
	} else {
		l, h := int64(0), int64(-1)
		okc := true
		if lo != nil {
			if k, ok := intConst(lo); ok {
				l = k
			} else {
				okc = false
			}
		}
		if hi != nil {
			if k, ok := intConst(hi); ok {
				h = k
			} else {
				okc = false
			}
		}
		if okc {
			if h < 0 {
				h = l // x[l:] needs l <= len
			}
			if 0 <= l && l <= h && h <= minLen {
				e.close(in, key, fmt.Sprintf("D4 dominating guard implies len >= %d", minLen), "", false)
				return
			}
		}
	}
	// D12: io contract — x[:n] where n is the count returned by Read/ReadFrom into the same x (0 <= n <= len(x))
	if kind == "slice" && lo == nil && hi != nil {
		if ex, ok := hi.(*ssa.Extract); ok && ex.Index == 0 {
			if cl, ok := ex.Tuple.(*ssa.Call); ok {
				cc := cl.Common()
				name := ""
				var buf ssa.Value
				if cc.IsInvoke() {
					name = cc.Method.Name()
					if len(cc.Args) > 0 {
						buf = cc.Args[0]
					}
				} else if f := cc.StaticCallee(); f != nil && f.Signature.Recv() != nil && !inModule(f) && len(cc.Args) > 1 {
					name = f.Name()
					buf = cc.Args[1]
				}
				if (name == "Read" || name == "ReadFrom") && buf != nil && (buf == x || sx.Of(buf).String() == xs) {
					if bt, ok := buf.Type().Underlying().(*types.Slice); ok {
						if eb, ok := bt.Elem().Underlying().(*types.Basic); ok && eb.Kind() == types.Uint8 {
							e.close(in, key, "D12 io contract: count returned by "+name+" into the same buffer", "", false)
							return
						}
					}
				}
			}
		}
	}
	// D10: relational prover
	pr := e.prover()
	if kind == "index" {
		if by, ok := pr.proveIndex(in, x, idx); ok {
			e.close(in, key, by, "", false)
			return
		}
		if by, ok := pr.proveRegexpSubmatch(in, x, idx); ok {
			e.close(in, key, by, "", false)
			return
		}
		if by, ok := pr.proveRegexpNames(in, x, idx); ok {
			e.close(in, key, by, "", false)
			return
		}
		if by, ok := pr.proveSearchIndex(in, x, idx); ok {
			e.close(in, key, by, "", false)
			return
		}
		if by, ok := pr.proveSortLess(in, x, idx); ok {
			e.close(in, key, by, "", false)
			return
		}
		if by, ok := pr.proveSplitIndex(in, x, idx); ok {
			e.close(in, key, by, "", false)
			return
		}
	} else {
		if by, ok := pr.proveSlice(in, x, lo, hi); ok {
			e.close(in, key, by, "", false)
			return
		}
	}
	e.open(in, key, "bounds check not eliminated by the compiler and not implied by a recognised dominating guard (facts: "+e.factsStr(in.Block())+")")
}

func (e *e4Engine) factsStr(b *ssa.BasicBlock) string {
	var s []string
	for _, f := range e.gc.of(b) {
		s = append(s, f.str)
	}
	sort.Strings(s)
	if len(s) > 8 {
		s = append(s[:8], "…")
	}
	return strings.Join(s, " ∧ ")
}

// ---------------------------------------------------------------------------
// type assertions

func (e *e4Engine) assert(x *ssa.TypeAssert, ord map[string]int) {
	_ = 0
	key := e.descr(x, "assert", shortDesc(x.X, 4)+".("+types.TypeString(x.AssertedType, shortQual)+")", ord)
	// type switch: SSA emits comma-ok asserts for those; a single-value assert in a typeswitch clause body
	// D7a: dominated by a comma-ok / type-switch test of the same value to the same type
	for _, f := range e.gc.of(x.Block()) {
		if ex, ok := f.cond.(*ssa.Extract); ok && ex.Index == 1 && f.pol {
			if ta, ok := ex.Tuple.(*ssa.TypeAssert); ok && ta.CommaOk && ta.X == x.X && types.Identical(ta.AssertedType, x.AssertedType) {
				e.close(x, key, "D7 dominated by a comma-ok test of the same value", "", false)
				return
			}
		}
		// IsRelay()/IsRelay-like guards: call of IsRelay on the same value
		if cl, ok := f.cond.(*ssa.Call); ok && cl.Call.IsInvoke() && cl.Call.Method.Name() == "IsRelay" && cl.Call.Value == x.X {
			want := "RelayMessage"
			if !f.pol {
				want = "Message"
			}
			if namedIs(x.AssertedType, modPath+"/dhcpv6", want) && e.isRelayTableOK() {
				e.close(x, key, "D7 dominated by IsRelay() on the same value (IsRelay table checked)", "", false)
				return
			}
		}
	}
	// D7b: accessor table: operand is GetOne(K)/Get(K)[i] on an option list filled by ParseOption and table[K] is the asserted type
	if why, ok := e.assertByParserTable(x); ok {
		// a lookup of ONE option yields nil when the option is absent, and asserting a nil interface panics: the table
		// settles the dynamic type only; the value must also be non-nil on every path to the assertion
		if cl, isCall := x.X.(*ssa.Call); isCall && !nilFreeOnAllPaths(x.Parent(), cl, x.Block()) {
			e.open(x, key, "single-value type assertion on the result of a one-option lookup that can be nil on a path to this point (the option may be absent): asserting a nil interface panics")
			return
		}
		e.close(x, key, "D7 "+why, "", false)
		return
	}
	e.open(x, key, "single-value type assertion on a value whose dynamic type is not established on this path")
}

// nilFreeOnAllPaths: no path from f's entry to block `at` is consistent with v == nil. The nil tests of one-option
// lookups in f are the atoms; for every assignment of them with v == nil, the CFG is walked taking the assigned edge at a
// test of an atom and both edges elsewhere. (`if a == nil && b == nil { return }; if b != nil {…} else { a.(*T) }` is
// nil-free: with a == nil the else branch needs b == nil, which the first test excludes.)
func nilFreeOnAllPaths(f *ssa.Function, v ssa.Value, at *ssa.BasicBlock) bool {
	var atoms []ssa.Value
	idx := map[ssa.Value]int{}
	addAtom := func(u ssa.Value) {
		if _, ok := idx[u]; !ok {
			idx[u] = len(atoms)
			atoms = append(atoms, u)
		}
	}
	addAtom(v)
	// nilSubject: cond is `u == nil` / `u != nil` → (u, true when the condition being true means u == nil)
	nilSubject := func(cond ssa.Value) (ssa.Value, bool, bool) {
		inner, same := unwrapBool(cond)
		bo, ok := inner.(*ssa.BinOp)
		if !ok || (bo.Op != token.EQL && bo.Op != token.NEQ) {
			return nil, false, false
		}
		var u ssa.Value
		if isNilConst(bo.Y) {
			u = bo.X
		} else if isNilConst(bo.X) {
			u = bo.Y
		} else {
			return nil, false, false
		}
		isNilWhenTrue := bo.Op == token.EQL
		if !same {
			isNilWhenTrue = !isNilWhenTrue
		}
		return u, isNilWhenTrue, true
	}
	for _, b := range f.Blocks {
		if iff := ifOf(b); iff != nil {
			if u, _, ok := nilSubject(iff.Cond); ok {
				if _, isCall := u.(*ssa.Call); isCall {
					addAtom(u)
				}
			}
		}
	}
	if len(atoms) > 8 {
		return false
	}
	for mask := 0; mask < 1<<len(atoms); mask++ {
		if mask&1 == 0 {
			continue // v (atom 0) must be nil in the assignments of interest
		}
		seen := map[*ssa.BasicBlock]bool{}
		var walk func(b *ssa.BasicBlock) bool
		walk = func(b *ssa.BasicBlock) bool {
			if b == at {
				return true
			}
			if seen[b] {
				return false
			}
			seen[b] = true
			if iff := ifOf(b); iff != nil && len(b.Succs) == 2 {
				if u, nilWhenTrue, ok := nilSubject(iff.Cond); ok {
					if i, isAtom := idx[u]; isAtom {
						isNil := mask&(1<<i) != 0
						if isNil == nilWhenTrue {
							return walk(b.Succs[0])
						}
						return walk(b.Succs[1])
					}
				}
			}
			for _, s := range b.Succs {
				if walk(s) {
					return true
				}
			}
			return false
		}
		if walk(f.Blocks[0]) {
			return false
		}
	}
	return true
}

// isRelayTableOK: (*Message).IsRelay returns false and (*RelayMessage).IsRelay returns true, and they are the
// only implementations of dhcpv6.DHCPv6.
func (e *e4Engine) isRelayTableOK() bool {
	okM, okR, n := false, false, 0
	for _, f := range e.c.P.MethodsNamed("IsRelay") {
		n++
		rets := returnsOf(f)
		if len(rets) != 1 {
			return false
		}
		k, ok := rets[0].Results[0].(*ssa.Const)
		if !ok {
			return false
		}
		v := constant.BoolVal(k.Value)
		switch recvNamed(f).Obj().Name() {
		case "Message":
			okM = !v
		case "RelayMessage":
			okR = v
		default:
			return false
		}
	}
	return okM && okR && n == 2
}

// parserTable: option code constant -> concrete type allocated by ParseOption for that code
func (e *e4Engine) parserTable() map[int64]types.Type {
	f := e.c.P.Func(modPath + "/dhcpv6.ParseOption")
	tab := map[int64]types.Type{}
	if f == nil {
		return tab
	}
	tab, _ = resolveSwitchTable(f, f.Params[0])
	return tab
}

var parserTabCache = map[*Prog]map[int64]types.Type{}

func (e *e4Engine) assertByParserTable(x *ssa.TypeAssert) (string, bool) {
	if parserTabCache[e.c.P] == nil {
		parserTabCache[e.c.P] = e.parserTable()
	}
	// operand: call GetOne(code) on Options-like receiver, or element of Get(code)
	v := x.X
	var call *ssa.Call
	switch y := v.(type) {
	case *ssa.Call:
		call = y
	case *ssa.UnOp:
		// *(&slice[i]) where slice = Get(code)
		if ia, ok := y.X.(*ssa.IndexAddr); ok {
			if c2, ok := ia.X.(*ssa.Call); ok {
				call = c2
			}
		}
	case *ssa.Extract:
		// range over Get(code): next → extract
	}
	if call == nil {
		// value from ranging over Get(code)
		if ex, ok := v.(*ssa.Extract); ok {
			if nx, ok := ex.Tuple.(*ssa.Next); ok {
				if rg, ok := nx.Iter.(*ssa.Range); ok {
					if c2, ok := rg.X.(*ssa.Call); ok {
						call = c2
					}
				}
			}
		}
		if u, ok := v.(*ssa.UnOp); ok {
			if ia, ok := u.X.(*ssa.IndexAddr); ok {
				if c2, ok := ia.X.(*ssa.Call); ok {
					call = c2
				}
			}
		}
	}
	if call == nil {
		return "", false
	}
	f := call.Call.StaticCallee()
	var codeArg ssa.Value
	fname := ""
	if f == nil && call.Call.IsInvoke() && isInvokeOf(call.Common(), modPath+"/dhcpv6", "DHCPv6", "GetOneOption") && len(call.Call.Args) == 1 {
		// both implementations delegate to Options.GetOne on their parsed option list (checked below)
		if !e.getOneOptionDelegates() {
			return "", false
		}
		codeArg, fname = call.Call.Args[0], "GetOneOption"
	} else {
		if f == nil || (f.Name() != "GetOne" && f.Name() != "Get") || len(call.Call.Args) != 2 {
			return "", false
		}
		n := recvNamed(f)
		if n == nil || n.Obj().Name() != "Options" || n.Obj().Pkg().Path() != modPath+"/dhcpv6" {
			return "", false
		}
		codeArg, fname = call.Call.Args[1], f.Name()
	}
	k, ok := intConst(codeArg)
	if !ok {
		return "", false
	}
	t, ok := parserTabCache[e.c.P][k]
	if !ok {
		return "", false
	}
	if !types.Identical(t, x.AssertedType) {
		return "", false
	}
	// the list must be one filled by ParseOption: receiver is a field of a wrapper list type (MessageOptions,
	// RelayOptions, IdentityOptions, PDOptions, AddressOptions, PrefixOptions, FourRDOptions) — all of which
	// are decoded through Options.FromBytes (C02/C05 check the decoders); a list built by the user with a
	// mismatching Code() is outside C03's quantifier (decoded values).
	return fmt.Sprintf("%s(%d) on a parsed option list and ParseOption allocates %s for code %d", fname, k, types.TypeString(t, shortQual), k), true
}

// getOneOptionDelegates: every GetOneOption method of the module returns Options.GetOne(code) of its own list
func (e *e4Engine) getOneOptionDelegates() bool {
	n := 0
	for _, f := range e.c.P.MethodsNamed("GetOneOption") {
		if pkgPathOf(f) != modPath+"/dhcpv6" {
			continue
		}
		n++
		rets := returnsOf(f)
		if len(rets) != 1 {
			return false
		}
		cl, ok := rets[0].Results[0].(*ssa.Call)
		if !ok || cl.Call.StaticCallee() == nil || cl.Call.StaticCallee().Name() != "GetOne" || len(cl.Call.Args) != 2 || cl.Call.Args[1] != ssa.Value(f.Params[1]) {
			return false
		}
	}
	return n >= 2
}

// ---------------------------------------------------------------------------

func (e *e4Engine) explicitPanic(x *ssa.Panic, ord map[string]int) {
	_ = 0
	// compiler-generated: unreachable default of a blocking select
	if mi, ok := x.X.(*ssa.MakeInterface); ok {
		if k, ok := mi.X.(*ssa.Const); ok && k.Value != nil && strings.Contains(k.Value.String(), "blocking select matched no case") {
			return
		}
	}
	key := e.descr(x, "panic", shortDesc(x.X, 3), ord)
	e.open(x, key, "explicit panic reachable in the closure")
}

// callSizes: calls whose size operand must be non-negative (Lexer.Consume/CopyN/Append/WriteN,
// strings.Repeat, bytes.Repeat) and calls of external functions with a panicsUnless contract.
func (e *e4Engine) callSizes(x *ssa.Call, ord map[string]int, res *e4Result) {
	f := x.Call.StaticCallee()
	if f == nil {
		return
	}
	k := funcKey(f)
	_ = 0
	sizeArg := -1
	switch {
	case strings.HasSuffix(k, "uio.Lexer).Consume"), strings.HasSuffix(k, "uio.Lexer).CopyN"), strings.HasSuffix(k, "uio.Lexer).Append"),
		strings.HasSuffix(k, "uio.Buffer).ReadN"), strings.HasSuffix(k, "uio.Buffer).WriteN"), strings.HasSuffix(k, "uio.Lexer).Align"):
		sizeArg = 1
	case k == "strings.Repeat", k == "bytes.Repeat":
		sizeArg = 1
	}
	if sizeArg >= 0 && sizeArg < len(x.Call.Args) {
		res.nSize++
		key := e.descr(x, "size", shortName(f)+"("+shortDesc(x.Call.Args[sizeArg], 4)+")", ord)
		if e.nonNegative(x.Call.Args[sizeArg]) {
			e.close(x, key, "D5 size is a constant, a len or converted from an unsigned type", "", false)
		} else if e.guardedNonNeg(x.Call.Args[sizeArg], x.Block()) {
			e.close(x, key, "D4 dominating guard implies size >= 0", "", false)
		} else if pr := e.prover(); pr.lower(x.Call.Args[sizeArg], pr.factsAt(x.Block()), 0) >= 0 {
			e.close(x, key, "D10 relational: size ≥ 0", "", false)
		} else {
			e.open(x, key, "size operand may be negative: "+shortName(f)+" panics on a negative count (slice bounds out of range)")
		}
	}
	// byte-order helpers need len >= width
	width := 0
	switch {
	case strings.HasSuffix(k, "ndian).Uint16"), strings.HasSuffix(k, "ndian).PutUint16"):
		width = 2
	case strings.HasSuffix(k, "ndian).Uint32"), strings.HasSuffix(k, "ndian).PutUint32"):
		width = 4
	case strings.HasSuffix(k, "ndian).Uint64"), strings.HasSuffix(k, "ndian).PutUint64"):
		width = 8
	}
	if width > 0 && len(x.Call.Args) >= 2 {
		res.nBounds++
		arg := x.Call.Args[1]
		key := e.descr(x, "byteorder", f.Name()+"("+shortDesc(arg, 4)+")", ord)
		if e.minLenOf(arg, x.Block()) >= int64(width) {
			e.close(x, key, fmt.Sprintf("operand has at least %d bytes", width), "", false)
		} else {
			e.open(x, key, fmt.Sprintf("%s needs %d bytes; operand length not established", f.Name(), width))
		}
	}
}

// guardedNonNeg: a dominating comparison shows v >= 0 (v >= c, v > c with c >= -1 …) or v == len-derived
func (e *e4Engine) guardedNonNeg(v ssa.Value, b *ssa.BasicBlock) bool {
	if bo, ok := v.(*ssa.BinOp); ok && bo.Op == token.SUB {
		if c, ok := intConst(bo.Y); ok && c >= 0 {
			// a - c >= 0 when a guard shows a >= c
			as := e.c.Sx().Of(bo.X).String()
			for _, f := range e.gc.of(b) {
				cb, ok := f.cond.(*ssa.BinOp)
				if !ok {
					continue
				}
				xs, ys := e.c.Sx().Of(cb.X).String(), e.c.Sx().Of(cb.Y).String()
				if xs == as {
					if k, ok := intConst(cb.Y); ok {
						if (cb.Op == token.LSS && !f.pol && k >= c) || (cb.Op == token.GEQ && f.pol && k >= c) || (cb.Op == token.GTR && f.pol && k+1 >= c) || (cb.Op == token.LEQ && !f.pol && k+1 >= c) {
							return true
						}
					}
				}
				if ys == as {
					if k, ok := intConst(cb.X); ok {
						// k op a
						if (cb.Op == token.GTR && !f.pol && k >= c) || (cb.Op == token.LEQ && f.pol && k >= c) || (cb.Op == token.LSS && f.pol && k+1 >= c) || (cb.Op == token.GEQ && !f.pol && k+1 >= c) {
							return true
						}
					}
				}
			}
		}
	}
	vs := e.c.Sx().Of(v).String()
	for _, f := range e.gc.of(b) {
		bo, ok := f.cond.(*ssa.BinOp)
		if !ok {
			continue
		}
		xs, ys := e.c.Sx().Of(bo.X).String(), e.c.Sx().Of(bo.Y).String()
		op := bo.Op
		var k int64
		var okk bool
		if xs == vs {
			k, okk = intConst(bo.Y)
		} else if ys == vs {
			k, okk = intConst(bo.X)
			switch op {
			case token.LSS:
				op = token.GTR
			case token.LEQ:
				op = token.GEQ
			case token.GTR:
				op = token.LSS
			case token.GEQ:
				op = token.LEQ
			}
		}
		if !okk {
			continue
		}
		if !f.pol {
			switch op {
			case token.LSS:
				op = token.GEQ
			case token.LEQ:
				op = token.GTR
			case token.GTR:
				op = token.LEQ
			case token.GEQ:
				op = token.LSS
			default:
				continue
			}
		}
		if (op == token.GEQ && k >= 0) || (op == token.GTR && k >= -1) {
			return true
		}
	}
	return false
}

// minLenOf: a lower bound on len(v) from its construction or from guards
func (e *e4Engine) minLenOf(v ssa.Value, b *ssa.BasicBlock) int64 {
	sx := e.c.Sx()
	switch x := v.(type) {
	case *ssa.Slice:
		// arr[l:h] with constants
		t := x.X.Type().Underlying()
		if p, ok := t.(*types.Pointer); ok {
			t = p.Elem().Underlying()
		}
		l, h := int64(0), int64(-1)
		if a, ok := t.(*types.Array); ok {
			h = a.Len()
		}
		if x.Low != nil {
			if k, ok := intConst(x.Low); ok {
				l = k
			} else {
				return 0
			}
		}
		if x.High != nil {
			if k, ok := intConst(x.High); ok {
				h = k
			} else {
				return 0
			}
		}
		if h >= 0 {
			return h - l
		}
		if x.High == nil {
			base := e.minLenOf(x.X, b)
			return base - l
		}
	case *ssa.MakeSlice:
		if k, ok := intConst(x.Len); ok {
			return k
		}
	case *ssa.Call:
		if f := x.Call.StaticCallee(); f != nil {
			fk := funcKey(f)
			if strings.HasSuffix(fk, "uio.Lexer).Append") || strings.HasSuffix(fk, "uio.Buffer).WriteN") {
				if k, ok := intConst(x.Call.Args[1]); ok {
					return k
				}
			}
		}
	}
	xs := sx.Of(v).String()
	lo, _ := e.gc.lenBounds(b, func(y ssa.Value) bool { return sx.Of(y).String() == "len("+xs+")" })
	return lo
}

var _ = strconv.Itoa

// madeFieldsMissing: see ledgerEntry.MadeFields
func (e *e4Engine) madeFieldsMissing(req map[string][]string) []string {
	var missing []string
	for tn, fields := range req {
		n := 0
		for _, f := range e.c.P.ModuleFuncs() {
			if f.Blocks == nil || strings.HasSuffix(pkgPathOf(f), "_test") {
				continue
			}
			allInstrs(f, func(in ssa.Instruction) {
				al, ok := in.(*ssa.Alloc)
				if !ok {
					return
				}
				nt, ok := al.Type().(*types.Pointer).Elem().(*types.Named)
				if !ok || nt.Obj().Pkg() == nil || nt.Obj().Pkg().Name()+"."+nt.Obj().Name() != tn || !inModulePath(nt.Obj().Pkg().Path()) {
					return
				}
				n++
				st, _ := nt.Underlying().(*types.Struct)
				for _, fld := range fields {
					made := false
					for _, ref := range *al.Referrers() {
						fa, ok := ref.(*ssa.FieldAddr)
						if !ok || st == nil || st.Field(fa.Field).Name() != fld {
							continue
						}
						for _, r2 := range *fa.Referrers() {
							if s2, ok := r2.(*ssa.Store); ok && s2.Addr == ssa.Value(fa) {
								if _, isMake := s2.Val.(*ssa.MakeMap); isMake {
									made = true
								}
							}
						}
					}
					if !made {
						missing = append(missing, "allocation of "+tn+" at "+e.c.P.ipos(al)+" in "+shortName(f)+" does not make field "+fld)
					}
				}
			})
		}
		if n == 0 {
			missing = append(missing, "no allocation of "+tn+" found in the library")
		}
	}
	return missing
}

func inModulePath(p string) bool { return p == modPath || strings.HasPrefix(p, modPath+"/") }
