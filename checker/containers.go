package main

// Container contracts (shared clause, round 7): the access methods of the two option containers
// — dhcpv6.Options (a slice of Option) and dhcpv4.Options (a map keyed by the code number) — are what every
// typed accessor, builder, relay helper and matcher of the library is written on top of. The builders' recipes
// (E6) name them as calls; this file decides what the calls do, on all paths of each method:
//
//   v6  Get(code)      every element whose Code() equals code, in order, nothing else
//       GetOne(code)   the FIRST element whose Code() equals code, nil when none
//       Add(opt)       *o = append(*o, opt)                       (at the end: order of appearance, C02-K4)
//       Del(code)      keeps exactly the elements whose Code() differs, in order
//       Update(opt)    replaces the first element with opt's code in place and stops; appends when none
//       Message/RelayMessage .AddOption/.UpdateOption/.GetOption/.GetOneOption delegate with their own argument
//   v4  Get(code)      the map entry of code.Code()
//       Has(code)      the presence bit of that lookup
//       Del(code)      delete(o, code.Code())
//       (*DHCPv4).GetOneOption / DeleteOption delegate with their own argument
//
// The rules are evaluated on SSA: a scan loop is recognised by its induction (ascending from 0, step 1, bound
// len(collection)) in either the `range` or the index form; "under exactly the condition" is decided on the
// split graph (sgraph.go) with the comparison of an element's Code() with the key as the only atom looked at.
// An implementation in another idiom (in-place filtering, a helper doing the scan) is UNDECIDED.

import (
	"go/token"
	"go/types"
	"strings"

	"golang.org/x/tools/go/ssa"
)

const v6pkgPath = modPath + "/dhcpv6"

type scanLoop struct {
	hdr, body, done *ssa.BasicBlock
	coll            ssa.Value // the slice whose length bounds the loop
	idx             ssa.Value // the value elements are indexed with
	loop            map[*ssa.BasicBlock]bool
}

func natLoop(hdr *ssa.BasicBlock) map[*ssa.BasicBlock]bool {
	loop := map[*ssa.BasicBlock]bool{}
	for _, b := range hdr.Parent().Blocks {
		if hdr.Dominates(b) && (b == hdr || reachFrom(b, nil, nil)[hdr]) && reachFromSuccs(b, nil, nil)[hdr] {
			loop[b] = true
		}
	}
	return loop
}

func lenOperand(v ssa.Value) ssa.Value {
	if cl, ok := v.(*ssa.Call); ok && isBuiltinCall(cl.Common(), "len") && len(cl.Call.Args) == 1 {
		return cl.Call.Args[0]
	}
	return nil
}

// findScanLoops: loops `for idx := 0; idx < len(coll); idx++` of f in range or index form
func findScanLoops(f *ssa.Function) []*scanLoop {
	var out []*scanLoop
	for _, b := range f.Blocks {
		iff := ifOf(b)
		if iff == nil || !inCycle(b) {
			continue
		}
		bo, ok := iff.Cond.(*ssa.BinOp)
		if !ok {
			continue
		}
		var idx, bound ssa.Value
		switch bo.Op {
		case token.LSS:
			idx, bound = bo.X, bo.Y
		case token.GTR:
			idx, bound = bo.Y, bo.X
		default:
			continue
		}
		coll := lenOperand(bound)
		if coll == nil {
			continue
		}
		loop := natLoop(b)
		if !loop[b.Succs[0]] || loop[b.Succs[1]] {
			continue
		}
		// induction
		okInd := false
		if add, ok := idx.(*ssa.BinOp); ok && add.Op == token.ADD {
			// range form: idx = φ+1, φ = [-1 from outside, idx from inside]
			if ph, ok := add.X.(*ssa.Phi); ok && ph.Block() == b {
				if one, ok := intConst(add.Y); ok && one == 1 {
					okInd = true
					for i, e := range ph.Edges {
						if loop[b.Preds[i]] {
							okInd = okInd && e == ssa.Value(add)
						} else {
							k, ok := intConst(e)
							okInd = okInd && ok && k == -1
						}
					}
				}
			}
		} else if ph, ok := idx.(*ssa.Phi); ok && ph.Block() == b {
			// index form: φ = [0 from outside, φ+1 from inside]
			okInd = true
			for i, e := range ph.Edges {
				if loop[b.Preds[i]] {
					add, ok := e.(*ssa.BinOp)
					one := int64(0)
					if ok {
						one, _ = intConst(add.Y)
					}
					okInd = okInd && ok && add.Op == token.ADD && add.X == ssa.Value(ph) && one == 1
				} else {
					k, ok := intConst(e)
					okInd = okInd && ok && k == 0
				}
			}
		}
		if !okInd {
			continue
		}
		out = append(out, &scanLoop{hdr: b, body: b.Succs[0], done: b.Succs[1], coll: coll, idx: idx, loop: loop})
	}
	return out
}

// elems: loads of coll[idx] inside the loop (coll compared by canonical expression: a second load of *o is the same collection)
func (l *scanLoop) elems(sx *symxer) map[ssa.Value]bool {
	out := map[ssa.Value]bool{}
	cs := sx.Of(l.coll).String()
	for b := range l.loop {
		for _, in := range b.Instrs {
			u, ok := in.(*ssa.UnOp)
			if !ok || u.Op != token.MUL {
				continue
			}
			ia, ok := u.X.(*ssa.IndexAddr)
			if !ok || ia.Index != l.idx {
				continue
			}
			if ia.X == l.coll || sx.Of(ia.X).String() == cs {
				out[u] = true
			}
		}
	}
	return out
}

// sideExits: edges leaving the loop other than the header's own exit
func (l *scanLoop) sideExits() []Edge {
	var out []Edge
	for b := range l.loop {
		for _, s := range b.Succs {
			if !l.loop[s] && !(b == l.hdr && s == l.done) {
				out = append(out, Edge{b, s})
			}
		}
	}
	return out
}

// singleAppendElem: for `append(base, x)` returns (base, x)
func singleAppendElem(cl *ssa.Call) (ssa.Value, ssa.Value) {
	if !isBuiltinCall(cl.Common(), "append") || len(cl.Call.Args) != 2 {
		return nil, nil
	}
	sl, ok := cl.Call.Args[1].(*ssa.Slice)
	if !ok {
		return nil, nil
	}
	al, ok := sl.X.(*ssa.Alloc)
	if !ok || al.Comment != "varargs" {
		return nil, nil
	}
	if at, ok := al.Type().(*types.Pointer).Elem().Underlying().(*types.Array); !ok || at.Len() != 1 {
		return nil, nil
	}
	var val ssa.Value
	n := 0
	for _, ref := range *al.Referrers() {
		if ia, ok := ref.(*ssa.IndexAddr); ok {
			for _, r2 := range *ia.Referrers() {
				if st, ok := r2.(*ssa.Store); ok && st.Addr == ssa.Value(ia) {
					val = st.Val
					n++
				}
			}
		}
	}
	if n != 1 {
		return nil, nil
	}
	return cl.Call.Args[0], val
}

type ccMatcher struct {
	elems map[ssa.Value]bool
	isKey func(ssa.Value) bool
}

func isCodeInvoke(v ssa.Value) (ssa.Value, bool) {
	cl, ok := v.(*ssa.Call)
	if !ok || len(cl.Call.Args) != 0 {
		return nil, false
	}
	if cl.Call.IsInvoke() && cl.Call.Method.Name() == "Code" {
		return cl.Call.Value, true
	}
	return nil, false
}

// match: is atom a the comparison "Code() of a scanned element == key"; returns the truth value of "equal"
func (m *ccMatcher) match(a atomFact) (bool, bool) {
	bo, ok := a.v.(*ssa.BinOp)
	if !ok || (bo.Op != token.EQL && bo.Op != token.NEQ) {
		return false, false
	}
	side := func(x, y ssa.Value) bool {
		e, ok := isCodeInvoke(x)
		return ok && m.elems[e] && m.isKey(y)
	}
	if !side(bo.X, bo.Y) && !side(bo.Y, bo.X) {
		return false, false
	}
	return true, (bo.Op == token.EQL) == a.val
}

func (m *ccMatcher) pol(want bool) func([]atomFact) bool {
	return func(as []atomFact) bool {
		for _, a := range as {
			if is, eq := m.match(a); is && eq == want {
				return true
			}
		}
		return false
	}
}

func ccFind(c *Ctx, pkg, typ, name string) *ssa.Function {
	for _, g := range c.P.MethodsNamed(name) {
		if n := recvNamed(g); n != nil && n.Obj().Name() == typ && pkgPathOf(g) == pkg {
			return g
		}
	}
	return nil
}

// loadOfRecv: v is *recv (for a pointer receiver) or recv itself (value receiver)
func ccIsRecvColl(f *ssa.Function, v ssa.Value) bool {
	if v == ssa.Value(f.Params[0]) {
		return true
	}
	if u, ok := v.(*ssa.UnOp); ok && u.Op == token.MUL && u.X == ssa.Value(f.Params[0]) {
		return true
	}
	return false
}

func ccStoresToRecv(f *ssa.Function) []*ssa.Store {
	var out []*ssa.Store
	allInstrs(f, func(in ssa.Instruction) {
		if st, ok := in.(*ssa.Store); ok && st.Addr == ssa.Value(f.Params[0]) {
			out = append(out, st)
		}
	})
	return out
}

func dominatesAllReturns(f *ssa.Function, b *ssa.BasicBlock) bool {
	for _, rb := range returnBlocks(f) {
		if !(b == rb || b.Dominates(rb)) {
			return false
		}
	}
	return true
}

func isEmptyInit(v ssa.Value) bool {
	if isNilConst(v) {
		return true
	}
	if mk, ok := v.(*ssa.MakeSlice); ok {
		n, ok := intConst(mk.Len)
		return ok && n == 0
	}
	return false
}

// filterAccumulator: the φ at the loop header that starts empty and is extended only by append(φ, elem) of a scanned
// element; returns the φ and the appends
func (l *scanLoop) filterAccumulator(elems map[ssa.Value]bool) (*ssa.Phi, []*ssa.Call) {
	for _, in := range l.hdr.Instrs {
		ph, ok := in.(*ssa.Phi)
		if !ok {
			break
		}
		if _, ok := ph.Type().Underlying().(*types.Slice); !ok {
			continue
		}
		var apps []*ssa.Call
		good := true
		for i, e := range ph.Edges {
			if !l.loop[l.hdr.Preds[i]] {
				good = good && isEmptyInit(e)
				continue
			}
			if e == ssa.Value(ph) {
				continue
			}
			cl, ok := e.(*ssa.Call)
			if !ok {
				good = false
				continue
			}
			base, el := singleAppendElem(cl)
			if base != ssa.Value(ph) || !elems[el] {
				good = false
				continue
			}
			apps = append(apps, cl)
		}
		if good && len(apps) > 0 {
			return ph, apps
		}
	}
	return nil, nil
}

// ccFilter: the loop collects exactly the elements for which "Code()==key" has truth value `want`
func ccFilter(l *scanLoop, m *ccMatcher, apps []*ssa.Call, want bool) (bool, string) {
	if len(l.sideExits()) > 0 {
		return false, "the scan can stop before the end of the collection"
	}
	start := sNodeOf(l.hdr, l.body)
	blocked := map[*ssa.BasicBlock]bool{}
	for _, ap := range apps {
		if ap.Block() == l.body {
			return false, "an element is collected unconditionally"
		}
		if !mustPassAtomsFrom(start, ap.Block(), m.pol(want), map[*ssa.BasicBlock]bool{l.hdr: true}) {
			return false, "an element is collected on a path where the code comparison does not have the required outcome"
		}
		blocked[ap.Block()] = true
	}
	if !mustPassAtomsFrom(start, l.hdr, m.pol(!want), blocked) {
		return false, "an element with the required code comparison outcome can be skipped"
	}
	return true, ""
}

func containerRules(c *Ctx, rule string, fam string) {
	r, sx := c.R, c.Sx()
	n := 0
	v6on, v4on := strings.Contains(fam, "6"), strings.Contains(fam, "4")
	und := func(name, why string) { r.Undecided(rule, "container contract: "+name, "-", why) }
	key := func(name, s string) string { return "container contract: " + name + ": " + s }

	if v6on {
		// ---- v6 Get
		if f := ccFind(c, v6pkgPath, "Options", "Get"); f == nil {
			und("dhcpv6.Options.Get", "not found")
		} else {
			n++
			name := "dhcpv6.Options.Get"
			ls := findScanLoops(f)
			if len(ls) != 1 || !ccIsRecvColl(f, ls[0].coll) {
				und(name, "not one ascending scan of the receiver (idiom not recognised)")
			} else {
				l := ls[0]
				el := l.elems(sx)
				m := &ccMatcher{el, func(v ssa.Value) bool { return v == ssa.Value(f.Params[1]) }}
				acc, apps := l.filterAccumulator(el)
				if acc == nil {
					und(name, "no accumulator that starts empty and grows by append(acc, element)")
				} else {
					ok, why := ccFilter(l, m, apps, true)
					r.Check(ok, rule, key(name, "collects every element whose Code() equals the argument, and only those, in order"), c.P.pos(f.Pos()), "scan loop + split-graph atoms", why)
					okRet := true
					for _, rt := range returnsOf(f) {
						okRet = okRet && len(rt.Results) == 1 && rt.Results[0] == ssa.Value(acc) && (rt.Block() == l.done || l.done.Dominates(rt.Block()))
					}
					r.Check(okRet, rule, key(name, "returns the collected list after the scan"), c.P.pos(f.Pos()), "every return yields the accumulator, after the loop", "a return does not yield the collected list")
				}
			}
		}

		// ---- v6 GetOne
		if f := ccFind(c, v6pkgPath, "Options", "GetOne"); f == nil {
			und("dhcpv6.Options.GetOne", "not found")
		} else {
			n++
			name := "dhcpv6.Options.GetOne"
			ls := findScanLoops(f)
			if ok, why, is := ccGetOneStd(c, f); is {
				r.Check(ok, rule, key(name, "returns the first element whose Code() equals the argument"), c.P.pos(f.Pos()), "slices.IndexFunc over the receiver with the predicate element.Code() == argument; nil when not found", why)
			} else if len(ls) != 1 || !ccIsRecvColl(f, ls[0].coll) {
				und(name, "not one ascending scan of the receiver (idiom not recognised)")
			} else {
				l := ls[0]
				el := l.elems(sx)
				m := &ccMatcher{el, func(v ssa.Value) bool { return v == ssa.Value(f.Params[1]) }}
				// every side exit is a return of the scanned element, reached only under match=true; staying in the loop requires match=false
				ok, why := true, ""
				start := sNodeOf(l.hdr, l.body)
				exits := l.sideExits()
				if len(exits) == 0 {
					ok, why = false, "no return inside the scan: the first matching element is not the one returned"
				}
				blocked := map[*ssa.BasicBlock]bool{}
				for _, e := range exits {
					rt, isRet := e.To.Instrs[len(e.To.Instrs)-1].(*ssa.Return)
					if !isRet || len(rt.Results) != 1 || !el[rt.Results[0]] {
						ok, why = false, "the scan is left without returning the element at hand"
						continue
					}
					if !mustPassAtomsFrom(start, e.To, m.pol(true), map[*ssa.BasicBlock]bool{l.hdr: true}) {
						ok, why = false, "an element is returned although its code differs from the argument"
					}
					blocked[e.To] = true
				}
				if ok && !mustPassAtomsFrom(start, l.hdr, m.pol(false), blocked) {
					ok, why = false, "the scan continues past an element whose code equals the argument"
				}
				r.Check(ok, rule, key(name, "returns the first element whose Code() equals the argument"), c.P.pos(f.Pos()), "scan loop + split-graph atoms", why)
				okNil := true
				for _, rt := range returnsOf(f) {
					if l.done == rt.Block() || l.done.Dominates(rt.Block()) {
						okNil = okNil && len(rt.Results) == 1 && isNilConst(rt.Results[0])
					}
				}
				r.Check(okNil, rule, key(name, "returns nil when no element matches"), c.P.pos(f.Pos()), "return after the scan is the nil constant", "a non-nil value is returned although nothing matched")
			}
		}

		// ---- v6 Add
		var addFn *ssa.Function
		if f := ccFind(c, v6pkgPath, "Options", "Add"); f == nil {
			und("dhcpv6.Options.Add", "not found")
		} else {
			n++
			addFn = f
			name := "dhcpv6.Options.Add"
			sts := ccStoresToRecv(f)
			ok, why := len(sts) == 1, "not exactly one store to the receiver"
			if ok {
				st := sts[0]
				cl, isCall := st.Val.(*ssa.Call)
				var base, el ssa.Value
				if isCall {
					base, el = singleAppendElem(cl)
				}
				switch {
				case base == nil:
					ok, why = false, "the stored value is not append(list, option)"
				case !ccIsRecvColl(f, base):
					ok, why = false, "the list appended to is not the receiver's"
				case el != ssa.Value(f.Params[1]):
					ok, why = false, "the element appended is not the argument"
				case !dominatesAllReturns(f, st.Block()):
					ok, why = false, "Add can return without appending"
				}
			}
			r.Check(ok, rule, key(name, "appends its argument at the end of the list on every path"), c.P.pos(f.Pos()), "*o = append(*o, option) dominates every return", why)
		}

		// ---- v6 Del
		if f := ccFind(c, v6pkgPath, "Options", "Del"); f == nil {
			und("dhcpv6.Options.Del", "not found")
		} else {
			n++
			name := "dhcpv6.Options.Del"
			ls := findScanLoops(f)
			if len(ls) != 1 || !ccIsRecvColl(f, ls[0].coll) {
				und(name, "not one ascending scan of the receiver (idiom not recognised)")
			} else {
				l := ls[0]
				el := l.elems(sx)
				m := &ccMatcher{el, func(v ssa.Value) bool { return v == ssa.Value(f.Params[1]) }}
				acc, apps := l.filterAccumulator(el)
				if acc == nil {
					und(name, "no accumulator that starts empty and grows by append(acc, element)")
				} else {
					ok, why := ccFilter(l, m, apps, false)
					r.Check(ok, rule, key(name, "keeps every element whose Code() differs from the argument, and only those, in order"), c.P.pos(f.Pos()), "scan loop + split-graph atoms", why)
					sts := ccStoresToRecv(f)
					okSt := len(sts) == 1 && sts[0].Val == ssa.Value(acc) && (sts[0].Block() == l.done || l.done.Dominates(sts[0].Block())) && dominatesAllReturns(f, sts[0].Block())
					r.Check(okSt, rule, key(name, "the receiver becomes the filtered list"), c.P.pos(f.Pos()), "one store of the accumulator after the scan, dominating every return", "the filtered list is not (always) stored back")
				}
			}
		}

		// ---- v6 Update
		if f := ccFind(c, v6pkgPath, "Options", "Update"); f == nil {
			und("dhcpv6.Options.Update", "not found")
		} else {
			n++
			name := "dhcpv6.Options.Update"
			ls := findScanLoops(f)
			if len(ls) != 1 || !ccIsRecvColl(f, ls[0].coll) {
				und(name, "not one ascending scan of the receiver (idiom not recognised)")
			} else {
				l := ls[0]
				el := l.elems(sx)
				opt := ssa.Value(f.Params[1])
				m := &ccMatcher{el, func(v ssa.Value) bool { x, ok := isCodeInvoke(v); return ok && x == opt }}
				ok, why := true, ""
				start := sNodeOf(l.hdr, l.body)
				exits := l.sideExits()
				if len(exits) == 0 {
					ok, why = false, "the scan does not stop at the first option of the same code"
				}
				blocked := map[*ssa.BasicBlock]bool{}
				cs := sx.Of(l.coll).String()
				for _, e := range exits {
					if _, isRet := e.To.Instrs[len(e.To.Instrs)-1].(*ssa.Return); !isRet {
						ok, why = false, "the scan is left other than by returning"
						continue
					}
					// the exit block stores the argument into coll[idx]
					stored := false
					for _, in := range e.To.Instrs {
						if st, isSt := in.(*ssa.Store); isSt && st.Val == opt {
							if ia, isIA := st.Addr.(*ssa.IndexAddr); isIA && ia.Index == l.idx && (ia.X == l.coll || sx.Of(ia.X).String() == cs) {
								stored = true
							}
						}
					}
					if !stored {
						ok, why = false, "the matching position is not overwritten with the argument"
					}
					if !mustPassAtomsFrom(start, e.To, m.pol(true), map[*ssa.BasicBlock]bool{l.hdr: true}) {
						ok, why = false, "an element is replaced although its code differs from the argument's"
					}
					blocked[e.To] = true
				}
				if ok && !mustPassAtomsFrom(start, l.hdr, m.pol(false), blocked) {
					ok, why = false, "the scan continues past an element of the same code without replacing it"
				}
				// no other element store inside the loop
				for b := range l.loop {
					for _, in := range b.Instrs {
						if st, isSt := in.(*ssa.Store); isSt {
							if _, isIA := st.Addr.(*ssa.IndexAddr); isIA {
								if al, _, isLocal := addrPath(st.Addr); !isLocal || al == nil {
									ok, why = false, "an element is written inside the scan"
								}
							}
						}
					}
				}
				r.Check(ok, rule, key(name, "replaces the first option of the same code in place and stops"), c.P.pos(f.Pos()), "scan loop + split-graph atoms", why)
				// after the scan: Add(o, option)
				okAdd := false
				for _, in := range l.done.Instrs {
					if cl, isCall := in.(*ssa.Call); isCall && addFn != nil && cl.Call.StaticCallee() == addFn && len(cl.Call.Args) == 2 && cl.Call.Args[0] == ssa.Value(f.Params[0]) && cl.Call.Args[1] == opt {
						okAdd = true
					}
					if st, isSt := in.(*ssa.Store); isSt && st.Addr == ssa.Value(f.Params[0]) {
						if cl, isCall := st.Val.(*ssa.Call); isCall {
							if base, e := singleAppendElem(cl); base != nil && ccIsRecvColl(f, base) && e == opt {
								okAdd = true
							}
						}
					}
				}
				for _, rt := range returnsOf(f) {
					if (rt.Block() == l.done || l.done.Dominates(rt.Block())) && rt.Block() != l.done {
						okAdd = false // something conditional after the scan
					}
				}
				r.Check(okAdd, rule, key(name, "appends the argument when no option of its code is present"), c.P.pos(f.Pos()), "Add(o, option) on the scan's exit", "an option of a new code is not (always) added")
			}
		}

		// ---- v6 wrappers
		for _, w := range []struct{ typ, meth, target string }{
			{"Message", "AddOption", "Add"}, {"Message", "UpdateOption", "Update"}, {"Message", "GetOption", "Get"}, {"Message", "GetOneOption", "GetOne"},
			{"RelayMessage", "AddOption", "Add"}, {"RelayMessage", "UpdateOption", "Update"}, {"RelayMessage", "GetOption", "Get"}, {"RelayMessage", "GetOneOption", "GetOne"},
		} {
			f := ccFind(c, v6pkgPath, w.typ, w.meth)
			name := "dhcpv6." + w.typ + "." + w.meth
			if f == nil {
				und(name, "not found")
				continue
			}
			n++
			ok, why := ccDelegates(c, f, ccFind(c, v6pkgPath, "Options", w.target), "Options")
			r.Check(ok, rule, key(name, "delegates to Options."+w.target+" of its own option list with its own argument"), c.P.pos(f.Pos()), "single call on every path, result returned", why)
		}

	}
	if v4on {
		// ---- v4 map container
		v4key := func(f *ssa.Function, v ssa.Value) bool {
			x, ok := isCodeInvoke(v)
			return ok && len(f.Params) > 1 && x == ssa.Value(f.Params[1])
		}
		if f := ccFind(c, v4pkg, "Options", "Get"); f == nil {
			und("dhcpv4.Options.Get", "not found")
		} else {
			n++
			ok, why := true, ""
			rets := returnsOf(f)
			if len(rets) == 0 {
				ok, why = false, "no return"
			}
			for _, rt := range rets {
				lk, isLk := rt.Results[0].(*ssa.Lookup)
				if !isLk || lk.CommaOk || lk.X != ssa.Value(f.Params[0]) || !v4key(f, lk.Index) {
					ok, why = false, "a return is not the receiver's entry for code.Code()"
				}
			}
			r.Check(ok, rule, key("dhcpv4.Options.Get", "returns the map entry of the argument's code"), c.P.pos(f.Pos()), "every return is o[code.Code()]", why)
		}
		if f := ccFind(c, v4pkg, "Options", "Has"); f == nil {
			und("dhcpv4.Options.Has", "not found")
		} else {
			n++
			ok, why := true, ""
			for _, rt := range returnsOf(f) {
				ex, isEx := rt.Results[0].(*ssa.Extract)
				var lk *ssa.Lookup
				if isEx && ex.Index == 1 {
					lk, _ = ex.Tuple.(*ssa.Lookup)
				}
				if lk == nil || !lk.CommaOk || lk.X != ssa.Value(f.Params[0]) || !v4key(f, lk.Index) {
					ok, why = false, "a return is not the presence bit of the receiver's lookup of code.Code()"
				}
			}
			r.Check(ok, rule, key("dhcpv4.Options.Has", "reports presence of the key, whatever the value"), c.P.pos(f.Pos()), "every return is the comma-ok of o[code.Code()]", why)
		}
		if f := ccFind(c, v4pkg, "Options", "Del"); f == nil {
			und("dhcpv4.Options.Del", "not found")
		} else {
			n++
			var del *ssa.Call
			cnt := 0
			allInstrs(f, func(in ssa.Instruction) {
				if cl, ok := in.(*ssa.Call); ok && isBuiltinCall(cl.Common(), "delete") {
					del = cl
					cnt++
				}
			})
			ok := cnt == 1 && del.Call.Args[0] == ssa.Value(f.Params[0]) && v4key(f, del.Call.Args[1]) && dominatesAllReturns(f, del.Block())
			r.Check(ok, rule, key("dhcpv4.Options.Del", "removes the entry of the argument's code on every path"), c.P.pos(f.Pos()), "delete(o, code.Code()) dominates every return", "the entry is not (always) removed, or another key is")
		}
		for _, w := range []struct{ meth, target string }{{"GetOneOption", "Get"}, {"DeleteOption", "Del"}} {
			f := ccFind(c, v4pkg, "DHCPv4", w.meth)
			name := "dhcpv4.DHCPv4." + w.meth
			if f == nil {
				und(name, "not found")
				continue
			}
			n++
			ok, why := ccDelegates(c, f, ccFind(c, v4pkg, "Options", w.target), "Options")
			r.Check(ok, rule, key(name, "delegates to Options."+w.target+" of its own option map with its own argument"), c.P.pos(f.Pos()), "single call, result returned; skipped only for a nil map", why)
		}
	}
	// ---- code lists: dhcpv6.OptionCodes (option request option), dhcpv4.OptionCodeList (parameter request list)
	for _, w := range []struct{ pkg, typ, contains string }{{v6pkgPath, "OptionCodes", "Contains"}, {v4pkg, "OptionCodeList", "Has"}} {
		short := "dhcpv6."
		if w.pkg == v4pkg {
			short = "dhcpv4."
		}
		if (w.pkg == v4pkg && !v4on) || (w.pkg != v4pkg && !v6on) {
			continue
		}
		cf := ccFind(c, w.pkg, w.typ, w.contains)
		if cf == nil {
			und(short+w.typ+"."+w.contains, "not found")
		} else {
			n++
			ok, why := ccContainsRule(c, cf)
			r.Check(ok, rule, key(short+w.typ+"."+w.contains, "true exactly when an element equals the argument"), c.P.pos(cf.Pos()), "scan loop + split-graph atoms", why)
		}
		af := ccFind(c, w.pkg, w.typ, "Add")
		if af == nil {
			und(short+w.typ+".Add", "not found")
		} else if cf != nil {
			n++
			ok, why := ccAddUniqueRule(c, af, cf)
			r.Check(ok, rule, key(short+w.typ+".Add", "appends each new code at the end, keeps the codes already present where they are"), c.P.pos(af.Pos()), "store of append(list, code) exactly under !"+w.contains+"(code)", why)
		}
	}
	r.Count(rule, n)
	want := 0
	if v6on {
		want += 15
	}
	if v4on {
		want += 7
	}
	r.Expect(rule, want)
}

// ccContainsRule: f scans its receiver and returns true on (and only on) an element equal to the argument, false after the scan
func ccContainsRule(c *Ctx, f *ssa.Function) (bool, string) {
	sx := c.Sx()
	// the standard-library form: return slices.Contains(list, code) — the same front-to-back equality scan
	if rets := returnsOf(f); len(rets) == 1 && len(rets[0].Results) == 1 {
		if cl, ok := rets[0].Results[0].(*ssa.Call); ok && cl.Call.StaticCallee() != nil && cl.Call.StaticCallee().Origin() != nil &&
			funcKey(cl.Call.StaticCallee().Origin()) == "slices.Contains" && len(cl.Call.Args) == 2 {
			if ccIsRecvColl(f, cl.Call.Args[0]) && cl.Call.Args[1] == ssa.Value(f.Params[1]) {
				return true, ""
			}
			return false, "slices.Contains is not applied to (the receiver, the argument)"
		}
	}
	ls := findScanLoops(f)
	if len(ls) != 1 || !ccIsRecvColl(f, ls[0].coll) {
		return false, "not one ascending scan of the receiver (idiom not recognised)"
	}
	l := ls[0]
	el := l.elems(sx)
	isEq := func(as []atomFact, want bool) bool {
		for _, a := range as {
			bo, ok := a.v.(*ssa.BinOp)
			if !ok || (bo.Op != token.EQL && bo.Op != token.NEQ) {
				continue
			}
			arg := ssa.Value(f.Params[1])
			if !((el[bo.X] && bo.Y == arg) || (el[bo.Y] && bo.X == arg)) {
				continue
			}
			if ((bo.Op == token.EQL) == a.val) == want {
				return true
			}
		}
		return false
	}
	start := sNodeOf(l.hdr, l.body)
	exits := l.sideExits()
	if len(exits) == 0 {
		return false, "no return inside the scan"
	}
	blocked := map[*ssa.BasicBlock]bool{}
	for _, e := range exits {
		rt, isRet := e.To.Instrs[len(e.To.Instrs)-1].(*ssa.Return)
		if !isRet || len(rt.Results) != 1 {
			return false, "the scan is left other than by returning"
		}
		if b, isB := boolConst(rt.Results[0]); !isB || !b {
			return false, "the scan returns something other than true"
		}
		if !mustPassAtomsFrom(start, e.To, func(as []atomFact) bool { return isEq(as, true) }, map[*ssa.BasicBlock]bool{l.hdr: true}) {
			return false, "true is returned for an element that differs from the argument"
		}
		blocked[e.To] = true
	}
	if !mustPassAtomsFrom(start, l.hdr, func(as []atomFact) bool { return isEq(as, false) }, blocked) {
		return false, "the scan continues past an element equal to the argument"
	}
	for _, rt := range returnsOf(f) {
		if l.done == rt.Block() || l.done.Dominates(rt.Block()) {
			if b, isB := boolConst(rt.Results[0]); !isB || b {
				return false, "the result after an unsuccessful scan is not false"
			}
		}
	}
	return true, ""
}

// ccAddUniqueRule: f stores append(*recv, code) for a code of its argument(s) exactly when contains(*recv, code) is false
func ccAddUniqueRule(c *Ctx, f, contains *ssa.Function) (bool, string) {
	sx := c.Sx()
	sts := ccStoresToRecv(f)
	if len(sts) != 1 {
		return false, "not exactly one store to the receiver"
	}
	st := sts[0]
	cl, isCall := st.Val.(*ssa.Call)
	if !isCall {
		return false, "the stored value is not append(list, code)"
	}
	base, el := singleAppendElem(cl)
	if base == nil || !ccIsRecvColl(f, base) {
		return false, "the stored value is not append(list, code) on the receiver's list"
	}
	// the code: the parameter itself, or the element of a scan over the (variadic) parameter
	var from sNode
	var back *ssa.BasicBlock
	if el == ssa.Value(f.Params[1]) {
		from = sNode{f.Blocks[0], -1}
	} else {
		ls := findScanLoops(f)
		if len(ls) != 1 || ls[0].coll != ssa.Value(f.Params[1]) || !ls[0].elems(sx)[el] {
			return false, "the appended code is neither the argument nor an element of a scan over the arguments"
		}
		if len(ls[0].sideExits()) > 0 {
			return false, "the scan over the arguments can stop early"
		}
		from, back = sNodeOf(ls[0].hdr, ls[0].body), ls[0].hdr
	}
	has := func(as []atomFact, want bool) bool {
		for _, a := range as {
			cc, ok := a.v.(*ssa.Call)
			if !ok || cc.Call.StaticCallee() != contains || len(cc.Call.Args) != 2 {
				continue
			}
			if !ccIsRecvColl(f, cc.Call.Args[0]) || cc.Call.Args[1] != el {
				continue
			}
			if a.val == want {
				return true
			}
		}
		return false
	}
	blk := map[*ssa.BasicBlock]bool{}
	if back != nil {
		blk[back] = true
	}
	if st.Block() == from.b {
		return false, "the code is appended without testing whether it is present"
	}
	if !mustPassAtomsFrom(from, st.Block(), func(as []atomFact) bool { return has(as, false) }, blk) {
		return false, "a code can be appended although it is already present (or under another condition)"
	}
	skipTo := back
	if skipTo == nil {
		// every return reached without the store requires "present"
		for _, rb := range returnBlocks(f) {
			if rb == st.Block() || st.Block().Dominates(rb) {
				continue
			}
			if !mustPassAtomsFrom(from, rb, func(as []atomFact) bool { return has(as, true) }, map[*ssa.BasicBlock]bool{st.Block(): true}) {
				return false, "a code that is not present can be left out"
			}
		}
	} else if !mustPassAtomsFrom(from, skipTo, func(as []atomFact) bool { return has(as, true) }, map[*ssa.BasicBlock]bool{st.Block(): true}) {
		return false, "a code that is not present can be left out"
	}
	return true, ""
}

// ccDelegates: f calls target exactly once with (f's receiver's field `field`, f's own parameter), returns the call's
// result when it has one, and the only way to return without the call is a nil test of that field
func ccDelegates(c *Ctx, f, target *ssa.Function, field string) (bool, string) {
	if target == nil {
		return false, "delegation target not found"
	}
	var call *ssa.Call
	cnt := 0
	allInstrs(f, func(in ssa.Instruction) {
		if cl, ok := in.(*ssa.Call); ok && cl.Call.StaticCallee() == target {
			call = cl
			cnt++
		}
	})
	if cnt != 1 {
		return false, "not exactly one call of the container method"
	}
	sx := c.Sx()
	recvS := sx.Of(call.Call.Args[0]).String()
	fa := fieldOfRecv(f, call.Call.Args[0], field)
	if !fa {
		return false, "the container operated on is not the receiver's " + field + " (" + recvS + ")"
	}
	if len(call.Call.Args) != 2 || call.Call.Args[1] != ssa.Value(f.Params[1]) {
		return false, "the argument handed on is not the method's own"
	}
	for _, rt := range returnsOf(f) {
		if len(rt.Results) == 1 && rt.Results[0] != ssa.Value(call) {
			return false, "a return does not yield the container method's result"
		}
	}
	if !dominatesAllReturns(f, call.Block()) {
		// allowed: returns avoiding the call only under field == nil
		for _, rb := range returnBlocks(f) {
			if call.Block() == rb || call.Block().Dominates(rb) {
				continue
			}
			good := mustPassAtomsFrom(sNode{f.Blocks[0], -1}, rb, func(as []atomFact) bool {
				for _, a := range as {
					if bo, ok := a.v.(*ssa.BinOp); ok && (bo.Op == token.EQL || bo.Op == token.NEQ) {
						var other ssa.Value
						if isNilConst(bo.X) {
							other = bo.Y
						} else if isNilConst(bo.Y) {
							other = bo.X
						}
						if other != nil && fieldOfRecv(f, other, field) && (bo.Op == token.EQL) == a.val {
							return true
						}
					}
				}
				return false
			}, map[*ssa.BasicBlock]bool{call.Block(): true})
			if !good {
				return false, "the method can return without calling the container method although the container exists"
			}
		}
	}
	return true, ""
}

// fieldOfRecv: v is a chain of field selections rooted at the receiver whose last selected field is named `field`
// (recv.field, recv.Embedded.field, their addresses, or loads of them)
func fieldOfRecv(f *ssa.Function, v ssa.Value, field string) bool {
	first := true
	for i := 0; i < 8; i++ {
		switch t := v.(type) {
		case *ssa.UnOp:
			if t.Op != token.MUL {
				return false
			}
			v = t.X
			continue
		case *ssa.FieldAddr:
			st := derefStruct(t.X.Type())
			if st == nil || (first && st.Field(t.Field).Name() != field) {
				return false
			}
			first = false
			v = t.X
			continue
		case *ssa.Field:
			st, _ := t.X.Type().Underlying().(*types.Struct)
			if st == nil || (first && st.Field(t.Field).Name() != field) {
				return false
			}
			first = false
			v = t.X
			continue
		}
		break
	}
	return !first && v == ssa.Value(f.Params[0])
}

// flagRules: the broadcast bit of the DHCPv4 flags field (RFC 2131 §2, figure 2: the most significant bit of the
// 16-bit field) — IsBroadcast / IsUnicast test exactly that bit, SetBroadcast / SetUnicast change exactly that bit.
// WithBroadcast, NewRenewFromAck, NewReleaseFromACK and the servers' reply paths are written on top of them.
func flagRules(c *Ctx, rule string) {
	r := c.R
	const bit = 0x8000
	isFlagsLoad := func(f *ssa.Function, v ssa.Value) bool {
		u, ok := v.(*ssa.UnOp)
		if !ok || u.Op != token.MUL {
			return false
		}
		fa, ok := u.X.(*ssa.FieldAddr)
		if !ok || fa.X != ssa.Value(f.Params[0]) {
			return false
		}
		st := derefStruct(fa.X.Type())
		return st != nil && st.Field(fa.Field).Name() == "Flags"
	}
	maskOf := func(f *ssa.Function, v ssa.Value, op token.Token) (int64, bool) {
		bo, ok := v.(*ssa.BinOp)
		if !ok || bo.Op != op {
			return 0, false
		}
		if k, ok := intConst(bo.Y); ok && isFlagsLoad(f, bo.X) {
			return k, true
		}
		if k, ok := intConst(bo.X); ok && isFlagsLoad(f, bo.Y) && op != token.AND_NOT {
			return k, true
		}
		return 0, false
	}
	n := 0
	for _, w := range []struct {
		name string
		want bool // predicate true when the bit is set
	}{{"IsBroadcast", true}, {"IsUnicast", false}} {
		f := ccFind(c, v4pkg, "DHCPv4", w.name)
		if f == nil {
			r.Undecided(rule, "flag contract: dhcpv4.DHCPv4."+w.name, "-", "not found")
			continue
		}
		n++
		ok, why := true, ""
		rets := returnsOf(f)
		if len(rets) != 1 {
			ok, why = false, "more than one return (idiom not recognised)"
		}
		for _, rt := range rets {
			// the negation of the sibling predicate on the same packet, the sibling being written as the direct test
			// (and judged by this rule on its own): IsUnicast() = !IsBroadcast()
			if neg, isNeg := rt.Results[0].(*ssa.UnOp); isNeg && neg.Op == token.NOT {
				other := "IsBroadcast"
				if w.name == "IsBroadcast" {
					other = "IsUnicast"
				}
				if cl, isCall := neg.X.(*ssa.Call); isCall && cl.Call.StaticCallee() != nil && cl.Call.StaticCallee() == ccFind(c, v4pkg, "DHCPv4", other) &&
					len(cl.Call.Args) == 1 && cl.Call.Args[0] == ssa.Value(f.Params[0]) {
					direct := false
					if ors := returnsOf(cl.Call.StaticCallee()); len(ors) == 1 {
						_, direct = ors[0].Results[0].(*ssa.BinOp)
					}
					if direct {
						continue
					}
				}
			}
			cmp, isCmp := rt.Results[0].(*ssa.BinOp)
			if !isCmp || (cmp.Op != token.EQL && cmp.Op != token.NEQ) {
				ok, why = false, "the result is not a comparison of the masked flags field"
				continue
			}
			m, okM := maskOf(f, cmp.X, token.AND)
			k, okK := intConst(cmp.Y)
			if !okM {
				m, okM = maskOf(f, cmp.Y, token.AND)
				k, okK = intConst(cmp.X)
			}
			if !okM || !okK || m != bit || (k != 0 && k != bit) {
				ok, why = false, "the test is not on bit 15 (0x8000) of the flags field alone"
				continue
			}
			setWhenTrue := (cmp.Op == token.EQL) == (k == bit)
			if setWhenTrue != w.want {
				ok, why = false, "the predicate has the opposite meaning"
			}
		}
		r.Check(ok, rule, "flag contract: dhcpv4.DHCPv4."+w.name+": tests exactly the broadcast bit (0x8000) of Flags", c.P.pos(f.Pos()), "Flags&0x8000 compared with 0x8000 / 0", why)
	}
	for _, w := range []struct {
		name string
		set  bool
	}{{"SetBroadcast", true}, {"SetUnicast", false}} {
		f := ccFind(c, v4pkg, "DHCPv4", w.name)
		if f == nil {
			r.Undecided(rule, "flag contract: dhcpv4.DHCPv4."+w.name, "-", "not found")
			continue
		}
		n++
		var sts []*ssa.Store
		allInstrs(f, func(in ssa.Instruction) {
			if st, ok := in.(*ssa.Store); ok {
				sts = append(sts, st)
			}
		})
		ok, why := len(sts) == 1, "not exactly one store"
		if ok {
			st := sts[0]
			fa, isFA := st.Addr.(*ssa.FieldAddr)
			stt := (*types.Struct)(nil)
			if isFA {
				stt = derefStruct(fa.X.Type())
			}
			switch {
			case !isFA || fa.X != ssa.Value(f.Params[0]) || stt == nil || stt.Field(fa.Field).Name() != "Flags":
				ok, why = false, "the store is not to the receiver's Flags"
			case !dominatesAllReturns(f, st.Block()):
				ok, why = false, "the flag is not changed on every path"
			case w.set:
				if m, okM := maskOf(f, st.Val, token.OR); !okM || m != bit {
					ok, why = false, "the value stored is not Flags | 0x8000"
				}
			default:
				m1, ok1 := maskOf(f, st.Val, token.AND_NOT)
				m2, ok2 := maskOf(f, st.Val, token.AND)
				if !((ok1 && m1 == bit) || (ok2 && m2 == 0x7fff)) {
					ok, why = false, "the value stored is not Flags with bit 0x8000 cleared and every other bit kept"
				}
			}
		}
		r.Check(ok, rule, "flag contract: dhcpv4.DHCPv4."+w.name+": changes exactly the broadcast bit (0x8000) of Flags", c.P.pos(f.Pos()), "single store of Flags|0x8000 / Flags&^0x8000", why)
	}
	r.Count(rule, n)
	r.Expect(rule, 4)
}

// ccGetOneStd: the standard-library form of GetOne —
//
//	i := slices.IndexFunc(o, func(e Option) bool { return e.Code() == code }); if i < 0 { return nil }; return o[i]
//
// (first match by the contract of IndexFunc). is=false when the function is not of this form at all.
func ccGetOneStd(c *Ctx, f *ssa.Function) (ok bool, why string, is bool) {
	var search *ssa.Call
	allInstrs(f, func(in ssa.Instruction) {
		if cl, isCall := in.(*ssa.Call); isCall && cl.Call.StaticCallee() != nil && cl.Call.StaticCallee().Origin() != nil && funcKey(cl.Call.StaticCallee().Origin()) == "slices.IndexFunc" {
			search = cl
		}
	})
	if search == nil {
		return false, "", false
	}
	if len(search.Call.Args) != 2 || !ccIsRecvColl(f, search.Call.Args[0]) {
		return false, "IndexFunc does not search the receiver", true
	}
	// the predicate: a closure whose only return is param.Code() == captured argument
	mc, isMC := search.Call.Args[1].(*ssa.MakeClosure)
	if !isMC {
		return false, "the predicate is not a closure of this method", true
	}
	pf, _ := mc.Fn.(*ssa.Function)
	if pf == nil || len(pf.Params) != 1 || len(returnsOf(pf)) != 1 {
		return false, "the predicate is not a single comparison", true
	}
	rv := returnsOf(pf)[0].Results[0]
	bo, isBo := rv.(*ssa.BinOp)
	if !isBo || bo.Op != token.EQL {
		return false, "the predicate is not an equality test", true
	}
	isElemCode := func(v ssa.Value) bool { x, ok := isCodeInvoke(v); return ok && x == ssa.Value(pf.Params[0]) }
	sx := c.Sx()
	want := sx.Of(f.Params[1]).String()
	isKey := func(v ssa.Value) bool { return sx.Of(v).String() == want }
	if !((isElemCode(bo.X) && isKey(bo.Y)) || (isElemCode(bo.Y) && isKey(bo.X))) {
		return false, "the predicate does not compare the element's Code() with the argument (compares with " + sx.Of(bo.Y).String() + ")", true
	}
	// returns: nil under idx < 0, recv[idx] otherwise
	for _, rt := range returnsOf(f) {
		v := rt.Results[0]
		if isNilConst(v) {
			continue
		}
		u, isU := v.(*ssa.UnOp)
		var ia *ssa.IndexAddr
		if isU && u.Op == token.MUL {
			ia, _ = u.X.(*ssa.IndexAddr)
		}
		if ia == nil || !ccIsRecvColl(f, ia.X) || ia.Index != ssa.Value(search) {
			return false, "a return is neither nil nor the receiver's element at the index found", true
		}
	}
	return true, "", true
}
