package main

// E3 — heap effects: a summary-based, context-sensitive (on function-valued
// arguments), flow-insensitive, field-insensitive points-to / effect analysis
// over go/ssa. Decides C08 (input retention, fresh output) and C20 (read-only
// methods do not write receiver-reachable memory); consulted by C10, C12, C14,
// C15. See DESIGN §4 E3.

import (
	"fmt"
	"go/token"
	"go/types"
	"sort"
	"strings"

	"golang.org/x/tools/go/ssa"
)

type okind uint8

const (
	kPd    okind = iota // object(s) parameter i refers to directly
	kPr                 // memory reachable deeper from parameter i
	kF                  // allocation site (global name)
	kR                  // collapsed fresh result of a call site
	kG                  // a package-level variable (the cell)
	kFn                 // function value (closure or plain function)
	kFresh              // summary-only marker: callee-fresh memory
	kExt                // memory owned by external code (e.g. net.IPv4bcast's array)
)

type Obj struct {
	kind okind
	idx  int           // param index for Pd/Pr
	lvl  int           // Pr: number of loads from the parameter (1, 2, 3 = three or more)
	key  string        // identity
	typ  types.Type    // allocation type (pointee) when known
	fn   *ssa.Function // for kFn
	id   int
}

func (o *Obj) String() string { return o.key }

type oset map[*Obj]struct{}

func (s oset) add(o *Obj) bool {
	if _, ok := s[o]; ok {
		return false
	}
	s[o] = struct{}{}
	return true
}
func (s oset) addAll(t oset) bool {
	ch := false
	for o := range t {
		if s.add(o) {
			ch = true
		}
	}
	return ch
}
func (s oset) sorted() []*Obj {
	var out []*Obj
	for o := range s {
		out = append(out, o)
	}
	sort.Slice(out, func(i, j int) bool { return out[i].key < out[j].key })
	return out
}
func (s oset) String() string {
	var p []string
	for _, o := range s.sorted() {
		p = append(p, o.key)
	}
	return "{" + strings.Join(p, ",") + "}"
}

type mutEvent struct {
	target *Obj       // Pd/Pr/G/Ext (in summaries); any object while analysing
	cell   types.Type // static type of the cell written
	pos    string
	what   string   // description of the mutating instruction
	chain  []string // call chain from the analysed function down to the instruction
}

type flowEvent struct {
	src, dst *Obj // src ∈ Pd/Pr(i); dst ∈ ret-marker / Pd/Pr(j) / G
	pos      string
	what     string
	chain    []string
}

// summary of one (function, context)
type summary struct {
	fn  *ssa.Function
	ctx string
	// results: per result index, the origins in summary terms
	// (Pd/Pr of own params, G, Ext, Fn objects, kFresh marker)
	ret []oset
	// what escaping fresh memory (kFresh) may contain, in summary terms
	freshDeep oset
	// stores into caller-visible objects: target(Pd/Pr/G/Fn) -> contents in summary terms
	stores map[*Obj]oset
	// contents of Fn objects that escape (returned/stored), in summary terms
	fnContents map[*Obj]oset
	stypes     map[*Obj]map[*Obj]map[string]types.Type // edge types of stores
	ftypes     map[*Obj]map[string]types.Type          // edge types into freshDeep members
	muts       []mutEvent
	flows      []flowEvent // provenance of param→escape flows, for reporting
	undecided  map[string]string
	formats    map[int]bool
	sig        string // for change detection
	ctxFns     map[int]map[*ssa.Function]bool
}

type e3Engine struct {
	appCache     map[string]int
	c            *Ctx
	p            *Prog
	objs         map[string]*Obj
	summ         map[string]*summary // key fn|ctx
	order        []string
	gheap        map[*Obj]oset // contents of global cells and of objects that escaped into globals
	changed      bool
	inProg       map[string]bool
	dirty        map[string]bool
	dependents   map[string]map[string]bool // callee key -> caller keys
	gReaders     map[string]bool            // summaries that read the global heap
	implCache    map[*types.Interface][]types.Type
	reachCache   map[string]bool
	rounds       int
	nAnalysed    int
	retFindCache map[string][]e3Finding
	// bypassUio: analyse uio's own code instead of applying the Lexer ADT rows (used to re-derive the rows)
	bypassUio bool
}

type e3Finding struct{ short, pos, detail string }

var e3Singleton = map[*Prog]*e3Engine{}

func getE3(c *Ctx) *e3Engine {
	if e, ok := e3Singleton[c.P]; ok {
		e.c = c
		return e
	}
	e := &e3Engine{c: c, p: c.P, objs: map[string]*Obj{}, summ: map[string]*summary{}, gheap: map[*Obj]oset{},
		dirty: map[string]bool{}, dependents: map[string]map[string]bool{}, gReaders: map[string]bool{},
		inProg: map[string]bool{}, implCache: map[*types.Interface][]types.Type{}, reachCache: map[string]bool{}, retFindCache: map[string][]e3Finding{}}
	e3Singleton[c.P] = e
	e.initGlobals()
	return e
}

func (e *e3Engine) obj(kind okind, key string) *Obj {
	if o, ok := e.objs[key]; ok {
		return o
	}
	o := &Obj{kind: kind, key: key, id: len(e.objs)}
	e.objs[key] = o
	return o
}
func (e *e3Engine) pd(i int) *Obj {
	o := e.obj(kPd, fmt.Sprintf("Pd(%d)", i))
	o.idx = i
	return o
}

const prDeep = 3

func (e *e3Engine) pr(i, lvl int) *Obj {
	if lvl > prDeep {
		lvl = prDeep
	}
	o := e.obj(kPr, fmt.Sprintf("Pr(%d,%d)", i, lvl))
	o.idx = i
	o.lvl = lvl
	return o
}
func (e *e3Engine) fresh() *Obj { return e.obj(kFresh, "FRESH") }
func (e *e3Engine) site(in ssa.Value, t types.Type) *Obj {
	fn := ""
	if in.Parent() != nil {
		fn = shortName(in.Parent())
	}
	o := e.obj(kF, fmt.Sprintf("F(%s/%s@%s)", fn, in.Name(), e.p.pos(in.Pos())))
	if o.typ == nil {
		o.typ = t
	}
	return o
}
func (e *e3Engine) rsite(in ssa.Instruction, k string) *Obj {
	fn := shortName(in.Parent())
	nm := ""
	if v, ok := in.(ssa.Value); ok {
		nm = v.Name()
	}
	return e.obj(kR, fmt.Sprintf("R(%s/%s%s@%s)", fn, nm, k, e.p.ipos(in)))
}
func (e *e3Engine) gobj(g *ssa.Global) *Obj {
	o := e.obj(kG, "G("+g.Pkg.Pkg.Path()+"."+g.Name()+")")
	if o.typ == nil {
		o.typ = g.Type().(*types.Pointer).Elem()
	}
	return o
}
func (e *e3Engine) fnobj(f *ssa.Function, site string) *Obj {
	o := e.obj(kFn, "Fn("+shortName(f)+site+")")
	o.fn = f
	return o
}
func (e *e3Engine) ext(name string) *Obj { return e.obj(kExt, "Ext("+name+")") }

// hasPtr: can a value of type t carry a reference to mutable memory?
func hasPtr(t types.Type) bool { return hasPtrD(t, 0) }
func hasPtrD(t types.Type, d int) bool {
	if d > 6 {
		return true
	}
	switch u := t.Underlying().(type) {
	case *types.Basic:
		return u.Kind() == types.UnsafePointer
	case *types.Pointer, *types.Slice, *types.Map, *types.Chan, *types.Signature, *types.Interface:
		return true
	case *types.Array:
		return hasPtrD(u.Elem(), d+1)
	case *types.Struct:
		for i := 0; i < u.NumFields(); i++ {
			if hasPtrD(u.Field(i).Type(), d+1) {
				return true
			}
		}
		return false
	case *types.Tuple:
		for i := 0; i < u.Len(); i++ {
			if hasPtrD(u.At(i).Type(), d+1) {
				return true
			}
		}
		return false
	}
	return true
}

// ---------------------------------------------------------------------------
// type reachability: can a cell of type `cell` be part of memory reachable
// from a value of static type `from`?

func (e *e3Engine) typeReaches(from, cell types.Type) bool {
	if from == nil || cell == nil {
		return true
	}
	key := types.TypeString(from, nil) + "→" + types.TypeString(cell, nil)
	if v, ok := e.reachCache[key]; ok {
		return v
	}
	seen := map[string]bool{}
	var walk func(t types.Type, depth int) bool
	walk = func(t types.Type, depth int) bool {
		if depth > 12 {
			return true
		}
		ts := types.TypeString(t, nil)
		if seen[ts] {
			return false
		}
		seen[ts] = true
		if types.Identical(t, cell) || types.Identical(t.Underlying(), cell.Underlying()) && isUnnamedOrSame(t, cell) {
			return true
		}
		switch u := t.Underlying().(type) {
		case *types.Pointer:
			return walk(u.Elem(), depth+1)
		case *types.Slice:
			return walk(u.Elem(), depth+1)
		case *types.Array:
			return walk(u.Elem(), depth+1)
		case *types.Map:
			return walk(u.Key(), depth+1) || walk(u.Elem(), depth+1)
		case *types.Chan:
			return walk(u.Elem(), depth+1)
		case *types.Struct:
			for i := 0; i < u.NumFields(); i++ {
				if walk(u.Field(i).Type(), depth+1) {
					return true
				}
			}
			return false
		case *types.Signature:
			return true
		case *types.Interface:
			if u.NumMethods() == 0 {
				return true
			}
			impls := e.implementors(u)
			if impls == nil {
				return true // interface with no in-scope implementor: unknown
			}
			for _, it := range impls {
				if walk(it, depth+1) {
					return true
				}
			}
			return false
		}
		return false
	}
	r := walk(from, 0)
	e.reachCache[key] = r
	return r
}

func isUnnamedOrSame(a, b types.Type) bool {
	_, an := a.(*types.Named)
	_, bn := b.(*types.Named)
	return !an || !bn
}

// implementors: named types of the module (and their pointers) implementing
// iface. nil when the interface is not a module/uio interface with any
// implementor (treated as unknown by callers).
func (e *e3Engine) implementors(iface *types.Interface) []types.Type {
	if v, ok := e.implCache[iface]; ok {
		return v
	}
	var out []types.Type
	for _, pk := range e.p.Pkgs {
		if !strings.HasPrefix(pk.PkgPath, modPath) && pk.PkgPath != uioPath && pk.PkgPath != "net" {
			continue
		}
		sc := pk.Types.Scope()
		for _, n := range sc.Names() {
			tn, ok := sc.Lookup(n).(*types.TypeName)
			if !ok || tn.IsAlias() {
				continue
			}
			t := tn.Type()
			if _, isIface := t.Underlying().(*types.Interface); isIface {
				continue
			}
			if types.Implements(t, iface) {
				out = append(out, t)
			} else if types.Implements(types.NewPointer(t), iface) {
				out = append(out, types.NewPointer(t))
			}
		}
	}
	e.implCache[iface] = out
	return out
}

// ---------------------------------------------------------------------------
// per-function analysis state

type fstate struct {
	key      string
	e        *e3Engine
	fn       *ssa.Function
	ctx      map[int]map[*ssa.Function]bool // param idx -> function identities reachable from the argument
	ctxKey   string
	pts      map[ssa.Value]oset
	tpts     map[ssa.Value][]oset // tuple-valued instructions
	contains map[*Obj]oset
	etype    map[*Obj]map[*Obj]map[string]types.Type // static types of the values stored along a contains edge ("?" = unknown)
	muts     map[string]mutEvent
	flowsrc  map[string]flowEvent
	undec    map[string]string
	formats  map[int]bool
	changed  bool
	nparams  int
}

func ctxKeyOf(ctx map[int]map[*ssa.Function]bool) string {
	if len(ctx) == 0 {
		return ""
	}
	var ks []int
	for k := range ctx {
		ks = append(ks, k)
	}
	sort.Ints(ks)
	var sb strings.Builder
	for _, k := range ks {
		var ns []string
		for f := range ctx[k] {
			ns = append(ns, shortName(f))
		}
		sort.Strings(ns)
		fmt.Fprintf(&sb, "%d:[%s];", k, strings.Join(ns, ","))
	}
	return sb.String()
}

func (st *fstate) get(v ssa.Value) oset {
	switch x := v.(type) {
	case *ssa.Const:
		return nil
	case *ssa.Global:
		return oset{st.e.gobj(x): {}}
	case *ssa.Function:
		return oset{st.e.fnobj(x, ""): {}}
	case *ssa.Builtin:
		return nil
	}
	return st.pts[v]
}

func (st *fstate) addPts(v ssa.Value, s oset) {
	if len(s) == 0 {
		return
	}
	if !hasPtr(v.Type()) {
		return
	}
	cur := st.pts[v]
	if cur == nil {
		cur = oset{}
		st.pts[v] = cur
	}
	if cur.addAll(s) {
		st.changed = true
	}
}
func (st *fstate) addObj(v ssa.Value, o *Obj) { st.addPts(v, oset{o: {}}) }

func (st *fstate) addContains(o *Obj, s oset) {
	if len(s) == 0 {
		return
	}
	if o.kind == kG || st.e.gheap[o] != nil {
		// object lives in the global heap: only non-param-relative origins may go there
		gs := st.e.gheap[o]
		if gs == nil {
			gs = oset{}
			st.e.gheap[o] = gs
		}
		for x := range s {
			if x.kind == kPd || x.kind == kPr {
				continue // recorded as a flow in the local heap below
			}
			if gs.add(x) {
				st.e.globalHeapChanged()
				st.changed = true
				st.e.escapeToGlobal(st, x)
			}
		}
	}
	cur := st.contains[o]
	if cur == nil {
		cur = oset{}
		st.contains[o] = cur
	}
	if cur.addAll(s) {
		st.changed = true
	}
}

// escapeToGlobal: an object became reachable from a global: publish its local
// contents into the global heap (transitively).
func (e *e3Engine) escapeToGlobal(st *fstate, o *Obj) {
	if o.kind == kPd || o.kind == kPr || o.kind == kFresh {
		return
	}
	gs := e.gheap[o]
	if gs == nil {
		gs = oset{}
		e.gheap[o] = gs
	}
	for x := range st.contains[o] {
		if x.kind == kPd || x.kind == kPr {
			continue
		}
		if gs.add(x) {
			e.globalHeapChanged()
			e.escapeToGlobal(st, x)
		}
	}
}

// addContainsT records, besides the edge, the static type of the stored value.
func (st *fstate) addContainsT(o *Obj, s oset, via types.Type) {
	if len(s) == 0 {
		return
	}
	st.addContains(o, s)
	m := st.etype[o]
	if m == nil {
		m = map[*Obj]map[string]types.Type{}
		st.etype[o] = m
	}
	k := "?"
	if via != nil {
		k = types.TypeString(via, nil)
	}
	for x := range s {
		if m[x] == nil {
			m[x] = map[string]types.Type{}
		}
		if _, ok := m[x][k]; !ok {
			m[x][k] = via
			st.changed = true
		}
	}
}

func (st *fstate) addContainsTS(o *Obj, x *Obj, ts map[string]types.Type) {
	if len(ts) == 0 {
		st.addContainsT(o, oset{x: {}}, nil)
		return
	}
	for _, t := range ts {
		st.addContainsT(o, oset{x: {}}, t)
	}
}

// edgeMayHoldCell: can the memory reached through edge o→x contain a cell of type `cell`?
func (st *fstate) edgeMayHoldCell(o, x *Obj, cell types.Type) bool {
	ts := st.etype[o][x]
	if len(ts) == 0 {
		return true // implicit or global edge: unknown
	}
	for _, t := range ts {
		if t == nil || st.e.typeReaches(t, cell) {
			return true
		}
	}
	return false
}

// typedClosure: objects reachable from start by at least one load along edges
// whose recorded static types can reach a cell of type `cell`.
func (st *fstate) typedClosure(start oset, cell types.Type) oset {
	out := oset{}
	seen := oset{}
	var work []*Obj
	for o := range start {
		if seen.add(o) {
			work = append(work, o)
		}
	}
	for len(work) > 0 {
		o := work[len(work)-1]
		work = work[:len(work)-1]
		for x := range st.load(oset{o: {}}) {
			if _, explicit := st.contains[o][x]; explicit && !st.edgeMayHoldCell(o, x, cell) {
				continue
			}
			out.add(x)
			if seen.add(x) {
				work = append(work, x)
			}
		}
	}
	return out
}

// typedStep: one load from the objects of s along edges that may lead to a cell of type `cell`.
func (st *fstate) typedStep(s oset, cell types.Type) oset {
	out := oset{}
	for o := range s {
		for x := range st.load(oset{o: {}}) {
			if _, explicit := st.contains[o][x]; explicit && !st.edgeMayHoldCell(o, x, cell) {
				continue
			}
			out.add(x)
		}
	}
	return out
}

// typedLevel: objects exactly lvl loads away (lvl = prDeep: that many or more).
func (st *fstate) typedLevel(start oset, lvl int, cell types.Type) oset {
	cur := start
	n := lvl
	if n >= prDeep {
		n = prDeep - 1
	}
	for k := 0; k < n; k++ {
		cur = st.typedStep(cur, cell)
	}
	if lvl >= prDeep {
		return st.typedClosure(cur, cell)
	}
	return cur
}

// load: what a load through objects in s may yield
func (st *fstate) load(s oset) oset {
	out := oset{}
	for o := range s {
		switch o.kind {
		case kPd:
			out.add(st.e.pr(o.idx, 1))
		case kPr:
			out.add(st.e.pr(o.idx, o.lvl+1))
		case kR:
			out.add(o)
		case kExt:
			out.add(o)
		}
		out.addAll(st.contains[o])
		if o.kind == kG || o.kind == kF || o.kind == kR || o.kind == kFn {
			st.e.gReaders[st.key] = true
			out.addAll(st.e.gheap[o])
		}
	}
	return out
}

// reach: closure of s under load
func (st *fstate) reach(s oset) oset {
	out := oset{}
	var work []*Obj
	for o := range s {
		if out.add(o) {
			work = append(work, o)
		}
	}
	for len(work) > 0 {
		o := work[len(work)-1]
		work = work[:len(work)-1]
		for x := range st.load(oset{o: {}}) {
			if out.add(x) {
				work = append(work, x)
			}
		}
	}
	return out
}

func (st *fstate) mut(target oset, cell types.Type, in ssa.Instruction, what string, chain []string) {
	for o := range target {
		if o.kind == kFresh {
			continue
		}
		k := o.key + "|" + types.TypeString(cell, nil)
		if _, ok := st.muts[k]; ok {
			continue
		}
		pos := "-"
		if in != nil {
			pos = st.e.p.ipos(in)
		}
		if chain == nil {
			chain = []string{shortName(st.fn)}
		}
		st.muts[k] = mutEvent{target: o, cell: cell, pos: pos, what: what, chain: chain}
		st.changed = true
	}
}

// store v's objects into the objects of addr
func (st *fstate) store(addr oset, val oset, cell types.Type, in ssa.Instruction, what string) {
	st.storeT(addr, val, cell, cell, in, what)
}

func (st *fstate) storeT(addr oset, val oset, cell, via types.Type, in ssa.Instruction, what string) {
	for o := range addr {
		st.addContainsT(o, val, via)
	}
	st.mut(addr, cell, in, what, nil)
	st.noteFlows(addr, val, in, what, nil)
}

// noteFlows records provenance of param-relative values stored somewhere
func (st *fstate) noteFlows(dst oset, val oset, in ssa.Instruction, what string, chain []string) {
	for s := range val {
		if s.kind != kPd && s.kind != kPr {
			continue
		}
		for d := range dst {
			k := s.key + "→" + d.key
			if _, ok := st.flowsrc[k]; ok {
				continue
			}
			pos := "-"
			if in != nil {
				pos = st.e.p.ipos(in)
			}
			if chain == nil {
				chain = []string{shortName(st.fn)}
			}
			st.flowsrc[k] = flowEvent{src: s, dst: d, pos: pos, what: what, chain: chain}
		}
	}
}

func elemType(t types.Type) types.Type {
	switch u := t.Underlying().(type) {
	case *types.Slice:
		return u.Elem()
	case *types.Array:
		return u.Elem()
	case *types.Pointer:
		if a, ok := u.Elem().Underlying().(*types.Array); ok {
			return a.Elem()
		}
		return u.Elem()
	case *types.Map:
		return u.Elem()
	case *types.Chan:
		return u.Elem()
	case *types.Basic:
		if u.Info()&types.IsString != 0 {
			return types.Typ[types.Byte]
		}
	}
	return t
}

// ---------------------------------------------------------------------------

func (e *e3Engine) initGlobals() {
	// package initialisers populate the global heap (humanizer tables etc.)
	for _, pk := range e.p.ModPkgs {
		sp := e.p.SSAPkg[pk.PkgPath]
		if sp == nil {
			continue
		}
		if init := sp.Func("init"); init != nil {
			e.summaryOf(init, nil)
		}
	}
	e.fixpoint()
}

// fixpoint re-analyses every summary whose callees' summaries (or the global heap) changed,
// until nothing changes.
func (e *e3Engine) fixpoint() {
	for n := 0; len(e.dirty) > 0; n++ {
		if n > 400000 {
			panic("E3: no fixpoint")
		}
		e.rounds++
		var ks []string
		for k := range e.dirty {
			ks = append(ks, k)
		}
		sort.Strings(ks)
		for _, k := range ks {
			if !e.dirty[k] {
				continue
			}
			delete(e.dirty, k)
			s := e.summ[k]
			e.analyse(s.fn, s.ctxFns, k)
		}
	}
}

func (e *e3Engine) markDependents(key string) {
	for d := range e.dependents[key] {
		e.dirty[d] = true
	}
}

func (e *e3Engine) globalHeapChanged() {
	for k := range e.gReaders {
		e.dirty[k] = true
	}
}

// summaryOf returns the current summary (possibly still growing) for fn in ctx.
func (e *e3Engine) summaryOf(fn *ssa.Function, ctx map[int]map[*ssa.Function]bool) *summary {
	key := funcKey(fn) + "|" + ctxKeyOf(ctx)
	if s, ok := e.summ[key]; ok {
		return s
	}
	s := &summary{fn: fn, ctx: ctxKeyOf(ctx), stores: map[*Obj]oset{}, fnContents: map[*Obj]oset{}, freshDeep: oset{}, undecided: map[string]string{}, formats: map[int]bool{}, ctxFns: ctx}
	e.summ[key] = s
	e.order = append(e.order, key)
	if len(e.order) > 20000 {
		panic("E3: context explosion")
	}
	e.analyse(fn, ctx, key)
	return e.summ[key]
}

func (e *e3Engine) analyse(fn *ssa.Function, ctx map[int]map[*ssa.Function]bool, key string) {
	if e.inProg[key] {
		return
	}
	e.inProg[key] = true
	defer delete(e.inProg, key)
	e.nAnalysed++
	st := &fstate{key: key, e: e, fn: fn, ctx: ctx, ctxKey: ctxKeyOf(ctx), pts: map[ssa.Value]oset{}, tpts: map[ssa.Value][]oset{}, contains: map[*Obj]oset{}, etype: map[*Obj]map[*Obj]map[string]types.Type{},
		muts: map[string]mutEvent{}, flowsrc: map[string]flowEvent{}, undec: map[string]string{}, formats: map[int]bool{}}
	st.nparams = len(fn.Params)
	for i, p := range fn.Params {
		if hasPtr(p.Type()) {
			st.addObj(p, e.pd(i))
		}
	}
	for i, fv := range fn.FreeVars {
		if hasPtr(fv.Type()) {
			st.addObj(fv, e.pd(st.nparams+i))
		}
	}
	for iter := 0; iter < 200; iter++ {
		st.changed = false
		for _, b := range fn.Blocks {
			for _, in := range b.Instrs {
				st.instr(in)
			}
		}
		if !st.changed {
			break
		}
		if iter == 199 {
			panic("E3: local fixpoint not reached in " + funcKey(fn))
		}
	}
	e.buildSummary(st, key)
}

func (st *fstate) paramType(i int) types.Type {
	if i < st.nparams {
		return st.fn.Params[i].Type()
	}
	if i-st.nparams < len(st.fn.FreeVars) {
		return st.fn.FreeVars[i-st.nparams].Type()
	}
	return nil
}

func (e *e3Engine) buildSummary(st *fstate, key string) {
	old := e.summ[key]
	s := &summary{fn: st.fn, ctx: st.ctxKey, stores: map[*Obj]oset{}, fnContents: map[*Obj]oset{}, freshDeep: oset{}, undecided: st.undec, formats: st.formats, ctxFns: st.ctx,
		stypes: map[*Obj]map[*Obj]map[string]types.Type{}, ftypes: map[*Obj]map[string]types.Type{}}
	fresh := e.fresh()
	// term: summary term of a local object
	term := func(o *Obj) *Obj {
		switch o.kind {
		case kPd, kPr, kG, kExt, kFn:
			return o
		case kF, kR:
			if e.gheap[o] != nil {
				return o
			}
			return fresh
		}
		return nil
	}
	addTypes := func(dst map[*Obj]map[string]types.Type, from *Obj) {
		for x := range st.load(oset{from: {}}) {
			tx := term(x)
			if tx == nil {
				continue
			}
			if dst[tx] == nil {
				dst[tx] = map[string]types.Type{}
			}
			ts := st.etype[from][x]
			if _, explicit := st.contains[from][x]; !explicit || len(ts) == 0 {
				dst[tx]["?"] = nil
				continue
			}
			for k, t := range ts {
				dst[tx][k] = t
			}
		}
	}
	// escaping roots: returned values, contents of param-relative/global objects
	escFresh := oset{} // local F/R objects that escape
	var escWork []*Obj
	noteEsc := func(o *Obj) {
		if (o.kind == kF || o.kind == kR) && e.gheap[o] == nil {
			if escFresh.add(o) {
				escWork = append(escWork, o)
			}
		}
	}
	toSummary := func(in oset) oset {
		out := oset{}
		for o := range in {
			switch o.kind {
			case kPd, kPr, kG, kExt, kFn:
				out.add(o)
			case kF, kR:
				if e.gheap[o] != nil {
					out.add(o) // lives in the global heap: keeps its identity
				} else {
					out.add(fresh)
					noteEsc(o)
				}
			}
		}
		return out
	}
	var fnEsc []*Obj
	seenFn := oset{}
	noteFn := func(in oset) {
		for o := range in {
			if o.kind == kFn && seenFn.add(o) {
				fnEsc = append(fnEsc, o)
			}
		}
	}
	// returns
	nres := st.fn.Signature.Results().Len()
	s.ret = make([]oset, nres)
	for i := range s.ret {
		s.ret[i] = oset{}
	}
	for _, r := range returnsOf(st.fn) {
		for i, v := range r.Results {
			if i < nres {
				ts := toSummary(st.get(v))
				s.ret[i].addAll(ts)
				noteFn(ts)
			}
		}
	}
	// stores into param-relative / global / Fn objects
	for o, c := range st.contains {
		if o.kind == kPd || o.kind == kPr {
			ts := toSummary(c)
			if len(ts) > 0 {
				s.stores[o] = ts
				noteFn(ts)
				s.stypes[o] = map[*Obj]map[string]types.Type{}
				addTypes(s.stypes[o], o)
			}
		}
	}
	// escaping fresh memory: what can it contain (transitively)?
	for len(escWork) > 0 || len(fnEsc) > 0 {
		for len(escWork) > 0 {
			o := escWork[len(escWork)-1]
			escWork = escWork[:len(escWork)-1]
			ts := toSummary(st.load(oset{o: {}}))
			delete(ts, fresh)
			s.freshDeep.addAll(ts)
			noteFn(ts)
			addTypes(s.ftypes, o)
		}
		for len(fnEsc) > 0 {
			o := fnEsc[len(fnEsc)-1]
			fnEsc = fnEsc[:len(fnEsc)-1]
			if c := st.contains[o]; len(c) > 0 {
				ts := toSummary(c)
				s.fnContents[o] = ts
				noteFn(ts)
			}
		}
	}
	// mutation events on caller-visible objects, type filtered
	var mkeys []string
	for k := range st.muts {
		mkeys = append(mkeys, k)
	}
	sort.Strings(mkeys)
	for _, k := range mkeys {
		m := st.muts[k]
		switch m.target.kind {
		case kPd, kPr:
			if !e.typeReaches(st.paramType(m.target.idx), m.cell) {
				continue
			}
			s.muts = append(s.muts, m)
		case kG, kExt:
			s.muts = append(s.muts, m)
		case kF, kR, kFn:
			if e.gheap[m.target] != nil {
				s.muts = append(s.muts, m)
			}
		}
	}
	var fkeys []string
	for k := range st.flowsrc {
		fkeys = append(fkeys, k)
	}
	sort.Strings(fkeys)
	for _, k := range fkeys {
		s.flows = append(s.flows, st.flowsrc[k])
	}
	s.sig = s.signature()
	e.summ[key] = s
	if old == nil || old.sig != s.sig {
		e.markDependents(key)
	}
}

func (s *summary) signature() string {
	var sb strings.Builder
	for i, r := range s.ret {
		fmt.Fprintf(&sb, "r%d=%s;", i, r)
	}
	sb.WriteString("fd=" + s.freshDeep.String() + ";")
	var ks []string
	for o, c := range s.stores {
		ks = append(ks, o.key+"<-"+c.String())
	}
	for o, c := range s.fnContents {
		ks = append(ks, "fn:"+o.key+"<-"+c.String())
	}
	for _, m := range s.muts {
		ks = append(ks, "m:"+m.target.key+":"+types.TypeString(m.cell, nil))
	}
	for t, mm := range s.stypes {
		for o, ts := range mm {
			for k := range ts {
				ks = append(ks, "st:"+t.key+":"+o.key+":"+k)
			}
		}
	}
	for o, ts := range s.ftypes {
		for k := range ts {
			ks = append(ks, "ft:"+o.key+":"+k)
		}
	}
	for k := range s.undecided {
		ks = append(ks, "u:"+k)
	}
	for k := range s.formats {
		ks = append(ks, fmt.Sprint("f:", k))
	}
	sort.Strings(ks)
	sb.WriteString(strings.Join(ks, ";"))
	return sb.String()
}

// ---------------------------------------------------------------------------
// transfer functions

func (st *fstate) instr(in ssa.Instruction) {
	e := st.e
	switch x := in.(type) {
	case *ssa.Alloc:
		st.addObj(x, e.site(x, x.Type().(*types.Pointer).Elem()))
	case *ssa.MakeSlice:
		st.addObj(x, e.site(x, x.Type()))
	case *ssa.MakeMap:
		st.addObj(x, e.site(x, x.Type()))
	case *ssa.MakeChan:
		st.addObj(x, e.site(x, x.Type()))
	case *ssa.MakeClosure:
		f := x.Fn.(*ssa.Function)
		o := e.fnobj(f, "@"+e.p.pos(x.Pos()))
		st.addObj(x, o)
		for _, b := range x.Bindings {
			st.addContainsT(o, st.get(b), b.Type())
		}
	case *ssa.FieldAddr:
		st.addPts(x, st.get(x.X))
	case *ssa.IndexAddr:
		st.addPts(x, st.get(x.X))
	case *ssa.Field:
		st.addPts(x, st.get(x.X))
	case *ssa.Index:
		if _, isArr := x.X.Type().Underlying().(*types.Array); isArr {
			st.addPts(x, st.get(x.X))
		}
	case *ssa.Slice:
		if bt, ok := x.X.Type().Underlying().(*types.Basic); ok && bt.Info()&types.IsString != 0 {
			return
		}
		st.addPts(x, st.get(x.X))
	case *ssa.SliceToArrayPointer:
		st.addPts(x, st.get(x.X))
	case *ssa.ChangeType:
		st.addPts(x, st.get(x.X))
	case *ssa.ChangeInterface:
		st.addPts(x, st.get(x.X))
	case *ssa.MakeInterface:
		st.addPts(x, st.get(x.X))
	case *ssa.TypeAssert:
		src := st.get(x.X)
		if x.CommaOk {
			st.setTuple(x, 0, src)
		} else {
			st.addPts(x, filterByType(src, x.AssertedType))
		}
	case *ssa.Convert:
		// string<->[]byte/[]rune conversions copy; pointer/unsafe conversions alias
		_, fromStr := x.X.Type().Underlying().(*types.Basic)
		_, toStr := x.Type().Underlying().(*types.Basic)
		if fromStr || toStr {
			if hasPtr(x.Type()) {
				st.addObj(x, e.site(x, x.Type()))
			}
			return
		}
		st.addPts(x, st.get(x.X))
	case *ssa.MultiConvert:
		st.addPts(x, st.get(x.X))
	case *ssa.Phi:
		for _, ed := range x.Edges {
			st.addPts(x, st.get(ed))
		}
	case *ssa.UnOp:
		switch x.Op {
		case token.MUL:
			st.addPts(x, st.load(st.get(x.X)))
		case token.ARROW:
			l := st.load(st.get(x.X))
			if x.CommaOk {
				st.setTuple(x, 0, l)
			} else {
				st.addPts(x, l)
			}
		}
	case *ssa.BinOp:
		// no pointer arithmetic; string concat is fresh & immutable
	case *ssa.Store:
		cell := x.Addr.Type().Underlying().(*types.Pointer).Elem()
		st.store(st.get(x.Addr), st.get(x.Val), cell, x, "store to "+cellDesc(x.Addr))
	case *ssa.MapUpdate:
		m := st.get(x.Map)
		st.storeT(m, st.get(x.Key), x.Map.Type(), x.Key.Type(), x, "map update")
		st.storeT(m, st.get(x.Value), x.Map.Type(), x.Value.Type(), x, "map update")
		st.mut(m, x.Map.Type(), x, "map update", nil)
	case *ssa.Lookup:
		if _, isMap := x.X.Type().Underlying().(*types.Map); isMap {
			l := st.load(st.get(x.X))
			if x.CommaOk {
				st.setTuple(x, 0, l)
			} else {
				st.addPts(x, l)
			}
		}
	case *ssa.Range:
		st.addPts(x, st.get(x.X))
	case *ssa.Next:
		if !x.IsString {
			l := st.load(st.get(x.Iter.(*ssa.Range).X))
			st.setTuple(x, 1, l)
			st.setTuple(x, 2, l)
		}
	case *ssa.Extract:
		if tp := st.tpts[x.Tuple]; tp != nil && x.Index < len(tp) {
			st.addPts(x, tp[x.Index])
		}
	case *ssa.Send:
		st.storeT(st.get(x.Chan), st.get(x.X), x.Chan.Type(), x.X.Type(), x, "channel send")
	case *ssa.Select:
		for i, s := range x.States {
			if s.Dir == types.SendOnly {
				st.store(st.get(s.Chan), st.get(s.Send), s.Chan.Type(), x, "channel send (select)")
			} else {
				st.setTuple(x, 2+recvIndex(x, i), st.load(st.get(s.Chan)))
			}
		}
	case *ssa.Call:
		st.call(x, x.Common(), x)
	case *ssa.Go:
		st.call(x, x.Common(), nil)
	case *ssa.Defer:
		st.call(x, x.Common(), nil)
	case *ssa.Return, *ssa.If, *ssa.Jump, *ssa.Panic, *ssa.RunDefers, *ssa.DebugRef:
	default:
		st.undec[fmt.Sprintf("instr %T", in)] = e.p.ipos(in)
	}
}

func recvIndex(sel *ssa.Select, i int) int {
	n := 0
	for j := 0; j < i; j++ {
		if sel.States[j].Dir == types.RecvOnly {
			n++
		}
	}
	return n
}

func cellDesc(addr ssa.Value) string {
	switch a := addr.(type) {
	case *ssa.FieldAddr:
		if st := derefStruct(a.X.Type()); st != nil {
			return "field " + st.Field(a.Field).Name() + " of " + types.TypeString(a.X.Type(), shortQual)
		}
	case *ssa.IndexAddr:
		return "element of " + types.TypeString(a.X.Type(), shortQual)
	case *ssa.Global:
		return "global " + a.Name()
	}
	return "*" + types.TypeString(addr.Type(), shortQual)
}

func (st *fstate) setTuple(v ssa.Value, idx int, s oset) {
	tp := st.tpts[v]
	n := 1
	if t, ok := v.Type().(*types.Tuple); ok {
		n = t.Len()
	}
	if tp == nil {
		tp = make([]oset, n)
		st.tpts[v] = tp
	}
	if idx >= len(tp) {
		return
	}
	if t, ok := v.Type().(*types.Tuple); ok && !hasPtr(t.At(idx).Type()) {
		return
	}
	if tp[idx] == nil {
		tp[idx] = oset{}
	}
	if tp[idx].addAll(s) {
		st.changed = true
	}
}

func filterByType(s oset, t types.Type) oset {
	if _, isIface := t.Underlying().(*types.Interface); isIface {
		return s
	}
	out := oset{}
	want := t
	if p, ok := t.Underlying().(*types.Pointer); ok {
		want = p.Elem()
		for o := range s {
			if o.kind == kF && o.typ != nil && !types.Identical(o.typ, want) {
				continue
			}
			out.add(o)
		}
		return out
	}
	return s
}

// setResult assigns result idx of call value v
func (st *fstate) setResult(v ssa.Value, nres, idx int, s oset) {
	if v == nil || len(s) == 0 {
		return
	}
	if nres == 1 {
		st.addPts(v, s)
	} else {
		st.setTuple(v, idx, s)
	}
}

func (st *fstate) call(in ssa.Instruction, c *ssa.CallCommon, res ssa.Value) {
	e := st.e
	// builtins
	if b, ok := c.Value.(*ssa.Builtin); ok {
		st.builtin(in, b.Name(), c, res)
		return
	}
	var args []ssa.Value
	if c.IsInvoke() {
		args = append(args, c.Value)
	}
	args = append(args, c.Args...)
	nres := c.Signature().Results().Len()

	type target struct {
		fn     *ssa.Function
		fnObj  *Obj // closure object when called through a function value
		viaPrm oset // param-relative origins the function value came from
	}
	var targets []target
	if f := c.StaticCallee(); f != nil && inModule(f) {
		// a shortened re-slice x[:k] handed to a function that appends to that parameter: the append lands in x's own
		// elements beyond k whenever they fit (append onto spare capacity), exactly as a local append(x[:k], …) does
		for j, a := range c.Args {
			if _, isSlice := a.Type().Underlying().(*types.Slice); !isSlice || !e.appendsTo(f, j) {
				continue
			}
			// the re-slice may reach the call through the φ of an accumulating loop (dst := x[:0]; for … { dst = f(dst, e) })
			for _, sl := range shortenedOrigins(a) {
				if _, isArr := sl.X.Type().Underlying().(*types.Pointer); !isArr {
					st.mut(st.get(sl.X), elemType(a.Type()), in, "a shortened re-slice x[:k] is handed to "+shortName(f)+", which appends to it: the elements of x beyond k are overwritten", nil)
				}
			}
		}
	}
	if f := c.StaticCallee(); f != nil {
		if mc, ok := c.Value.(*ssa.MakeClosure); ok {
			_ = mc
			for o := range st.get(c.Value) {
				if o.kind == kFn {
					targets = append(targets, target{fn: f, fnObj: o})
				}
			}
		}
		if len(targets) == 0 {
			targets = append(targets, target{fn: f})
		}
	} else if c.IsInvoke() {
		for _, f := range e.p.Callees(in.(ssa.CallInstruction)) {
			targets = append(targets, target{fn: f})
		}
		if len(targets) == 0 {
			// no implementation known: interface implemented outside (e.g. net.PacketConn, logger)
			st.externalInvoke(in, c, args, res, nres)
			return
		}
	} else {
		// call through a function value
		fv := st.get(c.Value)
		sig := c.Signature()
		found := false
		prm := oset{}
		for o := range fv {
			switch o.kind {
			case kFn:
				if sigCompatible(o.fn, sig) {
					targets = append(targets, target{fn: o.fn, fnObj: o})
					found = true
				}
			case kPd, kPr:
				prm.add(o)
			}
		}
		resolved := len(fv) > 0
		if len(prm) > 0 {
			// function value came from our own parameters: use the context
			for o := range prm {
				if fs, ok := st.ctx[o.idx]; ok {
					for f := range fs {
						if sigCompatible(f, sig) {
							targets = append(targets, target{fn: f, viaPrm: oset{o: {}}})
							found = true
						}
					}
				} else {
					found = false
					resolved = false
					break
				}
			}
		}
		for o := range fv {
			if o.kind != kFn && o.kind != kPd && o.kind != kPr {
				resolved = false // function value of unknown identity (global table, collapsed result)
			}
		}
		if resolved && !found {
			return // every possible source is known and none is a function of this signature (e.g. no caller-supplied values at a root)
		}
		if !found || len(fv) == 0 {
			targets = targets[:0]
			for _, f := range e.p.Callees(in.(ssa.CallInstruction)) {
				if sigCompatible(f, sig) {
					via := oset{}
					via.addAll(fv)
					targets = append(targets, target{fn: f, viaPrm: via})
				}
			}
			if len(targets) == 0 {
				if len(fv) == 0 && !anyPtrArgs(args) {
					return
				}
				st.undec["dynamic call without known targets: "+c.String()] = e.p.ipos(in)
				return
			}
		}
	}
	sort.Slice(targets, func(i, j int) bool { return funcKey(targets[i].fn) < funcKey(targets[j].fn) })
	for _, t := range targets {
		f := t.fn
		// argument sets (receiver type filter for dynamic dispatch)
		as := make([]oset, len(args))
		for i, a := range args {
			as[i] = st.get(a)
		}
		if c.IsInvoke() && f.Signature.Recv() != nil && len(as) > 0 {
			as[0] = filterRecv(as[0], f)
			if len(as[0]) == 0 && len(st.get(args[0])) > 0 {
				continue // no object of that dynamic type can be the receiver here
			}
		}
		// bound-method / thunk wrappers have FreeVars; handled via fnObj contents
		var fvsets []oset
		if len(f.FreeVars) > 0 {
			var fc oset
			if t.fnObj != nil {
				fc = st.load(oset{t.fnObj: {}})
			} else if len(t.viaPrm) > 0 {
				fc = st.load(t.viaPrm)
				fc.addAll(t.viaPrm)
			}
			for range f.FreeVars {
				fvsets = append(fvsets, fc)
			}
		}
		if m := lookupModel(f); m != nil && !(st.e.bypassUio && inUio(f)) {
			st.applyModel(in, f, m, args, as, res, nres)
			continue
		}
		if f.Blocks == nil || !(inModule(f) || inUio(f) || isModuleWrapper(f)) {
			st.external(in, f, args, as, res, nres)
			continue
		}
		st.applySummary(in, f, args, as, fvsets, res, nres)
	}
}

func isModuleWrapper(f *ssa.Function) bool {
	// synthetic wrappers/bound methods/thunks whose target is in the module
	if f.Synthetic == "" {
		return false
	}
	pk := funcPkg(f)
	return pk != nil && (strings.HasPrefix(pk.Path(), modPath) || pk.Path() == uioPath)
}

func anyPtrArgs(args []ssa.Value) bool {
	for _, a := range args {
		if hasPtr(a.Type()) {
			return true
		}
	}
	return false
}

func sigCompatible(f *ssa.Function, sig *types.Signature) bool {
	fs := f.Signature
	if fs.Params().Len() != sig.Params().Len() || fs.Results().Len() != sig.Results().Len() {
		return false
	}
	for i := 0; i < fs.Params().Len(); i++ {
		if !types.Identical(fs.Params().At(i).Type(), sig.Params().At(i).Type()) {
			return false
		}
	}
	for i := 0; i < fs.Results().Len(); i++ {
		if !types.Identical(fs.Results().At(i).Type(), sig.Results().At(i).Type()) {
			return false
		}
	}
	return true
}

func filterRecv(s oset, f *ssa.Function) oset {
	rt := f.Signature.Recv().Type()
	want := rt
	if p, ok := rt.(*types.Pointer); ok {
		want = p.Elem()
	}
	out := oset{}
	for o := range s {
		if o.kind == kF && o.typ != nil {
			if _, isPtr := rt.(*types.Pointer); isPtr {
				// receiver is *T: the object must be a T
				if !types.Identical(o.typ, want) {
					continue
				}
			}
		}
		out.add(o)
	}
	return out
}

// ctxFor computes the function-value context of a call: for each parameter
// whose type can carry a function value, the function identities reachable
// from the argument.
func (st *fstate) ctxFor(f *ssa.Function, as []oset) map[int]map[*ssa.Function]bool {
	var ctx map[int]map[*ssa.Function]bool
	for i, p := range f.Params {
		if i >= len(as) || !typeCarriesFunc(p.Type(), 0) {
			continue
		}
		fs := map[*ssa.Function]bool{}
		unknown := false
		r := st.reach(as[i])
		if len(r) == 0 {
			continue
		}
		for o := range r {
			switch o.kind {
			case kFn:
				fs[o.fn] = true
			case kPd, kPr:
				if c, ok := st.ctx[o.idx]; ok {
					for g := range c {
						fs[g] = true
					}
				} else if tp := st.paramType(o.idx); tp != nil && typeCarriesFunc(tp, 0) {
					unknown = true
				}
			}
		}
		if unknown {
			continue
		}
		if len(fs) == 0 {
			// known-empty only if every origin is param-relative with a known context
			known := true
			for o := range r {
				if o.kind == kPd || o.kind == kPr {
					if _, ok := st.ctx[o.idx]; !ok {
						known = false
					}
				} else if o.kind == kR || o.kind == kG || o.kind == kExt {
					known = false
				}
			}
			if !known {
				continue
			}
		}
		if ctx == nil {
			ctx = map[int]map[*ssa.Function]bool{}
		}
		ctx[i] = fs
	}
	return ctx
}

func typeCarriesFunc(t types.Type, d int) bool {
	if d > 5 {
		return false
	}
	switch u := t.Underlying().(type) {
	case *types.Signature:
		return true
	case *types.Pointer:
		return typeCarriesFunc(u.Elem(), d+1)
	case *types.Slice:
		return typeCarriesFunc(u.Elem(), d+1)
	case *types.Array:
		return typeCarriesFunc(u.Elem(), d+1)
	case *types.Struct:
		for i := 0; i < u.NumFields(); i++ {
			if typeCarriesFunc(u.Field(i).Type(), d+1) {
				return true
			}
		}
	}
	return false
}

// applySummary instantiates callee f's summary at this call site.
func (st *fstate) applySummary(in ssa.Instruction, f *ssa.Function, args []ssa.Value, as []oset, fvsets []oset, res ssa.Value, nres int) {
	e := st.e
	ctx := st.ctxFor(f, as)
	s := e.summaryOf(f, ctx)
	ck := funcKey(f) + "|" + ctxKeyOf(ctx)
	if e.dependents[ck] == nil {
		e.dependents[ck] = map[string]bool{}
	}
	e.dependents[ck][st.key] = true
	all := append(append([]oset{}, as...), fvsets...)
	// Pr(i,k) ↦ objects reachable from the argument by exactly k loads (k = 3: three or more)
	levels := map[[2]int]oset{}
	var levelOf func(i, k int) oset
	levelOf = func(i, k int) oset {
		if i >= len(all) {
			return nil
		}
		if v, ok := levels[[2]int{i, k}]; ok {
			return v
		}
		var r oset
		switch {
		case k <= 0:
			r = all[i]
		case k < prDeep:
			r = st.load(levelOf(i, k-1))
		default:
			r = st.loadClosure(levelOf(i, prDeep-2))
			// loadClosure is "at least one load" from level prDeep-2 ⇒ at least prDeep-1 loads;
			// drop nothing: over-approximation of "three or more" by "two or more" would be unsound
			// the other way round, so compute it from level prDeep-1
			r = st.loadClosure(levelOf(i, prDeep-1))
		}
		levels[[2]int{i, k}] = r
		return r
	}
	var rObj *Obj
	getR := func() *Obj {
		if rObj == nil {
			rObj = e.rsite(in, "")
			// collapsed: contains itself implicitly (load of kR yields itself)
		}
		return rObj
	}
	var mapSet func(in oset) oset
	mapSet = func(src oset) oset {
		out := oset{}
		for o := range src {
			switch o.kind {
			case kPd:
				if o.idx < len(all) {
					out.addAll(all[o.idx])
				}
			case kPr:
				out.addAll(levelOf(o.idx, o.lvl))
			case kFresh:
				out.add(getR())
			default:
				out.add(o)
			}
		}
		return out
	}
	// fresh memory contents
	if len(s.freshDeep) > 0 {
		// only materialise R if something fresh escapes
		needR := false
		for _, r := range s.ret {
			if _, ok := r[e.fresh()]; ok {
				needR = true
			}
		}
		for _, c := range s.stores {
			if _, ok := c[e.fresh()]; ok {
				needR = true
			}
		}
		for _, c := range s.fnContents {
			if _, ok := c[e.fresh()]; ok {
				needR = true
			}
		}
		if needR {
			for fo := range s.freshDeep {
				for x := range mapSet(oset{fo: {}}) {
					st.addContainsTS(getR(), x, s.ftypes[fo])
				}
			}
		}
	}
	for o, c := range s.fnContents {
		st.addContains(o, mapSet(c))
	}
	// stores
	chainPrefix := shortName(st.fn)
	for tgt, c := range s.stores {
		dst := mapSet(oset{tgt: {}})
		val := mapSet(c)
		for d := range dst {
			for vo := range c {
				for x := range mapSet(oset{vo: {}}) {
					st.addContainsTS(d, x, s.stypes[tgt][vo])
				}
			}
		}
		// provenance
		var ch []string
		what := "stored by callee " + shortName(f)
		pos := e.p.ipos(in)
		for _, fl := range s.flows {
			if fl.dst == tgt {
				ch = append([]string{chainPrefix}, fl.chain...)
				what = fl.what
				pos = fl.pos
				break
			}
		}
		st.noteFlowsAt(dst, val, pos, what, ch)
	}
	// results
	for i, r := range s.ret {
		st.setResult(res, nres, i, mapSet(r))
	}
	// mutations
	for _, m := range s.muts {
		var tg oset
		if m.target.kind == kPr && m.target.idx < len(all) {
			tg = st.typedLevel(all[m.target.idx], m.target.lvl, m.cell)
		} else {
			tg = mapSet(oset{m.target: {}})
		}
		for o := range tg {
			// type filter on concrete objects
			if o.kind == kF && o.typ != nil && !e.typeReaches(o.typ, m.cell) {
				continue
			}
			k := o.key + "|" + types.TypeString(m.cell, nil)
			if _, ok := st.muts[k]; ok {
				continue
			}
			st.muts[k] = mutEvent{target: o, cell: m.cell, pos: m.pos, what: m.what, chain: append([]string{chainPrefix}, m.chain...)}
			st.changed = true
		}
	}
	for k, v := range s.undecided {
		if _, ok := st.undec[k]; !ok {
			st.undec[k] = v
			st.changed = true
		}
	}
	for p := range s.formats {
		if p < len(all) {
			st.formatArgs(in, all[p])
		}
	}
}

func (st *fstate) loadClosure(s oset) oset {
	out := oset{}
	var work []*Obj
	for o := range st.load(s) {
		if out.add(o) {
			work = append(work, o)
		}
	}
	for len(work) > 0 {
		o := work[len(work)-1]
		work = work[:len(work)-1]
		for x := range st.load(oset{o: {}}) {
			if out.add(x) {
				work = append(work, x)
			}
		}
	}
	return out
}

func (st *fstate) noteFlowsAt(dst oset, val oset, pos, what string, chain []string) {
	for s := range val {
		if s.kind != kPd && s.kind != kPr {
			continue
		}
		for d := range dst {
			k := s.key + "→" + d.key
			if _, ok := st.flowsrc[k]; ok {
				continue
			}
			if chain == nil {
				chain = []string{shortName(st.fn)}
			}
			st.flowsrc[k] = flowEvent{src: s, dst: d, pos: pos, what: what, chain: chain}
		}
	}
}

func (st *fstate) formatArgs(in ssa.Instruction, s oset) {
	// fmt-style formatting of operands: Stringers of in-module types are
	// C20 roots in their own right (modular argument), so formatting has no
	// heap effect here. If the operands come from our own parameters the
	// caller may want to know.
	for o := range s {
		if o.kind == kPd || o.kind == kPr {
			st.formats[o.idx] = true
		}
	}
}

func (st *fstate) builtin(in ssa.Instruction, name string, c *ssa.CallCommon, res ssa.Value) {
	e := st.e
	switch name {
	case "append":
		if res == nil {
			return
		}
		base := st.get(c.Args[0])
		st.addPts(res, base)
		so := e.site(res, res.Type())
		st.addObj(res, so)
		// append(x[:k], …) with a two-index re-slice: the elements of x beyond k are spare capacity of the
		// operand, so the append overwrites x's own elements in place whenever they fit
		// (the operand may reach the append through the φ of an accumulating loop: `out := x[:0]; for … { out = append(out, e) }`)
		for _, sl := range shortenedOrigins(c.Args[0]) {
			if _, isArr := sl.X.Type().Underlying().(*types.Pointer); !isArr {
				st.mut(st.get(sl.X), elemType(res.Type()), in, "append onto a shortened re-slice x[:k] writes the elements of x beyond k", nil)
			}
		}
		if len(c.Args) > 1 {
			et := elemType(res.Type())
			if hasPtr(et) {
				if bt, ok := c.Args[1].Type().Underlying().(*types.Basic); ok && bt.Info()&types.IsString != 0 {
					return
				}
				elems := st.load(st.get(c.Args[1]))
				for o := range st.get(res) {
					st.addContainsT(o, elems, et)
				}
				st.noteFlows(st.get(res), elems, in, "append of pointer-bearing elements", nil)
				// contents of the old array move to the new one
				st.addContainsT(so, st.load(base), et)
			}
		}
	case "copy":
		dst := st.get(c.Args[0])
		et := elemType(c.Args[0].Type())
		st.mut(dst, et, in, "copy into "+types.TypeString(c.Args[0].Type(), shortQual), nil)
		if hasPtr(et) {
			elems := st.load(st.get(c.Args[1]))
			for o := range dst {
				st.addContainsT(o, elems, et)
			}
			st.noteFlows(dst, elems, in, "copy of pointer-bearing elements", nil)
		}
	case "delete":
		st.mut(st.get(c.Args[0]), c.Args[0].Type(), in, "map delete", nil)
	case "clear":
		st.mut(st.get(c.Args[0]), elemType(c.Args[0].Type()), in, "clear", nil)
	case "close":
		st.mut(st.get(c.Args[0]), c.Args[0].Type(), in, "close of channel", nil)
	case "len", "cap", "min", "max", "print", "println", "real", "imag", "complex", "panic", "recover", "new", "ssa:wrapnilchk":
		if name == "ssa:wrapnilchk" && res != nil {
			st.addPts(res, st.get(c.Args[0]))
		}
	default:
		st.undec["builtin "+name] = e.p.ipos(in)
	}
}

// ---------------------------------------------------------------------------
// queries

// root analysis entry: analyse f with an empty context and run to fixpoint.
func (e *e3Engine) rootSummary(f *ssa.Function) *summary {
	// caller-supplied function values (modifiers, parsers, humanizers) are not judged at
	// a root: the context of every function-carrying parameter is the known-empty set
	var ctx map[int]map[*ssa.Function]bool
	for i, p := range f.Params {
		if typeCarriesFunc(p.Type(), 0) {
			if ctx == nil {
				ctx = map[int]map[*ssa.Function]bool{}
			}
			ctx[i] = map[*ssa.Function]bool{}
		}
	}
	e.summaryOf(f, ctx)
	e.fixpoint()
	return e.summ[funcKey(f)+"|"+ctxKeyOf(ctx)]
}

// retentionFindings: flows of Pd(param)/Pr(param) into results, other
// parameters (incl. receiver) or globals.
func (e *e3Engine) retentionFindings(f *ssa.Function, param int) []e3Finding {
	if f == nil {
		return nil
	}
	ck := fmt.Sprintf("%s|%d", funcKey(f), param)
	if v, ok := e.retFindCache[ck]; ok {
		return v
	}
	s := e.rootSummary(f)
	var out []e3Finding
	isSrc := func(o *Obj) bool { return (o.kind == kPd || o.kind == kPr) && o.idx == param }
	seen := map[string]bool{}
	add := func(where string, dstKey string) {
		if seen[where] {
			return
		}
		seen[where] = true
		pos, what := e.p.pos(f.Pos()), ""
		var chain []string
		for _, fl := range s.flows {
			if isSrc(fl.src) && (dstKey == "" || fl.dst.key == dstKey) {
				pos, what, chain = fl.pos, fl.what, fl.chain
				break
			}
		}
		if chain == nil {
			for _, fl := range s.flows {
				if isSrc(fl.src) {
					pos, what, chain = fl.pos, fl.what, fl.chain
					break
				}
			}
		}
		out = append(out, e3Finding{short: where, pos: pos,
			detail: fmt.Sprintf("input parameter %d of %s may stay reachable from %s after the call (%s; chain: %s)", param, shortName(f), where, what, strings.Join(chain, " → "))})
	}
	for i, r := range s.ret {
		for o := range r {
			if isSrc(o) {
				add(fmt.Sprintf("result %d", i), "")
			}
		}
	}
	retFresh := false
	for _, r := range s.ret {
		if _, ok := r[e.fresh()]; ok {
			retFresh = true
		}
	}
	storesFresh := false
	for tgt, c := range s.stores {
		if isSrc(tgt) {
			continue
		}
		for o := range c {
			if isSrc(o) {
				add(fmt.Sprintf("%s", describeTarget(f, tgt)), tgt.key)
			}
			if o.kind == kFresh {
				storesFresh = true
			}
		}
	}
	if retFresh || storesFresh {
		for o := range s.freshDeep {
			if isSrc(o) {
				add("memory allocated by the decoder that is returned or stored in the receiver", "")
			}
		}
	}
	for _, c := range s.fnContents {
		for o := range c {
			if isSrc(o) {
				add("a closure that escapes", "")
			}
		}
	}
	for _, fl := range s.flows {
		if isSrc(fl.src) && (fl.dst.kind == kG || e.gheap[fl.dst] != nil) {
			add("global "+fl.dst.key, fl.dst.key)
		}
	}
	for k, v := range s.undecided {
		out = append(out, e3Finding{short: "UNDECIDED " + k, pos: v, detail: "E3 cannot model: " + k})
	}
	sort.Slice(out, func(i, j int) bool { return out[i].short < out[j].short })
	e.retFindCache[ck] = out
	return out
}

// sharedGlobalFindings: memory reachable from a package-level variable that becomes part of what the
// function returns or stores into its receiver/parameters (shared between all values it produces).
func (e *e3Engine) sharedGlobalFindings(f *ssa.Function) []e3Finding {
	s := e.rootSummary(f)
	inG := map[*Obj]bool{}
	for g, c := range e.gheap {
		_ = g
		for o := range c {
			inG[o] = true
		}
	}
	isG := func(o *Obj) bool {
		if o.kind == kFn || o.kind == kExt {
			return false
		}
		return o.kind == kG || inG[o]
	}
	var out []e3Finding
	seen := map[string]bool{}
	add := func(where string, o *Obj) {
		k := where + "|" + o.key
		if seen[k] {
			return
		}
		seen[k] = true
		stable := o.key
		if i := strings.Index(stable, "@"); i >= 0 {
			stable = stable[:i] + ")"
		}
		out = append(out, e3Finding{short: where + " shares " + stable, pos: e.p.pos(f.Pos()),
			detail: fmt.Sprintf("%s makes memory of a package-level variable (%s) part of %s: every value produced this way shares it, a write through one is seen through all", shortName(f), o.key, where)})
	}
	sig := f.Signature
	for i, r := range s.ret {
		if i < sig.Results().Len() && isErrorType(sig.Results().At(i).Type()) {
			continue
		}
		for o := range r {
			if isG(o) {
				add(fmt.Sprintf("result %d", i), o)
			}
		}
	}
	for tgt, c := range s.stores {
		if tgt.kind != kPd && tgt.kind != kPr {
			continue
		}
		for o := range c {
			if isG(o) {
				add(describeTarget(f, tgt), o)
			}
		}
	}
	for o := range s.freshDeep {
		if isG(o) {
			add("memory allocated by the function that is returned or stored", o)
		}
	}
	sort.Slice(out, func(i, j int) bool { return out[i].short < out[j].short })
	return out
}

func describeTarget(f *ssa.Function, o *Obj) string {
	if o.kind == kPd || o.kind == kPr {
		name := fmt.Sprintf("parameter %d", o.idx)
		if o.idx < len(f.Params) {
			name = "parameter " + f.Params[o.idx].Name()
			if o.idx == 0 && f.Signature.Recv() != nil {
				name = "the receiver"
			}
		}
		if o.kind == kPr {
			return fmt.Sprintf("memory reachable from %s (%d load(s) deep)", name, o.lvl)
		}
		return name
	}
	return o.key
}

// mutationFindings: writes to memory reachable from the given parameters
// (pre-state) or to globals.
func (e *e3Engine) mutationFindings(f *ssa.Function, params map[int]bool) []e3Finding {
	s := e.rootSummary(f)
	var out []e3Finding
	for _, m := range s.muts {
		switch m.target.kind {
		case kPd, kPr:
			if !params[m.target.idx] {
				continue
			}
		case kG, kExt, kF, kR, kFn:
		default:
			continue
		}
		out = append(out, e3Finding{
			short: fmt.Sprintf("%s cell %s", describeTarget(f, m.target), types.TypeString(m.cell, shortQual)),
			pos:   m.pos,
			detail: fmt.Sprintf("%s writes %s (cell type %s) via %s; chain: %s", shortName(f), describeTarget(f, m.target),
				types.TypeString(m.cell, shortQual), m.what, strings.Join(m.chain, " → ")),
		})
	}
	for k, v := range s.undecided {
		out = append(out, e3Finding{short: "UNDECIDED " + k, pos: v, detail: "E3 cannot model: " + k})
	}
	sort.Slice(out, func(i, j int) bool { return out[i].short < out[j].short })
	return out
}

// resultFresh: result idx of f aliases no parameter and no global.
func (e *e3Engine) resultAliases(f *ssa.Function, idx int) []string {
	s := e.rootSummary(f)
	var out []string
	if idx >= len(s.ret) {
		return nil
	}
	for o := range s.ret[idx] {
		if o.kind != kFresh {
			out = append(out, describeTarget(f, o))
		}
	}
	sort.Strings(out)
	return out
}

// e3DeriveLexerModel re-derives the alias/copy/mutation rows of the Lexer ADT from uio's own SSA and
// compares them with the hand-written table (thorough tier; DESIGN §9).
func e3DeriveLexerModel(c *Ctx, rule string) {
	r := c.R
	e := &e3Engine{c: c, p: c.P, objs: map[string]*Obj{}, summ: map[string]*summary{}, gheap: map[*Obj]oset{},
		dirty: map[string]bool{}, dependents: map[string]map[string]bool{}, gReaders: map[string]bool{},
		inProg: map[string]bool{}, implCache: map[*types.Interface][]types.Type{}, reachCache: map[string]bool{}, retFindCache: map[string][]e3Finding{}, bypassUio: true}
	n := 0
	var keys []string
	for k := range modelTable {
		if strings.Contains(k, "github.com/u-root/uio/uio") {
			keys = append(keys, k)
		}
	}
	sort.Strings(keys)
	for _, k := range keys {
		m := modelTable[k]
		f := c.P.Func(k)
		if f == nil || f.Blocks == nil {
			r.Undecided(rule, "Lexer model row "+k, "-", "the modelled function does not exist in the uio version of this tree")
			continue
		}
		n++
		s := e.summaryOf(f, nil)
		e.fixpoint()
		s = e.summ[funcKey(f)+"|"]
		name := shortName(f)
		// result aliasing
		aliasParam := false
		fresh := false
		if len(s.ret) > 0 {
			for o := range s.ret[0] {
				switch o.kind {
				case kPd, kPr:
					aliasParam = true
				case kFresh:
					fresh = true
				}
			}
		}
		wantAlias := len(m.retAlias) > 0 || len(m.retDeep) > 0
		wantsHold := len(m.freshHolds) > 0
		holds := false
		for o := range s.freshDeep {
			if o.kind == kPd || o.kind == kPr {
				holds = true
			}
		}
		if hasPtrResults(f.Signature) && f.Signature.Results().Len() > 0 && !isErrorType(f.Signature.Results().At(0).Type()) {
			r.Check(aliasParam == wantAlias, rule, name+": result aliasing matches the model row", c.P.pos(f.Pos()), fmt.Sprintf("derived: aliases an argument=%v, model: %v", aliasParam, wantAlias),
				fmt.Sprintf("uio's code says the result aliases an argument: %v; the model row says %v (fresh=%v)", aliasParam, wantAlias, fresh))
			if wantsHold {
				r.Check(holds == wantsHold, rule, name+": what the fresh result keeps referring to matches the model row", c.P.pos(f.Pos()), "freshDeep vs freshHolds", fmt.Sprintf("derived holds-argument=%v, model=%v", holds, wantsHold))
			}
		}
		// mutation of a caller's slice argument (ReadBytes, Read)
		for _, i := range m.mutElems {
			found := false
			for _, mu := range s.muts {
				if (mu.target.kind == kPd || mu.target.kind == kPr) && mu.target.idx == i {
					found = true
				}
			}
			r.Check(found, rule, fmt.Sprintf("%s: writes its argument %d as the model row says", name, i), c.P.pos(f.Pos()), "derived mutation on that parameter", "the model row says the argument is written, uio's code does not")
		}
		// a row without mutElems must not write other arguments' elements
		for _, mu := range s.muts {
			if (mu.target.kind == kPd || mu.target.kind == kPr) && mu.target.idx != 0 {
				listed := false
				for _, i := range m.mutElems {
					if i == mu.target.idx {
						listed = true
					}
				}
				r.Check(listed, rule, fmt.Sprintf("%s: writes to argument %d are in the model row", name, mu.target.idx), c.P.pos(f.Pos()), "mutElems", "uio's code writes an argument the model row does not list: "+mu.what)
			}
		}
	}
	r.Count(rule+"-rows", n)
	r.Expect(rule+"-rows", 25)
}

// appendsTo: does f (or a module function it hands the value to) append onto its parameter j — i.e. is there an
// append whose first operand derives from parameter j through φs, re-slices, earlier appends and calls that return it
func (e *e3Engine) appendsTo(f *ssa.Function, j int) bool {
	if e.appCache == nil {
		e.appCache = map[string]int{}
	}
	key := fmt.Sprintf("%s#%d", funcKey(f), j)
	switch e.appCache[key] {
	case 1:
		return true
	case 2, 3:
		return false // 3 = in progress (recursion): assume no
	}
	e.appCache[key] = 3
	res := false
	if f.Blocks != nil && j < len(f.Params) {
		p := ssa.Value(f.Params[j])
		seen := map[ssa.Value]bool{}
		var derives func(v ssa.Value, d int) bool
		derives = func(v ssa.Value, d int) bool {
			if v == p {
				return true
			}
			if d > 6 || seen[v] {
				return false
			}
			seen[v] = true
			defer delete(seen, v)
			switch x := v.(type) {
			case *ssa.Phi:
				for _, ed := range x.Edges {
					if derives(ed, d+1) {
						return true
					}
				}
			case *ssa.Slice:
				return derives(x.X, d+1)
			case *ssa.Call:
				if isBuiltinCall(x.Common(), "append") {
					return derives(x.Call.Args[0], d+1)
				}
				if g := x.Call.StaticCallee(); g != nil && inModule(g) {
					for k, a := range x.Call.Args {
						if derives(a, d+1) && e.appendsTo(g, k) {
							return true
						}
					}
				}
			}
			return false
		}
		allInstrs(f, func(in ssa.Instruction) {
			cl, ok := in.(*ssa.Call)
			if !ok || res {
				return
			}
			if isBuiltinCall(cl.Common(), "append") {
				if derives(cl.Call.Args[0], 0) {
					res = true
				}
				return
			}
			if g := cl.Call.StaticCallee(); g != nil && inModule(g) && g != f {
				for k, a := range cl.Call.Args {
					if derives(a, 0) && e.appendsTo(g, k) {
						res = true
					}
				}
			}
		})
	}
	if res {
		e.appCache[key] = 1
	} else {
		e.appCache[key] = 2
	}
	return res
}

// shortenedOrigins: the two-index re-slices x[:k] (k given, no capacity limit) that v is, or accumulates from through
// φs and earlier appends
func shortenedOrigins(v ssa.Value) []*ssa.Slice {
	var out []*ssa.Slice
	seen := map[ssa.Value]bool{}
	var walk func(v ssa.Value, d int)
	walk = func(v ssa.Value, d int) {
		if v == nil || seen[v] || d > 8 {
			return
		}
		seen[v] = true
		switch x := v.(type) {
		case *ssa.Slice:
			if x.High != nil && x.Max == nil {
				out = append(out, x)
			}
		case *ssa.Phi:
			for _, e := range x.Edges {
				walk(e, d+1)
			}
		case *ssa.Call:
			if b, ok := x.Call.Value.(*ssa.Builtin); ok && b.Name() == "append" && len(x.Call.Args) > 0 {
				walk(x.Call.Args[0], d+1)
				return
			}
			// dst = g(dst, …) with g a module function returning a slice of the same type: the accumulator goes through g
			if g := x.Call.StaticCallee(); g != nil && inModule(g) {
				for _, a := range x.Call.Args {
					if types.Identical(a.Type(), x.Type()) {
						walk(a, d+1)
					}
				}
			}
		}
	}
	walk(v, 0)
	return out
}
