// Copyright 2022 The Go Authors. All rights reserved.
// Use of this source code is governed by a BSD-style
// license that can be found in the LICENSE file.

package typeparams

import (
	"fmt"
	"go/types"
)

// CoreType returns the core type of T or nil if T does not have a core type.
//
// See https://go.dev/ref/spec#Core_types for the definition of a core type.
func CoreType(T types.Type) types.Type {
	U := T.Underlying()
	if _, ok := U.(*types.Interface); !ok {
		return U // for non-interface types,
	}

	terms, err := NormalTerms(U)
	if len(terms) == 0 || err != nil {
		// len(terms) -> empty type set of interface.
		// err != nil => U is invalid, exceeds complexity bounds, or has an empty type set.
		return nil // no core type.
	}

	U = terms[0].Type().Underlying()
	var identical int // i in [0,identical) => Identical(U, terms[i].Type().Underlying())
	for identical = 1; identical < len(terms); identical++ {
		if !types.Identical(U, terms[identical].Type().Underlying()) {
			break
		}
	}

	if identical == len(terms) {
		// https://go.dev/ref/spec#Core_types
		// "There is a single type U which is the underlying type of all types in the type set of T"
		return U
	}
	ch, ok := U.(*types.Chan)
	if !ok {
		return nil // no core type as identical < len(terms) and U is not a channel.
	}
	// https://go.dev/ref/spec#Core_types
	// "the type chan E if T contains only bidirectional channels, or the type chan<- E or
	// <-chan E depending on the direction of the directional channels present."
	for chans := identical; chans < len(terms); chans++ {
		curr, ok := terms[chans].Type().Underlying().(*types.Chan)
		if !ok {
			return nil
		}
		if !types.Identical(ch.Elem(), curr.Elem()) {
			return nil // channel elements are not identical.
		}
		if ch.Dir() == types.SendRecv {
			// ch is bidirectional. We can safely always use curr's direction.
			ch = curr
		} else if curr.Dir() != types.SendRecv && ch.Dir() != curr.Dir() {
			// ch and curr are not bidirectional and not the same direction.
			return nil
		}
	}
	return ch
}

// NormalTerms returns a slice of terms representing the normalized structural
// type restrictions of a type, if any.
//
// For all types other than *types.TypeParam, *types.Interface, and
// *types.Union, this is just a single term with Tilde() == false and
// Type() == typ. For *types.TypeParam, *types.Interface, and *types.Union, see
// below.
//
// Structural type restrictions of a type parameter are created via
// non-interface types embedded in its constraint interface (directly, or via a
// chain of interface embeddings). For example, in the declaration type
// T[P interface{~int; m()}] int the structural restriction of the type
// parameter P is ~int.
//
// With interface embedding and unions, the specification of structural type
// restrictions may be arbitrarily complex. For example, consider the
// following:
//
//	type A interface{ ~string|~[]byte }
//
//	type B interface{ int|string }
//
//	type C interface { ~string|~int }
//
//	type T[P interface{ A|B; C }] int
//
// In this example, the structural type restriction of P is ~string|int: A|B
// expands to ~string|~[]byte|int|string, which reduces to ~string|~[]byte|int,
// which when intersected with C (~string|~int) yields ~string|int.
//
// NormalTerms computes these expansions and reductions, producing a
// "normalized" form of the embeddings. A structural restriction is normalized
// if it is a single union containing no interface terms, and is minimal in the
// sense that removing any term changes the set of types satisfying the
// constraint. It is left as a proof for the reader that, modulo sorting, there
// is exactly one such normalized form.
//
// Because the minimal representation always takes this form, NormalTerms
// returns a slice of tilde terms corresponding to the terms of the union in
// the normalized structural restriction. An error is returned if the type is
// invalid, exceeds complexity bounds, or has an empty type set. In the latter
// case, NormalTerms returns ErrEmptyTypeSet.
//
// NormalTerms makes no guarantees about the order of terms, except that it
// is deterministic.
func NormalTerms(typ types.Type) ([]*types.Term, error) {
	switch typ := typ.Underlying().(type) {
	case *types.TypeParam:
		return StructuralTerms(typ)
	case *types.Union:
		return UnionTermSet(typ)
	case *types.Interface:
		return InterfaceTermSet(typ)
	default:
		return []*types.Term{types.NewTerm(false, typ)}, nil
	}
}

// Deref returns the type of the variable pointed to by t,
// if t's core type is a pointer; otherwise it returns t.
//
// Do not assume that Deref(T)==T implies T is not a pointer:
// consider "type T *T", for example.
//
// TODO(adonovan): ideally this would live in typesinternal, but that
// creates an import cycle. Move there when we melt this package down.
func Deref(t types.Type) types.Type {
	if ptr, ok := CoreType(t).(*types.Pointer); ok {
		return ptr.Elem()
	}
	return t
}

// MustDeref returns the type of the variable pointed to by t.
// It panics if t's core type is not a pointer.
//
// TODO(adonovan): ideally this would live in typesinternal, but that
// creates an import cycle. Move there when we melt this package down.
func MustDeref(t types.Type) types.Type {
	if ptr, ok := CoreType(t).(*types.Pointer); ok {
		return ptr.Elem()
	}
	panic(fmt.Sprintf("%v is not a pointer", t))
}
