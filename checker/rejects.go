package main

// E8 — rejection census. "Accepted exactly when well-formed" has two directions; the schema engine (E2) and the
// guard rules decide what a decoder reads and that it stops on short input. This engine enumerates the places where
// a decoder of the decode closure *creates* an error (as opposed to handing on its callee's or the Lexer's) together
// with the condition guarding it, and compares them with the reviewed table spec/rejects.json. A rejection that is
// not in the table turns a well-formed input into an error; a rejection of the table that disappeared accepts a
// malformed one.

import (
	"encoding/json"
	"fmt"
	"go/token"
	"go/types"
	"os"
	"path/filepath"
	"sort"
	"strings"

	"golang.org/x/tools/go/ssa"
)

// explicitErr: v is an error created here (not the result of a decoder/Lexer call, not a parameter)
func explicitErr(v ssa.Value, inClosure map[*ssa.Function]bool, depth int) bool {
	if depth > 4 {
		return false
	}
	switch x := v.(type) {
	case *ssa.Const:
		return false
	case *ssa.Parameter, *ssa.FreeVar:
		return false
	case *ssa.Extract:
		return explicitErr(x.Tuple, inClosure, depth+1)
	case *ssa.Call:
		cc := x.Common()
		if cc.IsInvoke() {
			return false
		}
		sf := cc.StaticCallee()
		if sf == nil {
			return false
		}
		if inUio(sf) {
			return false
		}
		if inModule(sf) {
			// an error constructor of the module: every return creates its error (errorf-style helpers)
			if sf.Blocks == nil || depth > 2 {
				return false
			}
			rs := returnsOf(sf)
			if len(rs) == 0 {
				return false
			}
			for _, r := range rs {
				if len(r.Results) == 0 || !explicitErr(r.Results[len(r.Results)-1], inClosure, depth+1) {
					return false
				}
			}
			return true
		}
		return true // fmt.Errorf, errors.New, …
	case *ssa.MakeInterface:
		return true
	case *ssa.UnOp:
		if _, ok := x.X.(*ssa.Global); ok {
			return true
		}
		return false
	case *ssa.ChangeInterface:
		return explicitErr(x.X, inClosure, depth+1)
	}
	return false
}

// guardsOf: the conditions on the edges entering b, ascending through unconditional jumps
func guardsOf(b *ssa.BasicBlock, depth int, seen map[*ssa.BasicBlock]bool) []string {
	return guardsOfX(b, depth, seen, false)
}

// rejectsAtOnce: the block returns a non-nil error without doing anything else (the body of `if bad { return err }`)
func rejectsAtOnce(b *ssa.BasicBlock) bool {
	if len(b.Instrs) == 0 {
		return false
	}
	ret, ok := b.Instrs[len(b.Instrs)-1].(*ssa.Return)
	if !ok || len(ret.Results) == 0 {
		return false
	}
	last := ret.Results[len(ret.Results)-1]
	if !isErrorType(last.Type()) || isNilConst(last) {
		return false
	}
	for _, in := range b.Instrs {
		if _, isStore := in.(*ssa.Store); isStore {
			if _, local := in.(*ssa.Store).Addr.(*ssa.IndexAddr); !local {
				return false
			}
		}
	}
	return true
}

// guardsOfX: with skipComplements, the edge that merely survives an immediate rejection (`if bad { return err }` not
// taken) is not a condition of what follows: the rejection itself is in the rejection census
func guardsOfX(b *ssa.BasicBlock, depth int, seen map[*ssa.BasicBlock]bool, skipComplements bool) []string {
	if depth > 6 || seen[b] {
		return nil
	}
	seen[b] = true
	var out []string
	if len(b.Preds) == 0 {
		return []string{"always"}
	}
	for _, p := range b.Preds {
		if iff := ifOf(p); iff != nil && len(p.Succs) == 2 && p.Succs[0] != p.Succs[1] {
			pol := p.Succs[0] == b
			if skipComplements {
				other := p.Succs[1]
				if !pol {
					other = p.Succs[0]
				}
				if rejectsAtOnce(other) {
					out = append(out, guardsOfX(p, depth+1, seen, skipComplements)...)
					continue
				}
			}
			inner, same := unwrapBool(iff.Cond)
			if !same {
				pol = !pol
			}
			if hs := helperGuards(inner, pol, depth); hs != nil {
				out = append(out, hs...)
				continue
			}
			out = append(out, guardText(inner, pol))
			continue
		}
		out = append(out, guardsOfX(p, depth+1, seen, skipComplements)...)
	}
	return out
}

func rejectCensus(p *Prog) map[string][]string {
	var roots []*ssa.Function
	for f := range decodeEntries(p) {
		roots = append(roots, f)
	}
	sortFuncs(roots)
	funcs := closureOf(p, roots)
	in := map[*ssa.Function]bool{}
	for _, f := range funcs {
		in[f] = true
	}
	out := map[string][]string{}
	for _, f := range funcs {
		if inUio(f) || !inModule(f) {
			continue
		}
		res := f.Signature.Results()
		if res.Len() == 0 || !isErrorType(res.At(res.Len()-1).Type()) {
			continue
		}
		ei := res.Len() - 1
		var gs []string
		add := func(b *ssa.BasicBlock) {
			g := guardsOf(b, 0, map[*ssa.BasicBlock]bool{})
			sort.Strings(g)
			g = dedupeSorted(g)
			gs = append(gs, strings.Join(g, " | "))
		}
		for _, r := range returnsOf(f) {
			if ei >= len(r.Results) {
				continue
			}
			v := r.Results[ei]
			if ph, ok := v.(*ssa.Phi); ok {
				for i, e := range ph.Edges {
					if explicitErr(e, in, 0) && i < len(ph.Block().Preds) {
						// the error is created on the way in over this edge
						pb := ph.Block().Preds[i]
						if iff := ifOf(pb); iff != nil {
							// edge of a conditional: the guard is that edge
							pol := pb.Succs[0] == ph.Block()
							inner, same := unwrapBool(iff.Cond)
							if !same {
								pol = !pol
							}
							gs = append(gs, guardText(inner, pol))
						} else {
							add(pb)
						}
					}
				}
				continue
			}
			if explicitErr(v, in, 0) {
				add(r.Block())
			}
		}
		if len(gs) > 0 {
			sort.Strings(gs)
			out[shortName(f)] = gs
		}
	}
	return out
}

func cmdRejects(args []string) int {
	repo := "/repo"
	if len(args) > 0 {
		repo = args[0]
	}
	p, err := Load(repo, BuildConfig{"linux", "amd64"}, false)
	if err != nil {
		fmt.Fprintln(os.Stderr, err)
		return 2
	}
	b, _ := json.MarshalIndent(map[string]interface{}{
		"_comment": "explicit rejections (errors created, not handed on) of every decoder in the decode closure with their guarding condition; generated by `dhcpverif rejects`, reviewed against the RFC layout rules once",
		"rejects":  fullCensus(p)}, "", " ")
	fmt.Println(string(b))
	return 0
}

func e8CheckRejects(c *Ctx, rule string, sel func(name string) bool, minN int) {
	r := c.R
	b, err := os.ReadFile(filepath.Join(c.Verif, "spec", "rejects.json"))
	if err != nil {
		r.Undecided(rule, "spec/rejects.json", "-", err.Error())
		return
	}
	var f struct {
		Rejects map[string][]string `json:"rejects"`
	}
	if err := json.Unmarshal(b, &f); err != nil {
		r.Undecided(rule, "spec/rejects.json", "-", err.Error())
		return
	}
	cur := fullCensus(c.P)
	names := map[string]bool{}
	for k := range cur {
		names[k] = true
	}
	for k := range f.Rejects {
		names[k] = true
	}
	var keys []string
	for k := range names {
		if sel(k) {
			keys = append(keys, k)
		}
	}
	sort.Strings(keys)
	n := 0
	for _, k := range keys {
		want, got := append([]string{}, f.Rejects[k]...), append([]string{}, cur[k]...)
		n += len(got)
		cnt := map[string]int{}
		for _, w := range want {
			cnt[w]++
		}
		var extra, missing []string
		for _, g := range got {
			if cnt[g] > 0 {
				cnt[g]--
			} else {
				extra = append(extra, g)
			}
		}
		for w, k2 := range cnt {
			for i := 0; i < k2; i++ {
				missing = append(missing, w)
			}
		}
		sort.Strings(missing)
		pos := "-"
		for _, fn := range c.P.ModuleFuncs() {
			if shortName(fn) == k {
				pos = c.P.pos(fn.Pos())
			}
		}
		if len(extra) == 0 && len(missing) == 0 {
			r.OK(rule, k+": rejections equal the reviewed set", pos, "E8 census", fmt.Sprintf("%d rejections", len(got)))
			continue
		}
		var d []string
		for _, e := range extra {
			if strings.HasPrefix(e, "set ") {
				d = append(d, e+" — a field store under a condition that is not in the reviewed set: the decoded value no longer equals what the layout says for some inputs")
				continue
			}
			d = append(d, "rejects when "+e+" — not among the reviewed rejections: an input the layout rules accept becomes an error")
		}
		for _, m := range missing {
			if strings.HasPrefix(m, "set ") {
				d = append(d, "reviewed conditional store gone or changed: "+m)
				continue
			}
			d = append(d, "no longer rejects when "+m+" — a reviewed rejection disappeared (or its condition changed): a malformed input is accepted")
		}
		r.Violation(rule, k+": rejections equal the reviewed set", pos, strings.Join(d, "\n    "))
	}
	r.Count(rule+"-rejections", n)
	r.Expect(rule+"-rejections", minN)
}

// canonIntCmp: an integer comparison in additive normal form: all terms on one side, constants folded,
// `a > b` as `a-b-1 >= 0`; so `pos+1 >= len` and `pos+1+1 > len` are the same guard.
func canonIntCmp(b *ssa.BinOp, pol bool) (string, bool) {
	switch b.Op {
	case token.LSS, token.LEQ, token.GTR, token.GEQ, token.EQL, token.NEQ:
	default:
		return "", false
	}
	isInt := func(v ssa.Value) bool {
		bt, ok := v.Type().Underlying().(*types.Basic)
		return ok && bt.Info()&types.IsInteger != 0
	}
	if !isInt(b.X) || !isInt(b.Y) {
		return "", false
	}
	terms := map[string]int64{}
	var k int64
	var walk func(v ssa.Value, sign int64, d int)
	walk = func(v ssa.Value, sign int64, d int) {
		if c, ok := intConst(v); ok {
			k += sign * c
			return
		}
		if bo, ok := v.(*ssa.BinOp); ok && d < 8 {
			switch bo.Op {
			case token.ADD:
				walk(bo.X, sign, d+1)
				walk(bo.Y, sign, d+1)
				return
			case token.SUB:
				walk(bo.X, sign, d+1)
				walk(bo.Y, -sign, d+1)
				return
			}
		}
		if cv, ok := v.(*ssa.Convert); ok && isInt(cv.X) && d < 8 {
			// widening conversions keep the value; narrowing ones are kept as a leaf
			if sizeofBasic(cv.X.Type().Underlying().(*types.Basic)) <= sizeofBasic(cv.Type().Underlying().(*types.Basic)) {
				walk(cv.X, sign, d+1)
				return
			}
		}
		terms[censusLeaf(v)] += sign
	}
	op := b.Op
	if !pol {
		switch op {
		case token.LSS:
			op = token.GEQ
		case token.LEQ:
			op = token.GTR
		case token.GTR:
			op = token.LEQ
		case token.GEQ:
			op = token.LSS
		case token.EQL:
			op = token.NEQ
		case token.NEQ:
			op = token.EQL
		}
	}
	// bring to  X - Y (+adj) REL 0  with REL in {>=, ==, !=}
	switch op {
	case token.GTR: // x > y  ≡ x-y-1 >= 0
		walk(b.X, 1, 0)
		walk(b.Y, -1, 0)
		k--
	case token.GEQ:
		walk(b.X, 1, 0)
		walk(b.Y, -1, 0)
	case token.LSS: // x < y ≡ y-x-1 >= 0
		walk(b.Y, 1, 0)
		walk(b.X, -1, 0)
		k--
	case token.LEQ:
		walk(b.Y, 1, 0)
		walk(b.X, -1, 0)
	case token.EQL, token.NEQ:
		walk(b.X, 1, 0)
		walk(b.Y, -1, 0)
	}
	var names []string
	for t, n := range terms {
		if n != 0 {
			names = append(names, t)
		}
	}
	sort.Strings(names)
	if op == token.EQL || op == token.NEQ {
		// sign-normalise: first term positive
		if len(names) > 0 && terms[names[0]] < 0 {
			for t := range terms {
				terms[t] = -terms[t]
			}
			k = -k
		} else if len(names) == 0 && k < 0 {
			k = -k
		}
	}
	var sb strings.Builder
	for _, t := range names {
		n := terms[t]
		switch {
		case n == 1:
			sb.WriteString("+" + t)
		case n == -1:
			sb.WriteString("-" + t)
		default:
			sb.WriteString(fmt.Sprintf("%+d*%s", n, t))
		}
	}
	if k != 0 {
		sb.WriteString(fmt.Sprintf("%+d", k))
	}
	rel := ">=0"
	if op == token.EQL {
		rel = "==0"
	} else if op == token.NEQ {
		rel = "!=0"
	}
	return "(" + sb.String() + rel + ")", true
}

func guardText(inner ssa.Value, pol bool) string {
	if b, ok := inner.(*ssa.BinOp); ok {
		if s, ok := canonIntCmp(b, pol); ok {
			return s
		}
	}
	// buf.Has(k) on a Lexer built over a parameter before anything was read from it is `len(param) >= k`: the same
	// rejection as a decoder that tests the length of its argument itself
	if cl, ok := inner.(*ssa.Call); ok && cl.Call.StaticCallee() != nil && inUio(cl.Call.StaticCallee()) && cl.Call.StaticCallee().Name() == "Has" && len(cl.Call.Args) == 2 {
		if k, isK := intConst(cl.Call.Args[1]); isK {
			if p := lexerParamIfUnread(cl); p != nil {
				if pol {
					return fmt.Sprintf("(+len(%s)-%d>=0)", shortDesc(p, 5), k)
				}
				return fmt.Sprintf("(-len(%s)+%d>=0)", shortDesc(p, 5), k-1)
			}
		}
	}
	return canonCond(shortDesc(inner, 5), pol)
}

// censusLeaf: leaf of a guard; the length of a collection that is not a parameter is named by the collection's
// type (a field and the local it is assembled in are the same thing for the guard)
func censusLeaf(v ssa.Value) string {
	if cl, ok := v.(*ssa.Call); ok && isBuiltinCall(cl.Common(), "len") && len(cl.Call.Args) == 1 {
		a := cl.Call.Args[0]
		for {
			if u, ok := a.(*ssa.UnOp); ok && u.Op == token.MUL {
				if _, isFA := u.X.(*ssa.FieldAddr); isFA {
					return "len(" + types.TypeString(a.Type(), shortQual) + ")"
				}
			}
			if ct, ok := a.(*ssa.ChangeType); ok {
				a = ct.X
				continue
			}
			break
		}
		if _, isPhi := a.(*ssa.Phi); isPhi {
			return "len(" + types.TypeString(a.Type(), shortQual) + ")"
		}
	}
	// buf.Len() of a Lexer built over a parameter and not yet read from is len(param)
	if cl, ok := v.(*ssa.Call); ok && cl.Call.StaticCallee() != nil && inUio(cl.Call.StaticCallee()) && cl.Call.StaticCallee().Name() == "Len" && len(cl.Call.Args) == 1 {
		if p := lexerParamIfUnread(cl); p != nil {
			return "len(" + shortDesc(p, 5) + ")"
		}
	}
	// a counter proven to equal the length of the join of the pieces collected so far (accpair.go) is the length of the
	// string a concatenating decoder would hold
	if ph, ok := v.(*ssa.Phi); ok && joinedLenCounter(ph) {
		return "len(string)"
	}
	return shortDesc(v, 5)
}

// helperGuards: the condition `g(args) is pol` for an unexported boolean function g of the module, as the guards
// under which g returns pol, in the caller's terms — a test moved into a predicate helper is the same rejection
func helperGuards(v ssa.Value, pol bool, depth int) []string {
	cl, ok := v.(*ssa.Call)
	if !ok || depth > 3 {
		return nil
	}
	g := cl.Call.StaticCallee()
	if g == nil || g.Blocks == nil || !inModule(g) || token.IsExported(g.Name()) || g.Signature.Recv() != nil || g.Signature.Results().Len() != 1 || len(g.Blocks) > 8 {
		return nil
	}
	if bt, ok := g.Signature.Results().At(0).Type().Underlying().(*types.Basic); !ok || bt.Kind() != types.Bool {
		return nil
	}
	if len(cl.Call.Args) != len(g.Params) {
		return nil
	}
	// descriptions of the arguments in the caller's terms
	sub := map[ssa.Value]string{}
	for i, p := range g.Params {
		sub[p] = shortDesc(cl.Call.Args[i], 5)
	}
	saved := sdSubst
	merged := map[ssa.Value]string{}
	for k, s := range saved {
		merged[k] = s
	}
	for k, s := range sub {
		merged[k] = s
	}
	sdSubst = merged
	defer func() { sdSubst = saved }()
	var out []string
	edgeGuard := func(pb, to *ssa.BasicBlock) []string {
		if iff := ifOf(pb); iff != nil && len(pb.Succs) == 2 && pb.Succs[0] != pb.Succs[1] {
			p2 := pb.Succs[0] == to
			inner, same := unwrapBool(iff.Cond)
			if !same {
				p2 = !p2
			}
			if hs := helperGuards(inner, p2, depth+1); hs != nil {
				return hs
			}
			return []string{guardText(inner, p2)}
		}
		return guardsOf(pb, depth+1, map[*ssa.BasicBlock]bool{})
	}
	for _, r := range returnsOf(g) {
		rv := r.Results[0]
		if k, isK := boolConst(rv); isK {
			if k == pol {
				out = append(out, guardsOf(r.Block(), depth+1, map[*ssa.BasicBlock]bool{})...)
			}
			continue
		}
		inner, same := unwrapBool(rv)
		want := pol
		if !same {
			want = !pol
		}
		if ph, isPhi := inner.(*ssa.Phi); isPhi && ph.Block() == r.Block() {
			for i, e := range ph.Edges {
				if i >= len(ph.Block().Preds) {
					continue
				}
				if k, isK := boolConst(e); isK {
					if k == want {
						out = append(out, edgeGuard(ph.Block().Preds[i], ph.Block())...)
					}
					continue
				}
				ei, es := unwrapBool(e)
				w2 := want
				if !es {
					w2 = !want
				}
				if hs := helperGuards(ei, w2, depth+1); hs != nil {
					out = append(out, hs...)
				} else {
					out = append(out, guardText(ei, w2))
				}
			}
			continue
		}
		if hs := helperGuards(inner, want, depth+1); hs != nil {
			out = append(out, hs...)
		} else {
			out = append(out, guardText(inner, want))
		}
	}
	if len(out) == 0 {
		return nil
	}
	return out
}

// storeCensus: for every decoder method of the decode closure, the receiver-field stores that happen only under a
// value test (not merely after an error check), with that test: `set F when G`. A decoded field that is left out,
// or replaced by another value, under a new condition no longer equals what an RFC decoder reads.
func storeCensus(p *Prog) map[string][]string {
	var roots []*ssa.Function
	for f := range decodeEntries(p) {
		roots = append(roots, f)
	}
	sortFuncs(roots)
	out := map[string][]string{}
	for _, f := range closureOf(p, roots) {
		if inUio(f) || !inModule(f) || f.Signature.Recv() == nil || len(f.Params) == 0 {
			continue
		}
		if _, isPtr := f.Params[0].Type().Underlying().(*types.Pointer); !isPtr {
			continue
		}
		recv := ssa.Value(f.Params[0])
		var ls []string
		allInstrs(f, func(in ssa.Instruction) {
			st, ok := in.(*ssa.Store)
			if !ok {
				return
			}
			fa, ok := st.Addr.(*ssa.FieldAddr)
			if !ok {
				return
			}
			root := fa.X
			path := derefStruct(fa.X.Type()).Field(fa.Field).Name()
			for {
				if f2, ok := root.(*ssa.FieldAddr); ok {
					path = derefStruct(f2.X.Type()).Field(f2.Field).Name() + "." + path
					root = f2.X
					continue
				}
				break
			}
			if root != recv {
				return
			}
			gs := guardsOfX(st.Block(), 0, map[*ssa.BasicBlock]bool{}, true)
			var keep []string
			for _, g := range gs {
				if g == "always" || strings.Contains(g, ":error)") {
					continue
				}
				// a Lexer progress test (the condition of a `for buf.Has(k)` loop around an append) is not a test of a
				// value read from the wire: where the loop lives (here or in a helper that gets the Lexer) changes nothing
				if strings.Contains(g, ".Has()") || strings.Contains(g, "Buffer.Len()") {
					continue
				}
				keep = append(keep, g)
			}
			if len(keep) == 0 {
				return
			}
			sort.Strings(keep)
			keep = dedupeSorted(keep)
			val := "value"
			if isNilConst(st.Val) {
				val = "nil"
			}
			ls = append(ls, "set "+path+" := "+val+" when "+strings.Join(keep, " | "))
		})
		if len(ls) > 0 {
			sort.Strings(ls)
			out[shortName(f)] = ls
		}
	}
	return out
}

// fullCensus: explicit rejections plus conditional receiver-field stores, per decoder
func fullCensus(p *Prog) map[string][]string {
	out := rejectCensus(p)
	for k, v := range storeCensus(p) {
		out[k] = append(out[k], v...)
		sort.Strings(out[k])
	}
	return out
}

// lexerParamIfUnread: the Has call's Lexer was constructed over a parameter and no read of that Lexer can precede the
// call: that parameter, else nil
func lexerParamIfUnread(has *ssa.Call) ssa.Value {
	lexv := has.Call.Args[0]
	// buf.Buffer.Has: the embedded *Buffer loaded from the Lexer
	root := lexv
	if u, ok := root.(*ssa.UnOp); ok && u.Op == token.MUL {
		if fa, ok := u.X.(*ssa.FieldAddr); ok {
			root = fa.X
		}
	}
	mk, ok := root.(*ssa.Call)
	if !ok || mk.Call.StaticCallee() == nil || !inUio(mk.Call.StaticCallee()) || !strings.HasPrefix(mk.Call.StaticCallee().Name(), "New") || len(mk.Call.Args) < 1 {
		return nil
	}
	prm, ok := mk.Call.Args[0].(*ssa.Parameter)
	if !ok {
		return nil
	}
	f := has.Parent()
	reach := map[*ssa.BasicBlock]bool{}
	for _, b := range f.Blocks {
		if reachFrom(b, nil, nil)[has.Block()] {
			reach[b] = true
		}
	}
	unread := true
	allInstrs(f, func(in ssa.Instruction) {
		cl, ok := in.(*ssa.Call)
		if !ok || cl == has || cl.Call.StaticCallee() == nil || !inUio(cl.Call.StaticCallee()) || len(cl.Call.Args) == 0 {
			return
		}
		switch n := cl.Call.StaticCallee().Name(); {
		case strings.HasPrefix(n, "Read"), n == "Consume", n == "CopyN":
		default:
			return
		}
		r0 := cl.Call.Args[0]
		if u, ok := r0.(*ssa.UnOp); ok && u.Op == token.MUL {
			if fa, ok := u.X.(*ssa.FieldAddr); ok {
				r0 = fa.X
			}
		}
		if r0 != root {
			return
		}
		if cl.Block() == has.Block() {
			if instrIndex(cl) < instrIndex(has) {
				unread = false
			}
			return
		}
		if reach[cl.Block()] {
			unread = false
		}
	})
	if !unread {
		return nil
	}
	return prm
}
