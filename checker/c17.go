package main

import "strings"

func checkC17(c *Ctx) {
	e1CheckConstants(c, "C17-K6", []string{"dhcpv4.", "iana.Arch", "iana.HWType"}, 200)
	byteOrderRule(c, "C17-K7", []string{"dhcpv4", "iana", "rfc1035label"}, 10)
	e8CheckRejects(c, "C17-K8", func(n string) bool {
		return strings.Contains(n, "dhcpv4.") || strings.Contains(n, "iana.") || strings.Contains(n, "rfc1035label.")
	}, 10)
	r := c.R
	r.Decides = append(r.Decides,
		"K4 codec symmetry and RFC layout of each DHCPv4 option value type (E2 rows: RFC 2132 §3–9, 3442, 3004, 3925, 4578)")
	r.NotDecided = append(r.NotDecided, "value correctness of net.CIDRMask etc. beyond guards; string trimming semantics")
	e2CheckLayouts(c, "C17-K4", isV4Value, 30)
	c17Accessors(c)
	containerRules(c, "C17-K10", "4")
	c17Ctors(c)
	// set-then-get of the domain search list depends on the label set's re-emission rule (shared with C19-K1)
	c19Rule = "C17-K1"
	c19ToBytes(c)
	c19Same(c)
	c19Rule = "C19-K1"
	// DomainSearch() is what the label decoder makes of option 119: its state machine (zero = end of name, top bits =
	// pointer, 14-bit offset from two octets, start at offset 0) is judged here too (shared C19-K2/K3)
	c19Decoder(c)
}
