// Copyright 2023 The Go Authors. All rights reserved.
// Use of this source code is governed by a BSD-style
// license that can be found in the LICENSE file.

package astutil

import (
	"go/ast"
	"reflect"
)

// CloneNode returns a deep copy of a Node.
// It omits pointers to ast.{Scope,Object} variables.
func CloneNode[T ast.Node](n T) T {
	return cloneNode(n).(T)
}

func cloneNode(n ast.Node) ast.Node {
	var clone func(x reflect.Value) reflect.Value
	set := func(dst, src reflect.Value) {
		src = clone(src)
		if src.IsValid() {
			dst.Set(src)
		}
	}
	clone = func(x reflect.Value) reflect.Value {
		switch x.Kind() {
		case reflect.Ptr:
			if x.IsNil() {
				return x
			}
			// Skip fields of types potentially involved in cycles.
			switch x.Interface().(type) {
			case *ast.Object, *ast.Scope:
				return reflect.Zero(x.Type())
			}
			y := reflect.New(x.Type().Elem())
			set(y.Elem(), x.Elem())
			return y

		case reflect.Struct:
			y := reflect.New(x.Type()).Elem()
			for i := 0; i < x.Type().NumField(); i++ {
				set(y.Field(i), x.Field(i))
			}
			return y

		case reflect.Slice:
			if x.IsNil() {
				return x
			}
			y := reflect.MakeSlice(x.Type(), x.Len(), x.Cap())
			for i := 0; i < x.Len(); i++ {
				set(y.Index(i), x.Index(i))
			}
			return y

		case reflect.Interface:
			y := reflect.New(x.Type()).Elem()
			set(y, x.Elem())
			return y

		case reflect.Array, reflect.Chan, reflect.Func, reflect.Map, reflect.UnsafePointer:
			panic(x) // unreachable in AST

		default:
			return x // bool, string, number
		}
	}
	return clone(reflect.ValueOf(n)).Interface().(ast.Node)
}
