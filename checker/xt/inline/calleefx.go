// Copyright 2023 The Go Authors. All rights reserved.
// Use of this source code is governed by a BSD-style
// license that can be found in the LICENSE file.

package inline

// This file defines the analysis of callee effects.

import (
	"go/ast"
	"go/token"
	"go/types"
)

const (
	rinf = -1 //  R∞: arbitrary read from memory
	winf = -2 //  W∞: arbitrary write to memory (or unknown control)
)

// calleefx returns a list of parameter indices indicating the order
// in which parameters are first referenced during evaluation of the
// callee, relative both to each other and to other effects of the
// callee (if any), such as arbitrary reads (rinf) and arbitrary
// effects (winf), including unknown control flow. Each parameter
// that is referenced appears once in the list.
//
// For example, the effects list of this function:
//
//	func f(x, y, z int) int {
//	    return y + x + g() + z
//	}
//
// is [1 0 -2 2], indicating reads of y and x, followed by the unknown
// effects of the g() call. and finally the read of parameter z. This
// information is used during inlining to ascertain when it is safe
// for parameter references to be replaced by their corresponding
// argument expressions. Such substitutions are permitted only when
// they do not cause "write" operations (those with effects) to
// commute with "read" operations (those that have no effect but are
// not pure). Impure operations may be reordered with other impure
// operations, and pure operations may be reordered arbitrarily.
//
// The analysis ignores the effects of runtime panics, on the
// assumption that well-behaved programs shouldn't encounter them.
func calleefx(info *types.Info, body *ast.BlockStmt, paramInfos map[*types.Var]*paramInfo) []int {
	// This traversal analyzes the callee's statements (in syntax
	// form, though one could do better with SSA) to compute the
	// sequence of events of the following kinds:
	//
	// 1  read of a parameter variable.
	// 2. reads from other memory.
	// 3. writes to memory

	var effects []int // indices of parameters, or rinf/winf (-ve)
	seen := make(map[int]bool)
	effect := func(i int) {
		if !seen[i] {
			seen[i] = true
			effects = append(effects, i)
		}
	}

	// unknown is called for statements of unknown effects (or control).
	unknown := func() {
		effect(winf)

		// Ensure that all remaining parameters are "seen"
		// after we go into the unknown (unless they are
		// unreferenced by the function body). This lets us
		// not bother implementing the complete traversal into
		// control structures.
		//
		// TODO(adonovan): add them in a deterministic order.
		// (This is not a bug but determinism is good.)
		for _, pinfo := range paramInfos {
			if !pinfo.IsResult && len(pinfo.Refs) > 0 {
				effect(pinfo.Index)
			}
		}
	}

	var visitExpr func(n ast.Expr)
	var visitStmt func(n ast.Stmt) bool
	visitExpr = func(n ast.Expr) {
		switch n := n.(type) {
		case *ast.Ident:
			if v, ok := info.Uses[n].(*types.Var); ok && !v.IsField() {
				// Use of global?
				if v.Parent() == v.Pkg().Scope() {
					effect(rinf) // read global var
				}

				// Use of parameter?
				if pinfo, ok := paramInfos[v]; ok && !pinfo.IsResult {
					effect(pinfo.Index) // read parameter var
				}

				// Use of local variables is ok.
			}

		case *ast.BasicLit:
			// no effect

		case *ast.FuncLit:
			// A func literal has no read or write effect
			// until called, and (most) function calls are
			// considered to have arbitrary effects.
			// So, no effect.

		case *ast.CompositeLit:
			for _, elt := range n.Elts {
				visitExpr(elt) // note: visits KeyValueExpr
			}

		case *ast.ParenExpr:
			visitExpr(n.X)

		case *ast.SelectorExpr:
			if seln, ok := info.Selections[n]; ok {
				visitExpr(n.X)

				// See types.SelectionKind for background.
				switch seln.Kind() {
				case types.MethodExpr:
					// A method expression T.f acts like a
					// reference to a func decl,
					// so it doesn't read x until called.

				case types.MethodVal, types.FieldVal:
					// A field or method value selection x.f
					// reads x if the selection indirects a pointer.

					if indirectSelection(seln) {
						effect(rinf)
					}
				}
			} else {
				// qualified identifier: treat like unqualified
				visitExpr(n.Sel)
			}

		case *ast.IndexExpr:
			if tv := info.Types[n.Index]; tv.IsType() {
				// no effect (G[T] instantiation)
			} else {
				visitExpr(n.X)
				visitExpr(n.Index)
				switch tv.Type.Underlying().(type) {
				case *types.Slice, *types.Pointer: // []T, *[n]T (not string, [n]T)
					effect(rinf) // indirect read of slice/array element
				}
			}

		case *ast.IndexListExpr:
			// no effect (M[K,V] instantiation)

		case *ast.SliceExpr:
			visitExpr(n.X)
			visitExpr(n.Low)
			visitExpr(n.High)
			visitExpr(n.Max)

		case *ast.TypeAssertExpr:
			visitExpr(n.X)

		case *ast.CallExpr:
			if info.Types[n.Fun].IsType() {
				// conversion T(x)
				visitExpr(n.Args[0])
			} else {
				// call f(args)
				visitExpr(n.Fun)
				for i, arg := range n.Args {
					if i == 0 && info.Types[arg].IsType() {
						continue // new(T), make(T, n)
					}
					visitExpr(arg)
				}

				// The pure built-ins have no effects beyond
				// those of their operands (not even memory reads).
				// All other calls have unknown effects.
				if !callsPureBuiltin(info, n) {
					unknown() // arbitrary effects
				}
			}

		case *ast.StarExpr:
			visitExpr(n.X)
			effect(rinf) // *ptr load or store depends on state of heap

		case *ast.UnaryExpr: // + - ! ^ & ~ <-
			visitExpr(n.X)
			if n.Op == token.ARROW {
				unknown() // effect: channel receive
			}

		case *ast.BinaryExpr:
			visitExpr(n.X)
			visitExpr(n.Y)

		case *ast.KeyValueExpr:
			visitExpr(n.Key) // may be a struct field
			visitExpr(n.Value)

		case *ast.BadExpr:
			// no effect

		case nil:
			// optional subtree

		default:
			// type syntax: unreachable given traversal
			panic(n)
		}
	}

	// visitStmt's result indicates the continuation:
	// false for return, true for the next statement.
	//
	// We could treat return as an unknown, but this way
	// yields definite effects for simple sequences like
	// {S1; S2; return}, so unreferenced parameters are
	// not spuriously added to the effects list, and thus
	// not spuriously disqualified from elimination.
	visitStmt = func(n ast.Stmt) bool {
		switch n := n.(type) {
		case *ast.DeclStmt:
			decl := n.Decl.(*ast.GenDecl)
			for _, spec := range decl.Specs {
				switch spec := spec.(type) {
				case *ast.ValueSpec:
					for _, v := range spec.Values {
						visitExpr(v)
					}

				case *ast.TypeSpec:
					// no effect
				}
			}

		case *ast.LabeledStmt:
			return visitStmt(n.Stmt)

		case *ast.ExprStmt:
			visitExpr(n.X)

		case *ast.SendStmt:
			visitExpr(n.Chan)
			visitExpr(n.Value)
			unknown() // effect: channel send

		case *ast.IncDecStmt:
			visitExpr(n.X)
			unknown() // effect: variable increment

		case *ast.AssignStmt:
			for _, lhs := range n.Lhs {
				visitExpr(lhs)
			}
			for _, rhs := range n.Rhs {
				visitExpr(rhs)
			}
			for _, lhs := range n.Lhs {
				id, _ := lhs.(*ast.Ident)
				if id != nil && id.Name == "_" {
					continue // blank assign has no effect
				}
				if n.Tok == token.DEFINE && id != nil && info.Defs[id] != nil {
					continue // new var declared by := has no effect
				}
				unknown() // assignment to existing var
				break
			}

		case *ast.GoStmt:
			visitExpr(n.Call.Fun)
			for _, arg := range n.Call.Args {
				visitExpr(arg)
			}
			unknown() // effect: create goroutine

		case *ast.DeferStmt:
			visitExpr(n.Call.Fun)
			for _, arg := range n.Call.Args {
				visitExpr(arg)
			}
			unknown() // effect: push defer

		case *ast.ReturnStmt:
			for _, res := range n.Results {
				visitExpr(res)
			}
			return false

		case *ast.BlockStmt:
			for _, stmt := range n.List {
				if !visitStmt(stmt) {
					return false
				}
			}

		case *ast.BranchStmt:
			unknown() // control flow

		case *ast.IfStmt:
			visitStmt(n.Init)
			visitExpr(n.Cond)
			unknown() // control flow

		case *ast.SwitchStmt:
			visitStmt(n.Init)
			visitExpr(n.Tag)
			unknown() // control flow

		case *ast.TypeSwitchStmt:
			visitStmt(n.Init)
			visitStmt(n.Assign)
			unknown() // control flow

		case *ast.SelectStmt:
			unknown() // control flow

		case *ast.ForStmt:
			visitStmt(n.Init)
			visitExpr(n.Cond)
			unknown() // control flow

		case *ast.RangeStmt:
			visitExpr(n.X)
			unknown() // control flow

		case *ast.EmptyStmt, *ast.BadStmt:
			// no effect

		case nil:
			// optional subtree

		default:
			panic(n)
		}
		return true
	}
	visitStmt(body)

	return effects
}
