package main

// Normal form of E2 schema strings. Both the extracted schema and the reviewed row of spec/layouts.json
// are normalised before they are compared, so that restructurings without effect on the wire format do
// not differ: the order and nesting of the tests selecting between two values of one slot (De Morgan,
// inverted conditions, swapped branches), rejecting alternatives, `( | loop )` around a loop that may run
// zero times, a conditional break at the start or end of a loop body, and the order of alternatives.

import (
	"sort"
	"strings"
)

type snode struct {
	kind string // slot | loop | alt | tok
	text string
	a, b []*snode
}

// schemaTokens splits on spaces, keeping the pieces of one slot together while square brackets are open
// (merged alternatives "[A : B]" contain spaces).
func schemaTokens(s string) []string {
	var out []string
	cur := ""
	depth := 0
	for _, p := range strings.Split(s, " ") {
		if depth == 0 {
			if p == "" {
				// the empty side of "(  | x )": keep as an explicit empty token only between structure tokens
				continue
			}
			cur = p
		} else {
			cur += " " + p
		}
		depth += strings.Count(p, "[") - strings.Count(p, "]")
		if depth <= 0 {
			depth = 0
			out = append(out, cur)
			cur = ""
		}
	}
	if cur != "" {
		out = append(out, cur)
	}
	return out
}

func parseSchema(s string) []*snode {
	toks := schemaTokens(s)
	pos := 0
	var seq func(stop map[string]bool) []*snode
	seq = func(stop map[string]bool) []*snode {
		var out []*snode
		for pos < len(toks) {
			t := toks[pos]
			if stop[t] {
				return out
			}
			pos++
			switch t {
			case "{":
				body := seq(map[string]bool{"}*": true})
				pos++ // }*
				out = append(out, &snode{kind: "loop", a: body})
			case "(":
				a := seq(map[string]bool{"|": true, ")": true})
				var b []*snode
				if pos < len(toks) && toks[pos] == "|" {
					pos++
					b = seq(map[string]bool{")": true})
				}
				pos++ // )
				out = append(out, &snode{kind: "alt", a: a, b: b})
			default:
				out = append(out, &snode{kind: "slot", text: t})
			}
		}
		return out
	}
	return seq(map[string]bool{})
}

func renderSchema(ns []*snode) string {
	var p []string
	for _, n := range ns {
		switch n.kind {
		case "slot":
			p = append(p, n.text)
		case "loop":
			p = append(p, "{ "+renderSchema(n.a)+" }*")
		case "alt":
			p = append(p, "( "+renderSchema(n.a)+" | "+renderSchema(n.b)+" )")
		}
	}
	return strings.Join(p, " ")
}

func isOnly(ns []*snode, texts ...string) bool {
	if len(ns) != 1 || ns[0].kind != "slot" {
		return false
	}
	for _, t := range texts {
		if ns[0].text == t {
			return true
		}
	}
	return false
}

func normSeq(ns []*snode) []*snode {
	var out []*snode
	for _, n := range ns {
		switch n.kind {
		case "slot":
			// a prefix clamped to a constant, x[:min(len(x), K)], is the two-way choice "K bytes when longer, else all"
			if k, rest, ok := clampSlot(n.text); ok {
				a := []*snode{{kind: "slot", text: normSlot(k + rest)}}
				b := []*snode{{kind: "slot", text: normSlot("var" + strings.Replace(rest, "~cut(var)", "", 1))}}
				if renderSchema(a) > renderSchema(b) {
					a, b = b, a
				}
				out = append(out, &snode{kind: "alt", a: a, b: b})
				continue
			}
			out = append(out, &snode{kind: "slot", text: normSlot(n.text)})
		case "loop":
			body := normSeq(n.a)
			// conditional break at either end of the body
			for len(body) > 0 && isBreakAlt(body[0]) {
				body = body[1:]
			}
			for len(body) > 0 && isBreakAlt(body[len(body)-1]) {
				body = body[:len(body)-1]
			}
			out = append(out, &snode{kind: "loop", a: body})
		case "alt":
			a, b := normSeq(n.a), normSeq(n.b)
			switch {
			case isOnly(a, "RET(err)", "FAIL"):
				out = append(out, b...)
			case isOnly(b, "RET(err)", "FAIL"):
				out = append(out, a...)
			case isOnly(a, "RET(nil)") && loopsThenFin(b):
				// early `return nil` beside a tiling loop (the empty-input shortcut; its guard is judged by the tiling rule C05-K1/C04)
				out = append(out, b...)
			case isOnly(b, "RET(nil)") && loopsThenFin(a):
				out = append(out, a...)
			case len(a) == 0 && len(b) == 1 && b[0].kind == "loop":
				out = append(out, b...)
			case len(b) == 0 && len(a) == 1 && a[0].kind == "loop":
				out = append(out, a...)
			case renderSchema(a) == renderSchema(b):
				out = append(out, a...)
			default:
				if renderSchema(a) > renderSchema(b) {
					a, b = b, a
				}
				out = append(out, &snode{kind: "alt", a: a, b: b})
			}
		}
	}
	return out
}

func isBreakAlt(n *snode) bool {
	if n.kind != "alt" {
		return false
	}
	return (len(n.a) == 0 && isOnly(n.b, "RET(break)")) || (len(n.b) == 0 && isOnly(n.a, "RET(break)"))
}

// normSchemaStr: the normal form used for comparison
func normSchemaStr(s string) string { return renderSchema(normSeq(parseSchema(s))) }

// ---------------------------------------------------------------------------
// slot fields: decision expressions {cond}?[A : B]

type dpath struct {
	lits []string
	leaf string
}

// splitTop: index of sep in s at bracket depth 0 (round, square, curly), or -1
func splitTop(s, sep string) int {
	d := 0
	for i := 0; i < len(s); i++ {
		switch s[i] {
		case '(', '[', '{':
			d++
		case ')', ']', '}':
			d--
		}
		if d == 0 && strings.HasPrefix(s[i:], sep) {
			return i
		}
	}
	return -1
}

// outerParens: s is "(…)" with the first parenthesis closed by the last character
func outerParens(s string) bool {
	if len(s) < 2 || s[0] != '(' || s[len(s)-1] != ')' {
		return false
	}
	d := 0
	for i := 0; i < len(s); i++ {
		switch s[i] {
		case '(':
			d++
		case ')':
			d--
			if d == 0 && i != len(s)-1 {
				return false
			}
		}
	}
	return d == 0
}

// loopsThenFin: zero or more loops followed by RET(fin): on an empty remainder it reads nothing and returns
// the Lexer's (nil) final error
func loopsThenFin(ns []*snode) bool {
	if len(ns) == 0 || !isOnly(ns[len(ns)-1:], "RET(fin)") {
		return false
	}
	for _, n := range ns[:len(ns)-1] {
		if n.kind != "loop" {
			return false
		}
	}
	return true
}

func canonLit(cond string, pol bool) string {
	c := strings.TrimSpace(cond)
	for outerParens(c) {
		c = c[1 : len(c)-1]
	}
	if i := splitTop(c, "!="); i >= 0 {
		c = c[:i] + "==" + c[i+2:]
		pol = !pol
	}
	if i := splitTop(c, "=="); i >= 0 {
		l, r := c[:i], c[i+2:]
		if l > r {
			l, r = r, l
		}
		c = l + "==" + r
	}
	if !pol {
		return "!(" + c + ")"
	}
	return c
}

func decisionPaths(f string, lits []string, out *[]dpath) bool {
	f = strings.TrimSpace(f)
	cond := ""
	rest := f
	if strings.HasPrefix(f, "{") {
		// {cond}?[A : B]
		d := 0
		end := -1
		for i := 0; i < len(f); i++ {
			if f[i] == '{' {
				d++
			} else if f[i] == '}' {
				d--
				if d == 0 {
					end = i
					break
				}
			}
		}
		if end < 0 || !strings.HasPrefix(f[end+1:], "?[") {
			return false
		}
		cond = f[1:end]
		rest = f[end+2:]
	}
	if !strings.HasPrefix(rest, "[") || !strings.HasSuffix(rest, "]") {
		if cond != "" {
			return false
		}
		*out = append(*out, dpath{append([]string{}, lits...), f})
		return true
	}
	inner := rest[1 : len(rest)-1]
	i := splitTop(inner, " : ")
	if i < 0 {
		if cond != "" {
			return false
		}
		*out = append(*out, dpath{append([]string{}, lits...), f})
		return true
	}
	a, b := inner[:i], inner[i+3:]
	if cond == "" {
		// no recorded condition: an unordered choice
		x, y := a, b
		if x > y {
			x, y = y, x
		}
		*out = append(*out, dpath{append([]string{}, lits...), "[" + x + " : " + y + "]"})
		return true
	}
	return decisionPaths(a, append(append([]string{}, lits...), canonLit(cond, true)), out) &&
		decisionPaths(b, append(append([]string{}, lits...), canonLit(cond, false)), out)
}

func normField(f string) string {
	if !strings.Contains(f, "}?[") {
		return f
	}
	var ps []dpath
	if !decisionPaths(f, nil, &ps) || len(ps) < 2 {
		return f
	}
	byLeaf := map[string][]string{}
	for _, p := range ps {
		l := append([]string{}, p.lits...)
		sort.Strings(l)
		l = dropImpliedNil(dedupeSorted(l))
		// literals between constants (an inlined helper called with a literal nil: `nil == nil`, `nil.To16() == nil`):
		// a tautology says nothing, a contradiction makes the path infeasible
		{
			var keep []string
			infeasible := false
			for _, x := range l {
				neg := strings.HasPrefix(x, "!(") && strings.HasSuffix(x, ")")
				core := x
				if neg {
					core = x[2 : len(x)-1]
				}
				if i := strings.Index(core, "=="); i > 0 {
					a, b := core[:i], core[i+2:]
					nilConst := func(t string) bool {
						return strings.HasPrefix(t, "const:nil") && !strings.ContainsAny(t, "()") || strings.HasPrefix(t, "const:nil:") && strings.HasSuffix(t, ".To16()") || strings.HasPrefix(t, "const:nil:") && strings.HasSuffix(t, ".To4()")
					}
					if nilConst(a) && nilConst(b) {
						if neg {
							infeasible = true
						}
						continue
					}
				}
				keep = append(keep, x)
			}
			if infeasible {
				continue
			}
			l = keep
		}
		contra := false
		set := map[string]bool{}
		for _, x := range l {
			set[x] = true
		}
		for _, x := range l {
			if set["!("+x+")"] {
				contra = true
			}
		}
		if contra {
			continue
		}
		byLeaf[p.leaf] = append(byLeaf[p.leaf], strings.Join(l, " & "))
	}
	var leaves []string
	for l := range byLeaf {
		leaves = append(leaves, l)
	}
	sort.Strings(leaves)
	if len(leaves) == 1 {
		return leaves[0]
	}
	// default leaf: most conjunctions, ties → lexicographically last
	def := leaves[0]
	for _, l := range leaves {
		if len(byLeaf[l]) > len(byLeaf[def]) || (len(byLeaf[l]) == len(byLeaf[def]) && l > def) {
			def = l
		}
	}
	var parts []string
	for _, l := range leaves {
		if l == def {
			continue
		}
		cs := byLeaf[l]
		sort.Strings(cs)
		cs = dedupeSorted(cs)
		parts = append(parts, l+" when {"+strings.Join(cs, " | ")+"}")
	}
	return "<" + strings.Join(parts, "; ") + "; else " + def + ">"
}

// dropPhi: a φ is not a transform: "~xf[bound,phi]" → "~xf[bound]", "~xf[phi]" → ""
func dropPhi(t string) string {
	for from := 0; ; {
		i := strings.Index(t[from:], "xf[")
		if i < 0 {
			return t
		}
		i += from
		j := strings.Index(t[i:], "]")
		if j < 0 {
			return t
		}
		j += i
		var keep []string
		for _, it := range strings.Split(t[i+3:j], ",") {
			if it != "phi" {
				keep = append(keep, it)
			}
		}
		if len(keep) == 0 {
			// remove the whole class with its separator
			st := i
			if st > 0 && (t[st-1] == '~' || t[st-1] == '&') {
				st--
			}
			end := j + 1
			if st < len(t) && end < len(t) && t[end] == '&' && (st == 0 || t[st-1] != '~') {
				end++
			}
			t = t[:st] + t[end:]
			from = st
			continue
		}
		rep := "xf[" + strings.Join(keep, ",") + "]"
		t = t[:i] + rep + t[j+1:]
		from = i + len(rep)
	}
}

// normSlot: w[:f][~x] with f possibly a decision expression
// bitTestNorm: for a single-bit mask K, `x&K == K` is `x&K != 0` (and `x&K != K` is `x&K == 0`)
func bitTestNorm(t string) string {
	for from := 0; ; {
		i := strings.Index(t[from:], "xf[")
		if i < 0 {
			return t
		}
		i += from
		j := strings.Index(t[i:], "]")
		if j < 0 {
			return t
		}
		j += i
		items := strings.Split(t[i+3:j], ",")
		mask := ""
		for _, it := range items {
			if strings.HasPrefix(it, "&:") {
				mask = it[2:]
			}
		}
		pow2 := false
		if mask != "" {
			n := 0
			ok := true
			for _, c := range mask {
				if c < '0' || c > '9' {
					ok = false
					break
				}
				n = n*10 + int(c-'0')
			}
			pow2 = ok && n > 0 && n&(n-1) == 0
		}
		if pow2 {
			for k, it := range items {
				if it == "==:"+mask {
					items[k] = "!=:0"
				} else if it == "!=:"+mask {
					items[k] = "==:0"
				}
			}
			sort.Strings(items)
		}
		rep := "xf[" + strings.Join(items, ",") + "]"
		t = t[:i] + rep + t[j+1:]
		from = i + len(rep)
	}
}

func normSlot(t string) string {
	t = dropPhi(t)
	t = bitTestNorm(t)
	// a constant width written symbolically: var(const:16) is 16
	if strings.HasPrefix(t, "var(const:") {
		j := len("var(const:")
		k := j
		for k < len(t) && t[k] >= '0' && t[k] <= '9' {
			k++
		}
		if k > j && k < len(t) && t[k] == ')' {
			t = t[j:k] + t[k+1:]
		}
	}
	i := splitTop(t, ":")
	if i < 0 || !strings.Contains(t, "}?[") {
		return t
	}
	w, rest := t[:i], t[i+1:]
	// a trailing ~xform applies to the whole slot only when it follows the closing bracket
	x := ""
	if j := strings.LastIndex(rest, "]~"); j >= 0 && j+1 < len(rest) && splitTop(rest[:j+1], " : ") < 0 {
		x = rest[j+1:]
		rest = rest[:j+1]
	}
	return w + ":" + normField(rest) + x
}

// clampSlot: "var(const:K|len(F))<rest>" with <rest> ending in ~cut(var) → (K, rest)
func clampSlot(t string) (string, string, bool) {
	const p = "var(const:"
	if !strings.HasPrefix(t, p) {
		return "", "", false
	}
	j := len(p)
	k := j
	for k < len(t) && t[k] >= '0' && t[k] <= '9' {
		k++
	}
	if k == j || !strings.HasPrefix(t[k:], "|len(") {
		return "", "", false
	}
	// matching parenthesis of var(
	depth, end := 0, -1
	for i := 3; i < len(t); i++ {
		switch t[i] {
		case '(':
			depth++
		case ')':
			depth--
			if depth == 0 {
				end = i
			}
		}
		if end >= 0 {
			break
		}
	}
	if end < 0 || !strings.Contains(t[end+1:], "~cut(var)") {
		return "", "", false
	}
	return t[j:k], t[end+1:], true
}

// dropImpliedNil: net.IP.To16 and To4 return nil for a nil receiver, so "X.To16() != nil" implies "X != nil":
// `if ip == nil || ip.To16() == nil` and `if ip.To16() == nil` are the same test
func dropImpliedNil(lits []string) []string {
	nonNilOf := func(l string) (string, bool) { // "!(A==B)" with one side const:nil…: the other side
		if !strings.HasPrefix(l, "!(") || !strings.HasSuffix(l, ")") {
			return "", false
		}
		in := l[2 : len(l)-1]
		i := splitTop(in, "==")
		if i < 0 {
			return "", false
		}
		a, b := in[:i], in[i+2:]
		isNil := func(x string) bool { return strings.HasPrefix(x, "const:nil") && !strings.Contains(x, ".To") }
		switch {
		case isNil(a) && !isNil(b):
			return b, true
		case isNil(b) && !isNil(a):
			return a, true
		case isNil(a) && isNil(b):
			return a, true // the degenerate literal nil != nil (dead alternative), kept consistent on both sides
		}
		return "", false
	}
	implied := map[string]bool{}
	for _, l := range lits {
		if x, ok := nonNilOf(l); ok {
			for _, suf := range []string{".To16()", ".To4()"} {
				if strings.HasSuffix(x, suf) {
					implied[strings.TrimSuffix(x, suf)] = true
				}
			}
		}
	}
	if len(implied) == 0 {
		return lits
	}
	var out []string
	for _, l := range lits {
		if x, ok := nonNilOf(l); ok && implied[x] {
			continue
		}
		out = append(out, l)
	}
	return out
}
