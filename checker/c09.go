package main

// C09 — bounded decoding cost: amplification-site audit (DESIGN §5 C09).

import (
	"fmt"
	"go/token"
	"go/types"
	"strings"

	"golang.org/x/tools/go/ssa"
)

func init() { register("C09", true, checkC09) }

func decodeClosure(c *Ctx) []*ssa.Function {
	var roots []*ssa.Function
	for f := range decodeEntries(c.P) {
		roots = append(roots, f)
	}
	sortFuncs(roots)
	return closureOf(c.P, roots)
}

func encodeRoots(c *Ctx) []*ssa.Function {
	var roots []*ssa.Function
	for _, f := range c.P.ModuleFuncs() {
		if f.Parent() != nil || f.Signature.Recv() == nil {
			continue
		}
		ok := false
		for _, cp := range codecPkgs {
			if pkgPathOf(f) == cp {
				ok = true
			}
		}
		if ok && (f.Name() == "ToBytes" || f.Name() == "Marshal") {
			roots = append(roots, f)
		}
	}
	return roots
}

func headerPhis(b *ssa.BasicBlock) []*ssa.Phi {
	var out []*ssa.Phi
	for _, in := range b.Instrs {
		if p, ok := in.(*ssa.Phi); ok {
			out = append(out, p)
		} else {
			break
		}
	}
	return out
}

func loopHeaders(f *ssa.Function) []*ssa.BasicBlock {
	var out []*ssa.BasicBlock
	for _, b := range f.Blocks {
		for _, p := range b.Preds {
			if b.Dominates(p) {
				out = append(out, b)
				break
			}
		}
	}
	return out
}

// nonNegStep: v == base + (non-negative terms), returns true with the stripped chain
func forwardOf(v ssa.Value, base ssa.Value, e *e4Engine, depth int) bool {
	if v == base {
		return true
	}
	if depth > 6 {
		return false
	}
	if bo, ok := v.(*ssa.BinOp); ok && bo.Op == token.ADD {
		if forwardOf(bo.X, base, e, depth+1) && e.nonNegative(bo.Y) {
			return true
		}
		if forwardOf(bo.Y, base, e, depth+1) && e.nonNegative(bo.X) {
			return true
		}
	}
	return false
}

func checkC09(c *Ctx) {
	r := c.R
	r.Decides = append(r.Decides,
		"K1 amplification-site audit of the decode closure: every index-driven cursor over the input only moves forward, except enumerated jump sites; at a jump site (a) jumps do not nest (typestate flag: the jump requires the flag clear, sets it, and it is cleared only where the saved position is restored) and (b) every accumulator grown in that loop is bounded by a dominating comparison of its length with a constant (RFC 1035 §3.1: 255)",
		"K2 no decoder copies the remainder of its input (ReadAll / CopyN(Len())) inside a loop: nested option lists are parsed from one copy per level",
		"K3 no allocation inside a decode loop is sized by the length of a loop-carried accumulator (repeated-option reassembly appends only the chunk just consumed); no accumulator is grown through a capacity-clipped alias of itself",
		"K4 no encoder invokes ToBytes twice on the same sub-value along a path (re-encoding is linear in the nesting depth, not exponential)",
		"K7 no function on a recursion cycle of the decode closure hands the same input bytes to that cycle twice along one path (decoding is linear in the nesting depth)",
		"K9 no decode loop rebuilds a loop-carried error or string from itself through a call (an error chain or message that is re-formatted once per rejected option grows quadratically)",
		"K8 no decoder on a recursion cycle keeps a copy of the bytes it hands to the recursion (retained size stays linear in the input, not input × depth); K3 also follows calls made inside decode loops: the callee does not reallocate, sized by its current length, the collection it extends")
	r.NotDecided = append(r.NotDecided, "the numeric statement itself (bytes allocated ≤ k·n + n·depth, size of the decoded value): runtime quantities of the allocator, append growth and string concatenation that no static argument in reach bounds; the clauses above are necessary conditions, not a proof of the bound")
	e, err := newE4(c, "C09-K1")
	if err != nil {
		r.Undecided("C09-K1", "compiler diagnostics", "-", err.Error())
		return
	}
	funcs := decodeClosure(c)
	r.Count("C09-decode-closure", len(funcs))
	r.Expect("C09-decode-closure", 80)
	nJumps, nReadAll, nLoops, nLoopCalls := 0, 0, 0, 0
	for _, f := range funcs {
		if inUio(f) {
			continue
		}
		for _, hdr := range loopHeaders(f) {
			nLoops++
			loop := sccOf(hdr)
			nJumps += c09Cursor(c, e, f, hdr, loop)
			c09Alloc(c, f, hdr, loop)
			nLoopCalls += c09AllocCallee(c, f, loop)
			c09Refold(c, f, hdr, loop)
		}
		// K2
		allInstrs(f, func(in ssa.Instruction) {
			cl, ok := in.(*ssa.Call)
			if !ok || cl.Call.StaticCallee() == nil {
				return
			}
			k := funcKey(cl.Call.StaticCallee())
			rem := strings.HasSuffix(k, "uio.Lexer).ReadAll")
			if strings.HasSuffix(k, "uio.Lexer).CopyN") && len(cl.Call.Args) > 1 {
				if s := c.Sx().Of(cl.Call.Args[1]).String(); strings.Contains(s, "uio.Buffer).Len]") {
					rem = true
				}
			}
			if !rem {
				return
			}
			nReadAll++
			r.Check(!inCycle(cl.Block()), "C09-K2", shortName(f)+": remainder copied once (not in a loop)", c.P.ipos(cl), "ReadAll outside every cycle",
				"the remainder of the input is copied on every iteration of a loop: quadratic allocation in the input length")
		})
	}
	// K3b: an accumulator is never grown through a capacity-clipped alias of itself (x = append(x[:len(x):len(x)], v)):
	// that reallocates and copies the whole accumulator on every append — quadratic in the number of elements
	nApp := 0
	for _, f := range funcs {
		if inUio(f) {
			continue
		}
		allInstrs(f, func(in ssa.Instruction) {
			cl, ok := in.(*ssa.Call)
			if !ok || !isBuiltinCall(cl.Common(), "append") || len(cl.Call.Args) < 1 {
				return
			}
			nApp++
			sl, ok := cl.Call.Args[0].(*ssa.Slice)
			if !ok || sl.Max == nil || sl.Low != nil {
				return
			}
			base := c.Sx().Of(sl.X).String()
			stored := false
			for _, ref := range *cl.Referrers() {
				if st, ok := ref.(*ssa.Store); ok && st.Val == ssa.Value(cl) {
					if ld, isLd := sl.X.(*ssa.UnOp); isLd && c.Sx().Of(st.Addr).String() == c.Sx().Of(ld.X).String() {
						stored = true
					}
				}
			}
			if stored || strings.Contains(base, "load(") || strings.Contains(base, "field[") {
				r.Violation("C09-K3", shortName(f)+": accumulator grown through a capacity-clipped alias of itself", c.P.ipos(cl),
					"append("+shortDesc(sl, 3)+", …) stored back into the same list: the clipped capacity forces a reallocation and a copy of the whole list on every append, so building a list of n elements costs O(n²) (65 kB of minimal options → gigabytes allocated)")
			}
		})
	}
	// K5: no allocation is sized by a length field read from the wire before the buffer is known to hold that
	// many bytes (the Lexer's CopyN/Consume check first and allocate nothing on failure; make(…, n) with n read
	// from the input allocates up to 64 KiB per two input bytes)
	// K6: no decoder formats a byte slice derived from its input into an error or log message (every nesting level
	// would print its whole payload: a failing decode of a deeply nested datagram costs depth × size)
	nMake, nFmt := 0, 0
	for _, f := range funcs {
		if inUio(f) {
			continue
		}
		gc := newGuardCache(c)
		f := f
		sizedAlloc := func(at ssa.Instruction, size ssa.Value, form string) {
			src := wireLengthSource(size, 0)
			if src == nil {
				return
			}
			// guarded by Has(n) / Len() >= n on the same value?
			guarded := false
			ns := c.Sx().Of(size).String()
			for _, ft := range gc.of(at.Block()) {
				if strings.Contains(ft.str, "uio.Buffer).Has]") && strings.Contains(ft.str, c.Sx().Of(src).String()) && ft.pol {
					guarded = true
				}
			}
			if up := e.prover().upper(size, e.prover().factsAt(at.Block()), 0); up <= 512 {
				guarded = true // small constant bound (fixed-size records)
			}
			if !guarded {
				r.Violation("C09-K5", shortName(f)+": allocation sized by an unvalidated wire length ("+shortDesc(size, 3)+")", c.P.ipos(at),
					fmt.Sprintf(form, ns)+" allocates what a length field of the input claims before the input is known to contain that many bytes: a few bytes of input make the decoder allocate tens of kilobytes each (memory amplification), e.g. an item length 0xffff repeated")
			}
		}
		allInstrs(f, func(in ssa.Instruction) {
			switch x := in.(type) {
			case *ssa.MakeSlice:
				nMake++
				sizedAlloc(x, x.Len, "make(…, %s)")
			case *ssa.Call:
				sf := x.Call.StaticCallee()
				if sf == nil {
					return
				}
				fk := funcKey(sf)
				// growth requests of the standard builders allocate like make
				switch gk := funcKey(originOf(sf)); {
				case (gk == "(*strings.Builder).Grow" || gk == "(*bytes.Buffer).Grow") && len(x.Call.Args) == 2:
					nMake++
					sizedAlloc(x, x.Call.Args[1], gk+"(%s)")
				case gk == "slices.Grow" && len(x.Call.Args) == 2:
					nMake++
					sizedAlloc(x, x.Call.Args[1], "slices.Grow(…, %s)")
				}
				if fk != "fmt.Errorf" && fk != "fmt.Sprintf" && !strings.HasSuffix(fk, ".Printf") && fk != "fmt.Sprint" {
					return
				}
				nFmt++
				// variadic args: stores into the varargs array of boxed values
				if len(x.Call.Args) == 0 {
					return
				}
				sl, ok := x.Call.Args[len(x.Call.Args)-1].(*ssa.Slice)
				if !ok {
					return
				}
				al, ok := sl.X.(*ssa.Alloc)
				if !ok {
					return
				}
				for _, ref := range *al.Referrers() {
					ia, ok := ref.(*ssa.IndexAddr)
					if !ok {
						continue
					}
					for _, r2 := range *ia.Referrers() {
						st, ok := r2.(*ssa.Store)
						if !ok {
							continue
						}
						v := st.Val
						if mi, ok := v.(*ssa.MakeInterface); ok {
							v = mi.X
						}
						if !isByteSlice(v.Type()) {
							if bt, ok := v.Type().Underlying().(*types.Slice); !ok || !isByteElem(bt) {
								continue
							}
						}
						if derivesFromInput(f, v, 0) {
							r.Violation("C09-K6", shortName(f)+": formats input bytes into a message ("+shortDesc(v, 3)+")", c.P.ipos(x),
								"a byte slice taken from the decoder's input is formatted by "+fk+": on a failing decode every nesting level prints its whole payload, so the cost grows with depth × size (and the message with it)")
						}
					}
				}
			}
		})
	}
	c09DoubleDecode(c, funcs)
	c09Retention(c, funcs)
	r.Count("C09-K3-calls-in-decode-loops", nLoopCalls)
	r.Expect("C09-K3-calls-in-decode-loops", 3)
	r.Count("C09-K5-make-sites", nMake)
	r.Count("C09-K6-format-sites", nFmt)
	r.Expect("C09-K6-format-sites", 10)
	r.Count("C09-K3-append-sites", nApp)
	r.Expect("C09-K3-append-sites", 15)
	r.Count("C09-K1-jump-sites", nJumps)
	r.Expect("C09-K1-jump-sites", 1)
	r.Count("C09-K2-remainder-copies", nReadAll)
	r.Expect("C09-K2-remainder-copies", 8)
	r.Count("C09-decode-loops", nLoops)
	r.Expect("C09-decode-loops", 14)
	c09Reassembly(c)
	c09Encoders(c)
}

// c09Cursor audits int φs of the loop header that index a []byte parameter. Returns the number of jump sites.
func c09Cursor(c *Ctx, e *e4Engine, f *ssa.Function, hdr *ssa.BasicBlock, loop map[*ssa.BasicBlock]bool) int {
	r := c.R
	phis := headerPhis(hdr)
	// which φ is a cursor: used (possibly +k) as index / slice bound of a byte-slice parameter
	isCursor := func(p *ssa.Phi) bool {
		if bt, ok := p.Type().Underlying().(*types.Basic); !ok || bt.Info()&types.IsInteger == 0 {
			return false
		}
		found := false
		var visit func(v ssa.Value, d int)
		visit = func(v ssa.Value, d int) {
			if d > 3 || found {
				return
			}
			for _, ref := range *v.Referrers() {
				switch x := ref.(type) {
				case *ssa.IndexAddr:
					if x.Index == v {
						if prm, ok := x.X.(*ssa.Parameter); ok && isByteSliceLike(prm.Type()) {
							found = true
						}
					}
				case *ssa.Slice:
					if x.Low == v || x.High == v {
						if prm, ok := x.X.(*ssa.Parameter); ok && isByteSliceLike(prm.Type()) {
							found = true
						}
					}
				case *ssa.BinOp:
					if x.Op == token.ADD || x.Op == token.SUB {
						visit(x, d+1)
					}
				}
			}
		}
		visit(p, 0)
		return found
	}
	jumps := 0
	for _, p := range phis {
		if !isCursor(p) {
			continue
		}
		name := p.Comment
		for i, ed := range p.Edges {
			pred := hdr.Preds[i]
			if !loop[pred] {
				continue
			}
			if forwardOf(ed, p, e, 0) {
				r.OK("C09-K1", fmt.Sprintf("%s: cursor %s moves forward (edge %d)", shortName(f), name, i), c.P.ipos(pred.Instrs[len(pred.Instrs)-1]), "new value is cursor + non-negative terms", "")
				continue
			}
			// restore of a saved position: another header φ
			if q, ok := ed.(*ssa.Phi); ok && q.Block() == hdr && q != p {
				c09Restore(c, e, f, hdr, loop, p, q, pred, phis)
				continue
			}
			jumps++
			c09Jump(c, e, f, hdr, loop, p, ed, pred, phis)
		}
	}
	return jumps
}

func isByteSliceLike(t types.Type) bool {
	s, ok := t.Underlying().(*types.Slice)
	if !ok {
		return false
	}
	b, ok := s.Elem().Underlying().(*types.Basic)
	return ok && b.Kind() == types.Uint8
}

// flagPhi: the bool header φ that is set to true on the edge from pred
func flagFor(phis []*ssa.Phi, hdr *ssa.BasicBlock, pred *ssa.BasicBlock) *ssa.Phi {
	for _, q := range phis {
		if bt, ok := q.Type().Underlying().(*types.Basic); !ok || bt.Kind() != types.Bool {
			continue
		}
		for i, ed := range q.Edges {
			if hdr.Preds[i] == pred {
				if k, ok := ed.(*ssa.Const); ok && k.Value != nil && k.Value.String() == "true" {
					return q
				}
			}
		}
	}
	return nil
}

func c09Jump(c *Ctx, e *e4Engine, f *ssa.Function, hdr *ssa.BasicBlock, loop map[*ssa.BasicBlock]bool, cur *ssa.Phi, val ssa.Value, pred *ssa.BasicBlock, phis []*ssa.Phi) {
	r := c.R
	key := func(s string) string {
		return shortName(f) + ": cursor jump (" + cur.Comment + " = " + shortDesc(val, 2) + "): " + s
	}
	pos := c.P.ipos(pred.Instrs[len(pred.Instrs)-1])
	flag := flagFor(phis, hdr, pred)
	if flag == nil {
		r.Violation("C09-K1", key("guarded by a typestate flag"), pos, "the cursor is set to an input-derived position without a flag recording that a jump is in progress: jumps can chain arbitrarily (pointer loops, unbounded work)")
		return
	}
	// (a) the jump requires flag == false
	okReq := false
	for _, b := range f.Blocks {
		if iff := ifOf(b); iff != nil {
			if _, fE, ok := boolEdgesOf(iff, func(v ssa.Value) bool { return v == ssa.Value(flag) }); ok && mustPassEdges(f, pred, fE) {
				okReq = true
			}
		}
	}
	r.Check(okReq, "C09-K1", key("jumps do not nest (requires "+flag.Comment+" == false)"), pos, "jump block unreachable without the flag-clear edge", "a jump can be taken while another one is in progress: pointer chains multiply the work")
	// the flag is cleared only together with a restore of the cursor
	for i, ed := range flag.Edges {
		p2 := hdr.Preds[i]
		if !loop[p2] {
			continue
		}
		if k, ok := ed.(*ssa.Const); ok && k.Value != nil && k.Value.String() == "false" {
			// cursor edge from the same predecessor must be a restore (another header φ), or the flag was already false
			var curEd ssa.Value
			for j, ce := range cur.Edges {
				if hdr.Preds[j] == p2 {
					curEd = ce
				}
			}
			_, isPhi := curEd.(*ssa.Phi)
			alreadyClear := false
			for _, b := range f.Blocks {
				if iff := ifOf(b); iff != nil {
					if _, fE, ok := boolEdgesOf(iff, func(v ssa.Value) bool { return v == ssa.Value(flag) }); ok && mustPassEdges(f, p2, fE) {
						alreadyClear = true
					}
				}
			}
			r.Check(isPhi || alreadyClear, "C09-K1", key(flag.Comment+" cleared only where the saved position is restored"), c.P.ipos(p2.Instrs[len(p2.Instrs)-1]), "flag-clear edge coincides with a restore of the cursor", "the in-progress flag is cleared without returning to the saved position: a further jump becomes possible from the jumped-to region")
		}
	}
	// (b) accumulators in this loop are capped
	c09Accumulators(c, "C09-K1", f, hdr, loop, key)
}

func c09Restore(c *Ctx, e *e4Engine, f *ssa.Function, hdr *ssa.BasicBlock, loop map[*ssa.BasicBlock]bool, cur, saved *ssa.Phi, pred *ssa.BasicBlock, phis []*ssa.Phi) {
	r := c.R
	// the saved position is itself only ever set to cursor + non-negative (a position after the pointer)
	ok := true
	for i, ed := range saved.Edges {
		if !loop[hdr.Preds[i]] || ed == ssa.Value(saved) {
			continue
		}
		if !forwardOf(ed, cur, e, 0) {
			ok = false
		}
	}
	r.Check(ok, "C09-K1", shortName(f)+": cursor "+cur.Comment+" restored from "+saved.Comment+", which only holds positions ahead of the cursor", c.P.ipos(pred.Instrs[len(pred.Instrs)-1]), "saved value is cursor + non-negative terms", "the saved position can lie before the cursor: restoring it moves backwards (re-reading input)")
}

// c09Accumulators: string accumulators grown by concatenation inside the loop must be length-capped by a constant.
func c09Accumulators(c *Ctx, rule string, f *ssa.Function, hdr *ssa.BasicBlock, loop map[*ssa.BasicBlock]bool, key func(string) string) {
	r := c.R
	gc := newGuardCache(c)
	n := 0
	for b := range loop {
		for _, in := range b.Instrs {
			bo, ok := in.(*ssa.BinOp)
			if !ok || bo.Op != token.ADD {
				continue
			}
			bt, ok := bo.Type().Underlying().(*types.Basic)
			if !ok || bt.Info()&types.IsString == 0 {
				continue
			}
			// does it involve a loop-carried value and input-derived data?
			acc := accRoot(bo.X, hdr)
			if acc == nil {
				acc = accRoot(bo.Y, hdr)
			}
			if acc == nil {
				continue
			}
			if k, ok := bo.Y.(*ssa.Const); ok && k.Value != nil {
				continue // constant separator
			}
			n++
			capped := false
			for _, fct := range gc.of(b) {
				cb, ok := fct.cond.(*ssa.BinOp)
				if !ok {
					continue
				}
				switch cb.Op {
				case token.LSS, token.LEQ, token.GTR, token.GEQ:
				default:
					continue
				}
				var other ssa.Value
				if _, ok := intConst(cb.Y); ok {
					other = cb.X
				} else if _, ok := intConst(cb.X); ok {
					other = cb.Y
				} else {
					continue
				}
				if mentionsLenOf(other, acc, 0) {
					capped = true
				}
			}
			r.Check(capped, rule, key("accumulator "+acc.Comment+" is length-capped by a constant"), c.P.ipos(bo), "dominating comparison of len(accumulator)+… with a constant",
				"inside a loop with a cursor jump the accumulator "+acc.Comment+" grows by input-derived chunks without a bound: each compression pointer can re-append an arbitrarily long run of labels (measured: 65 kB input → ~0.5 GB retained, ~270 GB allocated)")
		}
	}
	if n == 0 {
		r.OK(rule, key("no string accumulator in the loop"), c.P.ipos(hdr.Instrs[0]), "scan", "")
	}
}

// accRoot: v is a header φ of hdr or a φ/concat chain leading to one
func accRoot(v ssa.Value, hdr *ssa.BasicBlock) *ssa.Phi {
	for d := 0; d < 4; d++ {
		switch x := v.(type) {
		case *ssa.Phi:
			if x.Block() == hdr {
				return x
			}
			for _, e := range x.Edges {
				if r := accRoot(e, hdr); r != nil && d < 3 {
					return r
				}
			}
			return nil
		case *ssa.BinOp:
			if x.Op == token.ADD {
				v = x.X
				continue
			}
			return nil
		default:
			return nil
		}
	}
	return nil
}

// c09Alloc: K3 — allocations in a decode loop sized by a loop-carried accumulator
func c09Alloc(c *Ctx, f *ssa.Function, hdr *ssa.BasicBlock, loop map[*ssa.BasicBlock]bool) {
	r, sx := c.R, c.Sx()
	for b := range loop {
		for _, in := range b.Instrs {
			mk, ok := in.(*ssa.MakeSlice)
			if !ok {
				continue
			}
			s := sx.Of(mk.Len).String()
			bad := ""
			if strings.Contains(s, "len(lookup(") || strings.Contains(s, "len(extract[0](lookup(") {
				bad = "the value already stored under a key"
			}
			if mkDependsOnPhi(mk.Len, hdr, 0) {
				bad = "a loop-carried value"
			}
			r.Check(bad == "", "C09-K3", shortName(f)+": allocation in loop not sized by an accumulator ("+shortDesc(mk.Len, 3)+")", c.P.ipos(mk), "size does not mention a loop-carried length",
				"a buffer sized by "+bad+" is allocated on every iteration: total allocation is quadratic in the number of iterations (e.g. one option code repeated thousands of times)")
		}
	}
}

// c09AllocCallee: K3 across a call — inside a decode loop, a call of a module function that grows a collection
// through a pointer parameter (stores to *p) and allocates a buffer sized by len(*p) on each call: the total
// allocation is quadratic in the number of iterations although each call looks like a plain "add".
func c09AllocCallee(c *Ctx, f *ssa.Function, loop map[*ssa.BasicBlock]bool) int {
	r := c.R
	n := 0
	lenOfParam := func(g *ssa.Function, v ssa.Value) *ssa.Parameter {
		var find func(v ssa.Value, d int) *ssa.Parameter
		find = func(v ssa.Value, d int) *ssa.Parameter {
			if d > 6 || v == nil {
				return nil
			}
			switch x := v.(type) {
			case *ssa.BinOp:
				if p := find(x.X, d+1); p != nil {
					return p
				}
				return find(x.Y, d+1)
			case *ssa.Convert:
				return find(x.X, d+1)
			case *ssa.Call:
				if isBuiltinCall(x.Common(), "len") || isBuiltinCall(x.Common(), "cap") {
					a := x.Call.Args[0]
					if u, ok := a.(*ssa.UnOp); ok && u.Op == token.MUL {
						if p, ok := u.X.(*ssa.Parameter); ok {
							return p
						}
					}
				}
			}
			return nil
		}
		return find(v, 0)
	}
	for b := range loop {
		for _, in := range b.Instrs {
			cl, ok := in.(*ssa.Call)
			if !ok {
				continue
			}
			for _, g := range c.P.Callees(cl) {
				if g == nil || g.Blocks == nil || !inModule(g) || g == f {
					continue
				}
				n++
				allInstrs(g, func(i2 ssa.Instruction) {
					mk, ok := i2.(*ssa.MakeSlice)
					if !ok {
						return
					}
					p := lenOfParam(g, mk.Len)
					if p == nil {
						p = lenOfParam(g, mk.Cap)
					}
					if p == nil {
						return
					}
					// the same parameter is assigned through: the collection grows by this call
					grows := false
					for _, ref := range *p.Referrers() {
						if st, ok := ref.(*ssa.Store); ok && st.Addr == ssa.Value(p) {
							grows = true
						}
					}
					if !grows {
						return
					}
					r.Violation("C09-K3", shortName(f)+": calls "+shortName(g)+" in a decode loop, which reallocates the collection it extends ("+shortDesc(mk.Len, 3)+")", c.P.ipos(cl),
						shortName(g)+" allocates a buffer sized by the current length of the collection it appends to ("+c.P.ipos(mk)+") on every call: decoding k elements allocates about k²/2 element slots")
				})
			}
		}
	}
	return n
}

func mkDependsOnPhi(v ssa.Value, hdr *ssa.BasicBlock, d int) bool {
	if d > 5 {
		return false
	}
	switch x := v.(type) {
	case *ssa.Phi:
		return x.Block() == hdr && !isIntCounter(x)
	case *ssa.BinOp:
		return mkDependsOnPhi(x.X, hdr, d+1) || mkDependsOnPhi(x.Y, hdr, d+1)
	case *ssa.Call:
		if isBuiltinCall(x.Common(), "len") {
			return mkDependsOnPhi(x.Call.Args[0], hdr, d+1)
		}
	case *ssa.Convert:
		return mkDependsOnPhi(x.X, hdr, d+1)
	}
	return false
}

func isIntCounter(p *ssa.Phi) bool {
	bt, ok := p.Type().Underlying().(*types.Basic)
	return ok && bt.Info()&types.IsInteger != 0
}

// c09Reassembly: the v4 option loop stores append(previous value, chunk just consumed)
func c09Reassembly(c *Ctx) {
	r, sx := c.R, c.Sx()
	var fn *ssa.Function
	for _, f := range c.P.ModuleFuncs() {
		if pkgPathOf(f) == modPath+"/dhcpv4" && f.Name() == "fromBytesCheckEnd" {
			fn = f
		}
	}
	if fn == nil {
		r.Undecided("C09-K3", "dhcpv4 option loop", "-", "fromBytesCheckEnd not found")
		return
	}
	n := 0
	allInstrs(fn, func(in ssa.Instruction) {
		mu, ok := in.(*ssa.MapUpdate)
		if !ok {
			return
		}
		n++
		s := sx.Of(mu.Value).String()
		ks := sx.Of(mu.Key).String()
		okApp := strings.HasPrefix(s, "call[builtin append](lookup("+sx.Of(mu.Map).String()+","+ks+"),") && strings.Contains(s, "uio.Lexer).Consume]")
		r.Check(okApp, "C09-K3", "dhcpv4.fromBytesCheckEnd: stored value is append(previous value of the same code, consumed chunk)", c.P.ipos(mu), "symx", "stored value is "+s)
	})
	r.Check(n == 1, "C09-K3", "dhcpv4.fromBytesCheckEnd: one store per option instance", c.P.pos(fn.Pos()), "instance count", fmt.Sprintf("%d map stores", n))
}

// c09Encoders: K4
func c09Encoders(c *Ctx) {
	r := c.R
	funcs := closureOf(c.P, encodeRoots(c))
	n := 0
	for _, f := range funcs {
		if inUio(f) {
			continue
		}
		type site struct {
			in   ssa.Instruction
			recv string // symx of the receiver, in terms of f's own parameters
			via  string
			val  ssa.Value // the receiver value itself (direct sites only)
			coll string    // symx of the collection the receiver is an element of ("" if none)
		}
		// sitesOf: ToBytes call sites of g; helper methods/functions of the module that are not encoders
		// themselves are expanded (depth ≤ 3) with their parameters replaced by the actual arguments
		var sitesOf func(g *ssa.Function, depth int) []site
		sitesOf = func(g *ssa.Function, depth int) []site {
			var out []site
			allInstrs(g, func(in ssa.Instruction) {
				cl, ok := in.(*ssa.Call)
				if !ok {
					return
				}
				cc := cl.Common()
				if cc.IsInvoke() {
					if cc.Method.Name() == "ToBytes" {
						out = append(out, site{in, c.Sx().Of(cc.Value).String(), "", cc.Value, collectionOf(c, cc.Value)})
						return
					}
					// another method invoked on the value (a size query, a "prepare" step): when an implementation in the module
					// serialises part of its receiver, the call is a serialisation of that value too
					if depth < 2 && cc.Method.Name() != "String" && cc.Method.Name() != "LongString" && cc.Method.Name() != "Summary" && cc.Method.Name() != "Code" {
						for _, impl := range c.P.Callees(cl) {
							if impl == nil || !inModule(impl) || impl.Blocks == nil || impl.Signature.Recv() == nil || impl.Name() == "ToBytes" {
								continue
							}
							rs := c.Sx().Of(impl.Params[0]).String()
							serialises := false
							for _, s2 := range sitesOf(impl, depth+1) {
								if strings.Contains(s2.recv, rs) {
									serialises = true
								}
							}
							if serialises {
								out = append(out, site{in, c.Sx().Of(cc.Value).String(), shortName(impl), cc.Value, collectionOf(c, cc.Value)})
								break
							}
						}
					}
					return
				}
				sf := cc.StaticCallee()
				if sf == nil || !inModule(sf) || sf.Blocks == nil {
					return
				}
				if sf.Name() == "ToBytes" && sf.Signature.Recv() != nil && len(cc.Args) > 0 {
					out = append(out, site{in, c.Sx().Of(cc.Args[0]).String(), "", cc.Args[0], collectionOf(c, cc.Args[0])})
					return
				}
				if depth >= 3 || sf.Name() == "Marshal" || sf.Name() == "String" || sf.Name() == "Summary" {
					return
				}
				for _, s2 := range sitesOf(sf, depth+1) {
					rs, cs := s2.recv, s2.coll
					for i, a := range cc.Args {
						if i < len(sf.Params) {
							rs = strings.ReplaceAll(rs, c.Sx().Of(sf.Params[i]).String(), c.Sx().Of(a).String())
							cs = strings.ReplaceAll(cs, c.Sx().Of(sf.Params[i]).String(), c.Sx().Of(a).String())
						}
					}
					out = append(out, site{in, rs, shortName(sf), nil, cs})
				}
			})
			return out
		}
		sites := sitesOf(f, 0)
		n += len(sites)
		for i := 0; i < len(sites); i++ {
			for j := 0; j < len(sites); j++ {
				if i == j {
					continue
				}
				sameVal := sites[i].val != nil && sites[i].val == sites[j].val
				// elements of one collection visited by two separate loops (pre-sizing pass + writing pass)
				sameColl := false
				if ci, cj := sites[i].coll, sites[j].coll; ci != "" && ci == cj && (sites[i].val == nil || sites[i].val != sites[j].val) && sites[i].in != sites[j].in && !sameCycle(sites[i].in.Block(), sites[j].in.Block()) {
					sameColl = true
				}
				if !sameVal && !sameColl && (sites[i].recv != sites[j].recv || strings.Contains(sites[i].recv, "opaque(")) {
					continue
				}
				a, b := sites[i].in, sites[j].in
				if a == b {
					continue
				}
				seq := (a.Block() == b.Block() && instrIndex(a) < instrIndex(b)) || (a.Block() != b.Block() && reachFromSuccs(a.Block(), nil, nil)[b.Block()] && !inCycleSeparated(a, b))
				if seq {
					via := ""
					if sites[i].via != "" {
						via = " (first through " + sites[i].via + ")"
					} else if sites[j].via != "" {
						via = " (second through " + sites[j].via + ")"
					}
					what := shortRecv(sites[i].recv)
					if sites[i].val != nil {
						what = shortDesc(sites[i].val, 3)
					}
					r.Violation("C09-K4", shortName(f)+": ToBytes invoked twice on "+what, c.P.ipos(b),
						"the same sub-value is serialised twice on one path (first at "+c.P.ipos(a)+")"+via+": an option nested d levels deep is re-encoded 2^d times, so re-encoding a decoded message is exponential in the nesting depth")
				}
			}
		}
	}
	r.Count("C09-K4-ToBytes-call-sites", n)
	r.Expect("C09-K4-ToBytes-call-sites", 15)
	r.OK("C09-K4", "encoders scanned for repeated serialisation of one sub-value", "-", "call-site pairs with the same receiver on one path", "")
}

func sameRecv(c *Ctx, a, b ssa.Value) bool {
	if a == b {
		return true
	}
	return c.Sx().Of(a).String() == c.Sx().Of(b).String()
}

// inCycleSeparated: a and b are the same textual site reached again only through a loop back edge whose
// receiver changes per iteration (range element): the receiver values differ then, so identical receivers
// in different iterations are not an issue here.
func inCycleSeparated(a, b ssa.Instruction) bool { return false }

// mentionsLenOf: the expression tree of v contains len(x)
func mentionsLenOf(v ssa.Value, x ssa.Value, d int) bool {
	if d > 6 {
		return false
	}
	switch t := v.(type) {
	case *ssa.Call:
		if isBuiltinCall(t.Common(), "len") {
			return t.Call.Args[0] == x
		}
	case *ssa.BinOp:
		return mentionsLenOf(t.X, x, d+1) || mentionsLenOf(t.Y, x, d+1)
	case *ssa.Convert:
		return mentionsLenOf(t.X, x, d+1)
	}
	return false
}

// labelNameCap: the per-name length cap of the label decoder is a test on the NAME being assembled
// (len(accumulator) + … against a constant), not on a buffer offset. Shared by C05 (a list of valid names of
// any total size is accepted; a name over 255 octets is rejected) and C09.
func labelNameCap(c *Ctx, rule string) {
	r := c.R
	f := c.P.Func(modPath + "/rfc1035label.labelsFromBytes")
	if f == nil {
		r.Undecided(rule, "rfc1035label.labelsFromBytes", "-", "not found")
		return
	}
	n := 0
	for _, hdr := range loopHeaders(f) {
		n++
		key := func(s string) string { return shortName(f) + ": " + s }
		c09Accumulators(c, rule, f, hdr, sccOf(hdr), key)
	}
	r.Check(n >= 1, rule, shortName(f)+": decode loop found", c.P.pos(f.Pos()), "loop headers", "no loop")
}

// shortRecv: a readable tail of a symx receiver string (field path)
func shortRecv(s string) string {
	var fs []string
	for _, m := range strings.Split(s, "field[")[1:] {
		if i := strings.Index(m, "]"); i > 0 {
			fs = append([]string{m[:i]}, fs...)
		}
	}
	if len(fs) == 0 {
		if len(s) > 60 {
			return s[:60] + "…"
		}
		return s
	}
	return "receiver." + strings.Join(fs, ".")
}

// collectionOf: for a value that is an element of a collection being iterated (x[i], range element), the symx
// of the collection; "" otherwise
func collectionOf(c *Ctx, v ssa.Value) string {
	if v == nil {
		return ""
	}
	for i := 0; i < 6; i++ {
		switch t := v.(type) {
		case *ssa.UnOp:
			v = t.X
			continue
		case *ssa.MakeInterface:
			v = t.X
			continue
		case *ssa.IndexAddr:
			if _, isK := intConst(t.Index); isK {
				return ""
			}
			s := c.Sx().Of(t.X).String()
			if strings.Contains(s, "opaque(") {
				return ""
			}
			return s
		case *ssa.Index:
			s := c.Sx().Of(t.X).String()
			if strings.Contains(s, "opaque(") {
				return ""
			}
			return s
		case *ssa.Extract:
			if nx, ok := t.Tuple.(*ssa.Next); ok {
				if rg, ok := nx.Iter.(*ssa.Range); ok {
					return c.Sx().Of(rg.X).String()
				}
			}
			// s, ok := elem.(I): s is the element
			if ta, ok := t.Tuple.(*ssa.TypeAssert); ok && t.Index == 0 {
				v = ta.X
				continue
			}
		case *ssa.TypeAssert:
			v = t.X
			continue
		case *ssa.ChangeInterface:
			v = t.X
			continue
		}
		break
	}
	return ""
}

func isByteElem(t *types.Slice) bool {
	b, ok := t.Elem().Underlying().(*types.Basic)
	return ok && (b.Kind() == types.Uint8 || b.Kind() == types.Byte)
}

// wireLengthSource: v derives (through conversions and arithmetic) from a Lexer ReadN call; returns that call
func wireLengthSource(v ssa.Value, d int) ssa.Value {
	if d > 6 || v == nil {
		return nil
	}
	switch t := v.(type) {
	case *ssa.Call:
		if sf := t.Call.StaticCallee(); sf != nil && inUio(sf) && strings.HasPrefix(sf.Name(), "Read") && sf.Name() != "ReadAll" && sf.Name() != "ReadBytes" {
			return t
		}
	case *ssa.Convert:
		return wireLengthSource(t.X, d+1)
	case *ssa.ChangeType:
		return wireLengthSource(t.X, d+1)
	case *ssa.BinOp:
		if s := wireLengthSource(t.X, d+1); s != nil {
			return s
		}
		return wireLengthSource(t.Y, d+1)
	case *ssa.Phi:
		for _, e := range t.Edges {
			if s := wireLengthSource(e, d+1); s != nil {
				return s
			}
		}
	}
	return nil
}

// derivesFromInput: v is (a slice of) a []byte parameter of f or the result of a Lexer read over it
func derivesFromInput(f *ssa.Function, v ssa.Value, d int) bool {
	if d > 6 || v == nil {
		return false
	}
	switch t := v.(type) {
	case *ssa.Parameter:
		return isByteSlice(t.Type())
	case *ssa.Slice:
		return derivesFromInput(f, t.X, d+1)
	case *ssa.ChangeType:
		return derivesFromInput(f, t.X, d+1)
	case *ssa.Convert:
		return derivesFromInput(f, t.X, d+1)
	case *ssa.Phi:
		for _, e := range t.Edges {
			if derivesFromInput(f, e, d+1) {
				return true
			}
		}
	case *ssa.Call:
		if sf := t.Call.StaticCallee(); sf != nil && inUio(sf) {
			switch sf.Name() {
			case "Consume", "CopyN", "ReadAll", "Data":
				return true
			}
		}
	}
	return false
}

// c09DoubleDecode: K7 — decoding is linear in the nesting depth: inside a recursion cycle of the decode closure no
// function hands the same input bytes to the cycle twice along one path (each level would decode its payload twice,
// 2^depth decodings for depth nested relay messages / encapsulated options).
func c09DoubleDecode(c *Ctx, funcs []*ssa.Function) {
	r := c.R
	in := map[*ssa.Function]bool{}
	for _, f := range funcs {
		in[f] = true
	}
	succ := map[*ssa.Function][]*ssa.Function{}
	for _, f := range funcs {
		seen := map[*ssa.Function]bool{}
		allInstrs(f, func(x ssa.Instruction) {
			if ci, ok := x.(ssa.CallInstruction); ok {
				for _, g := range c.P.Callees(ci) {
					if in[g] && !seen[g] {
						seen[g] = true
						succ[f] = append(succ[f], g)
					}
				}
			}
		})
	}
	reach := map[*ssa.Function]map[*ssa.Function]bool{}
	reachOf := func(f *ssa.Function) map[*ssa.Function]bool {
		if m, ok := reach[f]; ok {
			return m
		}
		m := map[*ssa.Function]bool{}
		st := []*ssa.Function{f}
		for len(st) > 0 {
			g := st[len(st)-1]
			st = st[:len(st)-1]
			for _, h := range succ[g] {
				if !m[h] {
					m[h] = true
					st = append(st, h)
				}
			}
		}
		reach[f] = m
		return m
	}
	nRec, nPairs := 0, 0
	for _, f := range funcs {
		if inUio(f) || !reachOf(f)[f] {
			continue
		}
		var sites []ssa.CallInstruction
		allInstrs(f, func(x ssa.Instruction) {
			ci, ok := x.(ssa.CallInstruction)
			if !ok {
				return
			}
			for _, g := range c.P.Callees(ci) {
				if in[g] && (g == f || reachOf(g)[f]) {
					sites = append(sites, ci)
					return
				}
			}
		})
		nRec += len(sites)
		for _, c1 := range sites {
			for _, c2 := range sites {
				if c1 == c2 {
					continue
				}
				// c2 after c1 on some path
				after := false
				if c1.Block() == c2.Block() {
					for _, x := range c1.Block().Instrs {
						if x == ssa.Instruction(c1) {
							after = true
							break
						}
						if x == ssa.Instruction(c2) {
							break
						}
					}
				}
				if !after && c1.Block() != c2.Block() && reachFromSuccs(c1.Block(), nil, nil)[c2.Block()] {
					after = true
				}
				if !after {
					continue
				}
				var shared ssa.Value
				for _, a1 := range c1.Common().Args {
					if st, ok := a1.Type().Underlying().(*types.Slice); !ok || !isByteElem(st) {
						continue
					}
					for _, a2 := range c2.Common().Args {
						if a1 == a2 {
							shared = a1
						}
					}
				}
				if shared == nil {
					continue
				}
				nPairs++
				r.Violation("C09-K7", shortName(f)+": hands "+shortDesc(shared, 3)+" to the decoder recursion twice ("+calleeName(c1.Common())+" then "+calleeName(c2.Common())+")", c.P.ipos(c2),
					"both calls can re-enter "+shortName(f)+" with the same bytes: every nesting level decodes its payload twice, 2^depth decodings for a datagram of nested relay messages")
			}
		}
	}
	r.Count("C09-K7-recursive-call-sites", nRec)
	r.Expect("C09-K7-recursive-call-sites", 5)
	if nPairs == 0 {
		r.OK("C09-K7", "no input handed to the decoder recursion twice on one path", "-", "pairs of recursive call sites sharing a byte-slice argument", fmt.Sprintf("%d recursive call sites", nRec))
	}
}

// c09Retention: K8 — "the decoded value is no larger than a fixed multiple of the input": a decoder on a recursion
// cycle of the decode closure does not keep a copy of the bytes it also hands to the recursion (every nesting
// level would retain its whole remaining payload: n·depth/2 bytes for depth nested relay messages).
func c09Retention(c *Ctx, funcs []*ssa.Function) {
	r := c.R
	in := map[*ssa.Function]bool{}
	for _, f := range funcs {
		in[f] = true
	}
	n := 0
	for _, f := range funcs {
		if inUio(f) || !inModule(f) {
			continue
		}
		// byte-slice values handed to a call that can re-enter f
		allInstrs(f, func(x ssa.Instruction) {
			ci, ok := x.(ssa.CallInstruction)
			if !ok {
				return
			}
			rec := false
			for _, g := range c.P.Callees(ci) {
				if in[g] && (g == f || reachesFunc(c, g, f, in)) {
					rec = true
				}
			}
			if !rec {
				return
			}
			for _, a := range ci.Common().Args {
				st, ok := a.Type().Underlying().(*types.Slice)
				if !ok || !isByteElem(st) {
					continue
				}
				n++
				for _, ref := range *a.Referrers() {
					cp, ok := ref.(*ssa.Call)
					if !ok || ref == x {
						continue
					}
					isCopy := false
					var res ssa.Value
					switch {
					case isBuiltinCall(cp.Common(), "append") && len(cp.Call.Args) == 2 && cp.Call.Args[1] == a:
						isCopy, res = true, cp
					case isBuiltinCall(cp.Common(), "copy") && len(cp.Call.Args) == 2 && cp.Call.Args[1] == a:
						isCopy, res = true, cp.Call.Args[0]
					case isFuncCall(cp.Common(), "bytes", "Clone") || isFuncCall(cp.Common(), "slices", "Clone"):
						isCopy, res = true, cp
					}
					if !isCopy || res == nil {
						continue
					}
					// does the copy reach a field store?
					stored := false
					seen := map[ssa.Value]bool{}
					var walk func(v ssa.Value, d int)
					walk = func(v ssa.Value, d int) {
						if seen[v] || d > 5 || v.Referrers() == nil {
							return
						}
						seen[v] = true
						for _, r2 := range *v.Referrers() {
							switch u := r2.(type) {
							case *ssa.Store:
								if u.Val == v {
									if _, isFA := u.Addr.(*ssa.FieldAddr); isFA {
										stored = true
									}
								}
							case *ssa.Slice, *ssa.ChangeType, *ssa.Convert, *ssa.Phi, *ssa.MakeInterface:
								walk(r2.(ssa.Value), d+1)
							}
						}
					}
					walk(res, 0)
					if stored {
						r.Violation("C09-K8", shortName(f)+": keeps a copy of "+shortDesc(a, 3)+" and also decodes it recursively", c.P.ipos(cp),
							"every nesting level retains a copy of its whole payload beside the decoded value: a chain of d nested messages of n bytes decodes to about n·d/2 retained bytes")
					}
				}
			}
		})
	}
	r.Count("C09-K8-recursive-byte-arguments", n)
	r.Expect("C09-K8-recursive-byte-arguments", 5)
	r.OK("C09-K8", "no decoder on a recursion cycle stores a copy of the bytes it hands to the recursion", "-", "copy/append/Clone of a recursively decoded argument reaching a field store", fmt.Sprintf("%d arguments scanned", n))
}

var reachMemo = map[*ssa.Function]map[*ssa.Function]bool{}

// reachesFunc: g can reach f through calls inside the set
func reachesFunc(c *Ctx, g, f *ssa.Function, in map[*ssa.Function]bool) bool {
	m, ok := reachMemo[g]
	if !ok {
		m = map[*ssa.Function]bool{}
		st := []*ssa.Function{g}
		for len(st) > 0 {
			h := st[len(st)-1]
			st = st[:len(st)-1]
			allInstrs(h, func(x ssa.Instruction) {
				if ci, ok := x.(ssa.CallInstruction); ok {
					for _, k := range c.P.Callees(ci) {
						if in[k] && !m[k] {
							m[k] = true
							st = append(st, k)
						}
					}
				}
			})
		}
		reachMemo[g] = m
	}
	return m[f]
}

// c09Refold: K9 — a loop-carried value of type error or string is not rebuilt from itself through a call in the loop
// (fmt.Errorf("%w; %w", acc, err), errors.Join(acc, err), a helper doing either): every iteration re-renders or
// re-wraps everything accumulated so far, so n rejected options cost n² bytes. String concatenation (acc + chunk)
// is judged by the cap rule of K1.
func c09Refold(c *Ctx, f *ssa.Function, hdr *ssa.BasicBlock, loop map[*ssa.BasicBlock]bool) {
	r := c.R
	for _, in := range hdr.Instrs {
		ph, ok := in.(*ssa.Phi)
		if !ok {
			break
		}
		isErr := types.Identical(ph.Type(), types.Universe.Lookup("error").Type())
		bt, isBasic := ph.Type().Underlying().(*types.Basic)
		if !isErr && !(isBasic && bt.Info()&types.IsString != 0) {
			continue
		}
		var viaCall func(v ssa.Value, d int) *ssa.Call
		viaCall = func(v ssa.Value, d int) *ssa.Call {
			if d > 4 {
				return nil
			}
			switch x := v.(type) {
			case *ssa.Phi:
				if x == ph {
					return nil
				}
				for _, e := range x.Edges {
					if cl := viaCall(e, d+1); cl != nil {
						return cl
					}
				}
			case *ssa.Extract:
				return viaCall(x.Tuple, d+1)
			case *ssa.MakeInterface:
				return viaCall(x.X, d+1)
			case *ssa.Call:
				if !loop[x.Block()] {
					return nil
				}
				args := append([]ssa.Value{}, x.Call.Args...)
				for _, a := range x.Call.Args {
					args = append(args, varargValues(a)...)
				}
				for _, a := range args {
					if mi, ok := a.(*ssa.MakeInterface); ok {
						a = mi.X
					}
					if a == ssa.Value(ph) {
						return x
					}
				}
			}
			return nil
		}
		for i, e := range ph.Edges {
			if !loop[hdr.Preds[i]] {
				continue
			}
			if cl := viaCall(e, 0); cl != nil {
				r.Violation("C09-K9", shortName(f)+": loop-carried "+ph.Type().String()+" "+ph.Comment+" rebuilt from itself by a call inside the decode loop", c.P.ipos(cl),
					"each iteration wraps or re-formats everything accumulated so far ("+calleeName(cl.Common())+"): k rejected or repeated items cost on the order of k² bytes of allocation")
			}
		}
	}
}
