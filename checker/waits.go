package main

// Waiting operations (shared by C10, C11, C14): instructions at which a goroutine can wait for another goroutine or
// for time — channel send and receive, a select without default, WaitGroup/Cond waits, sleeps. Network I/O, mutexes and
// logging are judged by their own rules and are not listed here.

import (
	"go/token"

	"golang.org/x/tools/go/ssa"
)

type waitOp struct {
	in   ssa.Instruction
	what string
}

// waitOpsIn: the waiting operations of f itself
func waitOpsIn(f *ssa.Function) []waitOp {
	var out []waitOp
	allInstrs(f, func(in ssa.Instruction) {
		switch x := in.(type) {
		case *ssa.Send:
			out = append(out, waitOp{in, "channel send"})
		case *ssa.UnOp:
			if x.Op == token.ARROW {
				out = append(out, waitOp{in, "channel receive"})
			}
		case *ssa.Select:
			if x.Blocking {
				out = append(out, waitOp{in, "blocking select"})
			}
		case ssa.CallInstruction:
			if _, isGo := in.(*ssa.Go); isGo {
				return
			}
			if sf := x.Common().StaticCallee(); sf != nil {
				switch funcKey(sf) {
				case "(*sync.WaitGroup).Wait", "time.Sleep", "(*sync.Cond).Wait":
					out = append(out, waitOp{in, "call of " + funcKey(sf)})
				}
			}
		}
	})
	return out
}

// syncCallees: module functions of f's package called synchronously (not by go, not deferred closures of other
// goroutines) from f, transitively, depth-bounded; f itself included
func syncClosure(p *Prog, roots []*ssa.Function, depth int) []*ssa.Function {
	seen := map[*ssa.Function]bool{}
	var out []*ssa.Function
	var visit func(f *ssa.Function, d int)
	visit = func(f *ssa.Function, d int) {
		if f == nil || f.Blocks == nil || seen[f] || d > depth || !inModule(f) {
			return
		}
		seen[f] = true
		out = append(out, f)
		allInstrs(f, func(in ssa.Instruction) {
			switch x := in.(type) {
			case *ssa.Go:
				return
			case ssa.CallInstruction:
				cc := x.Common()
				if sf := cc.StaticCallee(); sf != nil {
					visit(sf, d+1)
				}
				// closures created here and called/deferred here
				if mc, ok := cc.Value.(*ssa.MakeClosure); ok {
					if fn, ok := mc.Fn.(*ssa.Function); ok {
						visit(fn, d+1)
					}
				}
			}
		})
	}
	for _, f := range roots {
		visit(f, 0)
	}
	return out
}
