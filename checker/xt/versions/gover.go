// Copyright 2023 The Go Authors. All rights reserved.
// Use of this source code is governed by a BSD-style
// license that can be found in the LICENSE file.

// This is a fork of internal/gover for use by x/tools until
// go1.21 and earlier are no longer supported by x/tools.

package versions

import "strings"

// A gover is a parsed Go gover: major[.Minor[.Patch]][kind[pre]]
// The numbers are the original decimal strings to avoid integer overflows
// and since there is very little actual math. (Probably overflow doesn't matter in practice,
// but at the time this code was written, there was an existing test that used
// go1.99999999999, which does not fit in an int on 32-bit platforms.
// The "big decimal" representation avoids the problem entirely.)
type gover struct {
	major string // decimal
	minor string // decimal or ""
	patch string // decimal or ""
	kind  string // "", "alpha", "beta", "rc"
	pre   string // decimal or ""
}

// compare returns -1, 0, or +1 depending on whether
// x < y, x == y, or x > y, interpreted as toolchain versions.
// The versions x and y must not begin with a "go" prefix: just "1.21" not "go1.21".
// Malformed versions compare less than well-formed versions and equal to each other.
// The language version "1.21" compares less than the release candidate and eventual releases "1.21rc1" and "1.21.0".
func compare(x, y string) int {
	vx := parse(x)
	vy := parse(y)

	if c := cmpInt(vx.major, vy.major); c != 0 {
		return c
	}
	if c := cmpInt(vx.minor, vy.minor); c != 0 {
		return c
	}
	if c := cmpInt(vx.patch, vy.patch); c != 0 {
		return c
	}
	if c := strings.Compare(vx.kind, vy.kind); c != 0 { // "" < alpha < beta < rc
		return c
	}
	if c := cmpInt(vx.pre, vy.pre); c != 0 {
		return c
	}
	return 0
}

// lang returns the Go language version. For example, lang("1.2.3") == "1.2".
func lang(x string) string {
	v := parse(x)
	if v.minor == "" || v.major == "1" && v.minor == "0" {
		return v.major
	}
	return v.major + "." + v.minor
}

// isValid reports whether the version x is valid.
func isValid(x string) bool {
	return parse(x) != gover{}
}

// parse parses the Go version string x into a version.
// It returns the zero version if x is malformed.
func parse(x string) gover {
	var v gover

	// Parse major version.
	var ok bool
	v.major, x, ok = cutInt(x)
	if !ok {
		return gover{}
	}
	if x == "" {
		// Interpret "1" as "1.0.0".
		v.minor = "0"
		v.patch = "0"
		return v
	}

	// Parse . before minor version.
	if x[0] != '.' {
		return gover{}
	}

	// Parse minor version.
	v.minor, x, ok = cutInt(x[1:])
	if !ok {
		return gover{}
	}
	if x == "" {
		// Patch missing is same as "0" for older versions.
		// Starting in Go 1.21, patch missing is different from explicit .0.
		if cmpInt(v.minor, "21") < 0 {
			v.patch = "0"
		}
		return v
	}

	// Parse patch if present.
	if x[0] == '.' {
		v.patch, x, ok = cutInt(x[1:])
		if !ok || x != "" {
			// Note that we are disallowing prereleases (alpha, beta, rc) for patch releases here (x != "").
			// Allowing them would be a bit confusing because we already have:
			//	1.21 < 1.21rc1
			// But a prerelease of a patch would have the opposite effect:
			//	1.21.3rc1 < 1.21.3
			// We've never needed them before, so let's not start now.
			return gover{}
		}
		return v
	}

	// Parse prerelease.
	i := 0
	for i < len(x) && (x[i] < '0' || '9' < x[i]) {
		if x[i] < 'a' || 'z' < x[i] {
			return gover{}
		}
		i++
	}
	if i == 0 {
		return gover{}
	}
	v.kind, x = x[:i], x[i:]
	if x == "" {
		return v
	}
	v.pre, x, ok = cutInt(x)
	if !ok || x != "" {
		return gover{}
	}

	return v
}

// cutInt scans the leading decimal number at the start of x to an integer
// and returns that value and the rest of the string.
func cutInt(x string) (n, rest string, ok bool) {
	i := 0
	for i < len(x) && '0' <= x[i] && x[i] <= '9' {
		i++
	}
	if i == 0 || x[0] == '0' && i != 1 { // no digits or unnecessary leading zero
		return "", "", false
	}
	return x[:i], x[i:], true
}

// cmpInt returns cmp.Compare(x, y) interpreting x and y as decimal numbers.
// (Copied from golang.org/x/mod/semver's compareInt.)
func cmpInt(x, y string) int {
	if x == y {
		return 0
	}
	if len(x) < len(y) {
		return -1
	}
	if len(x) > len(y) {
		return +1
	}
	if x < y {
		return -1
	} else {
		return +1
	}
}
