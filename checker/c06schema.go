package main

import "golang.org/x/tools/go/ssa"

// c06Schema: K1/K4 — the schema rows of every codec, re-evaluated under C06 (losslessness).
func c06Schema(c *Ctx) {
	e2CheckLayouts(c, "C06-K1", func(name string, f *ssa.Function) bool { return true }, 120)
}
