// Copyright 2021 The Go Authors. All rights reserved.
// Use of this source code is governed by a BSD-style
// license that can be found in the LICENSE file.

package typeparams

import (
	"errors"
	"fmt"
	"go/types"
	"os"
	"strings"
)

//go:generate go run copytermlist.go

const debug = false

var ErrEmptyTypeSet = errors.New("empty type set")

// StructuralTerms returns a slice of terms representing the normalized
// structural type restrictions of a type parameter, if any.
//
// Structural type restrictions of a type parameter are created via
// non-interface types embedded in its constraint interface (directly, or via a
// chain of interface embeddings). For example, in the declaration
//
//	type T[P interface{~int; m()}] int
//
// the structural restriction of the type parameter P is ~int.
//
// With interface embedding and unions, the specification of structural type
// restrictions may be arbitrarily complex. For example, consider the
// following:
//
//	type A interface{ ~string|~[]byte }
//
//	type B interface{ int|string }
//
//	type C interface { ~string|~int }
//
//	type T[P interface{ A|B; C }] int
//
// In this example, the structural type restriction of P is ~string|int: A|B
// expands to ~string|~[]byte|int|string, which reduces to ~string|~[]byte|int,
// which when intersected with C (~string|~int) yields ~string|int.
//
// StructuralTerms computes these expansions and reductions, producing a
// "normalized" form of the embeddings. A structural restriction is normalized
// if it is a single union containing no interface terms, and is minimal in the
// sense that removing any term changes the set of types satisfying the
// constraint. It is left as a proof for the reader that, modulo sorting, there
// is exactly one such normalized form.
//
// Because the minimal representation always takes this form, StructuralTerms
// returns a slice of tilde terms corresponding to the terms of the union in
// the normalized structural restriction. An error is returned if the
// constraint interface is invalid, exceeds complexity bounds, or has an empty
// type set. In the latter case, StructuralTerms returns ErrEmptyTypeSet.
//
// StructuralTerms makes no guarantees about the order of terms, except that it
// is deterministic.
func StructuralTerms(tparam *types.TypeParam) ([]*types.Term, error) {
	constraint := tparam.Constraint()
	if constraint == nil {
		return nil, fmt.Errorf("%s has nil constraint", tparam)
	}
	iface, _ := constraint.Underlying().(*types.Interface)
	if iface == nil {
		return nil, fmt.Errorf("constraint is %T, not *types.Interface", constraint.Underlying())
	}
	return InterfaceTermSet(iface)
}

// InterfaceTermSet computes the normalized terms for a constraint interface,
// returning an error if the term set cannot be computed or is empty. In the
// latter case, the error will be ErrEmptyTypeSet.
//
// See the documentation of StructuralTerms for more information on
// normalization.
func InterfaceTermSet(iface *types.Interface) ([]*types.Term, error) {
	return computeTermSet(iface)
}

// UnionTermSet computes the normalized terms for a union, returning an error
// if the term set cannot be computed or is empty. In the latter case, the
// error will be ErrEmptyTypeSet.
//
// See the documentation of StructuralTerms for more information on
// normalization.
func UnionTermSet(union *types.Union) ([]*types.Term, error) {
	return computeTermSet(union)
}

func computeTermSet(typ types.Type) ([]*types.Term, error) {
	tset, err := computeTermSetInternal(typ, make(map[types.Type]*termSet), 0)
	if err != nil {
		return nil, err
	}
	if tset.terms.isEmpty() {
		return nil, ErrEmptyTypeSet
	}
	if tset.terms.isAll() {
		return nil, nil
	}
	var terms []*types.Term
	for _, term := range tset.terms {
		terms = append(terms, types.NewTerm(term.tilde, term.typ))
	}
	return terms, nil
}

// A termSet holds the normalized set of terms for a given type.
//
// The name termSet is intentionally distinct from 'type set': a type set is
// all types that implement a type (and includes method restrictions), whereas
// a term set just represents the structural restrictions on a type.
type termSet struct {
	complete bool
	terms    termlist
}

func indentf(depth int, format string, args ...interface{}) {
	fmt.Fprintf(os.Stderr, strings.Repeat(".", depth)+format+"\n", args...)
}

func computeTermSetInternal(t types.Type, seen map[types.Type]*termSet, depth int) (res *termSet, err error) {
	if t == nil {
		panic("nil type")
	}

	if debug {
		indentf(depth, "%s", t.String())
		defer func() {
			if err != nil {
				indentf(depth, "=> %s", err)
			} else {
				indentf(depth, "=> %s", res.terms.String())
			}
		}()
	}

	const maxTermCount = 100
	if tset, ok := seen[t]; ok {
		if !tset.complete {
			return nil, fmt.Errorf("cycle detected in the declaration of %s", t)
		}
		return tset, nil
	}

	// Mark the current type as seen to avoid infinite recursion.
	tset := new(termSet)
	defer func() {
		tset.complete = true
	}()
	seen[t] = tset

	switch u := t.Underlying().(type) {
	case *types.Interface:
		// The term set of an interface is the intersection of the term sets of its
		// embedded types.
		tset.terms = allTermlist
		for i := 0; i < u.NumEmbeddeds(); i++ {
			embedded := u.EmbeddedType(i)
			if _, ok := embedded.Underlying().(*types.TypeParam); ok {
				return nil, fmt.Errorf("invalid embedded type %T", embedded)
			}
			tset2, err := computeTermSetInternal(embedded, seen, depth+1)
			if err != nil {
				return nil, err
			}
			tset.terms = tset.terms.intersect(tset2.terms)
		}
	case *types.Union:
		// The term set of a union is the union of term sets of its terms.
		tset.terms = nil
		for i := 0; i < u.Len(); i++ {
			t := u.Term(i)
			var terms termlist
			switch t.Type().Underlying().(type) {
			case *types.Interface:
				tset2, err := computeTermSetInternal(t.Type(), seen, depth+1)
				if err != nil {
					return nil, err
				}
				terms = tset2.terms
			case *types.TypeParam, *types.Union:
				// A stand-alone type parameter or union is not permitted as union
				// term.
				return nil, fmt.Errorf("invalid union term %T", t)
			default:
				if t.Type() == types.Typ[types.Invalid] {
					continue
				}
				terms = termlist{{t.Tilde(), t.Type()}}
			}
			tset.terms = tset.terms.union(terms)
			if len(tset.terms) > maxTermCount {
				return nil, fmt.Errorf("exceeded max term count %d", maxTermCount)
			}
		}
	case *types.TypeParam:
		panic("unreachable")
	default:
		// For all other types, the term set is just a single non-tilde term
		// holding the type itself.
		if u != types.Typ[types.Invalid] {
			tset.terms = termlist{{false, t}}
		}
	}
	return tset, nil
}

// under is a facade for the go/types internal function of the same name. It is
// used by typeterm.go.
func under(t types.Type) types.Type {
	return t.Underlying()
}
