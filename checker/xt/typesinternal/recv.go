// Copyright 2024 The Go Authors. All rights reserved.
// Use of this source code is governed by a BSD-style
// license that can be found in the LICENSE file.

package typesinternal

import (
	"go/types"
)

// ReceiverNamed returns the named type (if any) associated with the
// type of recv, which may be of the form N or *N, or aliases thereof.
// It also reports whether a Pointer was present.
//
// The named result may be nil in ill-typed code.
func ReceiverNamed(recv *types.Var) (isPtr bool, named *types.Named) {
	t := recv.Type()
	if ptr, ok := types.Unalias(t).(*types.Pointer); ok {
		isPtr = true
		t = ptr.Elem()
	}
	named, _ = types.Unalias(t).(*types.Named)
	return
}

// Unpointer returns T given *T or an alias thereof.
// For all other types it is the identity function.
// It does not look at underlying types.
// The result may be an alias.
//
// Use this function to strip off the optional pointer on a receiver
// in a field or method selection, without losing the named type
// (which is needed to compute the method set).
//
// See also [typeparams.MustDeref], which removes one level of
// indirection from the type, regardless of named types (analogous to
// a LOAD instruction).
func Unpointer(t types.Type) types.Type {
	if ptr, ok := types.Unalias(t).(*types.Pointer); ok {
		return ptr.Elem()
	}
	return t
}
