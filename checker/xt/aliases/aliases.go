// Copyright 2024 The Go Authors. All rights reserved.
// Use of this source code is governed by a BSD-style
// license that can be found in the LICENSE file.

package aliases

import (
	"go/token"
	"go/types"
)

// Package aliases defines backward compatible shims
// for the types.Alias type representation added in 1.22.
// This defines placeholders for x/tools until 1.26.

// NewAlias creates a new TypeName in Package pkg that
// is an alias for the type rhs.
//
// The enabled parameter determines whether the resulting [TypeName]'s
// type is an [types.Alias]. Its value must be the result of a call to
// [Enabled], which computes the effective value of
// GODEBUG=gotypesalias=... by invoking the type checker. The Enabled
// function is expensive and should be called once per task (e.g.
// package import), not once per call to NewAlias.
//
// Precondition: enabled || len(tparams)==0.
// If materialized aliases are disabled, there must not be any type parameters.
func NewAlias(enabled bool, pos token.Pos, pkg *types.Package, name string, rhs types.Type, tparams []*types.TypeParam) *types.TypeName {
	if enabled {
		tname := types.NewTypeName(pos, pkg, name, nil)
		SetTypeParams(types.NewAlias(tname, rhs), tparams)
		return tname
	}
	if len(tparams) > 0 {
		panic("cannot create an alias with type parameters when gotypesalias is not enabled")
	}
	return types.NewTypeName(pos, pkg, name, rhs)
}
