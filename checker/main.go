package main

import (
	"encoding/json"
	"flag"
	"fmt"
	"os"
	"runtime/debug"
	"sort"
	"strconv"
	"strings"
)

type Ctx struct {
	P       *Prog
	R       *Report
	Verif   string
	Tier    string
	Explain string
	sx      *symxer
}

func (c *Ctx) Sx() *symxer {
	if c.sx == nil {
		c.sx = newSymx(c.P)
	}
	return c.sx
}

type propCheck struct {
	id     string
	needCG bool
	run    func(*Ctx)
}

var registry = map[string]*propCheck{}

func register(id string, needCG bool, run func(*Ctx)) {
	registry[id] = &propCheck{id, needCG, run}
}

func usage() {
	fmt.Fprintln(os.Stderr, "usage: dhcpverif check <Cxx ...|all> [--tier quick|thorough] [--repo DIR] [--verif DIR]")
	os.Exit(2)
}

func main() {
	if len(os.Args) < 2 {
		usage()
	}
	switch os.Args[1] {
	case "check":
		os.Exit(cmdCheck(os.Args[2:]))
	case "builders":
		os.Exit(cmdBuilders(os.Args[2:]))
	case "schemas":
		os.Exit(cmdSchemas(os.Args[2:]))
	case "funcs":
		os.Exit(cmdFuncs(os.Args[2:]))
	case "consts":
		os.Exit(cmdConsts(os.Args[2:]))
	case "rejects":
		os.Exit(cmdRejects(os.Args[2:]))
	case "selftest":
		os.Exit(cmdSelftest(os.Args[2:]))
	default:
		usage()
	}
}

func cmdCheck(args []string) int {
	var ids []string
	for len(args) > 0 && !strings.HasPrefix(args[0], "-") {
		ids = append(ids, args[0])
		args = args[1:]
	}
	fs := flag.NewFlagSet("check", flag.ExitOnError)
	tier := fs.String("tier", os.Getenv("VERIF_TIER"), "quick|thorough")
	repo := fs.String("repo", "/repo", "repository to analyse")
	verif := fs.String("verif", "/verif", "verif dir (evidence, spec, known findings)")
	explain := fs.String("explain", "", "print every obligation whose key contains this string")
	noSelf := fs.Bool("no-selftest", false, "thorough: skip self-tests")
	replay := fs.String("explain-replay", "", "replay file written by a failing run: re-evaluate and print that obligation")
	noInline := fs.Bool("no-inline", false, "do not inline functions unknown to spec/functions.json before analysis")
	fs.Parse(args)
	normaliseVerif = *verif
	if *noInline {
		normaliseVerif = ""
	}
	if *replay != "" {
		b, err := os.ReadFile(*replay)
		if err != nil {
			fmt.Fprintln(os.Stderr, err)
			return 2
		}
		var rp struct {
			Obligation struct {
				Key string `json:"key"`
			} `json:"obligation"`
		}
		if err := json.Unmarshal(b, &rp); err != nil || rp.Obligation.Key == "" {
			fmt.Fprintln(os.Stderr, "not a replay file:", *replay)
			return 2
		}
		*explain = rp.Obligation.Key
	}
	if *tier == "" {
		*tier = "quick"
	}
	if *tier != "quick" && *tier != "thorough" {
		usage()
	}
	if len(ids) == 0 {
		usage()
	}
	if len(ids) == 1 && ids[0] == "all" {
		ids = nil
		for id := range registry {
			ids = append(ids, id)
		}
		sort.Strings(ids)
	}
	seed, _ := strconv.ParseInt(os.Getenv("VERIF_SEED"), 10, 64)
	needCG := false
	for _, id := range ids {
		pc := registry[id]
		if pc == nil {
			fmt.Fprintf(os.Stderr, "unknown property %s\n", id)
			return 2
		}
		needCG = needCG || pc.needCG
	}
	configs := []BuildConfig{{"linux", "amd64"}}
	if *tier == "thorough" {
		configs = append(configs, BuildConfig{"linux", "386"}, BuildConfig{"linux", "arm64"})
	}
	reports := map[string]*Report{}
	for _, id := range ids {
		reports[id] = NewReport(id, *tier)
	}
	for _, cfg := range configs {
		p, err := Load(*repo, cfg, needCG)
		if err != nil {
			for _, id := range ids {
				r := reports[id]
				r.curConfig = cfg.String()
				r.Undecided(id+"-load", "load "+cfg.String(), "-", err.Error())
			}
			continue
		}
		for _, id := range ids {
			r := reports[id]
			r.curConfig = cfg.String()
			r.Configs = append(r.Configs, cfg.String())
			r.Extra["packages"] = len(p.ModPkgs)
			r.Extra["functions_in_module"] = len(p.ModuleFuncs())
			r.Extra["uio_version"] = p.UioVer
			head, dirty := gitState(*repo)
			if p.Inline != nil && (len(p.Inline.Inlined) > 0 || len(p.Inline.Kept) > 0) {
				r.Extra["normalisation_inlined"] = p.Inline.Inlined
				r.Extra["normalisation_kept_calls"] = p.Inline.Kept
			}
			r.Extra["repo_head"] = head
			r.Extra["repo_dirty"] = dirty
			ctx := &Ctx{P: p, R: r, Verif: *verif, Tier: *tier, Explain: *explain}
			runGuarded(ctx, registry[id])
		}
		p = nil
		debug.FreeOSMemory()
	}
	exit := 0
	for _, id := range ids {
		r := reports[id]
		if *tier == "thorough" && !*noSelf {
			runSelftests(r, id, *repo, *verif)
			runNegativeSelftests(r, id, *repo, *verif)
		}
		if *explain != "" {
			for _, o := range r.Obls {
				if strings.Contains(o.Key, *explain) {
					fmt.Printf("EXPLAIN [%s] %s\n   at %s by=%s\n   %s\n", o.Status, o.Key, o.Pos, o.By, o.Detail)
				}
			}
		}
		if e := r.Finish(*verif, seed); e != 0 {
			exit = 1
		}
	}
	return exit
}

func runGuarded(ctx *Ctx, pc *propCheck) {
	defer func() {
		if e := recover(); e != nil {
			ctx.R.Undecided(pc.id+"-panic", "analyser panic", "-", fmt.Sprintf("%v\n%s", e, debug.Stack()))
		}
	}()
	if ctx.P.UioVer != uioModelVersion {
		ctx.R.Undecided(pc.id+"-model", "uio version", "-", fmt.Sprintf("Lexer model written for %s, tree uses %s", uioModelVersion, ctx.P.UioVer))
	}
	pc.run(ctx)
}
