// Copyright 2023 The Go Authors. All rights reserved.
// Use of this source code is governed by a BSD-style
// license that can be found in the LICENSE file.

package inline

// This file defines the callee side of the "fallible constant" analysis.

import (
	"fmt"
	"go/ast"
	"go/constant"
	"go/format"
	"go/token"
	"go/types"
	"strconv"
	"strings"

	"golang.org/x/tools/go/types/typeutil"
	"dhcpverif/xt/typeparams"
)

// falconResult is the result of the analysis of the callee.
type falconResult struct {
	Types       []falconType // types for falcon constraint environment
	Constraints []string     // constraints (Go expressions) on values of fallible constants
}

// A falconType specifies the name and underlying type of a synthetic
// defined type for use in falcon constraints.
//
// Unique types from callee code are bijectively mapped onto falcon
// types so that constraints are independent of callee type
// information but preserve type equivalence classes.
//
// Fresh names are deliberately obscure to avoid shadowing even if a
// callee parameter has a nanme like "int" or "any".
type falconType struct {
	Name string
	Kind types.BasicKind // string/number/bool
}

// falcon identifies "fallible constant" expressions, which are
// expressions that may fail to compile if one or more of their
// operands is changed from non-constant to constant.
//
// Consider:
//
//	func sub(s string, i, j int) string { return s[i:j] }
//
// If parameters are replaced by constants, the compiler is
// required to perform these additional checks:
//
//   - if i is constant, 0 <= i.
//   - if s and i are constant, i <= len(s).
//   - ditto for j.
//   - if i and j are constant, i <= j.
//
// s[i:j] is thus a "fallible constant" expression dependent on {s, i,
// j}. Each falcon creates a set of conditional constraints across one
// or more parameter variables.
//
//   - When inlining a call such as sub("abc", -1, 2), the parameter i
//     cannot be eliminated by substitution as its argument value is
//     negative.
//
//   - When inlining sub("", 2, 1), all three parameters cannot be
//     simultaneously eliminated by substitution without violating i
//     <= len(s) and j <= len(s), but the parameters i and j could be
//     safely eliminated without s.
//
// Parameters that cannot be eliminated must remain non-constant,
// either in the form of a binding declaration:
//
//	{ var i int = -1; return "abc"[i:2] }
//
// or a parameter of a literalization:
//
//	func (i int) string { return "abc"[i:2] }(-1)
//
// These example expressions are obviously doomed to fail at run
// time, but in realistic cases such expressions are dominated by
// appropriate conditions that make them reachable only when safe:
//
//	if 0 <= i && i <= j && j <= len(s) { _ = s[i:j] }
//
// (In principle a more sophisticated inliner could entirely eliminate
// such unreachable blocks based on the condition being always-false
// for the given parameter substitution, but this is tricky to do safely
// because the type-checker considers only a single configuration.
// Consider: if runtime.GOOS == "linux" { ... }.)
//
// We believe this is an exhaustive list of "fallible constant" operations:
//
//   - switch z { case x: case y } 	// duplicate case values
//   - s[i], s[i:j], s[i:j:k]		// index out of bounds (0 <= i <= j <= k <= len(s))
//   - T{x: 0}				// index out of bounds, duplicate index
//   - x/y, x%y, x/=y, x%=y		// integer division by zero; minint/-1 overflow
//   - x+y, x-y, x*y			// arithmetic overflow
//   - x<<y				// shift out of range
//   - -x				// negation of minint
//   - T(x)				// value out of range
//
// The fundamental reason for this elaborate algorithm is that the
// "separate analysis" of callee and caller, as required when running
// in an environment such as unitchecker, means that there is no way
// for us to simply invoke the type checker on the combination of
// caller and callee code, as by the time we analyze the caller, we no
// longer have access to type information for the callee (and, in
// particular, any of its direct dependencies that are not direct
// dependencies of the caller). So, in effect, we are forced to map
// the problem in a neutral (callee-type-independent) constraint
// system that can be verified later.
func falcon(logf func(string, ...any), fset *token.FileSet, params map[*types.Var]*paramInfo, info *types.Info, decl *ast.FuncDecl) falconResult {

	st := &falconState{
		logf:   logf,
		fset:   fset,
		params: params,
		info:   info,
		decl:   decl,
	}

	// type mapping
	st.int = st.typename(types.Typ[types.Int])
	st.any = "interface{}" // don't use "any" as it may be shadowed
	for obj, info := range st.params {
		if isBasic(obj.Type(), types.IsConstType) {
			info.FalconType = st.typename(obj.Type())
		}
	}

	st.stmt(st.decl.Body)

	return st.result
}

type falconState struct {
	// inputs
	logf   func(string, ...any)
	fset   *token.FileSet
	params map[*types.Var]*paramInfo
	info   *types.Info
	decl   *ast.FuncDecl

	// working state
	int       string
	any       string
	typenames typeutil.Map

	result falconResult
}

// typename returns the name in the falcon constraint system
// of a given string/number/bool type t. Falcon types are
// specified directly in go/types data structures rather than
// by name, avoiding potential shadowing conflicts with
// confusing parameter names such as "int".
//
// Also, each distinct type (as determined by types.Identical)
// is mapped to a fresh type in the falcon system so that we
// can map the types in the callee code into a neutral form
// that does not depend on imports, allowing us to detect
// potential conflicts such as
//
//	map[any]{T1(1): 0, T2(1): 0}
//
// where T1=T2.
func (st *falconState) typename(t types.Type) string {
	name, ok := st.typenames.At(t).(string)
	if !ok {
		basic := t.Underlying().(*types.Basic)

		// That dot ۰ is an Arabic zero numeral U+06F0.
		// It is very unlikely to appear in a real program.
		// TODO(adonovan): use a non-heuristic solution.
		name = fmt.Sprintf("%s۰%d", basic, st.typenames.Len())
		st.typenames.Set(t, name)
		st.logf("falcon: emit type %s %s // %q", name, basic, t)
		st.result.Types = append(st.result.Types, falconType{
			Name: name,
			Kind: basic.Kind(),
		})
	}
	return name
}

// -- constraint emission --

// emit emits a Go expression that must have a legal type.
// In effect, we let the go/types constant folding algorithm
// do most of the heavy lifting (though it may be hard to
// believe from the complexity of this algorithm!).
func (st *falconState) emit(constraint ast.Expr) {
	var out strings.Builder
	if err := format.Node(&out, st.fset, constraint); err != nil {
		panic(err) // can't happen
	}
	syntax := out.String()
	st.logf("falcon: emit constraint %s", syntax)
	st.result.Constraints = append(st.result.Constraints, syntax)
}

// emitNonNegative emits an []T{}[index] constraint,
// which ensures index is non-negative if constant.
func (st *falconState) emitNonNegative(index ast.Expr) {
	st.emit(&ast.IndexExpr{
		X: &ast.CompositeLit{
			Type: &ast.ArrayType{
				Elt: makeIdent(st.int),
			},
		},
		Index: index,
	})
}

// emitMonotonic emits an []T{}[i:j] constraint,
// which ensures i <= j if both are constant.
func (st *falconState) emitMonotonic(i, j ast.Expr) {
	st.emit(&ast.SliceExpr{
		X: &ast.CompositeLit{
			Type: &ast.ArrayType{
				Elt: makeIdent(st.int),
			},
		},
		Low:  i,
		High: j,
	})
}

// emitUnique emits a T{elem1: 0, ... elemN: 0} constraint,
// which ensures that all constant elems are unique.
// T may be a map, slice, or array depending
// on the desired check semantics.
func (st *falconState) emitUnique(typ ast.Expr, elems []ast.Expr) {
	if len(elems) > 1 {
		var elts []ast.Expr
		for _, elem := range elems {
			elts = append(elts, &ast.KeyValueExpr{
				Key:   elem,
				Value: makeIntLit(0),
			})
		}
		st.emit(&ast.CompositeLit{
			Type: typ,
			Elts: elts,
		})
	}
}

// -- traversal --

// The traversal functions scan the callee body for expressions that
// are not constant but would become constant if the parameter vars
// were redeclared as constants, and emits for each one a constraint
// (a Go expression) with the property that it will not type-check
// (using types.CheckExpr) if the particular argument values are
// unsuitable.
//
// These constraints are checked by Inline with the actual
// constant argument values. Violations cause it to reject
// parameters as candidates for substitution.

func (st *falconState) stmt(s ast.Stmt) {
	ast.Inspect(s, func(n ast.Node) bool {
		switch n := n.(type) {
		case ast.Expr:
			_ = st.expr(n)
			return false // skip usual traversal

		case *ast.AssignStmt:
			switch n.Tok {
			case token.QUO_ASSIGN, token.REM_ASSIGN:
				// x /= y
				// Possible "integer division by zero"
				// Emit constraint: 1/y.
				_ = st.expr(n.Lhs[0])
				kY := st.expr(n.Rhs[0])
				if kY, ok := kY.(ast.Expr); ok {
					op := token.QUO
					if n.Tok == token.REM_ASSIGN {
						op = token.REM
					}
					st.emit(&ast.BinaryExpr{
						Op: op,
						X:  makeIntLit(1),
						Y:  kY,
					})
				}
				return false // skip usual traversal
			}

		case *ast.SwitchStmt:
			if n.Init != nil {
				st.stmt(n.Init)
			}
			tBool := types.Type(types.Typ[types.Bool])
			tagType := tBool // default: true
			if n.Tag != nil {
				st.expr(n.Tag)
				tagType = st.info.TypeOf(n.Tag)
			}

			// Possible "duplicate case value".
			// Emit constraint map[T]int{v1: 0, ..., vN:0}
			// to ensure all maybe-constant case values are unique
			// (unless switch tag is boolean, which is relaxed).
			var unique []ast.Expr
			for _, clause := range n.Body.List {
				clause := clause.(*ast.CaseClause)
				for _, caseval := range clause.List {
					if k := st.expr(caseval); k != nil {
						unique = append(unique, st.toExpr(k))
					}
				}
				for _, stmt := range clause.Body {
					st.stmt(stmt)
				}
			}
			if unique != nil && !types.Identical(tagType.Underlying(), tBool) {
				tname := st.any
				if !types.IsInterface(tagType) {
					tname = st.typename(tagType)
				}
				t := &ast.MapType{
					Key:   makeIdent(tname),
					Value: makeIdent(st.int),
				}
				st.emitUnique(t, unique)
			}
		}
		return true
	})
}

// fieldTypes visits the .Type of each field in the list.
func (st *falconState) fieldTypes(fields *ast.FieldList) {
	if fields != nil {
		for _, field := range fields.List {
			_ = st.expr(field.Type)
		}
	}
}

// expr visits the expression (or type) and returns a
// non-nil result if the expression is constant or would
// become constant if all suitable function parameters were
// redeclared as constants.
//
// If the expression is constant, st.expr returns its type
// and value (types.TypeAndValue). If the expression would
// become constant, st.expr returns an ast.Expr tree whose
// leaves are literals and parameter references, and whose
// interior nodes are operations that may become constant,
// such as -x, x+y, f(x), and T(x). We call these would-be
// constant expressions "fallible constants", since they may
// fail to type-check for some values of x, i, and j. (We
// refer to the non-nil cases collectively as "maybe
// constant", and the nil case as "definitely non-constant".)
//
// As a side effect, st.expr emits constraints for each
// fallible constant expression; this is its main purpose.
//
// Consequently, st.expr must visit the entire subtree so
// that all necessary constraints are emitted. It may not
// short-circuit the traversal when it encounters a constant
// subexpression as constants may contain arbitrary other
// syntax that may impose constraints. Consider (as always)
// this contrived but legal example of a type parameter (!)
// that contains statement syntax:
//
//	func f[T [unsafe.Sizeof(func() { stmts })]int]()
//
// There is no need to emit constraints for (e.g.) s[i] when s
// and i are already constants, because we know the expression
// is sound, but it is sometimes easier to emit these
// redundant constraints than to avoid them.
func (st *falconState) expr(e ast.Expr) (res any) { // = types.TypeAndValue | ast.Expr
	tv := st.info.Types[e]
	if tv.Value != nil {
		// A constant value overrides any other result.
		defer func() { res = tv }()
	}

	switch e := e.(type) {
	case *ast.Ident:
		if v, ok := st.info.Uses[e].(*types.Var); ok {
			if _, ok := st.params[v]; ok && isBasic(v.Type(), types.IsConstType) {
				return e // reference to constable parameter
			}
		}
		// (References to *types.Const are handled by the defer.)

	case *ast.BasicLit:
		// constant

	case *ast.ParenExpr:
		return st.expr(e.X)

	case *ast.FuncLit:
		_ = st.expr(e.Type)
		st.stmt(e.Body)
		// definitely non-constant

	case *ast.CompositeLit:
		// T{k: v, ...}, where T ∈ {array,*array,slice,map},
		// imposes a constraint that all constant k are
		// distinct and, for arrays [n]T, within range 0-n.
		//
		// Types matter, not just values. For example,
		// an interface-keyed map may contain keys
		// that are numerically equal so long as they
		// are of distinct types. For example:
		//
		//   type myint int
		//   map[any]bool{1: true, 1:        true} // error: duplicate key
		//   map[any]bool{1: true, int16(1): true} // ok
		//   map[any]bool{1: true, myint(1): true} // ok
		//
		// This can be asserted by emitting a
		// constraint of the form T{k1: 0, ..., kN: 0}.
		if e.Type != nil {
			_ = st.expr(e.Type)
		}
		t := types.Unalias(typeparams.Deref(tv.Type))
		var uniques []ast.Expr
		for _, elt := range e.Elts {
			if kv, ok := elt.(*ast.KeyValueExpr); ok {
				if !is[*types.Struct](t) {
					if k := st.expr(kv.Key); k != nil {
						uniques = append(uniques, st.toExpr(k))
					}
				}
				_ = st.expr(kv.Value)
			} else {
				_ = st.expr(elt)
			}
		}
		if uniques != nil {
			// Inv: not a struct.

			// The type T in constraint T{...} depends on the CompLit:
			// - for a basic-keyed map, use map[K]int;
			// - for an interface-keyed map, use map[any]int;
			// - for a slice, use []int;
			// - for an array or *array, use [n]int.
			// The last two entail progressively stronger index checks.
			var ct ast.Expr // type syntax for constraint
			switch t := typeparams.CoreType(t).(type) {
			case *types.Map:
				if types.IsInterface(t.Key()) {
					ct = &ast.MapType{
						Key:   makeIdent(st.any),
						Value: makeIdent(st.int),
					}
				} else {
					ct = &ast.MapType{
						Key:   makeIdent(st.typename(t.Key())),
						Value: makeIdent(st.int),
					}
				}
			case *types.Array: // or *array
				ct = &ast.ArrayType{
					Len: makeIntLit(t.Len()),
					Elt: makeIdent(st.int),
				}
			default:
				panic(fmt.Sprintf("%T: %v", t, t))
			}
			st.emitUnique(ct, uniques)
		}
		// definitely non-constant

	case *ast.SelectorExpr:
		_ = st.expr(e.X)
		_ = st.expr(e.Sel)
		// The defer is sufficient to handle
		// qualified identifiers (pkg.Const).
		// All other cases are definitely non-constant.

	case *ast.IndexExpr:
		if tv.IsType() {
			// type C[T]
			_ = st.expr(e.X)
			_ = st.expr(e.Index)
		} else {
			// term x[i]
			//
			// Constraints (if x is slice/string/array/*array, not map):
			// - i >= 0
			//     if i is a fallible constant
			// - i < len(x)
			//     if x is array/*array and
			//     i is a fallible constant;
			//  or if s is a string and both i,
			//     s are maybe-constants,
			//     but not both are constants.
			kX := st.expr(e.X)
			kI := st.expr(e.Index)
			if kI != nil && !is[*types.Map](st.info.TypeOf(e.X).Underlying()) {
				if kI, ok := kI.(ast.Expr); ok {
					st.emitNonNegative(kI)
				}
				// Emit constraint to check indices against known length.
				// TODO(adonovan): factor with SliceExpr logic.
				var x ast.Expr
				if kX != nil {
					// string
					x = st.toExpr(kX)
				} else if arr, ok := typeparams.CoreType(typeparams.Deref(st.info.TypeOf(e.X))).(*types.Array); ok {
					// array, *array
					x = &ast.CompositeLit{
						Type: &ast.ArrayType{
							Len: makeIntLit(arr.Len()),
							Elt: makeIdent(st.int),
						},
					}
				}
				if x != nil {
					st.emit(&ast.IndexExpr{
						X:     x,
						Index: st.toExpr(kI),
					})
				}
			}
		}
		// definitely non-constant

	case *ast.SliceExpr:
		// x[low:high:max]
		//
		// Emit non-negative constraints for each index,
		// plus low <= high <= max <= len(x)
		// for each pair that are maybe-constant
		// but not definitely constant.

		kX := st.expr(e.X)
		var kLow, kHigh, kMax any
		if e.Low != nil {
			kLow = st.expr(e.Low)
			if kLow != nil {
				if kLow, ok := kLow.(ast.Expr); ok {
					st.emitNonNegative(kLow)
				}
			}
		}
		if e.High != nil {
			kHigh = st.expr(e.High)
			if kHigh != nil {
				if kHigh, ok := kHigh.(ast.Expr); ok {
					st.emitNonNegative(kHigh)
				}
				if kLow != nil {
					st.emitMonotonic(st.toExpr(kLow), st.toExpr(kHigh))
				}
			}
		}
		if e.Max != nil {
			kMax = st.expr(e.Max)
			if kMax != nil {
				if kMax, ok := kMax.(ast.Expr); ok {
					st.emitNonNegative(kMax)
				}
				if kHigh != nil {
					st.emitMonotonic(st.toExpr(kHigh), st.toExpr(kMax))
				}
			}
		}

		// Emit constraint to check indices against known length.
		var x ast.Expr
		if kX != nil {
			// string
			x = st.toExpr(kX)
		} else if arr, ok := typeparams.CoreType(typeparams.Deref(st.info.TypeOf(e.X))).(*types.Array); ok {
			// array, *array
			x = &ast.CompositeLit{
				Type: &ast.ArrayType{
					Len: makeIntLit(arr.Len()),
					Elt: makeIdent(st.int),
				},
			}
		}
		if x != nil {
			// Avoid slice[::max] if kHigh is nonconstant (nil).
			high, max := st.toExpr(kHigh), st.toExpr(kMax)
			if high == nil {
				high = max // => slice[:max:max]
			}
			st.emit(&ast.SliceExpr{
				X:    x,
				Low:  st.toExpr(kLow),
				High: high,
				Max:  max,
			})
		}
		// definitely non-constant

	case *ast.TypeAssertExpr:
		_ = st.expr(e.X)
		if e.Type != nil {
			_ = st.expr(e.Type)
		}

	case *ast.CallExpr:
		_ = st.expr(e.Fun)
		if tv, ok := st.info.Types[e.Fun]; ok && tv.IsType() {
			// conversion T(x)
			//
			// Possible "value out of range".
			kX := st.expr(e.Args[0])
			if kX != nil && isBasic(tv.Type, types.IsConstType) {
				conv := convert(makeIdent(st.typename(tv.Type)), st.toExpr(kX))
				if is[ast.Expr](kX) {
					st.emit(conv)
				}
				return conv
			}
			return nil // definitely non-constant
		}

		// call f(x)

		all := true // all args are possibly-constant
		kArgs := make([]ast.Expr, len(e.Args))
		for i, arg := range e.Args {
			if kArg := st.expr(arg); kArg != nil {
				kArgs[i] = st.toExpr(kArg)
			} else {
				all = false
			}
		}

		// Calls to built-ins with fallibly constant arguments
		// may become constant. All other calls are either
		// constant or non-constant
		if id, ok := e.Fun.(*ast.Ident); ok && all && tv.Value == nil {
			if builtin, ok := st.info.Uses[id].(*types.Builtin); ok {
				switch builtin.Name() {
				case "len", "imag", "real", "complex", "min", "max":
					return &ast.CallExpr{
						Fun:      id,
						Args:     kArgs,
						Ellipsis: e.Ellipsis,
					}
				}
			}
		}

	case *ast.StarExpr: // *T, *ptr
		_ = st.expr(e.X)

	case *ast.UnaryExpr:
		// + - ! ^ & <- ~
		//
		// Possible "negation of minint".
		// Emit constraint: -x
		kX := st.expr(e.X)
		if kX != nil && !is[types.TypeAndValue](kX) {
			if e.Op == token.SUB {
				st.emit(&ast.UnaryExpr{
					Op: e.Op,
					X:  st.toExpr(kX),
				})
			}

			return &ast.UnaryExpr{
				Op: e.Op,
				X:  st.toExpr(kX),
			}
		}

	case *ast.BinaryExpr:
		kX := st.expr(e.X)
		kY := st.expr(e.Y)
		switch e.Op {
		case token.QUO, token.REM:
			// x/y, x%y
			//
			// Possible "integer division by zero" or
			// "minint / -1" overflow.
			// Emit constraint: x/y or 1/y
			if kY != nil {
				if kX == nil {
					kX = makeIntLit(1)
				}
				st.emit(&ast.BinaryExpr{
					Op: e.Op,
					X:  st.toExpr(kX),
					Y:  st.toExpr(kY),
				})
			}

		case token.ADD, token.SUB, token.MUL:
			// x+y, x-y, x*y
			//
			// Possible "arithmetic overflow".
			// Emit constraint: x+y
			if kX != nil && kY != nil {
				st.emit(&ast.BinaryExpr{
					Op: e.Op,
					X:  st.toExpr(kX),
					Y:  st.toExpr(kY),
				})
			}

		case token.SHL, token.SHR:
			// x << y, x >> y
			//
			// Possible "constant shift too large".
			// Either operand may be too large individually,
			// and they may be too large together.
			// Emit constraint:
			//    x << y (if both maybe-constant)
			//    x << 0 (if y is non-constant)
			//    1 << y (if x is non-constant)
			if kX != nil || kY != nil {
				x := st.toExpr(kX)
				if x == nil {
					x = makeIntLit(1)
				}
				y := st.toExpr(kY)
				if y == nil {
					y = makeIntLit(0)
				}
				st.emit(&ast.BinaryExpr{
					Op: e.Op,
					X:  x,
					Y:  y,
				})
			}

		case token.LSS, token.GTR, token.EQL, token.NEQ, token.LEQ, token.GEQ:
			// < > == != <= <=
			//
			// A "x cmp y" expression with constant operands x, y is
			// itself constant, but I can't see how a constant bool
			// could be fallible: the compiler doesn't reject duplicate
			// boolean cases in a switch, presumably because boolean
			// switches are less like n-way branches and more like
			// sequential if-else chains with possibly overlapping
			// conditions; and there is (sadly) no way to convert a
			// boolean constant to an int constant.
		}
		if kX != nil && kY != nil {
			return &ast.BinaryExpr{
				Op: e.Op,
				X:  st.toExpr(kX),
				Y:  st.toExpr(kY),
			}
		}

	// types
	//
	// We need to visit types (and even type parameters)
	// in order to reach all the places where things could go wrong:
	//
	// 	const (
	// 		s = ""
	// 		i = 0
	// 	)
	// 	type C[T [unsafe.Sizeof(func() { _ = s[i] })]int] bool

	case *ast.IndexListExpr:
		_ = st.expr(e.X)
		for _, expr := range e.Indices {
			_ = st.expr(expr)
		}

	case *ast.Ellipsis:
		if e.Elt != nil {
			_ = st.expr(e.Elt)
		}

	case *ast.ArrayType:
		if e.Len != nil {
			_ = st.expr(e.Len)
		}
		_ = st.expr(e.Elt)

	case *ast.StructType:
		st.fieldTypes(e.Fields)

	case *ast.FuncType:
		st.fieldTypes(e.TypeParams)
		st.fieldTypes(e.Params)
		st.fieldTypes(e.Results)

	case *ast.InterfaceType:
		st.fieldTypes(e.Methods)

	case *ast.MapType:
		_ = st.expr(e.Key)
		_ = st.expr(e.Value)

	case *ast.ChanType:
		_ = st.expr(e.Value)
	}
	return
}

// toExpr converts the result of visitExpr to a falcon expression.
// (We don't do this in visitExpr as we first need to discriminate
// constants from maybe-constants.)
func (st *falconState) toExpr(x any) ast.Expr {
	switch x := x.(type) {
	case nil:
		return nil

	case types.TypeAndValue:
		lit := makeLiteral(x.Value)
		if !isBasic(x.Type, types.IsUntyped) {
			// convert to "typed" type
			lit = &ast.CallExpr{
				Fun:  makeIdent(st.typename(x.Type)),
				Args: []ast.Expr{lit},
			}
		}
		return lit

	case ast.Expr:
		return x

	default:
		panic(x)
	}
}

func makeLiteral(v constant.Value) ast.Expr {
	switch v.Kind() {
	case constant.Bool:
		// Rather than refer to the true or false built-ins,
		// which could be shadowed by poorly chosen parameter
		// names, we use 0 == 0 for true and 0 != 0 for false.
		op := token.EQL
		if !constant.BoolVal(v) {
			op = token.NEQ
		}
		return &ast.BinaryExpr{
			Op: op,
			X:  makeIntLit(0),
			Y:  makeIntLit(0),
		}

	case constant.String:
		return &ast.BasicLit{
			Kind:  token.STRING,
			Value: v.ExactString(),
		}

	case constant.Int:
		return &ast.BasicLit{
			Kind:  token.INT,
			Value: v.ExactString(),
		}

	case constant.Float:
		return &ast.BasicLit{
			Kind:  token.FLOAT,
			Value: v.ExactString(),
		}

	case constant.Complex:
		// The components could be float or int.
		y := makeLiteral(constant.Imag(v))
		y.(*ast.BasicLit).Value += "i" // ugh
		if re := constant.Real(v); !consteq(re, kZeroInt) {
			// complex: x + yi
			y = &ast.BinaryExpr{
				Op: token.ADD,
				X:  makeLiteral(re),
				Y:  y,
			}
		}
		return y

	default:
		panic(v.Kind())
	}
}

func makeIntLit(x int64) *ast.BasicLit {
	return &ast.BasicLit{
		Kind:  token.INT,
		Value: strconv.FormatInt(x, 10),
	}
}

func isBasic(t types.Type, info types.BasicInfo) bool {
	basic, ok := t.Underlying().(*types.Basic)
	return ok && basic.Info()&info != 0
}
