package main

// Platform-width rule (round 7): `int`, `uint` and `uintptr` are 32 bits wide on GOARCH=386/arm/mips. A value
// computed in one of these types must not depend on that width, or equal inputs encode/decode differently on
// different targets (and sizes or indices derived from wire values turn negative). Decided per instruction:
//   - a left shift in a platform-sized type: (known bit length of the operand) + (largest shift count) fits 31/32 bits;
//   - a conversion to a platform-sized type from a 64-bit type, or from uint32 to int: the operand's known bit
//     length fits.
// Bit lengths come from constants, conversions from narrower unsigned types, masks, right shifts, len/cap, and the
// relational bounds prover (D10) where available. What cannot be bounded is a violation: the rule has no ledger.

import (
	"fmt"
	"go/constant"
	"go/token"
	"go/types"

	"golang.org/x/tools/go/ssa"
)

func platformKind(t types.Type) (bool, int) {
	bt, ok := t.Underlying().(*types.Basic)
	if !ok {
		return false, 0
	}
	switch bt.Kind() {
	case types.Int:
		return true, 31
	case types.Uint, types.Uintptr:
		return true, 32
	}
	return false, 0
}

func bitLen(n int64) int {
	b := 0
	for n > 0 {
		b++
		n >>= 1
	}
	return b
}

// maxBits: an upper bound on the bit length of the (non-negative) value v, 64 when unknown
func maxBits(v ssa.Value, depth int) int {
	if depth > 6 {
		return 64
	}
	switch x := v.(type) {
	case *ssa.Const:
		if x.Value != nil && x.Value.Kind() == constant.Int {
			if n, ok := constant.Int64Val(x.Value); ok && n >= 0 {
				return bitLen(n)
			}
		}
		return 64
	case *ssa.Convert:
		in := maxBits(x.X, depth+1)
		if bt, ok := x.X.Type().Underlying().(*types.Basic); ok && bt.Info()&types.IsUnsigned != 0 {
			if s := sizeofBasic(bt) * 8; bt.Kind() != types.Uint && bt.Kind() != types.Uintptr && s < in {
				in = s
			}
		}
		if bt, ok := x.Type().Underlying().(*types.Basic); ok && bt.Info()&types.IsUnsigned != 0 && bt.Kind() != types.Uint && bt.Kind() != types.Uintptr {
			if s := sizeofBasic(bt) * 8; s < in {
				in = s
			}
		}
		return in
	case *ssa.ChangeType:
		return maxBits(x.X, depth+1)
	case *ssa.Call:
		if isBuiltinCall(x.Common(), "len") || isBuiltinCall(x.Common(), "cap") {
			return 31 // lengths fit int on every target
		}
		if f := x.Call.StaticCallee(); f != nil && f.Signature.Results().Len() == 1 {
			if bt, ok := f.Signature.Results().At(0).Type().Underlying().(*types.Basic); ok && bt.Info()&types.IsUnsigned != 0 && bt.Kind() != types.Uint && bt.Kind() != types.Uintptr {
				return sizeofBasic(bt) * 8
			}
		}
		return 64
	case *ssa.UnOp:
		if x.Op == token.MUL || x.Op == token.ARROW {
			if bt, ok := x.Type().Underlying().(*types.Basic); ok && bt.Info()&types.IsUnsigned != 0 && bt.Kind() != types.Uint && bt.Kind() != types.Uintptr {
				return sizeofBasic(bt) * 8
			}
		}
		return 64
	case *ssa.BinOp:
		switch x.Op {
		case token.AND:
			a, b := maxBits(x.X, depth+1), maxBits(x.Y, depth+1)
			if b < a {
				a = b
			}
			return a
		case token.AND_NOT:
			return maxBits(x.X, depth+1)
		case token.OR, token.XOR:
			a, b := maxBits(x.X, depth+1), maxBits(x.Y, depth+1)
			if b > a {
				a = b
			}
			return a
		case token.SHR:
			a := maxBits(x.X, depth+1)
			if k, ok := intConst(x.Y); ok && k >= 0 && a < 64 {
				if int(k) >= a {
					return 0
				}
				return a - int(k)
			}
			return a
		case token.SHL:
			a := maxBits(x.X, depth+1)
			if k, ok := intConst(x.Y); ok && k >= 0 && a+int(k) < 64 {
				return a + int(k)
			}
			return 64
		case token.ADD:
			a, b := maxBits(x.X, depth+1), maxBits(x.Y, depth+1)
			if b > a {
				a = b
			}
			if a < 63 {
				return a + 1
			}
			return 64
		case token.MUL:
			a, b := maxBits(x.X, depth+1), maxBits(x.Y, depth+1)
			if a+b < 64 {
				return a + b
			}
			return 64
		case token.QUO:
			return maxBits(x.X, depth+1)
		case token.REM:
			return maxBits(x.Y, depth+1)
		}
	case *ssa.Phi:
		m := 0
		for _, e := range x.Edges {
			if e == v {
				continue
			}
			if b := maxBits(e, depth+2); b > m {
				m = b
			}
		}
		return m
	}
	if bt, ok := v.Type().Underlying().(*types.Basic); ok && bt.Info()&types.IsUnsigned != 0 && bt.Kind() != types.Uint && bt.Kind() != types.Uintptr {
		return sizeofBasic(bt) * 8
	}
	return 64
}

func maxShift(v ssa.Value, depth int) int {
	if depth > 4 {
		return 64
	}
	switch x := v.(type) {
	case *ssa.Const:
		if k, ok := intConst(x); ok && k >= 0 && k < 64 {
			return int(k)
		}
	case *ssa.Convert:
		return maxShift(x.X, depth+1)
	case *ssa.BinOp:
		switch x.Op {
		case token.AND:
			if k, ok := intConst(x.Y); ok && k >= 0 && k < 64 {
				return int(k)
			}
			if k, ok := intConst(x.X); ok && k >= 0 && k < 64 {
				return int(k)
			}
		case token.REM:
			if k, ok := intConst(x.Y); ok && k > 0 && k <= 64 {
				return int(k) - 1
			}
		}
	}
	return 64
}

// widthSensitiveUse: the converted value is used where its numeric value (not just its low 32 bits) matters: arithmetic,
// ordered comparison, index, slice bound, allocation size, argument of a call. Equality tests, conversion back to a
// fixed-width type, boxing for printing and plain stores keep the bits and are the same on every target.
func widthSensitiveUse(v ssa.Value, depth int) bool {
	if depth > 3 || v.Referrers() == nil {
		return true
	}
	for _, ref := range *v.Referrers() {
		switch u := ref.(type) {
		case *ssa.BinOp:
			if u.Op != token.EQL && u.Op != token.NEQ {
				return true
			}
		case *ssa.Convert:
			if isP, _ := platformKind(u.Type()); isP {
				if widthSensitiveUse(u, depth+1) {
					return true
				}
			} else if bt, ok := u.Type().Underlying().(*types.Basic); !ok || bt.Info()&types.IsInteger == 0 || sizeofBasic(bt) > 4 {
				return true
			}
		case *ssa.ChangeType:
			if widthSensitiveUse(u, depth+1) {
				return true
			}
		case *ssa.Phi:
			if widthSensitiveUse(u, depth+1) {
				return true
			}
		case *ssa.Store:
			if u.Val != v {
				return true
			}
		case *ssa.MakeInterface, *ssa.DebugRef, *ssa.Return:
		default:
			return true
		}
	}
	return false
}

func platformWidthRule(c *Ctx, rule string, pkgs []string) {
	r := c.R
	inScope := func(f *ssa.Function) bool {
		pp := pkgPathOf(f)
		for _, p := range pkgs {
			if pp == modPath+"/"+p {
				return true
			}
		}
		return false
	}
	nShift, nConv := 0, 0
	for _, f := range c.P.ModuleFuncs() {
		if !inScope(f) {
			continue
		}
		fk := shortName(f)
		ord := map[string]int{}
		allInstrs(f, func(in ssa.Instruction) {
			switch x := in.(type) {
			case *ssa.BinOp:
				if x.Op != token.SHL {
					return
				}
				isP, width := platformKind(x.Type())
				if !isP {
					return
				}
				nShift++
				a, s := maxBits(x.X, 0), maxShift(x.Y, 0)
				if a+s > width {
					ord["shl"]++
					r.Violation(rule, fmt.Sprintf("%s: left shift in a platform-sized integer type #%d", fk, ord["shl"]), c.P.ipos(in),
						fmt.Sprintf("operand of up to %d bits shifted by up to %d in type %s: the result differs where int is 32 bits wide (GOARCH=386, arm)", a, s, x.Type()))
				}
			case *ssa.Convert:
				isP, width := platformKind(x.Type())
				if !isP {
					return
				}
				bt, ok := x.X.Type().Underlying().(*types.Basic)
				if !ok || bt.Info()&types.IsInteger == 0 {
					return
				}
				wide := sizeofBasic(bt) == 8 && bt.Kind() != types.Int && bt.Kind() != types.Uint && bt.Kind() != types.Uintptr
				if !(wide || (bt.Kind() == types.Uint32 && width == 31)) {
					return
				}
				if _, isConst := x.X.(*ssa.Const); isConst {
					return // the compiler rejects an overflowing constant on the narrow target (thorough tier loads linux/386)
				}
				nConv++
				if a := maxBits(x.X, 0); a > width && widthSensitiveUse(x, 0) {
					ord["conv"]++
					r.Violation(rule, fmt.Sprintf("%s: %s converted to %s #%d", fk, bt.Name(), x.Type(), ord["conv"]), c.P.ipos(in),
						fmt.Sprintf("a value of up to %d bits does not fit where int is 32 bits wide: it wraps (negative sizes, different results per target)", a))
				}
			}
		})
	}
	r.Count(rule+"-sites", nShift+nConv)
	r.OK(rule, "no value computed in int/uint/uintptr depends on the width of int", "-", "shift and conversion census", fmt.Sprintf("%d shifts, %d narrowing-capable conversions, all bounded", nShift, nConv))
}
