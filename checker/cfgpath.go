package main

// Path-sensitive reachability for the one correlation that helper extraction produces over and over: a join block J
// whose φs carry "what the merged paths decided" (the results of an inlined helper: value, error), followed by tests of
// those φs against nil.
//
//	J:  d = φ[P1: nil, P2: nil, P3: dec]     err = φ[P1: readErr, P2: nil, P3: nil]
//	    if err != nil goto R else K
//	K:  if d == nil goto L(continue) else H(handler)
//
// Coming from P1 (where readErr is known non-nil) only R is feasible; from P2 only L; from P3 only H (when dec is known
// non-nil). The plain reachability of cfgutil.go sees every combination. The search below walks states (block, J, i) —
// "J was last entered through its i-th predecessor" — and at an If whose condition compares a φ of J with nil follows only
// the successor that the φ's i-th incoming value allows, when that value is the nil constant or is known non-nil there.
// It removes infeasible paths only, so every "must pass" / "cannot reach" verdict built on it stays sound and becomes
// more precise.

import (
	"go/token"

	"golang.org/x/tools/go/ssa"
)

type pathInfo struct {
	// tests: If-terminated block → the φ (with its join block) that its condition compares with nil, and the successor
	// index taken when the φ is nil
	tests map[*ssa.BasicBlock]phiTest
	joins map[*ssa.BasicBlock]bool
}

type phiTest struct {
	ph      *ssa.Phi
	nilSucc int // index into Succs taken when ph == nil
}

var pathInfoMemo = map[*ssa.Function]*pathInfo{}

func pathInfoOf(fn *ssa.Function) *pathInfo {
	if pi, ok := pathInfoMemo[fn]; ok {
		return pi
	}
	pi := &pathInfo{tests: map[*ssa.BasicBlock]phiTest{}, joins: map[*ssa.BasicBlock]bool{}}
	pathInfoMemo[fn] = pi
	for _, b := range fn.Blocks {
		iff := ifOf(b)
		if iff == nil {
			continue
		}
		bo, ok := iff.Cond.(*ssa.BinOp)
		if !ok || (bo.Op != token.EQL && bo.Op != token.NEQ) {
			continue
		}
		var x ssa.Value
		switch {
		case isNilConst(bo.Y):
			x = bo.X
		case isNilConst(bo.X):
			x = bo.Y
		default:
			continue
		}
		ph, ok := x.(*ssa.Phi)
		if !ok || len(ph.Block().Preds) < 2 {
			continue
		}
		j := ph.Block()
		if !(j == b || j.Dominates(b)) {
			continue
		}
		hasNil := false
		for _, e := range ph.Edges {
			if isNilConst(e) {
				hasNil = true
			}
		}
		if !hasNil {
			continue
		}
		ns := 0
		if bo.Op == token.NEQ {
			ns = 1
		}
		pi.tests[b] = phiTest{ph, ns}
		pi.joins[j] = true
	}
	return pi
}

// knownNonNilAt: value v, flowing into a φ from predecessor block p, is not nil there
func knownNonNilAt(fn *ssa.Function, p *ssa.BasicBlock, v ssa.Value) bool {
	switch t := v.(type) {
	case *ssa.Alloc, *ssa.MakeInterface, *ssa.MakeSlice, *ssa.MakeMap, *ssa.MakeChan, *ssa.MakeClosure, *ssa.Function:
		_ = t
		return true
	}
	if nilGuardedBlockPlain(fn, p, v) || resultNonNil(v, p) {
		return true
	}
	// the i-th result of a call, on the side where the error that came with it is nil, for a module callee that never
	// returns (nil, nil)
	if ex, ok := v.(*ssa.Extract); ok {
		if cl, ok := ex.Tuple.(*ssa.Call); ok {
			if f := cl.Call.StaticCallee(); f != nil && f.Blocks != nil && !mayReturnNilOK(f, ex.Index) {
				res := f.Signature.Results()
				for i := 0; i < res.Len(); i++ {
					if isErrorType(res.At(i).Type()) && i != ex.Index {
						if ev := extractOf(cl, i); ev != nil && nilOnlyBlockPlain(fn, p, ev) {
							return true
						}
					}
				}
			}
		}
	}
	return false
}

// nilGuardedBlockPlain / nilOnlyBlockPlain: block `target` is reachable only through an edge on which v != nil (v == nil);
// plain reachability (these are the oracles of the path-sensitive search, they must not recurse into it)
func nilGuardedBlockPlain(fn *ssa.Function, target *ssa.BasicBlock, v ssa.Value) bool {
	for _, b := range fn.Blocks {
		if iff := ifOf(b); iff != nil {
			if _, nn, ok := nilEdgesOf(iff, func(x ssa.Value) bool { return sameNilSubject(x, v) }); ok {
				if !reachFromPlain(fn.Blocks[0], map[Edge]bool{nn: true}, nil)[target] {
					return true
				}
			}
		}
	}
	return false
}

func nilOnlyBlockPlain(fn *ssa.Function, target *ssa.BasicBlock, v ssa.Value) bool {
	for _, b := range fn.Blocks {
		if iff := ifOf(b); iff != nil {
			if nl, _, ok := nilEdgesOf(iff, func(x ssa.Value) bool { return sameNilSubject(x, v) }); ok {
				if !reachFromPlain(fn.Blocks[0], map[Edge]bool{nl: true}, nil)[target] {
					return true
				}
			}
		}
	}
	return false
}

type pathState struct {
	b, j *ssa.BasicBlock
	i    int
}

// feasibleSuccs: the successors of st.b that can be taken given how its governing join was entered
func (pi *pathInfo) feasibleSuccs(fn *ssa.Function, st pathState) []*ssa.BasicBlock {
	b := st.b
	t, ok := pi.tests[b]
	if !ok || st.j == nil || t.ph.Block() != st.j || st.i < 0 || st.i >= len(t.ph.Edges) {
		return b.Succs
	}
	v := t.ph.Edges[st.i]
	switch {
	case isNilConst(v):
		return []*ssa.BasicBlock{b.Succs[t.nilSucc]}
	case knownNonNilAt(fn, st.j.Preds[st.i], v):
		return []*ssa.BasicBlock{b.Succs[1-t.nilSucc]}
	}
	return b.Succs
}

func (pi *pathInfo) next(st pathState, s *ssa.BasicBlock) pathState {
	if pi.joins[s] {
		idx := -1
		for k, p := range s.Preds {
			if p == st.b {
				idx = k
			}
		}
		return pathState{s, s, idx}
	}
	if st.j != nil && st.j.Dominates(s) {
		return pathState{s, st.j, st.i}
	}
	return pathState{s, nil, -1}
}

// reachPath: blocks reachable from `from` (inclusive unless succsOnly) without removed edges / blocked blocks, following
// feasible successors only
func reachPath(from *ssa.BasicBlock, removed map[Edge]bool, blocked map[*ssa.BasicBlock]bool, succsOnly bool) map[*ssa.BasicBlock]bool {
	fn := from.Parent()
	pi := pathInfoOf(fn)
	if len(pi.tests) == 0 {
		if succsOnly {
			return reachFromSuccsPlain(from, removed, blocked)
		}
		return reachFromPlain(from, removed, blocked)
	}
	seen := map[*ssa.BasicBlock]bool{}
	if !succsOnly && blocked[from] {
		return seen
	}
	seenSt := map[pathState]bool{}
	start := pathState{from, nil, -1}
	if pi.joins[from] {
		// entered from nowhere in particular: every predecessor is possible
		start = pathState{from, nil, -1}
	}
	var stack []pathState
	if !succsOnly {
		seen[from] = true
	}
	seenSt[start] = true
	stack = append(stack, start)
	first := true
	for len(stack) > 0 {
		st := stack[len(stack)-1]
		stack = stack[:len(stack)-1]
		succs := pi.feasibleSuccs(fn, st)
		if first {
			first = false
		}
		for _, s := range succs {
			if removed[Edge{st.b, s}] || blocked[s] {
				continue
			}
			ns := pi.next(st, s)
			if seenSt[ns] {
				continue
			}
			seenSt[ns] = true
			seen[s] = true
			stack = append(stack, ns)
		}
	}
	return seen
}

// reachPathState: reachPath started in a given state (used to ask "entering join J through its i-th predecessor, what can
// be reached?")
func reachPathState(start pathState, removed map[Edge]bool, blocked map[*ssa.BasicBlock]bool) map[*ssa.BasicBlock]bool {
	fn := start.b.Parent()
	pi := pathInfoOf(fn)
	seen := map[*ssa.BasicBlock]bool{start.b: true}
	seenSt := map[pathState]bool{start: true}
	stack := []pathState{start}
	for len(stack) > 0 {
		st := stack[len(stack)-1]
		stack = stack[:len(stack)-1]
		for _, s := range pi.feasibleSuccs(fn, st) {
			if removed[Edge{st.b, s}] || blocked[s] {
				continue
			}
			ns := pi.next(st, s)
			if seenSt[ns] {
				continue
			}
			seenSt[ns] = true
			seen[s] = true
			stack = append(stack, ns)
		}
	}
	return seen
}

// feasibleAt: v as seen from block `use`: when v is a φ of a join whose tested φs decide the way to `use`, and every
// incoming edge from which `use` can feasibly be reached carries the same value, that value; else v itself.
// (d := φ[nil, nil, dec]; … if d == nil { continue }; go h(d): at the go statement d is dec.)
func feasibleAt(v ssa.Value, use *ssa.BasicBlock) ssa.Value {
	ph, ok := v.(*ssa.Phi)
	if !ok {
		return v
	}
	j := ph.Block()
	if !(j == use || j.Dominates(use)) || len(j.Preds) != len(ph.Edges) {
		return v
	}
	pi := pathInfoOf(j.Parent())
	if !pi.joins[j] {
		return v
	}
	var val ssa.Value
	n := 0
	for i := range ph.Edges {
		// the way from this entry of j to `use` without entering j again
		var reach map[*ssa.BasicBlock]bool
		if use == j {
			reach = map[*ssa.BasicBlock]bool{j: true}
		} else {
			reach = reachPathState(pathState{j, j, i}, nil, nil)
			// re-entering j would give the φ another value: paths through j again are judged for that entry
			reach2 := map[*ssa.BasicBlock]bool{}
			for _, s := range pi.feasibleSuccs(j.Parent(), pathState{j, j, i}) {
				for b := range reachPathState(pi.next(pathState{j, j, i}, s), nil, map[*ssa.BasicBlock]bool{j: true}) {
					reach2[b] = true
				}
			}
			reach = reach2
		}
		if !reach[use] {
			continue
		}
		n++
		if val == nil {
			val = ph.Edges[i]
		} else if val != ph.Edges[i] {
			return v
		}
	}
	if n == 0 || val == nil {
		return v
	}
	return val
}
