// Copyright 2023 The Go Authors. All rights reserved.
// Use of this source code is governed by a BSD-style
// license that can be found in the LICENSE file.

package versions

// This file contains predicates for working with file versions to
// decide when a tool should consider a language feature enabled.

// GoVersions that features in x/tools can be gated to.
const (
	Go1_18 = "go1.18"
	Go1_19 = "go1.19"
	Go1_20 = "go1.20"
	Go1_21 = "go1.21"
	Go1_22 = "go1.22"
)

// Future is an invalid unknown Go version sometime in the future.
// Do not use directly with Compare.
const Future = ""

// AtLeast reports whether the file version v comes after a Go release.
//
// Use this predicate to enable a behavior once a certain Go release
// has happened (and stays enabled in the future).
func AtLeast(v, release string) bool {
	if v == Future {
		return true // an unknown future version is always after y.
	}
	return Compare(Lang(v), Lang(release)) >= 0
}

// Before reports whether the file version v is strictly before a Go release.
//
// Use this predicate to disable a behavior once a certain Go release
// has happened (and stays enabled in the future).
func Before(v, release string) bool {
	if v == Future {
		return false // an unknown future version happens after y.
	}
	return Compare(Lang(v), Lang(release)) < 0
}
