package main

import (
	"encoding/json"
	"fmt"
	"os"
	"strconv"
	"strings"

	"golang.org/x/tools/go/ssa"
)

// codecFuncs: encoder/decoder methods of the codec packages
func codecFuncs(p *Prog) (encs, decs []*ssa.Function) {
	for _, f := range p.ModuleFuncs() {
		if f.Parent() != nil {
			continue
		}
		ok := false
		for _, cp := range codecPkgs {
			if pkgPathOf(f) == cp {
				ok = true
			}
		}
		if !ok {
			continue
		}
		n := f.Name()
		if f.Signature.Recv() != nil && (n == "ToBytes" || n == "Marshal") {
			encs = append(encs, f)
		}
		if n == "Unmarshal" || strings.HasPrefix(n, "FromBytes") || strings.HasSuffix(n, "FromBytes") {
			decs = append(decs, f)
		}
	}
	return
}

func cmdSchemas(args []string) int {
	repo := "/repo"
	if len(args) > 0 {
		repo = args[0]
	}
	p, err := Load(repo, BuildConfig{"linux", "amd64"}, true)
	if err != nil {
		fmt.Fprintln(os.Stderr, err)
		return 2
	}
	c := &Ctx{P: p, R: NewReport("schemas", "quick"), Verif: "/verif"}
	encs, decs := codecFuncs(p)
	if len(args) > 1 && args[1] == "json" {
		out := map[string]map[string]string{}
		for _, f := range encs {
			ns, _ := e2Extract(c, f, true)
			out[shortName(f)] = map[string]string{"dir": "enc", "schema": e2Str(ns), "skeleton": e2Skeleton(ns)}
		}
		for _, f := range decs {
			ns, _ := e2Extract(c, f, false)
			out[shortName(f)] = map[string]string{"dir": "dec", "schema": e2Str(ns), "skeleton": e2Skeleton(ns)}
		}
		b, _ := json.MarshalIndent(out, "", " ")
		fmt.Println(string(b))
		return 0
	}
	for _, f := range encs {
		ns, und := e2Extract(c, f, true)
		fmt.Printf("ENC %-55s %s\n", shortName(f), e2Str(ns))
		for _, u := range und {
			fmt.Printf("      UNDECIDED %s\n", u)
		}
	}
	for _, f := range decs {
		ns, und := e2Extract(c, f, false)
		fmt.Printf("DEC %-55s %s\n", shortName(f), e2Str(ns))
		for _, u := range und {
			fmt.Printf("      UNDECIDED %s\n", u)
		}
	}
	return 0
}

// e2Skeleton: widths only
func e2Skeleton(ns []*e2Node) string {
	var p []string
	for _, n := range ns {
		switch n.kind {
		case "slot":
			w := n.w
			if strings.HasPrefix(w, "var(const:") && strings.HasSuffix(w, ")") {
				// a constant width written symbolically (a read into a make([]T, 16) local): var(const:16) is 16
				if _, err := strconv.Atoi(w[len("var(const:") : len(w)-1]); err == nil {
					w = w[len("var(const:") : len(w)-1]
				}
			}
			if k, _, ok := clampSlot(w + "~cut(var)"); ok && strings.Contains(n.x, "cut(") {
				p = append(p, "( "+k+" | var )")
				continue
			}
			if strings.HasPrefix(w, "var") {
				w = "var"
			}
			p = append(p, w)
		case "loop":
			p = append(p, "{ "+e2Skeleton(n.a)+" }*")
		case "alt":
			a, b := e2Skeleton(n.a), e2Skeleton(n.b)
			if a == b {
				if a != "" {
					p = append(p, a)
				}
			} else {
				p = append(p, "( "+a+" | "+b+" )")
			}
		}
	}
	return strings.Join(p, " ")
}
