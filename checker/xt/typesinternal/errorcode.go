// Copyright 2020 The Go Authors. All rights reserved.
// Use of this source code is governed by a BSD-style
// license that can be found in the LICENSE file.

package typesinternal

//go:generate stringer -type=ErrorCode

type ErrorCode int

// This file defines the error codes that can be produced during type-checking.
// Collectively, these codes provide an identifier that may be used to
// implement special handling for certain types of errors.
//
// Error codes should be fine-grained enough that the exact nature of the error
// can be easily determined, but coarse enough that they are not an
// implementation detail of the type checking algorithm. As a rule-of-thumb,
// errors should be considered equivalent if there is a theoretical refactoring
// of the type checker in which they are emitted in exactly one place. For
// example, the type checker emits different error messages for "too many
// arguments" and "too few arguments", but one can imagine an alternative type
// checker where this check instead just emits a single "wrong number of
// arguments", so these errors should have the same code.
//
// Error code names should be as brief as possible while retaining accuracy and
// distinctiveness. In most cases names should start with an adjective
// describing the nature of the error (e.g. "invalid", "unused", "misplaced"),
// and end with a noun identifying the relevant language object. For example,
// "DuplicateDecl" or "InvalidSliceExpr". For brevity, naming follows the
// convention that "bad" implies a problem with syntax, and "invalid" implies a
// problem with types.

const (
	// InvalidSyntaxTree occurs if an invalid syntax tree is provided
	// to the type checker. It should never happen.
	InvalidSyntaxTree ErrorCode = -1
)

const (
	_ ErrorCode = iota

	// Test is reserved for errors that only apply while in self-test mode.
	Test

	/* package names */

	// BlankPkgName occurs when a package name is the blank identifier "_".
	//
	// Per the spec:
	//  "The PackageName must not be the blank identifier."
	BlankPkgName

	// MismatchedPkgName occurs when a file's package name doesn't match the
	// package name already established by other files.
	MismatchedPkgName

	// InvalidPkgUse occurs when a package identifier is used outside of a
	// selector expression.
	//
	// Example:
	//  import "fmt"
	//
	//  var _ = fmt
	InvalidPkgUse

	/* imports */

	// BadImportPath occurs when an import path is not valid.
	BadImportPath

	// BrokenImport occurs when importing a package fails.
	//
	// Example:
	//  import "amissingpackage"
	BrokenImport

	// ImportCRenamed occurs when the special import "C" is renamed. "C" is a
	// pseudo-package, and must not be renamed.
	//
	// Example:
	//  import _ "C"
	ImportCRenamed

	// UnusedImport occurs when an import is unused.
	//
	// Example:
	//  import "fmt"
	//
	//  func main() {}
	UnusedImport

	/* initialization */

	// InvalidInitCycle occurs when an invalid cycle is detected within the
	// initialization graph.
	//
	// Example:
	//  var x int = f()
	//
	//  func f() int { return x }
	InvalidInitCycle

	/* decls */

	// DuplicateDecl occurs when an identifier is declared multiple times.
	//
	// Example:
	//  var x = 1
	//  var x = 2
	DuplicateDecl

	// InvalidDeclCycle occurs when a declaration cycle is not valid.
	//
	// Example:
	//  import "unsafe"
	//
	//  type T struct {
	//  	a [n]int
	//  }
	//
	//  var n = unsafe.Sizeof(T{})
	InvalidDeclCycle

	// InvalidTypeCycle occurs when a cycle in type definitions results in a
	// type that is not well-defined.
	//
	// Example:
	//  import "unsafe"
	//
	//  type T [unsafe.Sizeof(T{})]int
	InvalidTypeCycle

	/* decls > const */

	// InvalidConstInit occurs when a const declaration has a non-constant
	// initializer.
	//
	// Example:
	//  var x int
	//  const _ = x
	InvalidConstInit

	// InvalidConstVal occurs when a const value cannot be converted to its
	// target type.
	//
	// TODO(findleyr): this error code and example are not very clear. Consider
	// removing it.
	//
	// Example:
	//  const _ = 1 << "hello"
	InvalidConstVal

	// InvalidConstType occurs when the underlying type in a const declaration
	// is not a valid constant type.
	//
	// Example:
	//  const c *int = 4
	InvalidConstType

	/* decls > var (+ other variable assignment codes) */

	// UntypedNilUse occurs when the predeclared (untyped) value nil is used to
	// initialize a variable declared without an explicit type.
	//
	// Example:
	//  var x = nil
	UntypedNilUse

	// WrongAssignCount occurs when the number of values on the right-hand side
	// of an assignment or initialization expression does not match the number
	// of variables on the left-hand side.
	//
	// Example:
	//  var x = 1, 2
	WrongAssignCount

	// UnassignableOperand occurs when the left-hand side of an assignment is
	// not assignable.
	//
	// Example:
	//  func f() {
	//  	const c = 1
	//  	c = 2
	//  }
	UnassignableOperand

	// NoNewVar occurs when a short variable declaration (':=') does not declare
	// new variables.
	//
	// Example:
	//  func f() {
	//  	x := 1
	//  	x := 2
	//  }
	NoNewVar

	// MultiValAssignOp occurs when an assignment operation (+=, *=, etc) does
	// not have single-valued left-hand or right-hand side.
	//
	// Per the spec:
	//  "In assignment operations, both the left- and right-hand expression lists
	//  must contain exactly one single-valued expression"
	//
	// Example:
	//  func f() int {
	//  	x, y := 1, 2
	//  	x, y += 1
	//  	return x + y
	//  }
	MultiValAssignOp

	// InvalidIfaceAssign occurs when a value of type T is used as an
	// interface, but T does not implement a method of the expected interface.
	//
	// Example:
	//  type I interface {
	//  	f()
	//  }
	//
	//  type T int
	//
	//  var x I = T(1)
	InvalidIfaceAssign

	// InvalidChanAssign occurs when a chan assignment is invalid.
	//
	// Per the spec, a value x is assignable to a channel type T if:
	//  "x is a bidirectional channel value, T is a channel type, x's type V and
	//  T have identical element types, and at least one of V or T is not a
	//  defined type."
	//
	// Example:
	//  type T1 chan int
	//  type T2 chan int
	//
	//  var x T1
	//  // Invalid assignment because both types are named
	//  var _ T2 = x
	InvalidChanAssign

	// IncompatibleAssign occurs when the type of the right-hand side expression
	// in an assignment cannot be assigned to the type of the variable being
	// assigned.
	//
	// Example:
	//  var x []int
	//  var _ int = x
	IncompatibleAssign

	// UnaddressableFieldAssign occurs when trying to assign to a struct field
	// in a map value.
	//
	// Example:
	//  func f() {
	//  	m := make(map[string]struct{i int})
	//  	m["foo"].i = 42
	//  }
	UnaddressableFieldAssign

	/* decls > type (+ other type expression codes) */

	// NotAType occurs when the identifier used as the underlying type in a type
	// declaration or the right-hand side of a type alias does not denote a type.
	//
	// Example:
	//  var S = 2
	//
	//  type T S
	NotAType

	// InvalidArrayLen occurs when an array length is not a constant value.
	//
	// Example:
	//  var n = 3
	//  var _ = [n]int{}
	InvalidArrayLen

	// BlankIfaceMethod occurs when a method name is '_'.
	//
	// Per the spec:
	//  "The name of each explicitly specified method must be unique and not
	//  blank."
	//
	// Example:
	//  type T interface {
	//  	_(int)
	//  }
	BlankIfaceMethod

	// IncomparableMapKey occurs when a map key type does not support the == and
	// != operators.
	//
	// Per the spec:
	//  "The comparison operators == and != must be fully defined for operands of
	//  the key type; thus the key type must not be a function, map, or slice."
	//
	// Example:
	//  var x map[T]int
	//
	//  type T []int
	IncomparableMapKey

	// InvalidIfaceEmbed occurs when a non-interface type is embedded in an
	// interface.
	//
	// Example:
	//  type T struct {}
	//
	//  func (T) m()
	//
	//  type I interface {
	//  	T
	//  }
	InvalidIfaceEmbed

	// InvalidPtrEmbed occurs when an embedded field is of the pointer form *T,
	// and T itself is itself a pointer, an unsafe.Pointer, or an interface.
	//
	// Per the spec:
	//  "An embedded field must be specified as a type name T or as a pointer to
	//  a non-interface type name *T, and T itself may not be a pointer type."
	//
	// Example:
	//  type T *int
	//
	//  type S struct {
	//  	*T
	//  }
	InvalidPtrEmbed

	/* decls > func and method */

	// BadRecv occurs when a method declaration does not have exactly one
	// receiver parameter.
	//
	// Example:
	//  func () _() {}
	BadRecv

	// InvalidRecv occurs when a receiver type expression is not of the form T
	// or *T, or T is a pointer type.
	//
	// Example:
	//  type T struct {}
	//
	//  func (**T) m() {}
	InvalidRecv

	// DuplicateFieldAndMethod occurs when an identifier appears as both a field
	// and method name.
	//
	// Example:
	//  type T struct {
	//  	m int
	//  }
	//
	//  func (T) m() {}
	DuplicateFieldAndMethod

	// DuplicateMethod occurs when two methods on the same receiver type have
	// the same name.
	//
	// Example:
	//  type T struct {}
	//  func (T) m() {}
	//  func (T) m(i int) int { return i }
	DuplicateMethod

	/* decls > special */

	// InvalidBlank occurs when a blank identifier is used as a value or type.
	//
	// Per the spec:
	//  "The blank identifier may appear as an operand only on the left-hand side
	//  of an assignment."
	//
	// Example:
	//  var x = _
	InvalidBlank

	// InvalidIota occurs when the predeclared identifier iota is used outside
	// of a constant declaration.
	//
	// Example:
	//  var x = iota
	InvalidIota

	// MissingInitBody occurs when an init function is missing its body.
	//
	// Example:
	//  func init()
	MissingInitBody

	// InvalidInitSig occurs when an init function declares parameters or
	// results.
	//
	// Example:
	//  func init() int { return 1 }
	InvalidInitSig

	// InvalidInitDecl occurs when init is declared as anything other than a
	// function.
	//
	// Example:
	//  var init = 1
	InvalidInitDecl

	// InvalidMainDecl occurs when main is declared as anything other than a
	// function, in a main package.
	InvalidMainDecl

	/* exprs */

	// TooManyValues occurs when a function returns too many values for the
	// expression context in which it is used.
	//
	// Example:
	//  func ReturnTwo() (int, int) {
	//  	return 1, 2
	//  }
	//
	//  var x = ReturnTwo()
	TooManyValues

	// NotAnExpr occurs when a type expression is used where a value expression
	// is expected.
	//
	// Example:
	//  type T struct {}
	//
	//  func f() {
	//  	T
	//  }
	NotAnExpr

	/* exprs > const */

	// TruncatedFloat occurs when a float constant is truncated to an integer
	// value.
	//
	// Example:
	//  var _ int = 98.6
	TruncatedFloat

	// NumericOverflow occurs when a numeric constant overflows its target type.
	//
	// Example:
	//  var x int8 = 1000
	NumericOverflow

	/* exprs > operation */

	// UndefinedOp occurs when an operator is not defined for the type(s) used
	// in an operation.
	//
	// Example:
	//  var c = "a" - "b"
	UndefinedOp

	// MismatchedTypes occurs when operand types are incompatible in a binary
	// operation.
	//
	// Example:
	//  var a = "hello"
	//  var b = 1
	//  var c = a - b
	MismatchedTypes

	// DivByZero occurs when a division operation is provable at compile
	// time to be a division by zero.
	//
	// Example:
	//  const divisor = 0
	//  var x int = 1/divisor
	DivByZero

	// NonNumericIncDec occurs when an increment or decrement operator is
	// applied to a non-numeric value.
	//
	// Example:
	//  func f() {
	//  	var c = "c"
	//  	c++
	//  }
	NonNumericIncDec

	/* exprs > ptr */

	// UnaddressableOperand occurs when the & operator is applied to an
	// unaddressable expression.
	//
	// Example:
	//  var x = &1
	UnaddressableOperand

	// InvalidIndirection occurs when a non-pointer value is indirected via the
	// '*' operator.
	//
	// Example:
	//  var x int
	//  var y = *x
	InvalidIndirection

	/* exprs > [] */

	// NonIndexableOperand occurs when an index operation is applied to a value
	// that cannot be indexed.
	//
	// Example:
	//  var x = 1
	//  var y = x[1]
	NonIndexableOperand

	// InvalidIndex occurs when an index argument is not of integer type,
	// negative, or out-of-bounds.
	//
	// Example:
	//  var s = [...]int{1,2,3}
	//  var x = s[5]
	//
	// Example:
	//  var s = []int{1,2,3}
	//  var _ = s[-1]
	//
	// Example:
	//  var s = []int{1,2,3}
	//  var i string
	//  var _ = s[i]
	InvalidIndex

	// SwappedSliceIndices occurs when constant indices in a slice expression
	// are decreasing in value.
	//
	// Example:
	//  var _ = []int{1,2,3}[2:1]
	SwappedSliceIndices

	/* operators > slice */

	// NonSliceableOperand occurs when a slice operation is applied to a value
	// whose type is not sliceable, or is unaddressable.
	//
	// Example:
	//  var x = [...]int{1, 2, 3}[:1]
	//
	// Example:
	//  var x = 1
	//  var y = 1[:1]
	NonSliceableOperand

	// InvalidSliceExpr occurs when a three-index slice expression (a[x:y:z]) is
	// applied to a string.
	//
	// Example:
	//  var s = "hello"
	//  var x = s[1:2:3]
	InvalidSliceExpr

	/* exprs > shift */

	// InvalidShiftCount occurs when the right-hand side of a shift operation is
	// either non-integer, negative, or too large.
	//
	// Example:
	//  var (
	//  	x string
	//  	y int = 1 << x
	//  )
	InvalidShiftCount

	// InvalidShiftOperand occurs when the shifted operand is not an integer.
	//
	// Example:
	//  var s = "hello"
	//  var x = s << 2
	InvalidShiftOperand

	/* exprs > chan */

	// InvalidReceive occurs when there is a channel receive from a value that
	// is either not a channel, or is a send-only channel.
	//
	// Example:
	//  func f() {
	//  	var x = 1
	//  	<-x
	//  }
	InvalidReceive

	// InvalidSend occurs when there is a channel send to a value that is not a
	// channel, or is a receive-only channel.
	//
	// Example:
	//  func f() {
	//  	var x = 1
	//  	x <- "hello!"
	//  }
	InvalidSend

	/* exprs > literal */

	// DuplicateLitKey occurs when an index is duplicated in a slice, array, or
	// map literal.
	//
	// Example:
	//  var _ = []int{0:1, 0:2}
	//
	// Example:
	//  var _ = map[string]int{"a": 1, "a": 2}
	DuplicateLitKey

	// MissingLitKey occurs when a map literal is missing a key expression.
	//
	// Example:
	//  var _ = map[string]int{1}
	MissingLitKey

	// InvalidLitIndex occurs when the key in a key-value element of a slice or
	// array literal is not an integer constant.
	//
	// Example:
	//  var i = 0
	//  var x = []string{i: "world"}
	InvalidLitIndex

	// OversizeArrayLit occurs when an array literal exceeds its length.
	//
	// Example:
	//  var _ = [2]int{1,2,3}
	OversizeArrayLit

	// MixedStructLit occurs when a struct literal contains a mix of positional
	// and named elements.
	//
	// Example:
	//  var _ = struct{i, j int}{i: 1, 2}
	MixedStructLit

	// InvalidStructLit occurs when a positional struct literal has an incorrect
	// number of values.
	//
	// Example:
	//  var _ = struct{i, j int}{1,2,3}
	InvalidStructLit

	// MissingLitField occurs when a struct literal refers to a field that does
	// not exist on the struct type.
	//
	// Example:
	//  var _ = struct{i int}{j: 2}
	MissingLitField

	// DuplicateLitField occurs when a struct literal contains duplicated
	// fields.
	//
	// Example:
	//  var _ = struct{i int}{i: 1, i: 2}
	DuplicateLitField

	// UnexportedLitField occurs when a positional struct literal implicitly
	// assigns an unexported field of an imported type.
	UnexportedLitField

	// InvalidLitField occurs when a field name is not a valid identifier.
	//
	// Example:
	//  var _ = struct{i int}{1: 1}
	InvalidLitField

	// UntypedLit occurs when a composite literal omits a required type
	// identifier.
	//
	// Example:
	//  type outer struct{
	//  	inner struct { i int }
	//  }
	//
	//  var _ = outer{inner: {1}}
	UntypedLit

	// InvalidLit occurs when a composite literal expression does not match its
	// type.
	//
	// Example:
	//  type P *struct{
	//  	x int
	//  }
	//  var _ = P {}
	InvalidLit

	/* exprs > selector */

	// AmbiguousSelector occurs when a selector is ambiguous.
	//
	// Example:
	//  type E1 struct { i int }
	//  type E2 struct { i int }
	//  type T struct { E1; E2 }
	//
	//  var x T
	//  var _ = x.i
	AmbiguousSelector

	// UndeclaredImportedName occurs when a package-qualified identifier is
	// undeclared by the imported package.
	//
	// Example:
	//  import "go/types"
	//
	//  var _ = types.NotAnActualIdentifier
	UndeclaredImportedName

	// UnexportedName occurs when a selector refers to an unexported identifier
	// of an imported package.
	//
	// Example:
	//  import "reflect"
	//
	//  type _ reflect.flag
	UnexportedName

	// UndeclaredName occurs when an identifier is not declared in the current
	// scope.
	//
	// Example:
	//  var x T
	UndeclaredName

	// MissingFieldOrMethod occurs when a selector references a field or method
	// that does not exist.
	//
	// Example:
	//  type T struct {}
	//
	//  var x = T{}.f
	MissingFieldOrMethod

	/* exprs > ... */

	// BadDotDotDotSyntax occurs when a "..." occurs in a context where it is
	// not valid.
	//
	// Example:
	//  var _ = map[int][...]int{0: {}}
	BadDotDotDotSyntax

	// NonVariadicDotDotDot occurs when a "..." is used on the final argument to
	// a non-variadic function.
	//
	// Example:
	//  func printArgs(s []string) {
	//  	for _, a := range s {
	//  		println(a)
	//  	}
	//  }
	//
	//  func f() {
	//  	s := []string{"a", "b", "c"}
	//  	printArgs(s...)
	//  }
	NonVariadicDotDotDot

	// MisplacedDotDotDot occurs when a "..." is used somewhere other than the
	// final argument to a function call.
	//
	// Example:
	//  func printArgs(args ...int) {
	//  	for _, a := range args {
	//  		println(a)
	//  	}
	//  }
	//
	//  func f() {
	//  	a := []int{1,2,3}
	//  	printArgs(0, a...)
	//  }
	MisplacedDotDotDot

	// InvalidDotDotDotOperand occurs when a "..." operator is applied to a
	// single-valued operand.
	//
	// Example:
	//  func printArgs(args ...int) {
	//  	for _, a := range args {
	//  		println(a)
	//  	}
	//  }
	//
	//  func f() {
	//  	a := 1
	//  	printArgs(a...)
	//  }
	//
	// Example:
	//  func args() (int, int) {
	//  	return 1, 2
	//  }
	//
	//  func printArgs(args ...int) {
	//  	for _, a := range args {
	//  		println(a)
	//  	}
	//  }
	//
	//  func g() {
	//  	printArgs(args()...)
	//  }
	InvalidDotDotDotOperand

	// InvalidDotDotDot occurs when a "..." is used in a non-variadic built-in
	// function.
	//
	// Example:
	//  var s = []int{1, 2, 3}
	//  var l = len(s...)
	InvalidDotDotDot

	/* exprs > built-in */

	// UncalledBuiltin occurs when a built-in function is used as a
	// function-valued expression, instead of being called.
	//
	// Per the spec:
	//  "The built-in functions do not have standard Go types, so they can only
	//  appear in call expressions; they cannot be used as function values."
	//
	// Example:
	//  var _ = copy
	UncalledBuiltin

	// InvalidAppend occurs when append is called with a first argument that is
	// not a slice.
	//
	// Example:
	//  var _ = append(1, 2)
	InvalidAppend

	// InvalidCap occurs when an argument to the cap built-in function is not of
	// supported type.
	//
	// See https://golang.org/ref/spec#Length_and_capacity for information on
	// which underlying types are supported as arguments to cap and len.
	//
	// Example:
	//  var s = 2
	//  var x = cap(s)
	InvalidCap

	// InvalidClose occurs when close(...) is called with an argument that is
	// not of channel type, or that is a receive-only channel.
	//
	// Example:
	//  func f() {
	//  	var x int
	//  	close(x)
	//  }
	InvalidClose

	// InvalidCopy occurs when the arguments are not of slice type or do not
	// have compatible type.
	//
	// See https://golang.org/ref/spec#Appending_and_copying_slices for more
	// information on the type requirements for the copy built-in.
	//
	// Example:
	//  func f() {
	//  	var x []int
	//  	y := []int64{1,2,3}
	//  	copy(x, y)
	//  }
	InvalidCopy

	// InvalidComplex occurs when the complex built-in function is called with
	// arguments with incompatible types.
	//
	// Example:
	//  var _ = complex(float32(1), float64(2))
	InvalidComplex

	// InvalidDelete occurs when the delete built-in function is called with a
	// first argument that is not a map.
	//
	// Example:
	//  func f() {
	//  	m := "hello"
	//  	delete(m, "e")
	//  }
	InvalidDelete

	// InvalidImag occurs when the imag built-in function is called with an
	// argument that does not have complex type.
	//
	// Example:
	//  var _ = imag(int(1))
	InvalidImag

	// InvalidLen occurs when an argument to the len built-in function is not of
	// supported type.
	//
	// See https://golang.org/ref/spec#Length_and_capacity for information on
	// which underlying types are supported as arguments to cap and len.
	//
	// Example:
	//  var s = 2
	//  var x = len(s)
	InvalidLen

	// SwappedMakeArgs occurs when make is called with three arguments, and its
	// length argument is larger than its capacity argument.
	//
	// Example:
	//  var x = make([]int, 3, 2)
	SwappedMakeArgs

	// InvalidMake occurs when make is called with an unsupported type argument.
	//
	// See https://golang.org/ref/spec#Making_slices_maps_and_channels for
	// information on the types that may be created using make.
	//
	// Example:
	//  var x = make(int)
	InvalidMake

	// InvalidReal occurs when the real built-in function is called with an
	// argument that does not have complex type.
	//
	// Example:
	//  var _ = real(int(1))
	InvalidReal

	/* exprs > assertion */

	// InvalidAssert occurs when a type assertion is applied to a
	// value that is not of interface type.
	//
	// Example:
	//  var x = 1
	//  var _ = x.(float64)
	InvalidAssert

	// ImpossibleAssert occurs for a type assertion x.(T) when the value x of
	// interface cannot have dynamic type T, due to a missing or mismatching
	// method on T.
	//
	// Example:
	//  type T int
	//
	//  func (t *T) m() int { return int(*t) }
	//
	//  type I interface { m() int }
	//
	//  var x I
	//  var _ = x.(T)
	ImpossibleAssert

	/* exprs > conversion */

	// InvalidConversion occurs when the argument type cannot be converted to the
	// target.
	//
	// See https://golang.org/ref/spec#Conversions for the rules of
	// convertibility.
	//
	// Example:
	//  var x float64
	//  var _ = string(x)
	InvalidConversion

	// InvalidUntypedConversion occurs when an there is no valid implicit
	// conversion from an untyped value satisfying the type constraints of the
	// context in which it is used.
	//
	// Example:
	//  var _ = 1 + ""
	InvalidUntypedConversion

	/* offsetof */

	// BadOffsetofSyntax occurs when unsafe.Offsetof is called with an argument
	// that is not a selector expression.
	//
	// Example:
	//  import "unsafe"
	//
	//  var x int
	//  var _ = unsafe.Offsetof(x)
	BadOffsetofSyntax

	// InvalidOffsetof occurs when unsafe.Offsetof is called with a method
	// selector, rather than a field selector, or when the field is embedded via
	// a pointer.
	//
	// Per the spec:
	//
	//  "If f is an embedded field, it must be reachable without pointer
	//  indirections through fields of the struct. "
	//
	// Example:
	//  import "unsafe"
	//
	//  type T struct { f int }
	//  type S struct { *T }
	//  var s S
	//  var _ = unsafe.Offsetof(s.f)
	//
	// Example:
	//  import "unsafe"
	//
	//  type S struct{}
	//
	//  func (S) m() {}
	//
	//  var s S
	//  var _ = unsafe.Offsetof(s.m)
	InvalidOffsetof

	/* control flow > scope */

	// UnusedExpr occurs when a side-effect free expression is used as a
	// statement. Such a statement has no effect.
	//
	// Example:
	//  func f(i int) {
	//  	i*i
	//  }
	UnusedExpr

	// UnusedVar occurs when a variable is declared but unused.
	//
	// Example:
	//  func f() {
	//  	x := 1
	//  }
	UnusedVar

	// MissingReturn occurs when a function with results is missing a return
	// statement.
	//
	// Example:
	//  func f() int {}
	MissingReturn

	// WrongResultCount occurs when a return statement returns an incorrect
	// number of values.
	//
	// Example:
	//  func ReturnOne() int {
	//  	return 1, 2
	//  }
	WrongResultCount

	// OutOfScopeResult occurs when the name of a value implicitly returned by
	// an empty return statement is shadowed in a nested scope.
	//
	// Example:
	//  func factor(n int) (i int) {
	//  	for i := 2; i < n; i++ {
	//  		if n%i == 0 {
	//  			return
	//  		}
	//  	}
	//  	return 0
	//  }
	OutOfScopeResult

	/* control flow > if */

	// InvalidCond occurs when an if condition is not a boolean expression.
	//
	// Example:
	//  func checkReturn(i int) {
	//  	if i {
	//  		panic("non-zero return")
	//  	}
	//  }
	InvalidCond

	/* control flow > for */

	// InvalidPostDecl occurs when there is a declaration in a for-loop post
	// statement.
	//
	// Example:
	//  func f() {
	//  	for i := 0; i < 10; j := 0 {}
	//  }
	InvalidPostDecl

	// InvalidChanRange occurs when a send-only channel used in a range
	// expression.
	//
	// Example:
	//  func sum(c chan<- int) {
	//  	s := 0
	//  	for i := range c {
	//  		s += i
	//  	}
	//  }
	InvalidChanRange

	// InvalidIterVar occurs when two iteration variables are used while ranging
	// over a channel.
	//
	// Example:
	//  func f(c chan int) {
	//  	for k, v := range c {
	//  		println(k, v)
	//  	}
	//  }
	InvalidIterVar

	// InvalidRangeExpr occurs when the type of a range expression is not array,
	// slice, string, map, or channel.
	//
	// Example:
	//  func f(i int) {
	//  	for j := range i {
	//  		println(j)
	//  	}
	//  }
	InvalidRangeExpr

	/* control flow > switch */

	// MisplacedBreak occurs when a break statement is not within a for, switch,
	// or select statement of the innermost function definition.
	//
	// Example:
	//  func f() {
	//  	break
	//  }
	MisplacedBreak

	// MisplacedContinue occurs when a continue statement is not within a for
	// loop of the innermost function definition.
	//
	// Example:
	//  func sumeven(n int) int {
	//  	proceed := func() {
	//  		continue
	//  	}
	//  	sum := 0
	//  	for i := 1; i <= n; i++ {
	//  		if i % 2 != 0 {
	//  			proceed()
	//  		}
	//  		sum += i
	//  	}
	//  	return sum
	//  }
	MisplacedContinue

	// MisplacedFallthrough occurs when a fallthrough statement is not within an
	// expression switch.
	//
	// Example:
	//  func typename(i interface{}) string {
	//  	switch i.(type) {
	//  	case int64:
	//  		fallthrough
	//  	case int:
	//  		return "int"
	//  	}
	//  	return "unsupported"
	//  }
	MisplacedFallthrough

	// DuplicateCase occurs when a type or expression switch has duplicate
	// cases.
	//
	// Example:
	//  func printInt(i int) {
	//  	switch i {
	//  	case 1:
	//  		println("one")
	//  	case 1:
	//  		println("One")
	//  	}
	//  }
	DuplicateCase

	// DuplicateDefault occurs when a type or expression switch has multiple
	// default clauses.
	//
	// Example:
	//  func printInt(i int) {
	//  	switch i {
	//  	case 1:
	//  		println("one")
	//  	default:
	//  		println("One")
	//  	default:
	//  		println("1")
	//  	}
	//  }
	DuplicateDefault

	// BadTypeKeyword occurs when a .(type) expression is used anywhere other
	// than a type switch.
	//
	// Example:
	//  type I interface {
	//  	m()
	//  }
	//  var t I
	//  var _ = t.(type)
	BadTypeKeyword

	// InvalidTypeSwitch occurs when .(type) is used on an expression that is
	// not of interface type.
	//
	// Example:
	//  func f(i int) {
	//  	switch x := i.(type) {}
	//  }
	InvalidTypeSwitch

	// InvalidExprSwitch occurs when a switch expression is not comparable.
	//
	// Example:
	//  func _() {
	//  	var a struct{ _ func() }
	//  	switch a /* ERROR cannot switch on a */ {
	//  	}
	//  }
	InvalidExprSwitch

	/* control flow > select */

	// InvalidSelectCase occurs when a select case is not a channel send or
	// receive.
	//
	// Example:
	//  func checkChan(c <-chan int) bool {
	//  	select {
	//  	case c:
	//  		return true
	//  	default:
	//  		return false
	//  	}
	//  }
	InvalidSelectCase

	/* control flow > labels and jumps */

	// UndeclaredLabel occurs when an undeclared label is jumped to.
	//
	// Example:
	//  func f() {
	//  	goto L
	//  }
	UndeclaredLabel

	// DuplicateLabel occurs when a label is declared more than once.
	//
	// Example:
	//  func f() int {
	//  L:
	//  L:
	//  	return 1
	//  }
	DuplicateLabel

	// MisplacedLabel occurs when a break or continue label is not on a for,
	// switch, or select statement.
	//
	// Example:
	//  func f() {
	//  L:
	//  	a := []int{1,2,3}
	//  	for _, e := range a {
	//  		if e > 10 {
	//  			break L
	//  		}
	//  		println(a)
	//  	}
	//  }
	MisplacedLabel

	// UnusedLabel occurs when a label is declared but not used.
	//
	// Example:
	//  func f() {
	//  L:
	//  }
	UnusedLabel

	// JumpOverDecl occurs when a label jumps over a variable declaration.
	//
	// Example:
	//  func f() int {
	//  	goto L
	//  	x := 2
	//  L:
	//  	x++
	//  	return x
	//  }
	JumpOverDecl

	// JumpIntoBlock occurs when a forward jump goes to a label inside a nested
	// block.
	//
	// Example:
	//  func f(x int) {
	//  	goto L
	//  	if x > 0 {
	//  	L:
	//  		print("inside block")
	//  	}
	// }
	JumpIntoBlock

	/* control flow > calls */

	// InvalidMethodExpr occurs when a pointer method is called but the argument
	// is not addressable.
	//
	// Example:
	//  type T struct {}
	//
	//  func (*T) m() int { return 1 }
	//
	//  var _ = T.m(T{})
	InvalidMethodExpr

	// WrongArgCount occurs when too few or too many arguments are passed by a
	// function call.
	//
	// Example:
	//  func f(i int) {}
	//  var x = f()
	WrongArgCount

	// InvalidCall occurs when an expression is called that is not of function
	// type.
	//
	// Example:
	//  var x = "x"
	//  var y = x()
	InvalidCall

	/* control flow > suspended */

	// UnusedResults occurs when a restricted expression-only built-in function
	// is suspended via go or defer. Such a suspension discards the results of
	// these side-effect free built-in functions, and therefore is ineffectual.
	//
	// Example:
	//  func f(a []int) int {
	//  	defer len(a)
	//  	return i
	//  }
	UnusedResults

	// InvalidDefer occurs when a deferred expression is not a function call,
	// for example if the expression is a type conversion.
	//
	// Example:
	//  func f(i int) int {
	//  	defer int32(i)
	//  	return i
	//  }
	InvalidDefer

	// InvalidGo occurs when a go expression is not a function call, for example
	// if the expression is a type conversion.
	//
	// Example:
	//  func f(i int) int {
	//  	go int32(i)
	//  	return i
	//  }
	InvalidGo

	// All codes below were added in Go 1.17.

	/* decl */

	// BadDecl occurs when a declaration has invalid syntax.
	BadDecl

	// RepeatedDecl occurs when an identifier occurs more than once on the left
	// hand side of a short variable declaration.
	//
	// Example:
	//  func _() {
	//  	x, y, y := 1, 2, 3
	//  }
	RepeatedDecl

	/* unsafe */

	// InvalidUnsafeAdd occurs when unsafe.Add is called with a
	// length argument that is not of integer type.
	//
	// Example:
	//  import "unsafe"
	//
	//  var p unsafe.Pointer
	//  var _ = unsafe.Add(p, float64(1))
	InvalidUnsafeAdd

	// InvalidUnsafeSlice occurs when unsafe.Slice is called with a
	// pointer argument that is not of pointer type or a length argument
	// that is not of integer type, negative, or out of bounds.
	//
	// Example:
	//  import "unsafe"
	//
	//  var x int
	//  var _ = unsafe.Slice(x, 1)
	//
	// Example:
	//  import "unsafe"
	//
	//  var x int
	//  var _ = unsafe.Slice(&x, float64(1))
	//
	// Example:
	//  import "unsafe"
	//
	//  var x int
	//  var _ = unsafe.Slice(&x, -1)
	//
	// Example:
	//  import "unsafe"
	//
	//  var x int
	//  var _ = unsafe.Slice(&x, uint64(1) << 63)
	InvalidUnsafeSlice

	// All codes below were added in Go 1.18.

	/* features */

	// UnsupportedFeature occurs when a language feature is used that is not
	// supported at this Go version.
	UnsupportedFeature

	/* type params */

	// NotAGenericType occurs when a non-generic type is used where a generic
	// type is expected: in type or function instantiation.
	//
	// Example:
	//  type T int
	//
	//  var _ T[int]
	NotAGenericType

	// WrongTypeArgCount occurs when a type or function is instantiated with an
	// incorrect number of type arguments, including when a generic type or
	// function is used without instantiation.
	//
	// Errors involving failed type inference are assigned other error codes.
	//
	// Example:
	//  type T[p any] int
	//
	//  var _ T[int, string]
	//
	// Example:
	//  func f[T any]() {}
	//
	//  var x = f
	WrongTypeArgCount

	// CannotInferTypeArgs occurs when type or function type argument inference
	// fails to infer all type arguments.
	//
	// Example:
	//  func f[T any]() {}
	//
	//  func _() {
	//  	f()
	//  }
	//
	// Example:
	//   type N[P, Q any] struct{}
	//
	//   var _ N[int]
	CannotInferTypeArgs

	// InvalidTypeArg occurs when a type argument does not satisfy its
	// corresponding type parameter constraints.
	//
	// Example:
	//  type T[P ~int] struct{}
	//
	//  var _ T[string]
	InvalidTypeArg // arguments? InferenceFailed

	// InvalidInstanceCycle occurs when an invalid cycle is detected
	// within the instantiation graph.
	//
	// Example:
	//  func f[T any]() { f[*T]() }
	InvalidInstanceCycle

	// InvalidUnion occurs when an embedded union or approximation element is
	// not valid.
	//
	// Example:
	//  type _ interface {
	//   	~int | interface{ m() }
	//  }
	InvalidUnion

	// MisplacedConstraintIface occurs when a constraint-type interface is used
	// outside of constraint position.
	//
	// Example:
	//   type I interface { ~int }
	//
	//   var _ I
	MisplacedConstraintIface

	// InvalidMethodTypeParams occurs when methods have type parameters.
	//
	// It cannot be encountered with an AST parsed using go/parser.
	InvalidMethodTypeParams

	// MisplacedTypeParam occurs when a type parameter is used in a place where
	// it is not permitted.
	//
	// Example:
	//  type T[P any] P
	//
	// Example:
	//  type T[P any] struct{ *P }
	MisplacedTypeParam

	// InvalidUnsafeSliceData occurs when unsafe.SliceData is called with
	// an argument that is not of slice type. It also occurs if it is used
	// in a package compiled for a language version before go1.20.
	//
	// Example:
	//  import "unsafe"
	//
	//  var x int
	//  var _ = unsafe.SliceData(x)
	InvalidUnsafeSliceData

	// InvalidUnsafeString occurs when unsafe.String is called with
	// a length argument that is not of integer type, negative, or
	// out of bounds. It also occurs if it is used in a package
	// compiled for a language version before go1.20.
	//
	// Example:
	//  import "unsafe"
	//
	//  var b [10]byte
	//  var _ = unsafe.String(&b[0], -1)
	InvalidUnsafeString

	// InvalidUnsafeStringData occurs if it is used in a package
	// compiled for a language version before go1.20.
	_ // not used anymore

)
