package main

import (
	"go/token"
	"go/types"
	"strings"

	"golang.org/x/tools/go/ssa"
)

func init() { register("C20", true, checkC20) }

// mutator table: exported methods that change their receiver by contract.
var mutatorPrefixes = []string{"FromBytes", "Unmarshal", "Add", "Del", "Update", "Set", "Remove"}

func isMutatorName(n string) bool {
	for _, p := range mutatorPrefixes {
		if strings.HasPrefix(n, p) {
			return true
		}
	}
	return false
}

// readOnlyMethods: exported methods (on exported or unexported types) of the
// codec packages that are read-only by contract.
func readOnlyMethods(p *Prog) []*ssa.Function {
	var out []*ssa.Function
	for _, f := range p.ModuleFuncs() {
		if f.Parent() != nil || f.Signature.Recv() == nil || !token.IsExported(f.Name()) {
			continue
		}
		ok := false
		for _, cp := range codecPkgs {
			if pkgPathOf(f) == cp {
				ok = true
			}
		}
		if !ok || isMutatorName(f.Name()) {
			continue
		}
		// a humanizer is a printing strategy (it owns the vendor decoder it captured), not a
		// packet, option or option value: outside the C20 type set (DESIGN §4 E3)
		if n := recvNamed(f); n != nil && n.Obj().Name() == "OptionHumanizer" {
			continue
		}
		out = append(out, f)
	}
	return out
}

// readOnlyHelpers: functions documented as extractors/builders over decoded
// values; none of their parameters may be written.
func readOnlyHelpers(p *Prog) []*ssa.Function {
	var out []*ssa.Function
	for _, f := range p.ModuleFuncs() {
		if f.Parent() != nil || f.Signature.Recv() != nil || !token.IsExported(f.Name()) {
			continue
		}
		pk := strings.TrimPrefix(pkgPathOf(f), modPath+"/")
		n := f.Name()
		sel := false
		switch pk {
		case "dhcpv4":
			sel = strings.HasPrefix(n, "New") && strings.Contains(n, "From") || n == "IsRequested" || strings.HasPrefix(n, "Get")
		case "dhcpv6":
			sel = strings.HasPrefix(n, "New") && strings.Contains(n, "From") || strings.HasPrefix(n, "Decapsulate") || n == "EncapsulateRelay" ||
				n == "ExtractMAC" || n == "GetTransactionID" || strings.HasPrefix(n, "Is") || strings.HasPrefix(n, "Get")
		case "dhcpv4/ztpv4", "dhcpv6/ztpv6":
			sel = strings.HasPrefix(n, "Parse") || strings.HasPrefix(n, "match")
		case "netboot":
			sel = strings.HasPrefix(n, "ConversationToNetconf") || strings.HasPrefix(n, "GetNetConfFromPacket")
		}
		if !sel {
			continue
		}
		hasPtrParam := false
		for _, prm := range f.Params {
			if hasPtr(prm.Type()) {
				hasPtrParam = true
			}
		}
		if hasPtrParam {
			out = append(out, f)
		}
	}
	return out
}

func checkC20(c *Ctx) {
	r := c.R
	r.Decides = append(r.Decides,
		"K1 no exported method of dhcpv4/dhcpv6/iana/rfc1035label outside the mutator table (FromBytes*, Unmarshal, Add*, Del*, Update*, Set*, Remove*) writes memory reachable from its receiver (pre-state) or from a global, on any path of its call-graph closure (E3 mutation summaries, type-tagged); the read-only helper functions (reply/relay builders, decapsulation, ExtractMAC, ztp and netboot extractors) write none of their parameters",
		"K2 determinism: the same closure calls no clock or random source and ranges over no map whose order reaches the result unsorted (shared with C07-K1)")
	r.NotDecided = append(r.NotDecided, "effects of caller-supplied function values (custom modifiers, humanizers): judged with the in-repo set of function values only",
		"Stringers defined outside the module are assumed pure")
	e := getE3(c)
	ms := readOnlyMethods(c.P)
	hs := readOnlyHelpers(c.P)
	r.Expect("C20-K1-methods", 280)
	r.Expect("C20-K1-helpers", 15)
	for _, f := range ms {
		r.Count("C20-K1-methods", 1)
		c20One(c, e, f, map[int]bool{0: true})
	}
	for _, f := range hs {
		r.Count("C20-K1-helpers", 1)
		ps := map[int]bool{}
		for i, prm := range f.Params {
			// function-valued parameters (modifiers) are strategies, not values
			if _, isSlice := prm.Type().Underlying().(*types.Slice); isSlice && typeCarriesFunc(prm.Type(), 0) {
				continue
			}
			if _, isSig := prm.Type().Underlying().(*types.Signature); isSig {
				continue
			}
			ps[i] = true
		}
		c20One(c, e, f, ps)
	}
	// printing through the clients' loggers is printing too
	loggerPurity(c, "nclient4", "C20-K1")
	loggerPurity(c, "nclient6", "C20-K1")
	// K2 roots: methods and extractors; the New* builders draw a fresh transaction id by design
	det := append([]*ssa.Function{}, ms...)
	for _, f := range hs {
		if !strings.HasPrefix(f.Name(), "New") {
			det = append(det, f)
		}
	}
	c20Determinism(c, det)
	// "the same read gives the same result": the one place where map order could reach a result — the DHCPv4 key order used
	// by ToBytes, String and Summary — is a total order (shared C07-K1/K2: every key collected, ascending sort, 82 and 255 last)
	c07MapRanges(c)
	c07SortedKeys(c)
	r.Extra["e3_contexts"] = len(e.summ)
	r.Extra["e3_rounds"] = e.rounds
	r.Assume("uio.Lexer behaves as the ADT table in checker/models.go")
	r.Assume("external functions behave as their rows in checker/models.go; String/Error/Format methods defined outside the module are pure")
	r.Assume("String/Error/Format methods of module types are judged as roots of their own; fmt calls are therefore not expanded at call sites")
}

func c20One(c *Ctx, e *e3Engine, f *ssa.Function, params map[int]bool) {
	r := c.R
	name := shortName(f)
	fnd := e.mutationFindings(f, params)
	if len(fnd) == 0 {
		r.OK("C20-K1", name+": writes nothing reachable from its inputs", c.P.pos(f.Pos()), "E3: mutates ∩ (inputs ∪ globals) = ∅", "")
		return
	}
	var where, details []string
	pos := ""
	for _, x := range fnd {
		if strings.HasPrefix(x.short, "UNDECIDED") {
			r.Undecided("C20-K1", name+": "+x.short, x.pos, x.detail)
			continue
		}
		where = append(where, x.short)
		details = append(details, x.detail)
		if pos == "" {
			pos = x.pos
		}
	}
	if len(where) > 0 {
		r.Violation("C20-K1", name+": writes its input", pos, "writes: "+strings.Join(where, "; ")+"\n    "+strings.Join(details, "\n    "))
	}
}

// c20Determinism: no clock / random source in the closure of the read-only set.
func c20Determinism(c *Ctx, roots []*ssa.Function) {
	r := c.R
	seen := map[*ssa.Function]bool{}
	var work []*ssa.Function
	for _, f := range roots {
		if !seen[f] {
			seen[f] = true
			work = append(work, f)
		}
	}
	n := 0
	for len(work) > 0 {
		f := work[len(work)-1]
		work = work[:len(work)-1]
		if f.Blocks == nil {
			continue
		}
		n++
		allInstrs(f, func(in ssa.Instruction) {
			ci, ok := in.(ssa.CallInstruction)
			if !ok {
				return
			}
			for _, cal := range c.P.Callees(ci) {
				k := funcKey(cal)
				if k == "time.Now" || strings.HasPrefix(k, "math/rand.") || strings.HasPrefix(k, "crypto/rand.") || strings.HasPrefix(k, "github.com/u-root/uio/rand.") {
					r.Violation("C20-K2", shortName(f)+": calls "+k, c.P.ipos(in), "a read-only operation consults a clock or random source: repeated calls need not return equal results")
				}
				if (inModule(cal) || inUio(cal)) && !seen[cal] {
					seen[cal] = true
					work = append(work, cal)
				}
			}
		})
	}
	r.OK("C20-K2", "closure scanned for clock/random sources", "-", "call-graph scan", "")
	r.Extra["c20_closure_functions"] = n
}
