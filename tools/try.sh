#!/bin/bash
# usage: tools/try.sh <binary> <name> [name...]  — name is a directory under seeded/ or refactors/ or a mutants/*.patch stem;
# runs all checks on a scratch copy with that patch and prints which properties alarm (development aid)
bin=$1; shift
mkdir -p /tmp/tryout
export DHCPVERIF_BIN=$bin
# snapshot of the analyser and its reviewed tables: edits made while the corpus runs do not leak into it
export SNAP=$(mktemp -d /tmp/snap.XXXXXX); mkdir -p $SNAP/bin $SNAP/spec; cp ${DHCPVERIF_BIN:-bin/dhcpverif} $SNAP/bin/dhcpverif; cp spec/*.json $SNAP/spec/; cp known_findings.json $SNAP/; unset DHCPVERIF_BIN
trap 'rm -rf $SNAP' EXIT
for n in "$@"; do
  if [ -f seeded/$n/patch.diff ]; then p=seeded/$n/patch.diff; elif [ -f refactors/$n/patch.diff ]; then p=refactors/$n/patch.diff; else p=mutants/$n.patch; fi
  echo "$n $p"
done | xargs -P 8 -L 1 sh -c 'tools/runpatch.sh $0 $1 /tmp/tryout'
for n in "$@"; do
  props=$(grep "^VIOLATION" /tmp/tryout/$n.txt | sed 's/.*property=\(C[0-9]*\).*/\1/' | sort -u | tr '\n' ' ')
  echo "$n: ${props:-clean}"
done
