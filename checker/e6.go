package main

// E6 — recipe / effect extraction for builder functions and modifier closures (DESIGN §4 E6):
// what the function requires of its inputs, which fields of the object under construction it
// sets from which sources, which options it adds (in order), under which conditions.

import (
	"encoding/json"
	"fmt"
	"go/constant"
	"go/token"
	"go/types"
	"os"
	"path/filepath"
	"sort"
	"strings"

	"golang.org/x/tools/go/ssa"
)

type e6Ctx struct {
	c  *Ctx
	fn *ssa.Function
	px *e2Ctx // for pathOf
	gc *guardCache
	// allCalls: also record calls of in-module functions that do not touch the object (exchange steps)
	allCalls bool
	depth    int
}

func newE6(c *Ctx, f *ssa.Function) *e6Ctx {
	px := &e2Ctx{c: c, fn: f, lex: map[ssa.Value]bool{}, enc: true, subst: map[string]string{}, visited: map[*ssa.BasicBlock]int{}, namedPhis: true, callArgs: true}
	return &e6Ctx{c: c, fn: f, px: px, gc: newGuardCache(c)}
}

func (e *e6Ctx) path(v ssa.Value) string {
	s := e.px.apply(e.px.pathOf(v, 0))
	if s == "" {
		return "recv"
	}
	return s
}

// errorGuard: the If has a branch that definitely returns an error (a precondition check)
func (e *e6Ctx) errorGuard(iff *ssa.If) (okEdge int, is bool) {
	for i := 0; i < 2; i++ {
		b := iff.Block().Succs[i]
		// follow straight-line blocks
		for n := 0; n < 4; n++ {
			last := b.Instrs[len(b.Instrs)-1]
			if ret, ok := last.(*ssa.Return); ok {
				if len(ret.Results) > 0 {
					ev := ret.Results[len(ret.Results)-1]
					if isErrorType(ev.Type()) && definitelyError(ev, ret) {
						return 1 - i, true
					}
				}
				break
			}
			if _, ok := last.(*ssa.Panic); ok {
				return 1 - i, true
			}
			if j, ok := last.(*ssa.Jump); ok {
				_ = j
				b = b.Succs[0]
				continue
			}
			break
		}
	}
	return 0, false
}

// conds: the non-precondition guards of a block (rendered), and records preconditions
func (e *e6Ctx) conds(b *ssa.BasicBlock, pre map[string]bool) string {
	var cs []string
	for _, f := range e.gc.of(b) {
		var iff *ssa.If
		for _, blk := range e.fn.Blocks {
			if i := ifOf(blk); i != nil && i.Cond == f.cond {
				iff = i
			}
		}
		if iff == nil {
			continue
		}
		s := canonCond(e.path(f.cond), f.pol)
		if okEdge, is := e.errorGuard(iff); is {
			// a precondition: holds on the non-error edge
			pre[canonCond(e.path(f.cond), okEdge == 0)] = true
			continue
		}
		// loop conditions of range/index loops are not effects
		if strings.Contains(s, "φrangeindex") || strings.Contains(s, "φi") && strings.Contains(s, "len(") || isLoopHeader(iff.Block()) {
			continue
		}
		cs = append(cs, s)
	}
	sort.Strings(cs)
	cs = dedupe(cs)
	if len(cs) == 0 {
		return ""
	}
	return "[if " + strings.Join(cs, " && ") + "] "
}

// canonCond: a rendered condition with its polarity folded in: "(A==B)" false → "(A!=B)", "(A!=B)" false →
// "(A==B)", anything else false → "!cond"; the operands of == / != in lexical order
func canonCond(s string, pol bool) string {
	if outerParens(s) {
		in := s[1 : len(s)-1]
		for _, op := range []string{"==", "!="} {
			if i := splitTop(in, op); i >= 0 {
				l, r := in[:i], in[i+2:]
				if l > r {
					l, r = r, l
				}
				o := op
				if !pol {
					if op == "==" {
						o = "!="
					} else {
						o = "=="
					}
				}
				return "(" + l + o + r + ")"
			}
		}
	}
	if !pol {
		return "!" + s
	}
	return s
}

// effects of f on the object `obj` (and values derived by field address)
func (e *e6Ctx) effects(isObj func(ssa.Value) bool, depth int) ([]string, map[string]bool) {
	pre := map[string]bool{}
	var lines []string
	f := e.fn
	var repl [][2]string           // renderings of an inlined helper's results → what the helper returns
	dropLines := map[string]bool{} // lines that only hand an inlined helper's error on
	for _, b := range f.Blocks {
		for _, in := range b.Instrs {
			switch x := in.(type) {
			case *ssa.Store:
				fa, ok := x.Addr.(*ssa.FieldAddr)
				if !ok {
					continue
				}
				root := fa.X
				for {
					if f2, ok := root.(*ssa.FieldAddr); ok {
						root = f2.X
						continue
					}
					break
				}
				if !isObj(root) {
					continue
				}
				fld := e.fieldPath(fa, isObj)
				if al, isFresh := root.(*ssa.Alloc); isFresh && isZeroConst(x.Val) && !storePrecedes(al, fa, x) {
					continue // the zero value of a field of a freshly allocated object: stating it or not is the same effect
				}
				// a value chosen by a small pure helper with several returns (replyOpcode(op)): one conditional set per return,
				// under the helper's own conditions with its parameters replaced by the arguments
				if cl, isCall := x.Val.(*ssa.Call); isCall {
					if alts, ok := e.helperAlternatives(cl, pre); ok {
						base := e.conds(b, pre)
						for _, a := range alts {
							lines = append(lines, mergeConds(base, a[0])+"set "+fld+" := "+a[1])
						}
						continue
					}
				}
				// a value chosen by an if/else before the store (v := a; if c { v = b }; x.F = v) is the same effect as
				// storing under the conditions: one conditional set per alternative
				if ph, isPhi := x.Val.(*ssa.Phi); isPhi && !inCycle(ph.Block()) && ph.Block() == b {
					base := e.conds(b, pre)
					for i, ev := range ph.Edges {
						pred := ph.Block().Preds[i]
						al, isFresh := root.(*ssa.Alloc)
						if isFresh && isZeroConst(ev) && !storePrecedes(al, fa, x) {
							continue
						}
						lines = append(lines, mergeConds(base, e.edgeConds(pred, ph.Block(), pre))+"set "+fld+" := "+e.path(ev))
					}
					continue
				}
				lines = append(lines, e.conds(b, pre)+"set "+fld+" := "+e.path(x.Val))
			case *ssa.Call:
				cc := x.Common()
				if e.allCalls && e.depth < 2 {
					if r2, d2, ok := e.inlineResultHelper(x, b, pre, &lines, depth); ok {
						repl = append(repl, r2...)
						for _, d := range d2 {
							dropLines[d] = true
						}
						continue
					}
				}
				var recv ssa.Value
				name := ""
				var args []ssa.Value
				if cc.IsInvoke() {
					recv, name, args = cc.Value, cc.Method.Name(), cc.Args
				} else if sf := cc.StaticCallee(); sf != nil && sf.Signature.Recv() != nil && len(cc.Args) > 0 {
					recv, name, args = cc.Args[0], sf.Name(), cc.Args[1:]
				} else if sf == nil && !cc.IsInvoke() {
					// call through a function value with the object as argument: applying a modifier
					if _, isB := cc.Value.(*ssa.Builtin); !isB && len(cc.Args) == 1 && isObj(stripIface(cc.Args[0])) {
						lines = append(lines, e.conds(b, pre)+"apply "+e.path(cc.Value))
					}
					continue
				} else {
					// an unexported helper that works on the object under construction (applyModifiers(m, mods),
					// fillDefaults(d)): its effects are the builder's effects — inlined with the helper's parameters
					// replaced by the arguments
					if sf := cc.StaticCallee(); sf != nil && inModule(sf) && sf.Blocks != nil && sf.Signature.Recv() == nil && !token.IsExported(sf.Name()) && sf.Parent() == nil && e.depth < 3 && len(sf.Blocks) <= 12 {
						objIdx := -1
						for ai, a := range cc.Args {
							if isObj(stripIface(a)) {
								objIdx = ai
							}
						}
						if objIdx >= 0 && objIdx < len(sf.Params) {
							sub := newE6(e.c, sf)
							sub.depth, sub.allCalls = e.depth+1, e.allCalls
							for i, p := range sf.Params {
								if i < len(cc.Args) && i != objIdx {
									sub.px.subst[e.c.Sx().Of(p).String()] = e.argDesc(cc.Args[i])
								}
							}
							op := ssa.Value(sf.Params[objIdx])
							subLines, subPre := sub.effects(func(v ssa.Value) bool { return v == op }, depth+1)
							base := e.conds(b, pre)
							for p := range subPre {
								pre[p] = true
							}
							for _, l := range subLines {
								if strings.HasPrefix(l, "return") || strings.Contains(l, "] return") {
									continue
								}
								own, rest := "", l
								if strings.HasPrefix(l, "[if ") {
									if j := strings.Index(l, "] "); j > 0 {
										own, rest = l[:j+2], l[j+2:]
									}
								}
								lines = append(lines, mergeConds(base, own)+rest)
							}
							continue
						}
					}
					// plain function of the module
					if sf := cc.StaticCallee(); e.allCalls && sf != nil && inModule(sf) && sf.Signature.Recv() == nil && !strings.HasPrefix(sf.Name(), "Opt") && !strings.HasPrefix(sf.Name(), "With") && !strings.HasPrefix(sf.Name(), "Is") && sf.Name() != "PrependModifiers" {
						if _, isHelper := e.expandHelper(x, func(sub *e6Ctx, v ssa.Value) string { return "" }); isHelper {
							continue
						}
						var as []string
						for _, a := range cc.Args {
							as = append(as, e.argDesc(a))
						}
						name := sf.Name()
						// delegation transparency: a call of a pure delegation is the call it makes
						for hop := 0; hop < 3; hop++ {
							inner := delegationOf(sf)
							if inner == nil {
								break
							}
							sub := newE6(e.c, sf)
							sub.depth, sub.allCalls = e.depth+1, e.allCalls
							for i, p := range sf.Params {
								if i < len(as) {
									sub.px.subst[e.c.Sx().Of(p).String()] = as[i]
								}
							}
							var as2 []string
							for _, a := range inner.Call.Args {
								as2 = append(as2, sub.argDesc(a))
							}
							sf, as, name = inner.Call.StaticCallee(), as2, inner.Call.StaticCallee().Name()
						}
						lines = append(lines, e.conds(b, pre)+"call "+name+"("+strings.Join(as, ", ")+")")
					}
					continue
				}
				if !isObj(stripIface(recv)) && !isObjField(recv, isObj) {
					if e.allCalls && !cc.IsInvoke() && inModule(cc.StaticCallee()) && !strings.HasPrefix(name, "Get") && name != "MessageType" && name != "String" && name != "Error" {
						var as []string
						for _, a := range args {
							as = append(as, e.argDesc(a))
						}
						lines = append(lines, e.conds(b, pre)+"call "+e.path(recv)+"."+name+"("+strings.Join(as, ", ")+")")
					} else if e.allCalls && cc.IsInvoke() && (name == "WriteTo") {
						var as []string
						for _, a := range args {
							as = append(as, e.argDesc(a))
						}
						lines = append(lines, e.conds(b, pre)+"call "+e.path(recv)+"."+name+"("+strings.Join(as, ", ")+")")
					}
					continue
				}
				var as []string
				for _, a := range args {
					as = append(as, e.path(a))
				}
				tgt := ""
				if !isObj(stripIface(recv)) {
					tgt = e.path(recv) + "."
				}
				// getters on the object are not effects
				if strings.HasPrefix(name, "Get") || strings.HasPrefix(name, "Is") || name == "Type" || name == "String" || name == "Summary" || name == "ParameterRequestList" || name == "OneIANA" {
					continue
				}
				// an argument chosen by an if/else before the call (v := a; if c { v = b }; d.Update(v)) is the same effect as
				// calling under the conditions
				split := false
				for ai, a := range args {
					ph, isPhi := stripIface(a).(*ssa.Phi)
					if !isPhi || inCycle(ph.Block()) || !(ph.Block() == b || ph.Block().Dominates(b)) {
						continue
					}
					base := e.conds(b, pre)
					for i, ev := range ph.Edges {
						as2 := append([]string{}, as...)
						as2[ai] = e.path(ev)
						lines = append(lines, mergeConds(base, e.edgeConds(ph.Block().Preds[i], ph.Block(), pre))+"call "+tgt+name+"("+strings.Join(as2, ", ")+")")
					}
					split = true
					break
				}
				if split {
					continue
				}
				lines = append(lines, e.conds(b, pre)+"call "+tgt+name+"("+strings.Join(as, ", ")+")")
			case *ssa.Return:
				var rs []string
				// `return f()` / `return x, err` with err the (maybe-nil) error result of a call: the same effect as
				// `if err != nil { return zero, err }; return x, nil` — a precondition plus a success return — provided the
				// callee hands back zero values together with its errors (or the error is all that is returned)
				// which error a failing return carries is observable (errors.Is / == / type assertions of the caller): the
				// callee's own error handed on, a wrapper around it (%w), a sentinel, or a new value
				if n := len(x.Results); n > 0 && isErrorType(x.Results[n-1].Type()) && !isNilConst(x.Results[n-1]) && e.allCalls {
					lines = append(lines, "fails with "+e.errProv(x.Results[n-1], 0))
				}
				if n := len(x.Results); n > 0 && isErrorType(x.Results[n-1].Type()) && !isNilConst(x.Results[n-1]) && !definitelyError(x.Results[n-1], x) {
					if cl := errSourceCall(x.Results[n-1]); cl != nil && (n == 1 || passesThrough(x, cl)) {
						pre[canonCond("("+e.path(x.Results[n-1])+"==const:nil:error)", true)] = true
						for _, v := range x.Results[:n-1] {
							if isObj(stripIface(v)) {
								rs = append(rs, "obj")
							} else {
								rs = append(rs, e.path(v))
							}
						}
						rs = append(rs, "nil")
						lines = append(lines, e.conds(b, pre)+"return "+strings.Join(rs, ", "))
						continue
					}
				}
				for _, v := range x.Results {
					if isErrorType(v.Type()) {
						if isNilConst(v) {
							rs = append(rs, "nil")
						} else {
							rs = append(rs, "error")
						}
						continue
					}
					if isObj(stripIface(v)) {
						rs = append(rs, "obj")
					} else {
						rs = append(rs, e.path(v))
					}
				}
				okRet := len(x.Results) == 0 || !isErrorType(x.Results[len(x.Results)-1].Type()) || !definitelyError(x.Results[len(x.Results)-1], x)
				if okRet {
					lines = append(lines, e.conds(b, pre)+"return "+strings.Join(rs, ", "))
				}
			}
		}
	}
	// results of inlined helpers: what the helper returns stands for the call's results; handing its error on is the
	// helper's own failing returns (already listed)
	if len(repl) > 0 {
		var out []string
		for _, l := range lines {
			if dropLines[l] {
				continue
			}
			for _, rp := range repl {
				l = strings.ReplaceAll(l, rp[0], rp[1])
			}
			out = append(out, l)
		}
		lines = out
		for k := range pre {
			nk := k
			for _, rp := range repl {
				nk = strings.ReplaceAll(nk, rp[0], rp[1])
			}
			if dropLines["pre:"+k] {
				delete(pre, k)
				continue
			}
			if nk != k {
				delete(pre, k)
				pre[nk] = true
			}
		}
	}
	// preconditions that only apply under a condition (if a && b { return err }): the guard set of later blocks does not
	// contain them (the blocks are also reached with a false), so they are stated here with their own condition
	for _, b := range f.Blocks {
		iff := ifOf(b)
		if iff == nil {
			continue
		}
		okEdge, is := e.errorGuard(iff)
		if !is {
			continue
		}
		cs := e.conds(b, pre)
		if cs == "" {
			continue
		}
		// the failing combination as a sorted conjunction: `if a && b` and `if b && a` read the same
		conj := strings.Split(strings.TrimSuffix(strings.TrimPrefix(strings.TrimSpace(cs), "[if "), "]"), " && ")
		conj = append(conj, canonCond(e.path(iff.Cond), okEdge != 0))
		sort.Strings(conj)
		lines = append(lines, "requires not("+strings.Join(dedupe(conj), " && ")+")")
	}
	// a guard that repeats a precondition says nothing: `if err == nil { log }` after the error return is the call
	for i, l := range lines {
		if !strings.HasPrefix(l, "[if ") {
			continue
		}
		j := strings.Index(l, "] ")
		if j < 0 {
			continue
		}
		var keep []string
		for _, cj := range strings.Split(l[4:j], " && ") {
			if !pre[cj] {
				keep = append(keep, cj)
			}
		}
		if len(keep) == 0 {
			lines[i] = l[j+2:]
		} else {
			lines[i] = "[if " + strings.Join(keep, " && ") + "] " + l[j+2:]
		}
	}
	return lines, pre
}

// errSourceCall: v is the error result of a call (the call itself or an Extract of it)
func errSourceCall(v ssa.Value) *ssa.Call {
	if ex, ok := v.(*ssa.Extract); ok {
		cl, _ := ex.Tuple.(*ssa.Call)
		return cl
	}
	cl, _ := v.(*ssa.Call)
	return cl
}

// passesThrough: the return hands back exactly the results of cl, in order, and cl's callee is a module function
// whose error returns carry zero values in the other results
func passesThrough(ret *ssa.Return, cl *ssa.Call) bool {
	n := len(ret.Results)
	if cl.Call.Signature().Results().Len() != n {
		return false
	}
	for i, rv := range ret.Results {
		ex, ok := rv.(*ssa.Extract)
		if !ok || ex.Tuple != ssa.Value(cl) || ex.Index != i {
			return false
		}
	}
	g := cl.Call.StaticCallee()
	if g == nil || !inModule(g) || g.Blocks == nil {
		return false
	}
	for _, r := range returnsOf(g) {
		if len(r.Results) != n {
			return false
		}
		ev := r.Results[n-1]
		if isNilConst(ev) {
			continue
		}
		// an error (or maybe-error) return: every other result is the zero value
		for _, ov := range r.Results[:n-1] {
			if !isZeroConst(ov) {
				return false
			}
		}
	}
	return true
}

func stripIface(v ssa.Value) ssa.Value {
	for {
		switch t := v.(type) {
		case *ssa.MakeInterface:
			v = t.X
		case *ssa.ChangeInterface:
			v = t.X
		case *ssa.ChangeType:
			v = t.X
		default:
			return v
		}
	}
}

func isObjField(v ssa.Value, isObj func(ssa.Value) bool) bool {
	for d := 0; d < 4; d++ {
		switch t := v.(type) {
		case *ssa.FieldAddr:
			if isObj(t.X) {
				return true
			}
			v = t.X
		case *ssa.UnOp:
			v = t.X
		default:
			return false
		}
	}
	return false
}

func (e *e6Ctx) fieldPath(fa *ssa.FieldAddr, isObj func(ssa.Value) bool) string {
	var parts []string
	var cur ssa.Value = fa
	for {
		f2, ok := cur.(*ssa.FieldAddr)
		if !ok {
			break
		}
		parts = append([]string{derefStruct(f2.X.Type()).Field(f2.Field).Name()}, parts...)
		cur = f2.X
	}
	return strings.Join(parts, ".")
}

// fingerprint: preconditions (sorted) + effect lines (program order)
func e6Fingerprint(c *Ctx, f *ssa.Function, isObj func(ssa.Value) bool) []string {
	return e6FingerprintX(c, f, isObj, false)
}

func e6FingerprintX(c *Ctx, f *ssa.Function, isObj func(ssa.Value) bool, allCalls bool) []string {
	e := newE6(c, f)
	e.allCalls = allCalls
	lines, pre := e.effects(isObj, 0)
	var ps []string
	for p := range pre {
		ps = append(ps, "requires "+p)
	}
	sort.Strings(ps)
	return append(ps, lines...)
}

// resultObject: the allocation(s) the function returns as its first result
func resultObjects(f *ssa.Function) map[ssa.Value]bool {
	objs := map[ssa.Value]bool{}
	var visit func(v ssa.Value, d int)
	visit = func(v ssa.Value, d int) {
		if d > 5 || v == nil {
			return
		}
		v = stripIface(v)
		switch t := v.(type) {
		case *ssa.Alloc:
			objs[t] = true
		case *ssa.Phi:
			for _, e := range t.Edges {
				visit(e, d+1)
			}
		case *ssa.Extract:
			objs[t] = true
			visit(t.Tuple, d+1)
		case *ssa.Call:
			objs[t] = true
		case *ssa.UnOp:
			objs[t] = true
		}
	}
	for _, r := range returnsOf(f) {
		if len(r.Results) > 0 && !isNilConst(r.Results[0]) {
			visit(r.Results[0], 0)
		}
	}
	return objs
}

// recipe: the ordered modifier list a dhcpv4 builder hands to New (through PrependModifiers)
func e6Recipe(c *Ctx, f *ssa.Function) ([]string, string) {
	e := newE6(c, f)
	var pm *ssa.Call
	allInstrs(f, func(in ssa.Instruction) {
		if cl, ok := in.(*ssa.Call); ok && cl.Call.StaticCallee() != nil && cl.Call.StaticCallee().Name() == "PrependModifiers" {
			pm = cl
		}
	})
	if pm == nil {
		return nil, "no call of PrependModifiers"
	}
	user := e.path(pm.Call.Args[0])
	sl, ok := pm.Call.Args[1].(*ssa.Slice)
	if !ok {
		return nil, "defaults are not a literal list"
	}
	al, ok := sl.X.(*ssa.Alloc)
	if !ok {
		return nil, "defaults are not a literal list"
	}
	items := map[int64]string{}
	for _, ref := range *al.Referrers() {
		ia, ok := ref.(*ssa.IndexAddr)
		if !ok {
			continue
		}
		k, _ := intConst(ia.Index)
		for _, r2 := range *ia.Referrers() {
			if st, ok := r2.(*ssa.Store); ok {
				items[k] = e.modDesc(st.Val)
			}
		}
	}
	var out []string
	for i := int64(0); i < int64(len(items)); i++ {
		out = append(out, items[i])
	}
	out = append(out, "then user modifiers "+user)
	// New(result...)
	okNew := false
	for _, ref := range *pm.Referrers() {
		if cl, ok := ref.(*ssa.Call); ok && cl.Call.StaticCallee() != nil && (cl.Call.StaticCallee().Name() == "New" || cl.Call.StaticCallee().Name() == "NewWithContext") {
			okNew = true
		}
	}
	if !okNew {
		return out, "the modifier list is not handed to New"
	}
	return out, ""
}

// modDesc: WithX(args) rendering of a modifier value
func (e *e6Ctx) modDesc(v ssa.Value) string {
	v = stripIface(v)
	switch t := v.(type) {
	case *ssa.Call:
		if s, ok := e.expandHelper(t, func(sub *e6Ctx, v ssa.Value) string { return sub.modDesc(v) }); ok {
			return s
		}
		if sf := t.Call.StaticCallee(); sf != nil {
			var as []string
			for _, a := range t.Call.Args {
				as = append(as, e.argDesc(a))
			}
			return sf.Name() + "(" + strings.Join(as, ", ") + ")"
		}
	case *ssa.Function:
		return t.Name()
	}
	return e.path(v)
}

// expandHelper: an unexported in-module function with a single return and no effect of its own is a named
// sub-expression: its call is rendered as the value it returns, with its parameters replaced by the arguments
func (e *e6Ctx) expandHelper(cl *ssa.Call, render func(sub *e6Ctx, v ssa.Value) string) (string, bool) {
	sf := cl.Call.StaticCallee()
	if sf == nil || !inModule(sf) || sf.Blocks == nil || token.IsExported(sf.Name()) || sf.Parent() != nil || e.depth >= 3 {
		return "", false
	}
	rets := returnsOf(sf)
	if len(rets) != 1 || len(rets[0].Results) != 1 {
		return "", false
	}
	pure := true
	allInstrs(sf, func(in ssa.Instruction) {
		switch t := in.(type) {
		case *ssa.Store:
			if al, _, ok := addrPath(t.Addr); !ok || al == nil {
				if ia, ok2 := t.Addr.(*ssa.IndexAddr); ok2 {
					if _, isAl := ia.X.(*ssa.Alloc); isAl {
						return
					}
				}
				pure = false
			}
		case *ssa.MapUpdate, *ssa.Send, *ssa.Go, *ssa.Defer, *ssa.Panic:
			pure = false
		case *ssa.Call:
			// a call through a function value or an interface has unknown effects
			if t.Call.IsInvoke() {
				pure = false
			} else if _, isB := t.Call.Value.(*ssa.Builtin); !isB && t.Call.StaticCallee() == nil {
				pure = false
			}
		}
	})
	if !pure {
		return "", false
	}
	sub := newE6(e.c, sf)
	sub.depth = e.depth + 1
	sub.allCalls = e.allCalls
	for i, p := range sf.Params {
		if i < len(cl.Call.Args) {
			sub.px.subst[e.c.Sx().Of(p).String()] = e.argDesc(cl.Call.Args[i])
		}
	}
	return render(sub, rets[0].Results[0]), true
}

func (e *e6Ctx) argDesc(a ssa.Value) string {
	a = stripIface(a)
	if cl, ok := a.(*ssa.Call); ok {
		if s, ok := e.expandHelper(cl, func(sub *e6Ctx, v ssa.Value) string { return sub.argDesc(v) }); ok {
			return s
		}
		if sf := cl.Call.StaticCallee(); sf != nil && sf.Signature.Recv() == nil && inModule(sf) {
			var as []string
			for _, x := range cl.Call.Args {
				as = append(as, e.argDesc(x))
			}
			return sf.Name() + "(" + strings.Join(as, ", ") + ")"
		}
	}
	// variadic list literal
	if sl, ok := a.(*ssa.Slice); ok {
		if al, ok := sl.X.(*ssa.Alloc); ok && (al.Comment == "varargs" || al.Comment == "slicelit") {
			items := map[int64]string{}
			for _, ref := range *al.Referrers() {
				if ia, ok := ref.(*ssa.IndexAddr); ok {
					k, _ := intConst(ia.Index)
					for _, r2 := range *ia.Referrers() {
						if st, ok := r2.(*ssa.Store); ok {
							items[k] = e.argDesc(st.Val)
						}
					}
				}
			}
			var out []string
			for i := int64(0); i < int64(len(items)); i++ {
				out = append(out, items[i])
			}
			return "[" + strings.Join(out, " ") + "]"
		}
	}
	return e.path(a)
}

// ---------------------------------------------------------------------------
// spec/builders.json

type builderRow struct {
	Source    string   `json:"source"`              // RFC / doc reference
	Required  []string `json:"required,omitempty"`  // substrings that must occur in some line (independent oracle, hand-written)
	Forbidden []string `json:"forbidden,omitempty"` // substrings that must not occur
	Lines     []string `json:"lines"`               // reviewed fingerprint
	Params    []string `json:"params,omitempty"`    // parameter (then captured variable) names of the reviewed function, by position
}

func loadBuilders(verif string) (map[string]*builderRow, error) {
	b, err := os.ReadFile(filepath.Join(verif, "spec", "builders.json"))
	if err != nil {
		return nil, err
	}
	var f struct {
		Builders map[string]*builderRow `json:"builders"`
	}
	if err := json.Unmarshal(b, &f); err != nil {
		return nil, fmt.Errorf("spec/builders.json: %v", err)
	}
	return f.Builders, nil
}

// e6Check compares a fingerprint with its reviewed row.
// e6Names: the names a fingerprint can mention with a `$`: parameters, then captured variables, by position
func e6Names(fn *ssa.Function) []string {
	var out []string
	for _, p := range fn.Params {
		out = append(out, p.Name())
	}
	for _, v := range fn.FreeVars {
		out = append(out, v.Name())
	}
	return out
}

// e6Positional: `$name` → `$#i` (i the position of name): renaming a parameter does not change a fingerprint,
// exchanging two parameters does
func e6Positional(s string, names []string) string {
	if len(names) == 0 || !strings.Contains(s, "$") {
		return s
	}
	var b strings.Builder
	for i := 0; i < len(s); {
		if s[i] != '$' {
			b.WriteByte(s[i])
			i++
			continue
		}
		j := i + 1
		for j < len(s) && (s[j] == '_' || s[j] >= '0' && s[j] <= '9' || s[j] >= 'a' && s[j] <= 'z' || s[j] >= 'A' && s[j] <= 'Z') {
			j++
		}
		id := s[i+1 : j]
		rep := ""
		for k, n := range names {
			if n == id && n != "" && n != "_" {
				rep = fmt.Sprintf("$#%d", k)
				break
			}
		}
		if rep == "" {
			rep = s[i:j]
		}
		b.WriteString(rep)
		i = j
	}
	return b.String()
}

func e6Check(c *Ctx, rule, name string, pos string, got []string, rows map[string]*builderRow, names []string) {
	r := c.R
	row := rows[name]
	if row == nil && strings.HasSuffix(name, ".IsAll$1$1") {
		for _, f := range c.P.ModuleFuncs() {
			if shortName(f) == name && f.Parent() != nil && allByContainsFunc(f.Parent()) == f {
				r.OK(rule, name+": the per-matcher test of IsAll written with slices.ContainsFunc", pos, "judged with its parent (allByContainsFunc)", "")
				return
			}
		}
	}
	if row == nil {
		r.Undecided(rule, name+": no reviewed row in spec/builders.json", pos, "extracted:\n      "+strings.Join(got, "\n      "))
		return
	}
	if len(row.Params) > 0 {
		mp := func(ls []string, ns []string) []string {
			out := make([]string, len(ls))
			for i, l := range ls {
				out[i] = e6Positional(l, ns)
			}
			return out
		}
		got = mp(got, names)
		row = &builderRow{Source: row.Source, Required: mp(row.Required, row.Params), Forbidden: mp(row.Forbidden, row.Params), Lines: mp(row.Lines, row.Params)}
	}
	all := strings.Join(got, "\n")
	for _, rq := range row.Required {
		r.Check(strings.Contains(all, rq), rule, name+": "+row.Source+" requires `"+rq+"`", pos, "present in the extracted effects", "the required effect is missing; extracted:\n      "+strings.Join(got, "\n      "))
	}
	for _, fb := range row.Forbidden {
		r.Check(!strings.Contains(all, fb), rule, name+": "+row.Source+" forbids `"+fb+"`", pos, "absent from the extracted effects", "the forbidden effect is present")
	}
	if strings.Join(e6NormLines(got), "\n") == strings.Join(e6NormLines(row.Lines), "\n") {
		r.OK(rule, name+": effects equal the reviewed recipe", pos, "E6 extraction = spec/builders.json", strings.Join(got, " ; "))
		return
	}
	// a predicate whose reviewed row is the scan form may be written loop-free: same truth table, same verdict
	if strings.HasSuffix(name, ".IsMessageType$1") {
		for _, f := range c.P.ModuleFuncs() {
			if shortName(f) == name {
				if what, _ := isMembershipPredicate(f); what != "" {
					r.OK(rule, name+": effects equal the reviewed recipe", pos, "same predicate as the reviewed row, decided by truth table", what)
					return
				}
			}
		}
	}
	if strings.HasSuffix(name, ".IsAll$1") {
		for _, f := range c.P.ModuleFuncs() {
			if shortName(f) == name && allByContainsFunc(f) != nil {
				r.OK(rule, name+": effects equal the reviewed recipe", pos, "same predicate as the reviewed row: !slices.ContainsFunc(ms, func(m) bool { return !m(p) }) is the conjunction over all matchers", "")
				return
			}
		}
	}
	// diff
	var diff []string
	gm, wm := map[string]bool{}, map[string]bool{}
	ng, nw := e6NormLines(got), e6NormLines(row.Lines)
	for _, l := range ng {
		gm[l] = true
	}
	for _, l := range nw {
		wm[l] = true
	}
	for _, l := range nw {
		if !gm[l] {
			diff = append(diff, "missing:  "+l)
		}
	}
	for _, l := range ng {
		if !wm[l] {
			diff = append(diff, "new:      "+l)
		}
	}
	if len(diff) == 0 {
		diff = append(diff, "same effects in a different order")
	}
	r.Violation(rule, name+": effects equal the reviewed recipe", pos, "effects differ from the reviewed recipe ("+row.Source+"):\n      "+strings.Join(diff, "\n      "))
}

// e6NormLines: the form in which fingerprints are compared: a sorted set; the condition of a success return
// (only obj / nil / nothing returned) is dropped — which paths end successfully is fixed by the preconditions
func e6NormLines(ls []string) []string {
	var out []string
	for _, l := range ls {
		if i := strings.Index(l, "] return"); strings.HasPrefix(l, "[if ") && i > 0 {
			rest := strings.TrimSpace(l[i+len("] return"):])
			okRet := true
			for _, v := range strings.Split(rest, ",") {
				v = strings.TrimSpace(v)
				if v != "" && v != "obj" && v != "nil" {
					okRet = false
				}
			}
			if okRet {
				l = strings.TrimSpace("return " + rest)
			}
		}
		if l == "return" {
			l = "return "
		}
		out = append(out, l)
	}
	sort.Strings(out)
	return dedupe(out)
}

// isZeroConst: the zero value of its type as a constant
func isZeroConst(v ssa.Value) bool {
	k, ok := v.(*ssa.Const)
	if !ok {
		return false
	}
	if k.Value == nil {
		return true // nil pointer/slice/map/interface, zero struct
	}
	switch k.Value.Kind() {
	case constant.Int:
		n, exact := constant.Int64Val(k.Value)
		return exact && n == 0
	case constant.String:
		return constant.StringVal(k.Value) == ""
	case constant.Bool:
		return !constant.BoolVal(k.Value)
	case constant.Float:
		f, _ := constant.Float64Val(k.Value)
		return f == 0
	}
	return false
}

// storePrecedes: can another store to the same field of the fresh object al execute before st
func storePrecedes(al *ssa.Alloc, fa *ssa.FieldAddr, st *ssa.Store) bool {
	if al.Referrers() == nil {
		return true
	}
	for _, ref := range *al.Referrers() {
		f2, ok := ref.(*ssa.FieldAddr)
		if !ok {
			if _, isDbg := ref.(*ssa.DebugRef); isDbg {
				continue
			}
			// the object escapes (call argument, store of the pointer …): something else may have written the field
			if in, isIn := ref.(ssa.Instruction); isIn && in.Block() != nil && (in.Block() != st.Block() && reachFrom(in.Block(), nil, nil)[st.Block()] || in.Block() == st.Block() && instrIndex(in) < instrIndex(st)) {
				if _, isRet := ref.(*ssa.Return); !isRet {
					return true
				}
			}
			continue
		}
		if f2.Field != fa.Field || f2.Referrers() == nil {
			continue
		}
		for _, r2 := range *f2.Referrers() {
			t, ok := r2.(*ssa.Store)
			if !ok || t == st || t.Addr != ssa.Value(f2) {
				continue
			}
			if t.Block() == st.Block() {
				if instrIndex(t) < instrIndex(st) {
					return true
				}
				continue
			}
			if reachFrom(t.Block(), nil, nil)[st.Block()] {
				return true
			}
		}
	}
	return false
}

// delegationOf: f is a pure delegation — one block, one call of an in-module function whose results are returned
// unchanged and in order, nothing else but the computation of that call's arguments (conversions, argument
// lists, calls of functions outside the module such as context.Background()). Returns the inner call.
// `New(mods…)` written as `return NewWithContext(context.Background(), mods…)` and `GenerateTransactionID()` written
// as `return GenerateTransactionIDWithContext(context.Background())` are the instances on the pinned tree; E6
// renders a call of such a function as the call it makes (delegation transparency), so that folding a function into a
// call of its sibling, or unfolding it, leaves every fingerprint unchanged.
func delegationOf(f *ssa.Function) *ssa.Call {
	if f == nil || f.Blocks == nil || len(f.Blocks) != 1 || !inModule(f) || f.Parent() != nil {
		return nil
	}
	var inner *ssa.Call
	var ret *ssa.Return
	ok := true
	for _, in := range f.Blocks[0].Instrs {
		switch t := in.(type) {
		case *ssa.Call:
			if _, isB := t.Call.Value.(*ssa.Builtin); isB {
				ok = false
				continue
			}
			sf := t.Call.StaticCallee()
			if sf == nil {
				ok = false
				continue
			}
			if inModule(sf) {
				if inner != nil {
					ok = false
				}
				inner = t
			}
		case *ssa.Return:
			ret = t
		case *ssa.Extract, *ssa.MakeInterface, *ssa.ChangeType, *ssa.ChangeInterface, *ssa.Convert, *ssa.Slice, *ssa.IndexAddr, *ssa.DebugRef, *ssa.FieldAddr, *ssa.Field:
		case *ssa.UnOp:
			if t.Op != token.MUL {
				ok = false
			}
		case *ssa.Alloc:
			if t.Comment != "varargs" {
				ok = false
			}
		case *ssa.Store:
			ia, isIA := t.Addr.(*ssa.IndexAddr)
			if !isIA {
				ok = false
				continue
			}
			if al, isAl := ia.X.(*ssa.Alloc); !isAl || al.Comment != "varargs" {
				ok = false
			}
		default:
			ok = false
		}
	}
	if !ok || inner == nil || ret == nil || inner.Call.StaticCallee() == f {
		return nil
	}
	n := inner.Call.Signature().Results().Len()
	if len(ret.Results) != n {
		return nil
	}
	for i, rv := range ret.Results {
		if n == 1 {
			if rv != ssa.Value(inner) {
				return nil
			}
			continue
		}
		ex, isEx := rv.(*ssa.Extract)
		if !isEx || ex.Tuple != ssa.Value(inner) || ex.Index != i {
			return nil
		}
	}
	return inner
}

// e6SubstParams: replace `$name` tokens of a fingerprint line by the given renderings
func e6SubstParams(s string, m map[string]string) string {
	if len(m) == 0 || !strings.Contains(s, "$") {
		return s
	}
	var b strings.Builder
	for i := 0; i < len(s); {
		if s[i] != '$' {
			b.WriteByte(s[i])
			i++
			continue
		}
		j := i + 1
		for j < len(s) && (s[j] == '_' || s[j] >= '0' && s[j] <= '9' || s[j] >= 'a' && s[j] <= 'z' || s[j] >= 'A' && s[j] <= 'Z') {
			j++
		}
		if rep, ok := m[s[i+1:j]]; ok {
			b.WriteString(rep)
		} else {
			b.WriteString(s[i:j])
		}
		i = j
	}
	return b.String()
}

// edgeConds: the guards of the edge pred→to: those of pred plus, when pred ends in an If, the outcome that leads to `to`
func (e *e6Ctx) edgeConds(pred, to *ssa.BasicBlock, pre map[string]bool) string {
	cs := e.conds(pred, pre)
	if iff := ifOf(pred); iff != nil && len(pred.Succs) == 2 && pred.Succs[0] != pred.Succs[1] {
		if _, is := e.errorGuard(iff); !is {
			cs = mergeConds(cs, "[if "+canonCond(e.path(iff.Cond), pred.Succs[0] == to)+"] ")
		}
	}
	return cs
}

// mergeConds: conjunction of two rendered guard prefixes ("[if a && b] ")
func mergeConds(a, b string) string {
	split := func(s string) []string {
		s = strings.TrimSpace(s)
		if s == "" {
			return nil
		}
		s = strings.TrimSuffix(strings.TrimPrefix(s, "[if "), "]")
		return strings.Split(s, " && ")
	}
	cs := append(split(a), split(b)...)
	if len(cs) == 0 {
		return ""
	}
	sort.Strings(cs)
	cs = dedupe(cs)
	return "[if " + strings.Join(cs, " && ") + "] "
}

// errProv: where an error value comes from, as far as a caller can tell them apart
func (e *e6Ctx) errProv(v ssa.Value, d int) string {
	if d > 4 {
		return "?"
	}
	switch t := v.(type) {
	case *ssa.Phi:
		var ps []string
		for _, ed := range t.Edges {
			if isNilConst(ed) {
				continue
			}
			ps = append(ps, e.errProv(ed, d+1))
		}
		sort.Strings(ps)
		return strings.Join(dedupe(ps), "|")
	case *ssa.Extract:
		if cl, ok := t.Tuple.(*ssa.Call); ok {
			return calleeShort(cl) + fmt.Sprintf("()#%d", t.Index)
		}
		return e.path(t)
	case *ssa.ChangeInterface:
		return e.errProv(t.X, d+1)
	case *ssa.MakeInterface:
		return "new " + typeTag(t.X.Type())
	case *ssa.UnOp:
		if g, ok := t.X.(*ssa.Global); ok {
			return "global:" + g.Name()
		}
	case *ssa.Call:
		if sf := t.Call.StaticCallee(); sf != nil {
			switch funcKey(sf) {
			case "errors.New":
				return "new error"
			case "fmt.Errorf":
				if k, ok := t.Call.Args[0].(*ssa.Const); ok && k.Value != nil && k.Value.Kind() == constant.String && strings.Contains(constant.StringVal(k.Value), "%w") && len(t.Call.Args) == 2 {
					var ws []string
					for _, av := range varargValues(t.Call.Args[1]) {
						if ci, isCI := av.(*ssa.ChangeInterface); isCI {
							av = ci.X
						}
						if mi, isMI := av.(*ssa.MakeInterface); isMI {
							if types.Implements(mi.X.Type(), errorIface) {
								ws = append(ws, "new "+typeTag(mi.X.Type()))
							}
							continue
						}
						if isErrorType(av.Type()) {
							ws = append(ws, e.errProv(av, d+1))
						}
					}
					sort.Strings(ws)
					return "wrap(" + strings.Join(ws, ",") + ")"
				}
				return "new error"
			}
		}
		return calleeShort(t) + "()"
	}
	return e.path(v)
}

var errorIface = types.Universe.Lookup("error").Type().Underlying().(*types.Interface)

func calleeShort(cl *ssa.Call) string {
	if cl.Call.IsInvoke() {
		return "." + cl.Call.Method.Name()
	}
	if sf := cl.Call.StaticCallee(); sf != nil {
		for hop := 0; hop < 3; hop++ { // delegation transparency
			inner := delegationOf(sf)
			if inner == nil {
				break
			}
			sf = inner.Call.StaticCallee()
		}
		if sf.Signature.Recv() != nil {
			return "." + sf.Name()
		}
		return sf.Name()
	}
	return "?"
}

// helperAlternatives: cl calls an unexported, effect-free module function with one result and more than one return:
// the (condition prefix, value) pairs of its returns in the caller's terms
func (e *e6Ctx) helperAlternatives(cl *ssa.Call, pre map[string]bool) ([][2]string, bool) {
	sf := cl.Call.StaticCallee()
	if sf == nil || !inModule(sf) || sf.Blocks == nil || token.IsExported(sf.Name()) || sf.Parent() != nil || e.depth >= 3 || sf.Signature.Results().Len() != 1 {
		return nil, false
	}
	rets := returnsOf(sf)
	if len(rets) < 2 || len(sf.Blocks) > 8 {
		return nil, false
	}
	pure := true
	allInstrs(sf, func(in ssa.Instruction) {
		switch t := in.(type) {
		case *ssa.Store, *ssa.MapUpdate, *ssa.Send, *ssa.Go, *ssa.Defer, *ssa.Panic:
			pure = false
		case *ssa.Call:
			if _, isB := t.Call.Value.(*ssa.Builtin); !isB {
				pure = false
			}
		}
	})
	if !pure || inCycle(sf.Blocks[0]) {
		return nil, false
	}
	sub := newE6(e.c, sf)
	sub.depth = e.depth + 1
	for i, p := range sf.Params {
		if i < len(cl.Call.Args) {
			sub.px.subst[e.c.Sx().Of(p).String()] = e.argDesc(cl.Call.Args[i])
		}
	}
	var out [][2]string
	for _, rt := range rets {
		subPre := map[string]bool{}
		out = append(out, [2]string{sub.conds(rt.Block(), subPre), sub.path(rt.Results[0])})
	}
	return out, true
}

// inlineResultHelper: cl calls an unexported function or method of the same package that returns (values…, error), is
// called once from here, and has exactly one unconditional-success return: its effects are this function's effects
// (parameters replaced by the arguments), its success values stand for the call's results, and a return that hands its
// error on unchanged is the helper's own failing returns. (`resp, err := c.requestAck(ctx, req, offer); if err != nil { return nil, err }`)
func (e *e6Ctx) inlineResultHelper(cl *ssa.Call, b *ssa.BasicBlock, pre map[string]bool, lines *[]string, depth int) ([][2]string, []string, bool) {
	cc := cl.Common()
	sf := cc.StaticCallee()
	if sf == nil || cc.IsInvoke() || !inModule(sf) || sf.Blocks == nil || token.IsExported(sf.Name()) || sf.Parent() != nil || funcPkg(sf) != funcPkg(e.fn) || sf == e.fn || len(sf.Blocks) > 16 {
		return nil, nil, false
	}
	res := sf.Signature.Results()
	if res.Len() < 2 || !isErrorType(res.At(res.Len()-1).Type()) || len(cc.Args) != len(sf.Params) {
		return nil, nil, false
	}
	n := 0
	allInstrs(e.fn, func(in ssa.Instruction) {
		if c2, ok := in.(ssa.CallInstruction); ok && c2.Common().StaticCallee() == sf {
			n++
		}
	})
	if n != 1 || inCycle(b) {
		return nil, nil, false
	}
	sub := newE6(e.c, sf)
	sub.depth, sub.allCalls = e.depth+1, true
	for i, p := range sf.Params {
		d := e.argDesc(cc.Args[i])
		if i == 0 && sf.Signature.Recv() != nil && d == "recv" {
			continue // the same receiver: renders as recv on both sides
		}
		sub.px.subst[e.c.Sx().Of(p).String()] = d
	}
	subLines, subPre := sub.effects(func(ssa.Value) bool { return false }, depth+1)
	var succ []string
	var body []string
	for _, l := range subLines {
		if strings.HasPrefix(l, "return ") {
			if succ != nil {
				return nil, nil, false
			}
			parts := strings.Split(strings.TrimPrefix(l, "return "), ", ")
			if parts[len(parts)-1] != "nil" {
				return nil, nil, false
			}
			succ = parts[:len(parts)-1]
			continue
		}
		if strings.Contains(l, "] return ") {
			return nil, nil, false // conditional success values: not a single-valued helper
		}
		body = append(body, l)
	}
	if succ == nil || len(succ) != res.Len()-1 {
		return nil, nil, false
	}
	base := e.conds(b, pre)
	for p := range subPre {
		pre[p] = true
	}
	for _, l := range body {
		own, rest := "", l
		if strings.HasPrefix(l, "[if ") {
			if j := strings.Index(l, "] "); j > 0 {
				own, rest = l[:j+2], l[j+2:]
			}
		}
		*lines = append(*lines, mergeConds(base, own)+rest)
	}
	var repl [][2]string
	var drops []string
	for k := 0; k < res.Len(); k++ {
		ex := extractOf(cl, k)
		if ex == nil {
			continue
		}
		from := e.path(ex)
		if k < res.Len()-1 {
			repl = append(repl, [2]string{from, succ[k]})
		} else {
			drops = append(drops, "fails with "+from, "pre:"+canonCond("("+from+"==const:nil:error)", true))
		}
	}
	return repl, drops, true
}
