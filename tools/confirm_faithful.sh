#!/bin/bash
# usage: confirm_faithful.sh <refactors/NAME-dir> <seeded/ID-dir>
# Confirms the faithful twin of a seeded change in a scratch worktree of /repo's HEAD: patch.diff of the refactors dir
# applies, builds, passes the existing suite, and the demonstration of the seeded change PASSES with it.
# Writes <refactors dir>/meta.json. The worktree is removed afterwards.
set -u
d="$(cd "$1" && pwd)"; s="$(cd "$2" && pwd)"
export GOFLAGS=-mod=mod GOPROXY=off GOSUMDB=off GOTOOLCHAIN=local
wt=$(mktemp -d /tmp/confirmf.XXXXXX)
git -C /repo worktree add -q --detach "$wt" HEAD || exit 2
cd "$wt"
applies=no; builds=no; suite=no; demo=unknown
if git apply "$d/patch.diff" 2>/dev/null || patch -p1 -s < "$d/patch.diff" >/dev/null 2>&1; then applies=yes; fi
if [ $applies = yes ]; then
  if go build ./... >/dev/null 2>&1; then builds=yes; fi
  if go test -count=1 ./... >"$wt/.suite.log" 2>&1; then suite=pass; else
    # one retry: nclient tests are timing-sensitive under load
    if go test -count=1 ./... >"$wt/.suite.log" 2>&1; then suite=pass; else suite=FAIL; fi
  fi
  demos=$(cd "$s/demo" && find . -name '*_test.go')
  pkgs=""
  for f in $demos; do mkdir -p "$(dirname "$f")"; cp "$s/demo/$f" "$f"; pkgs="$pkgs ./$(dirname "$f")"; done
  pkgs=$(echo $pkgs | tr ' ' '\n' | sort -u | tr '\n' ' ')
  if go test -count=1 -run 'Seed|seed|Demo|ZZ|Zz' $pkgs >"$wt/.demo.log" 2>&1; then demo=pass; else demo=FAIL; fi
fi
cat > "$d/meta.json" <<J
{
 "twin_of": "$(basename "$s")",
 "base_commit": "$(git -C /repo rev-parse --short HEAD)",
 "patch_applies": "$applies",
 "builds_with_patch": "$builds",
 "existing_suite_with_patch": "$suite",
 "demo_of_the_defective_twin_with_this_patch": "$demo",
 "confirmed": $( [ "$applies$builds$suite$demo" = "yesyespasspass" ] && echo true || echo false ),
 "source": "independent sub-agent: the same commit as the seeded change, done right (behaviour-preserving)"
}
J
cd /; git -C /repo worktree remove --force "$wt" >/dev/null 2>&1; rm -rf "$wt"
