package dhcpv6

// Demonstration of finding F9 (property C06), to be dropped into /repo/dhcpv6 of a scratch copy:
//   go test -count=1 -run TestC06V4Padding ./dhcpv6/
// An accepted 56 KiB RELAY-FORW whose inner message carries 230 DHCPv4-Message options (code 87) with
// minimal 241-byte DHCPv4 packets re-encodes to bytes the library itself rejects: dhcpv4.ToBytes pads
// every embedded packet to 300 bytes, the inner message grows to 69 924 bytes, and
// (dhcpv6.Options).ToBytes writes uint16(len(val)) — the relay-message option's length is truncated.

import (
	"testing"
)

func TestC06V4Padding(t *testing.T) {
	v4 := make([]byte, 241)
	v4[0] = 1
	copy(v4[236:], []byte{99, 130, 83, 99})
	v4[240] = 255
	inner := []byte{20, 0xaa, 0xbb, 0xcc}
	for i := 0; i < 230; i++ {
		inner = append(inner, 0, 87, 0, 241)
		inner = append(inner, v4...)
	}
	relay := append([]byte{12, 0}, make([]byte, 32)...)
	relay = append(relay, 0, 9, byte(len(inner)>>8), byte(len(inner)))
	relay = append(relay, inner...)
	r1, err := FromBytes(relay)
	if err != nil {
		t.Fatalf("decode relay (%d bytes): %v", len(relay), err)
	}
	rb := r1.ToBytes()
	if _, err := FromBytes(rb); err != nil {
		t.Fatalf("re-decode of the library's own encoding of an accepted %d-byte datagram fails: %v", len(relay), err)
	}
}
