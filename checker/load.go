package main

// Loading of /repo's current working tree into type-checked syntax, SSA and a
// VTA call graph. Nothing is cached between runs.

import (
	"fmt"
	"go/token"
	"go/types"
	"os"
	"os/exec"
	"sort"
	"strings"

	"golang.org/x/tools/go/callgraph"
	"golang.org/x/tools/go/callgraph/cha"
	"golang.org/x/tools/go/callgraph/vta"
	"golang.org/x/tools/go/packages"
	"golang.org/x/tools/go/ssa"
	"golang.org/x/tools/go/ssa/ssautil"
)

const (
	modPath = "github.com/insomniacslk/dhcp"
	uioPath = "github.com/u-root/uio/uio"
	// version of the uio dependency the Lexer model (models.go) was written for
	uioModelVersion = "v0.0.0-20230220225925-ffce2a382923"
)

// minimum number of module packages that must load (17 on the pinned tree;
// examples/ directories are separate main packages and are counted too).
const minModulePackages = 17

type BuildConfig struct {
	GOOS, GOARCH string
}

func (b BuildConfig) String() string { return b.GOOS + "/" + b.GOARCH }

type Prog struct {
	Dir      string
	Config   BuildConfig
	Fset     *token.FileSet
	Pkgs     []*packages.Package // all, incl. deps
	ModPkgs  []*packages.Package // packages of the module under analysis
	SSA      *ssa.Program
	SSAPkg   map[string]*ssa.Package // by import path
	AllFuncs map[*ssa.Function]bool
	cg       *callgraph.Graph
	UioVer   string

	funcIndex map[string]*ssa.Function
	// Inline: what the normalisation pre-pass did (inlinenew.go); nil when it is off or found nothing to do
	Inline *inlineReport
	// baseline: spec/functions.json, loaded on first use by hostOfNewHelper
	baseline map[string]map[string]bool
}

func childEnv(cfg BuildConfig) []string {
	var env []string
	for _, kv := range os.Environ() {
		k := kv
		if i := strings.IndexByte(kv, '='); i >= 0 {
			k = kv[:i]
		}
		switch k {
		case "GOFLAGS", "GOPROXY", "GOSUMDB", "GOTOOLCHAIN", "GOWORK", "GOOS", "GOARCH", "CGO_ENABLED":
			continue
		}
		env = append(env, kv)
	}
	env = append(env,
		"GOFLAGS=-mod=mod", "GOPROXY=off", "GOSUMDB=off", "GOTOOLCHAIN=local", "GOWORK=off",
		"GOOS="+cfg.GOOS, "GOARCH="+cfg.GOARCH, "CGO_ENABLED=0")
	return env
}

// gitHeadAndDirty is informational (recorded in evidence).
func gitState(dir string) (string, bool) {
	out, err := exec.Command("git", "-C", dir, "rev-parse", "HEAD").Output()
	if err != nil {
		return "", false
	}
	st, _ := exec.Command("git", "-C", dir, "status", "--porcelain", "--untracked-files=no").Output()
	return strings.TrimSpace(string(out)), len(strings.TrimSpace(string(st))) > 0
}

// normaliseVerif: where spec/functions.json lives; "" switches the inlining pre-pass off
var normaliseVerif = "/verif"

func Load(dir string, cfg BuildConfig, needCG bool) (*Prog, error) {
	var overlay map[string][]byte
	var irep *inlineReport
	if normaliseVerif != "" {
		func() {
			// the pre-pass is an optimisation of precision, not a verdict: if the vendored inliner should panic on some
			// construct, the tree is analysed as it is (calls of new helpers stay calls)
			defer func() {
				if r := recover(); r != nil {
					overlay, irep = nil, &inlineReport{Kept: []string{fmt.Sprintf("inlining pre-pass abandoned: %v", r)}, Dead: map[string]bool{}, DeadMethods: map[string]bool{}}
				}
			}()
			var err error
			overlay, irep, err = inlineNewHelpers(dir, cfg, normaliseVerif)
			if err != nil {
				overlay, irep = nil, &inlineReport{Kept: []string{"inlining pre-pass abandoned: " + err.Error()}, Dead: map[string]bool{}, DeadMethods: map[string]bool{}}
			}
		}()
	}
	pcfg := &packages.Config{
		Mode:    packages.LoadAllSyntax | packages.NeedModule,
		Dir:     dir,
		Tests:   false,
		Env:     childEnv(cfg),
		Overlay: overlay,
	}
	pkgs, err := packages.Load(pcfg, "./...")
	if err != nil {
		return nil, fmt.Errorf("load: %v", err)
	}
	if len(pkgs) == 0 {
		return nil, fmt.Errorf("load: zero packages")
	}
	p := &Prog{Dir: dir, Config: cfg, SSAPkg: map[string]*ssa.Package{}, funcIndex: map[string]*ssa.Function{}, Inline: irep}
	var errs []string
	packages.Visit(pkgs, nil, func(pk *packages.Package) {
		p.Pkgs = append(p.Pkgs, pk)
		for _, e := range pk.Errors {
			errs = append(errs, fmt.Sprintf("%s: %v", pk.PkgPath, e))
		}
		if pk.PkgPath == uioPath && pk.Module != nil {
			p.UioVer = pk.Module.Version
		}
	})
	if len(errs) > 0 {
		sort.Strings(errs)
		if len(errs) > 10 {
			errs = errs[:10]
		}
		return nil, fmt.Errorf("load: type/list errors (%s):\n  %s", cfg, strings.Join(errs, "\n  "))
	}
	for _, pk := range pkgs {
		if strings.HasPrefix(pk.PkgPath, modPath) {
			p.ModPkgs = append(p.ModPkgs, pk)
		}
	}
	sort.Slice(p.ModPkgs, func(i, j int) bool { return p.ModPkgs[i].PkgPath < p.ModPkgs[j].PkgPath })
	if len(p.ModPkgs) < minModulePackages && cfg.GOOS == "linux" {
		return nil, fmt.Errorf("load: only %d module packages loaded, expected >= %d", len(p.ModPkgs), minModulePackages)
	}
	p.Fset = pkgs[0].Fset
	prog, spkgs := ssautil.AllPackages(pkgs, ssa.InstantiateGenerics)
	_ = spkgs
	prog.Build()
	p.SSA = prog
	for _, sp := range prog.AllPackages() {
		p.SSAPkg[sp.Pkg.Path()] = sp
	}
	p.AllFuncs = ssautil.AllFunctions(prog)
	for f := range p.AllFuncs {
		p.funcIndex[funcKey(f)] = f
	}
	if needCG {
		p.cg = vta.CallGraph(p.AllFuncs, cha.CallGraph(prog))
	}
	return p, nil
}

// funcKey gives a stable human-readable identity:
//
//	pkgpath.Func, pkgpath.(*T).M, pkgpath.(T).M, pkgpath.Func$1
func funcKey(f *ssa.Function) string {
	if f == nil {
		return "<nil>"
	}
	return f.String()
}

// shortName strips the module path.
func shortName(f *ssa.Function) string {
	s := funcKey(f)
	s = strings.ReplaceAll(s, modPath+"/", "")
	s = strings.ReplaceAll(s, "github.com/u-root/uio/", "")
	return s
}

func (p *Prog) Func(key string) *ssa.Function { return p.funcIndex[key] }

// InScope: function defined in the module under analysis (or uio when asked).
func inModule(f *ssa.Function) bool {
	pk := funcPkg(f)
	return pk != nil && strings.HasPrefix(pk.Path(), modPath)
}

func inUio(f *ssa.Function) bool {
	pk := funcPkg(f)
	return pk != nil && pk.Path() == uioPath
}

func funcPkg(f *ssa.Function) *types.Package {
	if f == nil {
		return nil
	}
	if f.Pkg != nil {
		return f.Pkg.Pkg
	}
	if o := f.Origin(); o != nil && o.Pkg != nil {
		return o.Pkg.Pkg
	}
	if f.Parent() != nil {
		return funcPkg(f.Parent())
	}
	if f.Object() != nil {
		return f.Object().Pkg()
	}
	// wrappers / bound methods: use receiver type's package
	if f.Signature != nil && f.Signature.Recv() != nil {
		t := f.Signature.Recv().Type()
		if pt, ok := t.(*types.Pointer); ok {
			t = pt.Elem()
		}
		if n, ok := t.(*types.Named); ok && n.Obj() != nil {
			return n.Obj().Pkg()
		}
	}
	return nil
}

func pkgPathOf(f *ssa.Function) string {
	if pk := funcPkg(f); pk != nil {
		return pk.Path()
	}
	return ""
}

func (p *Prog) pos(pos token.Pos) string {
	if !pos.IsValid() {
		return "-"
	}
	ps := p.Fset.Position(pos)
	fn := ps.Filename
	if strings.HasPrefix(fn, p.Dir+"/") {
		fn = fn[len(p.Dir)+1:]
	}
	return fmt.Sprintf("%s:%d:%d", fn, ps.Line, ps.Column)
}

// posOfInstr returns best-effort position of an instruction (falls back to
// operands / enclosing function).
func (p *Prog) ipos(in ssa.Instruction) string {
	if in == nil {
		return "-"
	}
	if in.Pos().IsValid() {
		return p.pos(in.Pos())
	}
	if v, ok := in.(ssa.Value); ok {
		_ = v
	}
	var ops []*ssa.Value
	for _, o := range in.Operands(ops) {
		if *o != nil && (*o).Pos().IsValid() {
			return p.pos((*o).Pos())
		}
	}
	if in.Parent() != nil {
		return p.pos(in.Parent().Pos())
	}
	return "-"
}

// Callees of a call instruction: static callee, else VTA edges.
func (p *Prog) Callees(call ssa.CallInstruction) []*ssa.Function {
	if f := call.Common().StaticCallee(); f != nil {
		return []*ssa.Function{f}
	}
	if p.cg == nil {
		return nil
	}
	n := p.cg.Nodes[call.Parent()]
	if n == nil {
		return nil
	}
	var out []*ssa.Function
	seen := map[*ssa.Function]bool{}
	for _, e := range n.Out {
		if e.Site == call && !seen[e.Callee.Func] {
			seen[e.Callee.Func] = true
			out = append(out, e.Callee.Func)
		}
	}
	sort.Slice(out, func(i, j int) bool { return funcKey(out[i]) < funcKey(out[j]) })
	return out
}

// module-level functions (with bodies), sorted.
func (p *Prog) ModuleFuncs() []*ssa.Function {
	var out []*ssa.Function
	for f := range p.AllFuncs {
		if f.Blocks != nil && inModule(f) && f.Synthetic == "" {
			if p.Inline != nil && len(p.Inline.Dead)+len(p.Inline.DeadMethods) > 0 {
				root := f
				for root.Parent() != nil {
					root = root.Parent()
				}
				if root.Signature.Recv() == nil && p.Inline.Dead[funcKey(root)] {
					continue // a new helper that was inlined everywhere: not part of the analysed program
				}
				if n := recvNamed(root); n != nil && n.Obj().Pkg() != nil && p.Inline.DeadMethods[n.Obj().Pkg().Path()+"."+n.Obj().Name()+"."+root.Name()] {
					continue
				}
			}
			out = append(out, f)
		}
	}
	sort.Slice(out, func(i, j int) bool { return funcKey(out[i]) < funcKey(out[j]) })
	return out
}

// Methods named `name` on any type of module packages (both T and *T
// declared receivers), keyed by funcKey.
func (p *Prog) MethodsNamed(name string) []*ssa.Function {
	var out []*ssa.Function
	for _, f := range p.ModuleFuncs() {
		if f.Signature.Recv() != nil && f.Name() == name && f.Parent() == nil {
			out = append(out, f)
		}
	}
	return out
}

func recvNamed(f *ssa.Function) *types.Named {
	if f.Signature.Recv() == nil {
		return nil
	}
	t := f.Signature.Recv().Type()
	if pt, ok := t.(*types.Pointer); ok {
		t = pt.Elem()
	}
	n, _ := t.(*types.Named)
	return n
}
