package main

import (
	"strings"

	"golang.org/x/tools/go/ssa"
)

func init() {
	register("C02", true, checkC02)
	register("C01", true, checkC01)
	register("C17", true, checkC17)
}

func isV6Codec(name string, f *ssa.Function) bool {
	return strings.Contains(name, "dhcpv6.") || strings.Contains(name, "iana.Archs") || strings.Contains(name, "rfc1035label.")
}

func checkC02(c *Ctx) {
	r := c.R
	r.Decides = append(r.Decides,
		"K12 no decoder method rewrites what it has decoded through a step that sees none of the input (a call after the first read that receives the receiver or a value loaded from it, nothing derived from the input, and writes memory reachable from it: de-duplicating, sorting, trimming a decoded list)",
		"K1 dispatch agreement: for every ParseOption / parseNTPSuboption / DUIDFromBytes case K→T, T.Code() (DUIDType()) returns the constant K; every type implementing dhcpv6.Option with a constant Code() appears in a parser table; unknown codes fall back to the generic type",
		"K2/K3 per-type wire schema: the slot sequence (width, field, transform) extracted from every DHCPv6 encoder and decoder (options, DUID kinds, message and relay headers, option framing) equals the reviewed row of spec/layouts.json, whose width skeleton was written from the cited RFC section; hence encoder and decoder agree slot by slot and with the RFC layout",
		"K4 order: the option encoder ranges over the option slice; the decoder appends each parsed option (part of the Options rows)",
		"K7 label sets inside decoded options re-emit their original bytes only while their names are unchanged under an exact comparison (shared with C19-K1)")
	r.NotDecided = append(r.NotDecided, "value equality beyond slot/field/transform agreement (behaviour of net, time, append)", "label codec internals (C19)")
	e1ParserTables(c, "C02-K1")
	containerRules(c, "C02-K10", "6")
	labelNameCap(c, "C02-K6")
	e1CheckConstants(c, "C02-K5", []string{"dhcpv6.", "iana.StatusCode", "iana.Arch", "iana.HWType", "iana.EnterpriseID"}, 200)
	byteOrderRule(c, "C02-K8", []string{"dhcpv6", "iana", "rfc1035label"}, 40)
	platformWidthRule(c, "C02-K11", []string{"dhcpv6", "iana", "rfc1035label"})
	decoderPostProcessing(c, "C02-K12")
	e8CheckRejects(c, "C02-K9", func(n string) bool {
		return strings.Contains(n, "dhcpv6.") || strings.Contains(n, "iana.") || strings.Contains(n, "rfc1035label.")
	}, 15)
	e2CheckLayouts(c, "C02-K2", isV6Codec, 90)
	// a decoded option carrying domain names (FQDN, domain search list, NTP server FQDN, …) re-encodes through the
	// label set's re-emission rule: an edited name list must be re-encoded (shared with C19-K1)
	c19Rule = "C02-K7"
	c19ToBytes(c)
	c19Same(c)
	c19Rule = "C19-K1"
	c19Encoder(c)
	r.Assume("spec/layouts.json rows are my reading of the cited RFC sections; the width skeletons were written by hand from the RFC text (tools/genlayouts.py) and the field/transform strings reviewed against the code once")
}

func isV4Header(name string, f *ssa.Function) bool {
	return name == "(*dhcpv4.DHCPv4).ToBytes" || name == "dhcpv4.FromBytes" || name == "(dhcpv4.Options).Marshal"
}

func isV4Value(name string, f *ssa.Function) bool {
	if isV4Header(name, f) {
		return false
	}
	return strings.Contains(name, "dhcpv4.") || strings.Contains(name, "iana.Archs") || strings.Contains(name, "rfc1035label.Labels")
}
