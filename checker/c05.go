package main

// C05 — DHCPv6 decoding accepts exactly well-formed messages (decided in the direction
// "does not accept more than …"): exact tiling, nested containers, TLV loop, header guards,
// error discipline. The tiling rule is shared with C17-K3 (DHCPv4 value types).

import (
	"fmt"
	"go/token"
	"go/types"
	"strings"

	"golang.org/x/tools/go/ssa"
)

func init() { register("C05", true, checkC05) }

func checkC05(c *Ctx) {
	e1CheckConstants(c, "C05-K8", []string{"dhcpv6.", "iana.StatusCode", "iana.Arch", "iana.HWType", "iana.EnterpriseID"}, 200)
	byteOrderRule(c, "C05-K10", []string{"dhcpv6", "iana", "rfc1035label"}, 40)
	e8CheckRejects(c, "C05-K11", func(n string) bool {
		return strings.Contains(n, "dhcpv6.") || strings.Contains(n, "iana.") || strings.Contains(n, "rfc1035label.")
	}, 15)
	r := c.R
	r.Decides = append(r.Decides,
		"K14 no decoder method rewrites what it has decoded through a step that sees none of the input (a call after the first read that receives the receiver or a value loaded from it, nothing derived from the input, and writes memory reachable from it: de-duplicating, sorting, trimming a decoded list)",
		"K1 exact tiling: every decoder of dhcpv6/iana/rfc1035label returns a nil error only via (a) FinError() of a Lexer over its whole parameter, (b) an explicit len(p)==c guard, (c) wholesale use of the parameter, (d) delegation of the whole parameter or of the whole remainder to a decoder that itself satisfies K1, with its error propagated, or (e) a ledgered index-driven decoder (labels); reasoned exception: OptDHCPv4Msg delegates to dhcpv4.FromBytes (C04)",
		"K2 nested containers hand the entire remainder (ReadAll/Data) to the nested list parser (part of K1-d) ",
		"K3 option TLV loop: for Has(4), two 16-bit reads, Consume(length), the parser's error returned, FinError after the loop",
		"K4 header completeness: MessageFromBytes/RelayMessageFromBytes test the Lexer error after the last header read and before the options; FromBytes dispatches types 12 and 13 (exactly) to the relay decoder; the per-kind decoders reject the other kind",
		"K5 error discipline: no error returned by an in-scope decode function is dropped inside the decode closure",
		"K6 field values: the schema rows of C02-K2 (evaluated there)",
		"K8 wire-enum constants equal the assigned numbers; K9 the 255-octet cap of the label decoder is a test on the length of the name being assembled (not on an offset into the option)")
	r.NotDecided = append(r.NotDecided, "the converse direction (that every well-formed message is accepted): extra rejecting guards are listed, not judged", "per-option semantic rules not expressed as guards")
	var decs []*ssa.Function
	for f := range decodeEntries(c.P) {
		pk := pkgPathOf(f)
		if pk == modPath+"/dhcpv6" || pk == modPath+"/iana" || pk == modPath+"/rfc1035label" {
			decs = append(decs, f)
		}
	}
	sortFuncs(decs)
	k1 := tilingSet(c, decs)
	for _, f := range decs {
		tilingCheck(c, "C05-K1", f, k1)
	}
	labelNameCap(c, "C05-K9")
	// compressed names are read as RFC 1035 §4.1.4 says (pointer test, 14-bit offset, framing): shared with C19-K3
	c19Decoder(c)
	r.Count("C05-K1-decoders", len(decs))
	r.Expect("C05-K1-decoders", 45)
	e2CheckLayouts(c, "C05-K6", func(name string, f *ssa.Function) bool {
		return isV6Codec(name, f) && (strings.Contains(name, "FromBytes") || strings.Contains(name, "Unmarshal"))
	}, 45)
	c05TLV(c)
	c05Headers(c)
	c05Errors(c, "C05-K5", decodeClosure(c))
	// "typed field equals the RFC reading" is about the value the caller keeps: the decoded message shares no memory with
	// the datagram it was read from, so what the fields hold cannot change when the caller reuses its buffer (shared C08-K1,
	// for the three top-level DHCPv6 decoders)
	for _, nm := range []string{"FromBytes", "MessageFromBytes", "RelayMessageFromBytes"} {
		if f := c.P.Func(modPath + "/dhcpv6." + nm); f != nil {
			fnd := getE3(c).retentionFindings(f, 0)
			bad := false
			for _, x := range fnd {
				bad = true
				if strings.HasPrefix(x.short, "UNDECIDED") {
					r.Undecided("C05-K13", "dhcpv6."+nm+": "+x.short, x.pos, x.detail)
				} else {
					r.Violation("C05-K13", "dhcpv6."+nm+": the decoded message aliases its input ("+x.short+")", x.pos, x.detail)
				}
			}
			if !bad {
				r.OK("C05-K13", "dhcpv6."+nm+": the decoded message shares no memory with its input", c.P.pos(f.Pos()), "E3: flows(Pd/Pr(input)) = ∅", "")
			}
		}
	}
	// the message under construction is filled by the decoder itself only (shared with C04-K9)
	decoderKeepsResult(c, "C05-K12", c.P.Func(modPath+"/dhcpv6.MessageFromBytes"))
	decoderKeepsResult(c, "C05-K12", c.P.Func(modPath+"/dhcpv6.RelayMessageFromBytes"))
	decoderPostProcessing(c, "C05-K14")
}

// tilingSet: the functions judged by the tiling rule (delegation targets must be in it)
func tilingSet(c *Ctx, fs []*ssa.Function) map[*ssa.Function]bool {
	m := map[*ssa.Function]bool{}
	for _, f := range fs {
		m[f] = true
	}
	return m
}

func inputParam(f *ssa.Function) *ssa.Parameter {
	for i, p := range f.Params {
		if i == 0 && f.Signature.Recv() != nil {
			continue
		}
		if isByteSlice(p.Type()) || isLexerPtr(p.Type()) {
			return p
		}
	}
	return nil
}

// wholeInput: v is the input parameter itself, or ReadAll()/Data() of a Lexer constructed over it
// (the whole remainder), or the Lexer parameter.
func wholeInput(v ssa.Value, prm *ssa.Parameter, lex map[ssa.Value]bool) bool {
	if v == ssa.Value(prm) {
		return true
	}
	// the open-ended remainder p[k:] of a parameter whose first k bytes are taken by constant slices p[a:b] that tile [0,k)
	if sl, ok := v.(*ssa.Slice); ok && sl.X == ssa.Value(prm) && sl.High == nil && sl.Max == nil && sl.Low != nil {
		if k, isK := intConst(sl.Low); isK && k > 0 {
			covered := make([]bool, k)
			for _, ref := range *prm.Referrers() {
				o, isSl := ref.(*ssa.Slice)
				if !isSl || o == sl || o.X != ssa.Value(prm) || o.High == nil {
					continue
				}
				lo := int64(0)
				if o.Low != nil {
					l, okL := intConst(o.Low)
					if !okL {
						continue
					}
					lo = l
				}
				hi, okH := intConst(o.High)
				if !okH {
					continue
				}
				for i := lo; i < hi && i < k; i++ {
					covered[i] = true
				}
			}
			all := true
			for _, cv := range covered {
				all = all && cv
			}
			if all {
				return true
			}
		}
	}
	if cl, ok := v.(*ssa.Call); ok {
		if sf := cl.Call.StaticCallee(); sf != nil && inUio(sf) && (sf.Name() == "ReadAll" || sf.Name() == "Data") && len(cl.Call.Args) > 0 {
			a := cl.Call.Args[0]
			if lex[a] {
				return true
			}
			if u, ok := a.(*ssa.UnOp); ok {
				if fa, ok := u.X.(*ssa.FieldAddr); ok && lex[fa.X] {
					return true
				}
			}
		}
	}
	return false
}

func lexersOver(f *ssa.Function, prm *ssa.Parameter) map[ssa.Value]bool {
	lex := map[ssa.Value]bool{}
	if isLexerPtr(prm.Type()) {
		lex[prm] = true
	}
	allInstrs(f, func(in ssa.Instruction) {
		if cl, ok := in.(*ssa.Call); ok {
			if sf := cl.Call.StaticCallee(); sf != nil && inUio(sf) && strings.HasPrefix(sf.Name(), "New") && strings.HasSuffix(sf.Name(), "Buffer") && len(cl.Call.Args) == 1 && cl.Call.Args[0] == ssa.Value(prm) {
				lex[cl] = true
			}
		}
	})
	return lex
}

func tilingCheck(c *Ctx, rule string, f *ssa.Function, k1 map[*ssa.Function]bool) {
	r, sx := c.R, c.Sx()
	name := shortName(f)
	prm := inputParam(f)
	if prm == nil {
		r.Undecided(rule, name+": input parameter", c.P.pos(f.Pos()), "no []byte / *uio.Lexer parameter")
		return
	}
	if isLexerPtr(prm.Type()) {
		// sub-decoder on the caller's Lexer: the caller's FinError judges the tiling
		r.OK(rule, name+": sub-decoder on the caller's Lexer", c.P.pos(f.Pos()), "tiling judged at the caller", "")
		return
	}
	lex := lexersOver(f, prm)
	gc := newGuardCache(c)
	nret := 0
	for _, ret := range returnsOf(f) {
		ev := ret.Results[len(ret.Results)-1]
		if !isErrorType(ev.Type()) || definitelyError(ev, ret) {
			continue
		}
		// `if buf.Error() != nil { return …, buf.Error() }`
		if cl, ok := ev.(*ssa.Call); ok && cl.Call.StaticCallee() != nil && strings.HasSuffix(funcKey(cl.Call.StaticCallee()), "uio.Lexer).Error") {
			es := sx.Of(ev).String()
			isErr := false
			for _, fct := range gc.of(ret.Block()) {
				if fct.str == "bin[!=]("+es+",const(nil:error))=true" || fct.str == "bin[!=](const(nil:error),"+es+")=true" || fct.str == "bin[==](const(nil:error),"+es+")=false" || fct.str == "bin[==]("+es+",const(nil:error))=false" {
					isErr = true
				}
			}
			if isErr {
				continue
			}
		}
		nret++
		key := fmt.Sprintf("%s: success return #%d consumes exactly its input", name, nret)
		pos := c.P.ipos(ret)
		why := ""
		ok := false
		switch t := ev.(type) {
		case *ssa.Call:
			sf := t.Call.StaticCallee()
			switch {
			case sf != nil && strings.HasSuffix(funcKey(sf), "uio.Lexer).FinError") && lex[t.Call.Args[0]]:
				ok, why = true, "(a) FinError of a Lexer over the whole parameter"
			case sf != nil && inModule(sf):
				ok, why = delegationOK(c, t, prm, lex, k1)
			case t.Call.IsInvoke() && strings.HasPrefix(t.Call.Method.Name(), "FromBytes"):
				if len(t.Call.Args) == 1 && wholeInput(t.Call.Args[0], prm, lex) {
					ok, why = true, "(d) delegation of the whole input to the dynamic type's FromBytes (every implementation is judged by this rule)"
				}
			}
		case *ssa.Const:
			// nil: needs evidence that everything was consumed
			ok, why = nilReturnOK(c, gc, f, ret, prm, lex, k1)
		default:
			// err variable: extract of a delegated decode call
			if ex, isEx := ev.(*ssa.Extract); isEx {
				if cl, isCl := ex.Tuple.(*ssa.Call); isCl {
					ok, why = delegationOK(c, cl, prm, lex, k1)
				}
			}
			if ph, isPhi := ev.(*ssa.Phi); isPhi {
				all := true
				for _, e := range ph.Edges {
					if isNilConst(e) {
						o2, _ := nilReturnOK(c, gc, f, ret, prm, lex, k1)
						all = all && o2
						continue
					}
					if ex, isEx := e.(*ssa.Extract); isEx {
						if cl, isCl := ex.Tuple.(*ssa.Call); isCl {
							o2, _ := delegationOK(c, cl, prm, lex, k1)
							all = all && o2
							continue
						}
					}
					all = false
				}
				ok, why = all, "(d) every source of the returned error is a delegated decode of the whole input"
			}
		}
		if ok {
			r.OK(rule, key, pos, why, "")
			continue
		}
		// ledger (labels, OptDHCPv4Msg)
		led, _ := loadLedger(c.Verif)
		if le, has := led[rule+": "+key]; has {
			r.Ledger(rule, key, pos, "ledger", le.Reason)
			continue
		}
		r.Violation(rule, key, pos, "a nil/unchecked error can be returned although the input may not have been consumed exactly (returned value: "+sx.Of(ev).String()+"): trailing bytes or an overrunning length are accepted")
	}
	if nret == 0 {
		r.Violation(rule, name+": has a success return", c.P.pos(f.Pos()), "no return that can carry a nil error")
	}
}

func delegationOK(c *Ctx, cl *ssa.Call, prm *ssa.Parameter, lex map[ssa.Value]bool, k1 map[*ssa.Function]bool) (bool, string) {
	sf := cl.Call.StaticCallee()
	var cands []*ssa.Function
	if sf != nil {
		cands = []*ssa.Function{sf}
	} else if cl.Call.IsInvoke() {
		cands = c.P.Callees(cl)
	}
	if len(cands) == 0 {
		return false, ""
	}
	args := cl.Call.Args
	whole := false
	for _, a := range args {
		if isByteSlice(a.Type()) && wholeInput(a, prm, lex) {
			whole = true
		}
	}
	if !whole {
		return false, ""
	}
	for _, g := range cands {
		if !k1[g] && !isTilingExempt(g) {
			// an unexported helper that does the reads itself (b, err := copyIPv4(data)): judged by the same rule, quietly
			if g.Blocks != nil && inModule(g) && !token.IsExported(g.Name()) && g.Parent() == nil && quietTiling(c, g, k1) {
				continue
			}
			return false, ""
		}
	}
	return true, "(d) delegation of the whole input/remainder to " + shortName(cands[0])
}

// isTilingExempt: decode functions judged elsewhere
func isTilingExempt(g *ssa.Function) bool {
	k := shortName(g)
	return k == "dhcpv4.FromBytes" || k == "(dhcpv4.Options).fromBytesCheckEnd" || k == "(dhcpv4.Options).FromBytes" // C04: ignores bytes after End by rule
}

func nilReturnOK(c *Ctx, gc *guardCache, f *ssa.Function, ret *ssa.Return, prm *ssa.Parameter, lex map[ssa.Value]bool, k1 map[*ssa.Function]bool) (bool, string) {
	// (b) explicit length guard
	lo, hi := gc.lenBounds(ret.Block(), func(v ssa.Value) bool {
		cl, ok := v.(*ssa.Call)
		return ok && isBuiltinCall(cl.Common(), "len") && cl.Call.Args[0] == ssa.Value(prm)
	})
	if hi >= 0 && lo == hi {
		return true, fmt.Sprintf("(b) explicit guard len(p) == %d", lo)
	}
	// (c) wholesale use without a Lexer: the parameter is converted / copied / appended as a whole
	if len(lex) == 0 {
		whole := false
		for _, ref := range *prm.Referrers() {
			switch t := ref.(type) {
			case *ssa.Convert, *ssa.ChangeType:
				whole = true
			case *ssa.Call:
				if isBuiltinCall(t.Common(), "append") || isBuiltinCall(t.Common(), "copy") {
					whole = true
				}
			case *ssa.Store:
				if t.Val == ssa.Value(prm) {
					whole = true
				}
			}
		}
		if whole {
			return true, "(c) the whole parameter is converted or copied"
		}
	}
	// (e) index-driven decoder: success only once the cursor has reached the end of the input
	for _, fct := range gc.of(ret.Block()) {
		bo, ok := fct.cond.(*ssa.BinOp)
		if !ok {
			continue
		}
		isLen := func(v ssa.Value) bool {
			cl, ok := v.(*ssa.Call)
			return ok && isBuiltinCall(cl.Common(), "len") && cl.Call.Args[0] == ssa.Value(prm)
		}
		_, xPhi := bo.X.(*ssa.Phi)
		_, yPhi := bo.Y.(*ssa.Phi)
		if (bo.Op == token.GEQ && xPhi && isLen(bo.Y) && fct.pol) || (bo.Op == token.LEQ && isLen(bo.X) && yPhi && fct.pol) || (bo.Op == token.LSS && xPhi && isLen(bo.Y) && !fct.pol) {
			return true, "(e) index-driven decoder: success only when the cursor reached len(input)"
		}
	}
	// (d) a delegated decode of the whole remainder dominates the return and its error was checked
	okd := false
	allInstrs(f, func(in ssa.Instruction) {
		cl, ok := in.(*ssa.Call)
		if !ok || !instrDominates(cl, ret) {
			return
		}
		if o2, _ := delegationOK(c, cl, prm, lex, k1); o2 {
			// error result checked: an If on err != nil dominating ret via the nil edge
			var errv ssa.Value = cl
			if ex := extractOf(cl, cl.Call.Signature().Results().Len()-1); ex != nil {
				errv = ex
			}
			for _, b := range f.Blocks {
				if iff := ifOf(b); iff != nil {
					if nilE, _, ok := nilEdgesOf(iff, func(v ssa.Value) bool { return v == errv }); ok && mustPassEdges(f, ret.Block(), nilE) {
						okd = true
					}
				}
			}
		}
	})
	if okd {
		return true, "(d) the whole remainder was handed to a decoder whose error is nil on this path"
	}
	return false, ""
}

// c05TLV: K3
func c05TLV(c *Ctx) {
	r, sx := c.R, c.Sx()
	var f *ssa.Function
	for _, g := range c.P.MethodsNamed("FromBytesWithParser") {
		if pkgPathOf(g) == modPath+"/dhcpv6" {
			f = g
		}
	}
	if f == nil {
		r.Undecided("C05-K3", "dhcpv6 option loop", "-", "FromBytesWithParser not found")
		return
	}
	key := func(s string) string { return "dhcpv6.Options.FromBytesWithParser: " + s }
	var has, consume, parse *ssa.Call
	allInstrs(f, func(in ssa.Instruction) {
		cl, ok := in.(*ssa.Call)
		if !ok {
			return
		}
		if sf := cl.Call.StaticCallee(); sf != nil && inUio(sf) {
			switch sf.Name() {
			case "Has":
				has = cl
			case "Consume":
				consume = cl
			}
		} else if sf == nil && !cl.Call.IsInvoke() {
			if _, isB := cl.Call.Value.(*ssa.Builtin); !isB {
				parse = cl
			}
		}
	})
	if has == nil || consume == nil || parse == nil {
		r.Undecided("C05-K3", key("shape"), c.P.pos(f.Pos()), fmt.Sprintf("Has=%v Consume=%v parser call=%v", has != nil, consume != nil, parse != nil))
		return
	}
	k, _ := intConst(has.Call.Args[1])
	r.Check(k == 4 && isLoopHeader(has.Block()), "C05-K3", key("loop runs while a 4-byte option header is available"), c.P.ipos(has), "for buf.Has(4)", fmt.Sprintf("loop condition is Has(%d)", k))
	cs := sx.Of(consume.Call.Args[1]).String()
	r.Check(strings.HasPrefix(cs, "conv[int](call[(*github.com/u-root/uio/uio.Lexer).Read16]("), "C05-K3", key("value is Consume(length) of the 16-bit length just read"), c.P.ipos(consume), "symx", "Consume size is "+cs)
	a0, a1 := sx.Of(parse.Call.Args[0]).String(), sx.Of(parse.Call.Args[1]).String()
	r.Check(strings.Contains(a0, "uio.Lexer).Read16]") && a1 == sx.Of(consume).String(), "C05-K3", key("parser receives (code read, value consumed)"), c.P.ipos(parse), "symx", "parser called with ("+a0+", "+a1+")")
	r.Check(sx.Of(parse.Call.Value).String() == sx.Of(f.Params[2]).String(), "C05-K3", key("the parser called is the one passed in"), c.P.ipos(parse), "symx", "")
	// parser error returned
	perr := extractOf(parse, 1)
	okErr := false
	for _, b := range f.Blocks {
		if iff := ifOf(b); iff != nil && perr != nil {
			if _, nn, ok := nilEdgesOf(iff, func(v ssa.Value) bool { return v == ssa.Value(perr) }); ok {
				if ret, isRet := nn.To.Instrs[len(nn.To.Instrs)-1].(*ssa.Return); isRet && ret.Results[0] == ssa.Value(perr) {
					okErr = true
				}
			}
		}
	}
	r.Check(okErr, "C05-K3", key("an option's parse error aborts the list with that error"), c.P.ipos(parse), "err != nil edge returns err", "the error of an option parser is not propagated: a malformed option is accepted")
}

// c05Headers: K4
func c05Headers(c *Ctx) {
	r, sx := c.R, c.Sx()
	v6 := modPath + "/dhcpv6"
	for _, name := range []string{"MessageFromBytes", "RelayMessageFromBytes"} {
		f := c.P.Func(v6 + "." + name)
		if f == nil {
			r.Undecided("C05-K4", "dhcpv6."+name, "-", "not found")
			continue
		}
		key := func(s string) string { return "dhcpv6." + name + ": " + s }
		// the Lexer error test
		var errIf *ssa.If
		var errCall *ssa.Call
		for _, b := range f.Blocks {
			iff := ifOf(b)
			if iff == nil {
				continue
			}
			if _, _, ok := nilEdgesOf(iff, func(v ssa.Value) bool {
				cl, ok := v.(*ssa.Call)
				if ok && cl.Call.StaticCallee() != nil && strings.HasSuffix(funcKey(cl.Call.StaticCallee()), "uio.Lexer).Error") {
					errCall = cl
					return true
				}
				return false
			}); ok {
				errIf = iff
			}
		}
		if errIf == nil {
			r.Violation("C05-K4", key("header completeness guard"), c.P.pos(f.Pos()), "the Lexer error is not tested after the header reads: a truncated header yields a message with zero fields")
			continue
		}
		// every header read dominates the test; the options call is after it
		okOrder := true
		nReads := 0
		allInstrs(f, func(in ssa.Instruction) {
			cl, ok := in.(*ssa.Call)
			if !ok || cl.Call.StaticCallee() == nil || !inUio(cl.Call.StaticCallee()) {
				return
			}
			switch cl.Call.StaticCallee().Name() {
			case "Read8", "Read16", "Read32", "ReadBytes", "CopyN":
				nReads++
				if !instrDominates(cl, errCall) {
					okOrder = false
				}
			}
		})
		r.Check(okOrder && nReads >= 2, "C05-K4", key("Lexer error tested after the last header read"), c.P.ipos(errIf), "every header read dominates the test", "a header field is read after the error test: truncation inside it is not detected")
		nilE, _, _ := nilEdgesOf(errIf, func(v ssa.Value) bool { return v == ssa.Value(errCall) })
		for _, ret := range returnsOf(f) {
			if isNilConst(ret.Results[1]) {
				r.Check(mustPassEdges(f, ret.Block(), nilE), "C05-K4", key("success requires a complete header"), c.P.ipos(ret), "success return unreachable without the no-error edge", "success is reachable although the header reads failed")
			}
		}
		// the kind guard
		want := "relay types (12, 13) rejected"
		if name == "RelayMessageFromBytes" {
			want = "only relay types (12, 13) accepted"
		}
		got12, got13 := false, false
		allInstrs(f, func(in ssa.Instruction) {
			if bo, ok := in.(*ssa.BinOp); ok && (bo.Op == token.EQL || bo.Op == token.NEQ) {
				if k, ok := intConst(bo.Y); ok && strings.Contains(sx.Of(bo.X).String(), "Read8]") {
					if k == 12 {
						got12 = true
					}
					if k == 13 {
						got13 = true
					}
				}
			}
		})
		// the comparison may sit in an unexported predicate (isRelayType(mt)) called with the type just read
		allInstrs(f, func(in ssa.Instruction) {
			cl, ok := in.(*ssa.Call)
			if !ok {
				return
			}
			g := cl.Call.StaticCallee()
			if g == nil || g.Blocks == nil || !inModule(g) || token.IsExported(g.Name()) || len(cl.Call.Args) != len(g.Params) {
				return
			}
			allInstrs(g, func(i2 ssa.Instruction) {
				bo, ok := i2.(*ssa.BinOp)
				if !ok || (bo.Op != token.EQL && bo.Op != token.NEQ) {
					return
				}
				k, isK := intConst(bo.Y)
				x := bo.X
				if cv, isCv := x.(*ssa.Convert); isCv {
					x = cv.X
				}
				prm, isP := x.(*ssa.Parameter)
				if !isK || !isP {
					return
				}
				for i, p := range g.Params {
					if p == prm && strings.Contains(sx.Of(cl.Call.Args[i]).String(), "Read8]") {
						if k == 12 {
							got12 = true
						}
						if k == 13 {
							got13 = true
						}
					}
				}
			})
		})
		r.Check(got12 && got13, "C05-K4", key(want), c.P.pos(f.Pos()), "message type compared with 12 and 13", "the message-type guard does not mention both relay types")
	}
	// dispatch
	f := c.P.Func(v6 + ".FromBytes")
	if f == nil {
		r.Undecided("C05-K4", "dhcpv6.FromBytes", "-", "not found")
		return
	}
	var relayCall, msgCall *ssa.Call
	allInstrs(f, func(in ssa.Instruction) {
		if cl, ok := in.(*ssa.Call); ok && cl.Call.StaticCallee() != nil {
			switch cl.Call.StaticCallee().Name() {
			case "RelayMessageFromBytes":
				relayCall = cl
			case "MessageFromBytes":
				msgCall = cl
			}
		}
	})
	if relayCall == nil || msgCall == nil {
		r.Violation("C05-K4", "dhcpv6.FromBytes: dispatches to both decoders", c.P.pos(f.Pos()), "FromBytes does not call both RelayMessageFromBytes and MessageFromBytes")
		return
	}
	gc := newGuardCache(c)
	var rf, mf []string
	for _, x := range gc.of(relayCall.Block()) {
		rf = append(rf, x.str)
	}
	for _, x := range gc.of(msgCall.Block()) {
		mf = append(mf, x.str)
	}
	rs, ms := strings.Join(rf, " ∧ "), strings.Join(mf, " ∧ ")
	// message decoder reached only if type != 12 and type != 13
	okM := strings.Contains(ms, "const(12)") && strings.Contains(ms, "const(13)")
	r.Check(okM, "C05-K4", "dhcpv6.FromBytes: the plain-message decoder is reached only for types other than 12 and 13", c.P.ipos(msgCall), "guard set of the call", "guards: "+ms)
	r.Check(strings.Contains(rs, "const(12)") || strings.Contains(rs, "const(13)") || strings.Contains(ms, "const(12)"), "C05-K4", "dhcpv6.FromBytes: the relay decoder is reached for type 12 or 13", c.P.ipos(relayCall), "guard set of the call", "guards: "+rs)
	for _, cl := range []*ssa.Call{relayCall, msgCall} {
		r.Check(cl.Call.Args[0] == ssa.Value(f.Params[0]), "C05-K4", "dhcpv6.FromBytes: "+cl.Call.StaticCallee().Name()+" receives the whole datagram", c.P.ipos(cl), "argument is the parameter", "the kind decoder is not given the whole input")
	}
}

// c05Errors: K5 — errors of in-module decode functions are not dropped
func c05Errors(c *Ctx, rule string, funcs []*ssa.Function) {
	r := c.R
	n := 0
	for _, f := range funcs {
		if inUio(f) {
			continue
		}
		ord := map[string]int{}
		allInstrs(f, func(in ssa.Instruction) {
			cl, ok := in.(*ssa.Call)
			if !ok {
				return
			}
			var callee *ssa.Function
			if sf := cl.Call.StaticCallee(); sf != nil {
				callee = sf
			} else if cs := c.P.Callees(cl); len(cs) > 0 {
				callee = cs[0]
			}
			if callee == nil || !inModule(callee) {
				// Lexer.FinError/Error results are values, judged by the tiling rule
				return
			}
			res := cl.Call.Signature().Results()
			ei := -1
			for i := 0; i < res.Len(); i++ {
				if isErrorType(res.At(i).Type()) {
					ei = i
				}
			}
			if ei < 0 {
				return
			}
			n++
			used := false
			if res.Len() == 1 {
				used = len(nonDebugRefs(cl)) > 0
			} else if ex := extractOf(cl, ei); ex != nil {
				used = len(nonDebugRefs(ex)) > 0
			}
			base := shortName(f) + ": error of " + shortName(callee) + " is used"
			ord[base]++
			key := base
			if ord[base] > 1 {
				key = fmt.Sprintf("%s #%d", base, ord[base])
			}
			r.Check(used, rule, key, c.P.ipos(cl), "the error result has a use (branch / return / store)", "the error returned by "+shortName(callee)+" is discarded: a malformed nested value is accepted")
		})
	}
	r.Count(rule+"-call-sites", n)
	r.Expect(rule+"-call-sites", 25)
}

func nonDebugRefs(v ssa.Value) []ssa.Instruction {
	var out []ssa.Instruction
	for _, ref := range *v.Referrers() {
		if _, ok := ref.(*ssa.DebugRef); !ok {
			out = append(out, ref)
		}
	}
	return out
}

var _ = types.Typ

// quietTiling: does helper g satisfy the tiling rule on its own input parameter (evaluated on a scratch report)
var quietTilingDepth int

func quietTiling(c *Ctx, g *ssa.Function, k1 map[*ssa.Function]bool) bool {
	if quietTilingDepth > 2 || inputParam(g) == nil {
		return false
	}
	quietTilingDepth++
	defer func() { quietTilingDepth-- }()
	tmp := &Ctx{P: c.P, R: NewReport("scratch", "quick"), Verif: c.Verif, Tier: c.Tier, sx: c.sx}
	tilingCheck(tmp, "scratch", g, k1)
	for _, o := range tmp.R.Obls {
		if o.Status == StOpen || o.Status == StUndecided {
			return false
		}
	}
	return len(tmp.R.Obls) > 0
}
