package main

// C07 — DHCPv4 encoding is deterministic, canonical and RFC-readable.

import (
	"fmt"
	"go/token"
	"go/types"
	"sort"
	"strings"

	"golang.org/x/tools/go/ssa"
)

func init() { register("C07", true, checkC07) }

// appendedConst: for `append(x, k)` with a single constant element, returns (x, k)
func appendedElem(cl *ssa.Call) (ssa.Value, ssa.Value) {
	if !isBuiltinCall(cl.Common(), "append") || len(cl.Call.Args) != 2 {
		return nil, nil
	}
	sl, ok := cl.Call.Args[1].(*ssa.Slice)
	if !ok {
		return cl.Call.Args[0], nil
	}
	al, ok := sl.X.(*ssa.Alloc)
	if !ok {
		return cl.Call.Args[0], nil
	}
	var el ssa.Value
	n := 0
	for _, ref := range *al.Referrers() {
		if ia, ok := ref.(*ssa.IndexAddr); ok {
			for _, r2 := range *ia.Referrers() {
				if st, ok := r2.(*ssa.Store); ok {
					el = st.Val
					n++
				}
			}
		}
	}
	if n != 1 {
		return cl.Call.Args[0], nil
	}
	return cl.Call.Args[0], el
}

func checkC07(c *Ctx) {
	e1CheckConstants(c, "C07-K7", []string{"dhcpv4.", "iana.Arch", "iana.HWType"}, 200)
	byteOrderRule(c, "C07-K8", []string{"dhcpv4", "iana", "rfc1035label"}, 10)
	platformWidthRule(c, "C07-K9", []string{"dhcpv4", "iana", "rfc1035label"})
	r := c.R
	r.Decides = append(r.Decides,
		"K1 map-order independence: in the closure of the DHCPv4 encoders and printers every range over a map only collects keys into a slice that is sorted before any other use, sets flags, or fills another map",
		"K2 option order: codes 82 and 255 are excluded from the sorted set; after the sort the key slice is only extended by the constant 82 and then the constant 255 (no element is moved or overwritten)",
		"K3 Marshal emits no instance for codes 0 and 255; ToBytes writes exactly one End after the options on every path and afterwards only Pad bytes (header-encoder schema row)",
		"K4 the pad count is 300 − Len() under the guard Len() < 300 with the same constant; the filler byte is Pad (0)",
		"K5/K6 instance length ≤ 255 and header layout: C01-K3 / C01-K1, re-evaluated here")
	r.NotDecided = append(r.NotDecided, "that an independent RFC decoder recovers the values (value-level; the structural part is C01)")
	c07MapRanges(c)
	c07SortedKeys(c)
	c07Marshal(c)
	c07Pad(c)
	e2CheckLayouts(c, "C07-K3", func(name string, f *ssa.Function) bool {
		return name == "(*dhcpv4.DHCPv4).ToBytes" || name == "(dhcpv4.Options).Marshal"
	}, 2)
	c01Split(c)
}

func c07MapRanges(c *Ctx) {
	r := c.R
	var roots []*ssa.Function
	for _, f := range c.P.ModuleFuncs() {
		if pkgPathOf(f) != v4pkg || f.Parent() != nil || f.Signature.Recv() == nil {
			continue
		}
		switch f.Name() {
		case "ToBytes", "Marshal", "String", "Summary", "SummaryWithVendor", "ToString":
			roots = append(roots, f)
		}
	}
	n := 0
	for _, f := range closureOf(c.P, roots) {
		if inUio(f) {
			continue
		}
		allInstrs(f, func(in ssa.Instruction) {
			rg, ok := in.(*ssa.Range)
			if !ok {
				return
			}
			if _, isMap := rg.X.Type().Underlying().(*types.Map); !isMap {
				return
			}
			n++
			c07OneMapRange(c, f, rg)
		})
	}
	r.Count("C07-K1-map-ranges", n)
	r.Expect("C07-K1-map-ranges", 1)
}

func c07OneMapRange(c *Ctx, f *ssa.Function, rg *ssa.Range) {
	r := c.R
	key := func(s string) string { return shortName(f) + ": range over map: " + s }
	var next *ssa.Next
	for _, ref := range *rg.Referrers() {
		if nx, ok := ref.(*ssa.Next); ok {
			next = nx
		}
	}
	if next == nil {
		r.Undecided("C07-K1", key("iterator"), c.P.ipos(rg), "no Next")
		return
	}
	loop := sccOf(next.Block())
	// effects inside the loop: appends to a loop-carried slice, phi flags, map updates; anything else is undecided
	var acc *ssa.Phi
	for b := range loop {
		for _, in := range b.Instrs {
			switch x := in.(type) {
			case *ssa.Call:
				if isBuiltinCall(x.Common(), "append") {
					base, _ := appendedElem(x)
					if ph, ok := base.(*ssa.Phi); ok && loop[ph.Block()] {
						acc = ph
						continue
					}
					r.Undecided("C07-K1", key("append target"), c.P.ipos(x), "append to something other than a loop-carried slice")
				} else if _, isB := x.Call.Value.(*ssa.Builtin); !isB {
					r.Violation("C07-K1", key("call inside the map loop"), c.P.ipos(x), "a call inside a range over a map ("+calleeName(x.Common())+"): its effects happen in random order")
				}
			case *ssa.Store:
				if al, _, ok := addrPath(x.Addr); ok && al.Comment == "varargs" {
					continue
				}
				if ia, ok := x.Addr.(*ssa.IndexAddr); ok {
					if al, ok := ia.X.(*ssa.Alloc); ok && al.Comment == "varargs" {
						continue
					}
				}
				r.Violation("C07-K1", key("store inside the map loop"), c.P.ipos(x), "memory written in map iteration order")
			case *ssa.MapUpdate:
				// filling another map: order-independent
			case *ssa.Send, *ssa.Go, *ssa.Defer:
				r.Violation("C07-K1", key("effect inside the map loop"), c.P.ipos(in), "effect in map iteration order")
			}
		}
	}
	if acc == nil {
		r.OK("C07-K1", key("only flags/maps are updated"), c.P.ipos(rg), "no order-dependent effect in the loop", "")
		return
	}
	// the collected slice must reach a sort before any other use
	var sortCall *ssa.Call
	for _, ref := range *acc.Referrers() {
		cl, ok := ref.(*ssa.Call)
		if !ok || loop[cl.Block()] {
			continue
		}
		if sf := cl.Call.StaticCallee(); sf != nil {
			k := funcKey(sf)
			if k == "sort.Ints" || k == "sort.Slice" || k == "sort.SliceStable" || k == "sort.Sort" || k == "sort.Strings" || strings.HasPrefix(k, "slices.Sort") {
				sortCall = cl
			}
		}
	}
	if sortCall == nil {
		r.Violation("C07-K1", key("collected keys are sorted"), c.P.ipos(rg), "the keys collected from the map are not passed to a sort: options are emitted in Go's randomised map order (equal packets encode differently)")
		return
	}
	okUse := true
	for _, ref := range *acc.Referrers() {
		in := ref
		if in == ssa.Instruction(sortCall) {
			continue
		}
		if _, isDbg := in.(*ssa.DebugRef); isDbg {
			continue
		}
		if loop[in.Block()] {
			continue
		}
		if !instrDominates(sortCall, in) {
			okUse = false
			r.Violation("C07-K1", key("no use of the unsorted keys"), c.P.ipos(in), "the collected key slice is used before it is sorted")
		}
	}
	if okUse {
		r.OK("C07-K1", key("collected keys are sorted before any other use"), c.P.ipos(sortCall), "sort call dominates every other use", "")
	}
}

func c07SortedKeys(c *Ctx) {
	r, sx := c.R, c.Sx()
	var f *ssa.Function
	for _, g := range c.P.MethodsNamed("sortedKeys") {
		if pkgPathOf(g) == v4pkg {
			f = g
		}
	}
	if f == nil {
		r.Undecided("C07-K2", "dhcpv4.Options.sortedKeys", "-", "not found")
		return
	}
	key := func(s string) string { return "dhcpv4.Options.sortedKeys: " + s }
	var sortCall *ssa.Call
	allInstrs(f, func(in ssa.Instruction) {
		if cl, ok := in.(*ssa.Call); ok && cl.Call.StaticCallee() != nil && (strings.HasPrefix(funcKey(cl.Call.StaticCallee()), "sort.") || strings.HasPrefix(funcKey(cl.Call.StaticCallee()), "slices.Sort")) {
			sortCall = cl
		}
	})
	// ascending order of a []int: sort.Ints or slices.Sort (the natural order of the element type)
	ascending := func(cl *ssa.Call) bool {
		k := funcKey(cl.Call.StaticCallee())
		if k == "sort.Ints" {
			return true
		}
		if strings.HasPrefix(k, "slices.Sort[") && len(cl.Call.Args) == 1 {
			if st, ok := cl.Call.Args[0].Type().Underlying().(*types.Slice); ok {
				if bt, ok := st.Elem().Underlying().(*types.Basic); ok && bt.Info()&types.IsInteger != 0 {
					return true
				}
			}
		}
		return false
	}
	if sortCall == nil {
		r.Violation("C07-K2", key("keys are sorted"), c.P.pos(f.Pos()), "no sort call")
		return
	}
	if !ascending(sortCall) {
		r.Undecided("C07-K2", key("ascending integer sort"), c.P.ipos(sortCall), "the sort is "+funcKey(sortCall.Call.StaticCallee())+": a comparator-based order is outside the recognised idiom (collect, sort.Ints, append 82, append 255)")
	}
	// in-loop append excludes 82 and 255
	var loopApp *ssa.Call
	var post []*ssa.Call
	allInstrs(f, func(in ssa.Instruction) {
		if cl, ok := in.(*ssa.Call); ok && isBuiltinCall(cl.Common(), "append") {
			if inCycle(cl.Block()) {
				loopApp = cl
			} else {
				post = append(post, cl)
			}
		}
	})
	if loopApp == nil {
		r.Violation("C07-K2", key("keys collected"), c.P.pos(f.Pos()), "no append in the map loop")
		return
	}
	_, el := appendedElem(loopApp)
	var keyVal ssa.Value = el
	if cv, ok := el.(*ssa.Convert); ok {
		keyVal = cv.X
	}
	for _, special := range []int64{82, 255} {
		ok := false
		for _, b := range f.Blocks {
			iff := ifOf(b)
			if iff == nil {
				continue
			}
			bo, isBo := iff.Cond.(*ssa.BinOp)
			if !isBo || bo.Op != token.EQL || bo.X != keyVal {
				continue
			}
			if k, isK := intConst(bo.Y); isK && k == special {
				if mustPassEdges(f, loopApp.Block(), Edge{b, b.Succs[1]}) {
					ok = true
				}
			}
		}
		r.Check(ok, "C07-K2", key(fmt.Sprintf("code %d is not part of the sorted set", special)), c.P.ipos(loopApp), fmt.Sprintf("the collecting append requires key != %d", special),
			fmt.Sprintf("code %d is sorted with the others: option %d is not emitted last", special, special))
	}
	// after the sort: appends of const 82 then const 255 only
	var got []int64
	for _, ap := range post {
		if !instrDominates(sortCall, ap) {
			r.Violation("C07-K2", key("nothing is appended before the sort except collected keys"), c.P.ipos(ap), "an append outside the loop precedes the sort")
			continue
		}
		_, e := appendedElem(ap)
		k, ok := intConst(e)
		if !ok {
			r.Violation("C07-K2", key("only the constants 82 and 255 follow the sorted keys"), c.P.ipos(ap), "appends "+sx.Of(e).String()+" after the sort")
			continue
		}
		got = append(got, k)
	}
	okOrder := false
	if len(got) == 2 && len(post) == 2 {
		var a82, a255 *ssa.Call
		for i, k := range got {
			if k == 82 {
				a82 = post[i]
			}
			if k == 255 {
				a255 = post[i]
			}
		}
		if a82 != nil && a255 != nil {
			// 82 first: the 255-append can follow the 82-append but never the other way round
			fwd := a82.Block() == a255.Block() && instrIndex(a82) < instrIndex(a255) || reachFromSuccs(a82.Block(), nil, nil)[a255.Block()]
			back := reachFromSuccs(a255.Block(), nil, nil)[a82.Block()]
			// and the 255-append extends the slice that already holds 82 (φ of the 82-append)
			base255, _ := appendedElem(a255)
			chained := false
			if ph, ok := base255.(*ssa.Phi); ok {
				for _, e := range ph.Edges {
					if e == ssa.Value(a82) {
						chained = true
					}
				}
			}
			okOrder = fwd && !back && (chained || base255 == ssa.Value(a82))
		}
	}
	r.Check(okOrder, "C07-K2", key("after the sorted keys come 82 and then 255"), c.P.ipos(sortCall), "two post-sort appends: const 82, then const 255", fmt.Sprintf("post-sort appends: %v", got))
	// … and each is appended exactly when that key is PRESENT in the map (whatever its value): the deciding
	// condition is a flag raised on the loop's key == K edge, or the comma-ok result of a lookup of K — not a
	// test of the value (a nil or empty value is still an option that must be emitted)
	gcc := newGuardCache(c)
	for i, ap := range post {
		if i >= len(got) {
			break
		}
		k := got[i]
		okPresence, seenCond := false, ""
		for _, ft := range gcc.of(ap.Block()) {
			if !ft.pol {
				continue
			}
			switch v := ft.cond.(type) {
			case *ssa.Phi:
				// flag: every true edge comes from a block entered only through key == k
				flag := true
				nTrue := 0
				for j, e := range v.Edges {
					kb, isK := boolConst(e)
					if isK && !kb {
						continue
					}
					if e == ssa.Value(v) {
						continue
					}
					if ph2, ok := e.(*ssa.Phi); ok && ph2 == v {
						continue
					}
					if !isK {
						// loop-carried copy of the flag itself
						if pp, ok := e.(*ssa.Phi); ok && dependsOnBoolPhi(pp, v) {
							continue
						}
						flag = false
						continue
					}
					nTrue++
					pred := v.Block().Preds[j]
					onKey := false
					for _, f2 := range gcc.of(pred) {
						if bo, ok := f2.cond.(*ssa.BinOp); ok && bo.Op == token.EQL && f2.pol {
							if kk, isKK := intConst(bo.Y); isKK && kk == k {
								onKey = true
							}
							if kk, isKK := intConst(bo.X); isKK && kk == k {
								onKey = true
							}
						}
					}
					if !onKey {
						flag = false
					}
				}
				if flag && nTrue > 0 {
					okPresence = true
				}
				seenCond = sx.Of(v).String()
			case *ssa.Extract:
				if lk, ok := v.Tuple.(*ssa.Lookup); ok && lk.CommaOk && v.Index == 1 {
					if kk, isKK := intConst(stripConv(lk.Index)); isKK && kk == k {
						okPresence = true
					}
				}
			default:
				if seenCond == "" {
					seenCond = sx.Of(ft.cond).String()
				}
			}
		}
		r.Check(okPresence, "C07-K2", key(fmt.Sprintf("code %d is appended exactly when the key is present", k)), c.P.ipos(ap), "guard is a flag raised on key == K in the loop, or the ok of a lookup",
			fmt.Sprintf("the append of %d is decided by %s, not by the presence of the key: an option %d whose value is nil or empty is dropped from the encoding", k, seenCond, k))
	}
	// no element stores / swaps after the sort
	allInstrs(f, func(in ssa.Instruction) {
		st, ok := in.(*ssa.Store)
		if !ok {
			return
		}
		if ia, ok := st.Addr.(*ssa.IndexAddr); ok {
			if al, ok := ia.X.(*ssa.Alloc); ok && al.Comment == "varargs" {
				return
			}
			r.Violation("C07-K2", key("no element of the key slice is moved after the sort"), c.P.ipos(st), "an element store into "+sx.Of(ia.X).String()+": the ascending order of the sorted keys is disturbed")
		}
	})
	r.OK("C07-K2", key("sorted keys are only extended, never rearranged"), c.P.ipos(sortCall), "no element store in the function", "")
	// the value returned is the extended slice
	for _, ret := range returnsOf(f) {
		s := sx.Of(ret.Results[0]).String()
		r.Check(strings.Contains(s, "call[builtin append]"), "C07-K2", key("returns the collected, sorted and extended slice"), c.P.ipos(ret), "symx", "returns "+s)
	}
}

// c07Marshal: K3 part 1 — no instance for 0 / 255
func c07Marshal(c *Ctx) {
	r, sx := c.R, c.Sx()
	var f *ssa.Function
	for _, g := range c.P.MethodsNamed("Marshal") {
		if n := recvNamed(g); n != nil && n.Obj().Name() == "Options" && pkgPathOf(g) == v4pkg {
			f = g
		}
	}
	if f == nil {
		r.Undecided("C07-K3", "dhcpv4.Options.Marshal", "-", "not found")
		return
	}
	key := func(s string) string { return "dhcpv4.Options.Marshal: " + s }
	gc := newGuardCache(c)
	n := 0
	for _, g := range marshalHelpers(c, f) {
		g := g
		allInstrs(g, func(in ssa.Instruction) {
			cl, ok := in.(*ssa.Call)
			if !ok || cl.Call.StaticCallee() == nil || !strings.HasSuffix(funcKey(cl.Call.StaticCallee()), "uio.Lexer).Write8") {
				return
			}
			n++
			var fs []string
			for _, x := range gc.of(cl.Block()) {
				fs = append(fs, x.str)
			}
			if g != f {
				// a write in a helper: the guards of every call site of that helper in Marshal hold as well
				var common map[string]bool
				allInstrs(f, func(i2 ssa.Instruction) {
					if c2, ok := i2.(*ssa.Call); ok && c2.Call.StaticCallee() == g {
						cur := map[string]bool{}
						for _, x := range gc.of(c2.Block()) {
							// the code is passed as an argument: express facts about it in the caller's terms
							cur[x.str] = true
						}
						if common == nil {
							common = cur
						} else {
							for k := range common {
								if !cur[k] {
									delete(common, k)
								}
							}
						}
					}
				})
				for k := range common {
					fs = append(fs, k)
				}
			}
			sort.Strings(fs)
			all := strings.Join(fs, " ∧ ")
			no0 := strings.Contains(all, "bin[==](const(0),conv[uint8](") && strings.Contains(all, "=false")
			no255 := strings.Contains(all, "bin[==](const(255),conv[uint8](")
			r.Check(no0 && no255, "C07-K3", key(fmt.Sprintf("write #%d happens only for codes other than 0 and 255", n)), c.P.ipos(cl), "guard set contains code != 0 and code != 255", "an option instance can be written for Pad or End: guards "+all)
		})
	}
	r.Check(n >= 4, "C07-K3", key("instance writes found"), c.P.pos(f.Pos()), "instance count", fmt.Sprintf("%d Write8 calls", n))
	// it iterates sortedKeys()
	okIter := false
	allInstrs(f, func(in ssa.Instruction) {
		if cl, ok := in.(*ssa.Call); ok && cl.Call.StaticCallee() != nil && cl.Call.StaticCallee().Name() == "sortedKeys" && cl.Call.Args[0] == ssa.Value(f.Params[0]) {
			okIter = true
		}
	})
	r.Check(okIter, "C07-K3", key("iterates the sorted keys of its own option map"), c.P.pos(f.Pos()), "call of sortedKeys on the receiver", "Marshal does not iterate o.sortedKeys(): options are not emitted in canonical order")
	_ = sx
}

func c07Pad(c *Ctx) {
	r, sx := c.R, c.Sx()
	var f *ssa.Function
	for _, g := range c.P.MethodsNamed("ToBytes") {
		if n := recvNamed(g); n != nil && n.Obj().Name() == "DHCPv4" && pkgPathOf(g) == v4pkg {
			f = g
		}
	}
	if f == nil {
		r.Undecided("C07-K4", "dhcpv4.DHCPv4.ToBytes", "-", "not found")
		return
	}
	key := func(s string) string { return "dhcpv4.DHCPv4.ToBytes: " + s }
	var rep *ssa.Call
	// site: the instruction of ToBytes that stands for the padding value (the Repeat call itself, or the call of a
	// straight-line unexported helper that returns it); rew maps the helper's parameters to the arguments
	var site *ssa.Call
	rew := func(s string) string { return s }
	allInstrs(f, func(in ssa.Instruction) {
		cl, ok := in.(*ssa.Call)
		if !ok {
			return
		}
		if isFuncCall(cl.Common(), "bytes", "Repeat") {
			rep, site = cl, cl
			return
		}
		g := cl.Call.StaticCallee()
		if g == nil || !inModule(g) || g.Blocks == nil || len(g.Blocks) != 1 || token.IsExported(g.Name()) || g.Signature.Recv() != nil {
			return
		}
		for _, i2 := range g.Blocks[0].Instrs {
			if c2, ok := i2.(*ssa.Call); ok && isFuncCall(c2.Common(), "bytes", "Repeat") && rep == nil {
				ret, isRet := g.Blocks[0].Instrs[len(g.Blocks[0].Instrs)-1].(*ssa.Return)
				if !isRet || len(ret.Results) != 1 || ret.Results[0] != ssa.Value(c2) {
					continue
				}
				rep, site = c2, cl
				sub := map[string]string{}
				for i, p := range g.Params {
					if i < len(cl.Call.Args) {
						sub[sx.Of(p).String()] = sx.Of(cl.Call.Args[i]).String()
					}
				}
				rew = func(s string) string {
					for from, to := range sub {
						s = strings.ReplaceAll(s, from, to)
					}
					return s
				}
			}
		}
	})
	if rep == nil {
		r.Violation("C07-K4", key("padding to the BOOTP minimum"), c.P.pos(f.Pos()), "no padding: packets shorter than 300 bytes are emitted (RFC 951 relays drop them)")
		return
	}
	cnt := rew(sx.Of(rep.Call.Args[1]).String())
	okCnt := strings.HasPrefix(cnt, "bin[-](const(300),call[(*github.com/u-root/uio/uio.Buffer).Len](")
	r.Check(okCnt, "C07-K4", key("pad count is 300 − Len()"), c.P.ipos(rep), "symx", "pad count is "+cnt)
	gc := newGuardCache(c)
	okG := false
	cntV := rep.Call.Args[1]
	for _, x := range gc.of(site.Block()) {
		if strings.HasPrefix(x.str, "bin[<](call[(*github.com/u-root/uio/uio.Buffer).Len](") && strings.HasSuffix(x.str, ",const(300))=true") {
			okG = true
		}
		// the same condition stated on the pad count itself: count > 0 / count >= 1 / 0 < count (count = 300 − Len(), checked above)
		if bo, isBo := x.cond.(*ssa.BinOp); isBo && site == rep {
			k, kr := intConst(bo.Y)
			kl, klr := intConst(bo.X)
			switch {
			case bo.X == cntV && kr && ((bo.Op == token.GTR && k == 0 && x.pol) || (bo.Op == token.GEQ && k == 1 && x.pol) || (bo.Op == token.LEQ && k == 0 && !x.pol) || (bo.Op == token.LSS && k == 1 && !x.pol)):
				okG = true
			case bo.Y == cntV && klr && ((bo.Op == token.LSS && kl == 0 && x.pol) || (bo.Op == token.LEQ && kl == 1 && x.pol) || (bo.Op == token.GEQ && kl == 0 && !x.pol) || (bo.Op == token.GTR && kl == 1 && !x.pol)):
				okG = true
			}
		}
	}
	r.Check(okG, "C07-K4", key("padding only when shorter than 300 (same constant)"), c.P.ipos(rep), "guard Len() < 300", "the padding is not guarded by Len() < 300")
	// filler is Pad
	fill := ""
	if sl, ok := rep.Call.Args[0].(*ssa.Slice); ok {
		if al, ok := sl.X.(*ssa.Alloc); ok {
			for _, ref := range *al.Referrers() {
				if ia, ok := ref.(*ssa.IndexAddr); ok {
					for _, r2 := range *ia.Referrers() {
						if st, ok := r2.(*ssa.Store); ok {
							fill = sx.Of(st.Val).String()
						}
					}
				}
			}
		}
	}
	r.Check(strings.Contains(fill, "const(0)"), "C07-K4", key("filler byte is Pad (0)"), c.P.ipos(rep), "symx", "filler is "+fill)
	// written after End: the End write dominates the padding, nothing is written after the padding
	var endW, padW *ssa.Call
	allInstrs(f, func(in ssa.Instruction) {
		cl, ok := in.(*ssa.Call)
		if !ok || cl.Call.StaticCallee() == nil {
			return
		}
		k := funcKey(cl.Call.StaticCallee())
		if strings.HasSuffix(k, "uio.Lexer).Write8") && strings.Contains(sx.Of(cl.Call.Args[1]).String(), "const(255)") {
			endW = cl
		}
		if strings.HasSuffix(k, "uio.Lexer).WriteBytes") && cl.Call.Args[1] == ssa.Value(site) {
			padW = cl
		}
	})
	r.Check(endW != nil && padW != nil && instrDominates(endW, padW), "C07-K3", key("End is written before the padding"), c.P.ipos(rep), "End write dominates pad write", "End is missing or follows the padding")
	if endW != nil {
		for _, ret := range returnsOf(f) {
			r.Check(instrDominates(endW, ret), "C07-K3", key("End is written on every path"), c.P.ipos(ret), "End write dominates the return", "a path returns the packet without an End option: an RFC decoder reads past the options")
		}
		r.Check(!inCycle(endW.Block()), "C07-K3", key("exactly one End"), c.P.ipos(endW), "End write not in a loop", "End can be written more than once")
	}
}

// sortedKeysComplete: every key of the option map is collected. In the map loop of sortedKeys the only
// edges that may bypass the collecting append are the true-edges of `key == 82` and `key == 255`
// (those two codes are re-appended after the sort, which K2 checks). Any other way round the append —
// a filter on the value, on another key, a counter — drops options from the encoding.
func sortedKeysComplete(c *Ctx, rule string) {
	r := c.R
	var f *ssa.Function
	for _, g := range c.P.MethodsNamed("sortedKeys") {
		if pkgPathOf(g) == v4pkg {
			f = g
		}
	}
	key := func(s string) string { return "dhcpv4.Options.sortedKeys: " + s }
	if f == nil {
		r.Undecided(rule, key("function"), "-", "not found")
		return
	}
	var next *ssa.Next
	allInstrs(f, func(in ssa.Instruction) {
		if nx, ok := in.(*ssa.Next); ok {
			if rg, ok := nx.Iter.(*ssa.Range); ok {
				if _, isMap := rg.X.Type().Underlying().(*types.Map); isMap {
					next = nx
				}
			}
		}
	})
	if next == nil {
		r.Undecided(rule, key("map loop"), c.P.pos(f.Pos()), "no range over the option map")
		return
	}
	loop := sccOf(next.Block())
	var app *ssa.Call
	var keyVal ssa.Value
	for b := range loop {
		for _, in := range b.Instrs {
			if cl, ok := in.(*ssa.Call); ok && isBuiltinCall(cl.Common(), "append") {
				_, el := appendedElem(cl)
				if el == nil {
					continue
				}
				kv := el
				if cv, ok := kv.(*ssa.Convert); ok {
					kv = cv.X
				}
				// the element must be the key extracted from this Next
				if ex, ok := kv.(*ssa.Extract); ok && ex.Tuple == ssa.Value(next) && ex.Index == 1 {
					app, keyVal = cl, kv
				}
			}
		}
	}
	if app == nil {
		r.Violation(rule, key("the loop appends the map key"), c.P.ipos(next), "no append of the iteration key inside the map loop")
		return
	}
	// body entry: the successor of the Next block's `ok` test that stays in the loop
	hdr := next.Block()
	iff := ifOf(hdr)
	if iff == nil {
		r.Undecided(rule, key("loop test"), c.P.ipos(next), "the block of the iterator step does not end in the ok test")
		return
	}
	var body *ssa.BasicBlock
	for _, s := range hdr.Succs {
		if loop[s] {
			body = s
		}
	}
	if body == nil {
		r.Undecided(rule, key("loop body"), c.P.ipos(next), "no successor of the iterator test inside the loop")
		return
	}
	removed := map[Edge]bool{}
	var allowed []string
	for b := range loop {
		i2 := ifOf(b)
		if i2 == nil {
			continue
		}
		bo, ok := i2.Cond.(*ssa.BinOp)
		if !ok || bo.X != keyVal {
			continue
		}
		k, isK := intConst(bo.Y)
		if !isK || (k != 82 && k != 255) {
			continue
		}
		switch bo.Op {
		case token.EQL:
			removed[Edge{b, b.Succs[0]}] = true
			allowed = append(allowed, fmt.Sprintf("key == %d", k))
		case token.NEQ:
			removed[Edge{b, b.Succs[1]}] = true
			allowed = append(allowed, fmt.Sprintf("key == %d", k))
		}
	}
	blocked := map[*ssa.BasicBlock]bool{app.Block(): true}
	for b := range hdr.Parent().Blocks {
		_ = b
	}
	// restrict to the loop: block everything outside
	for _, b := range f.Blocks {
		if !loop[b] {
			blocked[b] = true
		}
	}
	reach := reachFrom(body, removed, blocked)
	r.Check(!reach[hdr] || body == app.Block() && false, rule, key("every key other than 82/255 reaches the collecting append"), c.P.ipos(app),
		"no path from the loop body back to the iterator avoids the append except through key == 82 / key == 255 ("+strings.Join(allowed, ", ")+")",
		"an iteration can return to the iterator without appending its key and without being option 82 or 255: some options (e.g. those selected by a test on the value) are silently left out of the encoding")
}

// dependsOnBoolPhi: p is (transitively, through φs only) the flag φ itself carried round the loop
func dependsOnBoolPhi(p *ssa.Phi, flag *ssa.Phi) bool {
	seen := map[*ssa.Phi]bool{}
	var walk func(x *ssa.Phi) bool
	walk = func(x *ssa.Phi) bool {
		if x == flag {
			return true
		}
		if seen[x] {
			return false
		}
		seen[x] = true
		for _, e := range x.Edges {
			if q, ok := e.(*ssa.Phi); ok && walk(q) {
				return true
			}
		}
		return false
	}
	return walk(p)
}
