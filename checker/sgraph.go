package main

// Path-sensitive view of a function's CFG for boolean control flow.
//
// go/ssa materialises `a && b` / `a || b` as a φ of booleans whenever the value is not consumed directly
// by an `if` (switch cases, assignments, returns). An If on such a φ merges paths whose outcome is already
// decided (the constant edges of the φ). The split graph gives every such block one copy per predecessor:
// arriving over a constant edge only the matching successor is followed; arriving over a value edge the
// branch outcome equals that value. On this graph a test written as nested ifs, as `if a && b`, or as a
// switch case `case a && b:` has the same shape, and each edge carries the atomic conditions it implies.

import (
	"go/constant"
	"go/token"
	"go/types"

	"golang.org/x/tools/go/ssa"
)

type atomFact struct {
	v   ssa.Value // a bool-valued SSA value that is not itself a negation / comparison with a bool constant / split φ
	val bool
}

type sNode struct {
	b   *ssa.BasicBlock
	via int // predecessor index for a split block, -1 otherwise
}

// unwrapBool strips negations and comparisons with boolean constants: returns the inner value and whether
// the outer value equals the inner (same) or its negation.
func unwrapBool(v ssa.Value) (ssa.Value, bool) {
	same := true
	for i := 0; i < 8; i++ {
		switch t := v.(type) {
		case *ssa.UnOp:
			if t.Op == token.NOT {
				v, same = t.X, !same
				continue
			}
		case *ssa.BinOp:
			if t.Op == token.EQL || t.Op == token.NEQ {
				var k *ssa.Const
				var other ssa.Value
				if c, ok := t.X.(*ssa.Const); ok {
					k, other = c, t.Y
				} else if c, ok := t.Y.(*ssa.Const); ok {
					k, other = c, t.X
				}
				if k != nil && k.Value != nil && k.Value.Kind() == constant.Bool {
					kb := constant.BoolVal(k.Value)
					eq := t.Op == token.EQL
					// (other == true) ≡ other ; (other == false) ≡ !other ; != flips
					if kb != eq {
						same = !same
					}
					v = other
					continue
				}
			}
		}
		break
	}
	return v, same
}

// splitPhi: the φ of booleans that decides b's If, when it is defined in b itself
func splitPhi(b *ssa.BasicBlock) (*ssa.Phi, bool, bool) {
	iff := ifOf(b)
	if iff == nil {
		return nil, false, false
	}
	inner, same := unwrapBool(iff.Cond)
	ph, ok := inner.(*ssa.Phi)
	if !ok || ph.Block() != b {
		return nil, false, false
	}
	if bt, ok := ph.Type().Underlying().(*types.Basic); !ok || bt.Kind() != types.Bool {
		return nil, false, false
	}
	return ph, same, true
}

func boolConst(v ssa.Value) (bool, bool) {
	k, ok := v.(*ssa.Const)
	if !ok || k.Value == nil || k.Value.Kind() != constant.Bool {
		return false, false
	}
	return constant.BoolVal(k.Value), true
}

func sNodeOf(from, to *ssa.BasicBlock) sNode {
	if _, _, ok := splitPhi(to); ok {
		for i, p := range to.Preds {
			if p == from {
				return sNode{to, i}
			}
		}
	}
	return sNode{to, -1}
}

// impliedAtoms: atoms implied by value v having truth value pol (negations / bool-constant comparisons
// unwrapped; a φ of another block with constant edges: the only edge compatible with pol)
func impliedAtoms(v ssa.Value, pol bool, depth int) []atomFact {
	orig := pol
	inner, same := unwrapBool(v)
	if !same {
		pol = !pol
	}
	out := []atomFact{{inner, pol}}
	if inner != v {
		out = append(out, atomFact{v, orig})
	}
	// a call of an unexported boolean function of the module: what its result being pol implies inside it
	if cl, ok := inner.(*ssa.Call); ok && depth < 2 {
		out = append(out, calleeAtoms(cl, pol, depth)...)
	}
	if ph, ok := inner.(*ssa.Phi); ok && depth < 4 {
		// edges compatible with the outcome
		var cand []ssa.Value
		candIdx := -1
		for i, e := range ph.Edges {
			if k, isK := boolConst(e); isK {
				if k == pol {
					cand = append(cand, e)
					candIdx = i
				}
				continue
			}
			cand = append(cand, e)
			candIdx = i
		}
		if len(cand) == 1 {
			if _, isK := boolConst(cand[0]); !isK {
				out = append(out, impliedAtoms(cand[0], pol, depth+1)...)
			}
			// that edge is the only way the φ can have this outcome: the branch outcomes on the (single-predecessor)
			// way into it hold as well — `a || b` false means a false (the edge carrying b is entered on !a)
			if candIdx >= 0 && candIdx < len(ph.Block().Preds) {
				cur, nxt := ph.Block().Preds[candIdx], ph.Block()
				for hop := 0; hop < 4; hop++ {
					if iff := ifOf(cur); iff != nil && len(cur.Succs) == 2 && cur.Succs[0] != cur.Succs[1] {
						if _, _, isSplit := splitPhi(cur); !isSplit {
							out = append(out, impliedAtoms(iff.Cond, cur.Succs[0] == nxt, depth+1)...)
						}
					}
					if len(cur.Preds) != 1 {
						break
					}
					nxt, cur = cur, cur.Preds[0]
				}
			}
		}
	}
	return out
}

// sSuccs: successors of a node in the split graph, with the atoms implied by taking each edge
func sSuccs(n sNode) ([]sNode, [][]atomFact) {
	b := n.b
	var outN []sNode
	var outA [][]atomFact
	iff := ifOf(b)
	if iff == nil || len(b.Succs) != 2 || b.Succs[0] == b.Succs[1] {
		for _, s := range b.Succs {
			outN = append(outN, sNodeOf(b, s))
			outA = append(outA, nil)
		}
		return outN, outA
	}
	ph, same, isSplit := splitPhi(b)
	for i, s := range b.Succs {
		pol := i == 0
		if isSplit && n.via >= 0 && n.via < len(ph.Edges) {
			ev := ph.Edges[n.via]
			// outcome of the If = same ? ev : !ev
			want := pol
			if !same {
				want = !pol
			}
			if k, isK := boolConst(ev); isK {
				if k != want {
					continue // this successor is impossible when arriving over the constant edge
				}
				outN = append(outN, sNodeOf(b, s))
				outA = append(outA, nil)
				continue
			}
			outN = append(outN, sNodeOf(b, s))
			outA = append(outA, impliedAtoms(ev, want, 0))
			continue
		}
		outN = append(outN, sNodeOf(b, s))
		outA = append(outA, impliedAtoms(iff.Cond, pol, 0))
	}
	return outN, outA
}

// mustPassAtoms: every path from the entry to any copy of target takes an edge whose implied atoms satisfy ok
func mustPassAtoms(fn *ssa.Function, target *ssa.BasicBlock, ok func([]atomFact) bool) bool {
	return mustPassAtomsFrom(sNode{fn.Blocks[0], -1}, target, ok, nil)
}

// mustPassAtomsFrom: as mustPassAtoms, starting at a node; blocked blocks are not entered
func mustPassAtomsFrom(start sNode, target *ssa.BasicBlock, ok func([]atomFact) bool, blocked map[*ssa.BasicBlock]bool) bool {
	if start.b == target {
		return false
	}
	seen := map[sNode]bool{start: true}
	stack := []sNode{start}
	for len(stack) > 0 {
		n := stack[len(stack)-1]
		stack = stack[:len(stack)-1]
		ns, as := sSuccs(n)
		for i, s := range ns {
			if blocked[s.b] || (as[i] != nil && ok(as[i])) {
				continue
			}
			if s.b == target {
				return false
			}
			if !seen[s] {
				seen[s] = true
				stack = append(stack, s)
			}
		}
	}
	return true
}

// atomsIn: all atoms that occur on some edge of fn's split graph
func atomsIn(fn *ssa.Function) []atomFact {
	seenA := map[atomFact]bool{}
	var out []atomFact
	seen := map[sNode]bool{}
	start := sNode{fn.Blocks[0], -1}
	stack := []sNode{start}
	seen[start] = true
	for len(stack) > 0 {
		n := stack[len(stack)-1]
		stack = stack[:len(stack)-1]
		ns, as := sSuccs(n)
		for i, s := range ns {
			for _, a := range as[i] {
				if !seenA[a] {
					seenA[a] = true
					out = append(out, a)
				}
			}
			if !seen[s] {
				seen[s] = true
				stack = append(stack, s)
			}
		}
	}
	return out
}

func hasAtom(as []atomFact, v ssa.Value, val bool) bool {
	for _, a := range as {
		if a.v == v && a.val == val {
			return true
		}
	}
	return false
}

// calleeAtoms: for a call g(args) of an unexported, non-recursive boolean function of the module, the atoms of
// g that hold on every way g can return `pol` (constant returns: the atoms on every path to them in g's split
// graph; expression returns: additionally what the expression being pol implies). The atoms are values of g;
// rules that compare them with values of the caller rewrite g's parameters to the arguments of the call.
func calleeAtoms(cl *ssa.Call, pol bool, depth int) []atomFact {
	g := cl.Call.StaticCallee()
	if g == nil || g.Blocks == nil || !inModule(g) || token.IsExported(g.Name()) || g.Signature.Results().Len() != 1 {
		return nil
	}
	if bt, ok := g.Signature.Results().At(0).Type().Underlying().(*types.Basic); !ok || bt.Kind() != types.Bool {
		return nil
	}
	cands := atomsIn(g)
	var rets []*ssa.Return
	for _, r := range returnsOf(g) {
		if k, isK := boolConst(r.Results[0]); isK && k != pol {
			continue
		}
		rets = append(rets, r)
	}
	if len(rets) == 0 {
		return nil
	}
	var out []atomFact
	for _, a := range cands {
		a := a
		all := true
		for _, r := range rets {
			holds := mustPassAtoms(g, r.Block(), func(as []atomFact) bool { return hasAtom(as, a.v, a.val) })
			if !holds {
				if _, isK := boolConst(r.Results[0]); !isK && depth < 2 {
					for _, x := range impliedAtoms(r.Results[0], pol, depth+1) {
						if x.v == a.v && x.val == a.val {
							holds = true
						}
					}
				}
			}
			if !holds {
				all = false
				break
			}
		}
		if all {
			out = append(out, a)
		}
	}
	// atoms that appear only inside a returned expression
	if len(rets) == 1 {
		if _, isK := boolConst(rets[0].Results[0]); !isK && depth < 2 {
			for _, x := range impliedAtoms(rets[0].Results[0], pol, depth+1) {
				if !hasAtom(out, x.v, x.val) {
					out = append(out, x)
				}
			}
		}
	}
	return out
}
