// Copyright 2024 The Go Authors. All rights reserved.
// Use of this source code is governed by a BSD-style
// license that can be found in the LICENSE file.

package typesinternal

import (
	"fmt"
	"go/ast"
	"go/token"
	"go/types"
	"strings"
)

// ZeroString returns the string representation of the zero value for any type t.
// The boolean result indicates whether the type is or contains an invalid type
// or a non-basic (constraint) interface type.
//
// Even for invalid input types, ZeroString may return a partially correct
// string representation. The caller should use the returned isValid boolean
// to determine the validity of the expression.
//
// When assigning to a wider type (such as 'any'), it's the caller's
// responsibility to handle any necessary type conversions.
//
// This string can be used on the right-hand side of an assignment where the
// left-hand side has that explicit type.
// References to named types are qualified by an appropriate (optional)
// qualifier function.
// Exception: This does not apply to tuples. Their string representation is
// informational only and cannot be used in an assignment.
//
// See [ZeroExpr] for a variant that returns an [ast.Expr].
func ZeroString(t types.Type, qual types.Qualifier) (_ string, isValid bool) {
	switch t := t.(type) {
	case *types.Basic:
		switch {
		case t.Info()&types.IsBoolean != 0:
			return "false", true
		case t.Info()&types.IsNumeric != 0:
			return "0", true
		case t.Info()&types.IsString != 0:
			return `""`, true
		case t.Kind() == types.UnsafePointer:
			fallthrough
		case t.Kind() == types.UntypedNil:
			return "nil", true
		case t.Kind() == types.Invalid:
			return "invalid", false
		default:
			panic(fmt.Sprintf("ZeroString for unexpected type %v", t))
		}

	case *types.Pointer, *types.Slice, *types.Chan, *types.Map, *types.Signature:
		return "nil", true

	case *types.Interface:
		if !t.IsMethodSet() {
			return "invalid", false
		}
		return "nil", true

	case *types.Named:
		switch under := t.Underlying().(type) {
		case *types.Struct, *types.Array:
			return types.TypeString(t, qual) + "{}", true
		default:
			return ZeroString(under, qual)
		}

	case *types.Alias:
		switch t.Underlying().(type) {
		case *types.Struct, *types.Array:
			return types.TypeString(t, qual) + "{}", true
		default:
			// A type parameter can have alias but alias type's underlying type
			// can never be a type parameter.
			// Use types.Unalias to preserve the info of type parameter instead
			// of call Underlying() going right through and get the underlying
			// type of the type parameter which is always an interface.
			return ZeroString(types.Unalias(t), qual)
		}

	case *types.Array, *types.Struct:
		return types.TypeString(t, qual) + "{}", true

	case *types.TypeParam:
		// Assumes func new is not shadowed.
		return "*new(" + types.TypeString(t, qual) + ")", true

	case *types.Tuple:
		// Tuples are not normal values.
		// We are currently format as "(t[0], ..., t[n])". Could be something else.
		isValid := true
		components := make([]string, t.Len())
		for i := 0; i < t.Len(); i++ {
			comp, ok := ZeroString(t.At(i).Type(), qual)

			components[i] = comp
			isValid = isValid && ok
		}
		return "(" + strings.Join(components, ", ") + ")", isValid

	case *types.Union:
		// Variables of these types cannot be created, so it makes
		// no sense to ask for their zero value.
		panic(fmt.Sprintf("invalid type for a variable: %v", t))

	default:
		panic(t) // unreachable.
	}
}

// ZeroExpr returns the ast.Expr representation of the zero value for any type t.
// The boolean result indicates whether the type is or contains an invalid type
// or a non-basic (constraint) interface type.
//
// Even for invalid input types, ZeroExpr may return a partially correct ast.Expr
// representation. The caller should use the returned isValid boolean to determine
// the validity of the expression.
//
// This function is designed for types suitable for variables and should not be
// used with Tuple or Union types.References to named types are qualified by an
// appropriate (optional) qualifier function.
//
// See [ZeroString] for a variant that returns a string.
func ZeroExpr(t types.Type, qual types.Qualifier) (_ ast.Expr, isValid bool) {
	switch t := t.(type) {
	case *types.Basic:
		switch {
		case t.Info()&types.IsBoolean != 0:
			return &ast.Ident{Name: "false"}, true
		case t.Info()&types.IsNumeric != 0:
			return &ast.BasicLit{Kind: token.INT, Value: "0"}, true
		case t.Info()&types.IsString != 0:
			return &ast.BasicLit{Kind: token.STRING, Value: `""`}, true
		case t.Kind() == types.UnsafePointer:
			fallthrough
		case t.Kind() == types.UntypedNil:
			return ast.NewIdent("nil"), true
		case t.Kind() == types.Invalid:
			return &ast.BasicLit{Kind: token.STRING, Value: `"invalid"`}, false
		default:
			panic(fmt.Sprintf("ZeroExpr for unexpected type %v", t))
		}

	case *types.Pointer, *types.Slice, *types.Chan, *types.Map, *types.Signature:
		return ast.NewIdent("nil"), true

	case *types.Interface:
		if !t.IsMethodSet() {
			return &ast.BasicLit{Kind: token.STRING, Value: `"invalid"`}, false
		}
		return ast.NewIdent("nil"), true

	case *types.Named:
		switch under := t.Underlying().(type) {
		case *types.Struct, *types.Array:
			return &ast.CompositeLit{
				Type: TypeExpr(t, qual),
			}, true
		default:
			return ZeroExpr(under, qual)
		}

	case *types.Alias:
		switch t.Underlying().(type) {
		case *types.Struct, *types.Array:
			return &ast.CompositeLit{
				Type: TypeExpr(t, qual),
			}, true
		default:
			return ZeroExpr(types.Unalias(t), qual)
		}

	case *types.Array, *types.Struct:
		return &ast.CompositeLit{
			Type: TypeExpr(t, qual),
		}, true

	case *types.TypeParam:
		return &ast.StarExpr{ // *new(T)
			X: &ast.CallExpr{
				// Assumes func new is not shadowed.
				Fun: ast.NewIdent("new"),
				Args: []ast.Expr{
					ast.NewIdent(t.Obj().Name()),
				},
			},
		}, true

	case *types.Tuple:
		// Unlike ZeroString, there is no ast.Expr can express tuple by
		// "(t[0], ..., t[n])".
		panic(fmt.Sprintf("invalid type for a variable: %v", t))

	case *types.Union:
		// Variables of these types cannot be created, so it makes
		// no sense to ask for their zero value.
		panic(fmt.Sprintf("invalid type for a variable: %v", t))

	default:
		panic(t) // unreachable.
	}
}

// IsZeroExpr uses simple syntactic heuristics to report whether expr
// is a obvious zero value, such as 0, "", nil, or false.
// It cannot do better without type information.
func IsZeroExpr(expr ast.Expr) bool {
	switch e := expr.(type) {
	case *ast.BasicLit:
		return e.Value == "0" || e.Value == `""`
	case *ast.Ident:
		return e.Name == "nil" || e.Name == "false"
	default:
		return false
	}
}

// TypeExpr returns syntax for the specified type. References to named types
// are qualified by an appropriate (optional) qualifier function.
// It may panic for types such as Tuple or Union.
func TypeExpr(t types.Type, qual types.Qualifier) ast.Expr {
	switch t := t.(type) {
	case *types.Basic:
		switch t.Kind() {
		case types.UnsafePointer:
			return &ast.SelectorExpr{X: ast.NewIdent(qual(types.NewPackage("unsafe", "unsafe"))), Sel: ast.NewIdent("Pointer")}
		default:
			return ast.NewIdent(t.Name())
		}

	case *types.Pointer:
		return &ast.UnaryExpr{
			Op: token.MUL,
			X:  TypeExpr(t.Elem(), qual),
		}

	case *types.Array:
		return &ast.ArrayType{
			Len: &ast.BasicLit{
				Kind:  token.INT,
				Value: fmt.Sprintf("%d", t.Len()),
			},
			Elt: TypeExpr(t.Elem(), qual),
		}

	case *types.Slice:
		return &ast.ArrayType{
			Elt: TypeExpr(t.Elem(), qual),
		}

	case *types.Map:
		return &ast.MapType{
			Key:   TypeExpr(t.Key(), qual),
			Value: TypeExpr(t.Elem(), qual),
		}

	case *types.Chan:
		dir := ast.ChanDir(t.Dir())
		if t.Dir() == types.SendRecv {
			dir = ast.SEND | ast.RECV
		}
		return &ast.ChanType{
			Dir:   dir,
			Value: TypeExpr(t.Elem(), qual),
		}

	case *types.Signature:
		var params []*ast.Field
		for i := 0; i < t.Params().Len(); i++ {
			params = append(params, &ast.Field{
				Type: TypeExpr(t.Params().At(i).Type(), qual),
				Names: []*ast.Ident{
					{
						Name: t.Params().At(i).Name(),
					},
				},
			})
		}
		if t.Variadic() {
			last := params[len(params)-1]
			last.Type = &ast.Ellipsis{Elt: last.Type.(*ast.ArrayType).Elt}
		}
		var returns []*ast.Field
		for i := 0; i < t.Results().Len(); i++ {
			returns = append(returns, &ast.Field{
				Type: TypeExpr(t.Results().At(i).Type(), qual),
			})
		}
		return &ast.FuncType{
			Params: &ast.FieldList{
				List: params,
			},
			Results: &ast.FieldList{
				List: returns,
			},
		}

	case *types.TypeParam:
		pkgName := qual(t.Obj().Pkg())
		if pkgName == "" || t.Obj().Pkg() == nil {
			return ast.NewIdent(t.Obj().Name())
		}
		return &ast.SelectorExpr{
			X:   ast.NewIdent(pkgName),
			Sel: ast.NewIdent(t.Obj().Name()),
		}

	// types.TypeParam also implements interface NamedOrAlias. To differentiate,
	// case TypeParam need to be present before case NamedOrAlias.
	// TODO(hxjiang): remove this comment once TypeArgs() is added to interface
	// NamedOrAlias.
	case NamedOrAlias:
		var expr ast.Expr = ast.NewIdent(t.Obj().Name())
		if pkgName := qual(t.Obj().Pkg()); pkgName != "." && pkgName != "" {
			expr = &ast.SelectorExpr{
				X:   ast.NewIdent(pkgName),
				Sel: expr.(*ast.Ident),
			}
		}

		// TODO(hxjiang): call t.TypeArgs after adding method TypeArgs() to
		// typesinternal.NamedOrAlias.
		if hasTypeArgs, ok := t.(interface{ TypeArgs() *types.TypeList }); ok {
			if typeArgs := hasTypeArgs.TypeArgs(); typeArgs != nil && typeArgs.Len() > 0 {
				var indices []ast.Expr
				for i := range typeArgs.Len() {
					indices = append(indices, TypeExpr(typeArgs.At(i), qual))
				}
				expr = &ast.IndexListExpr{
					X:       expr,
					Indices: indices,
				}
			}
		}

		return expr

	case *types.Struct:
		return ast.NewIdent(t.String())

	case *types.Interface:
		return ast.NewIdent(t.String())

	case *types.Union:
		if t.Len() == 0 {
			panic("Union type should have at least one term")
		}
		// Same as go/ast, the return expression will put last term in the
		// Y field at topmost level of BinaryExpr.
		// For union of type "float32 | float64 | int64", the structure looks
		// similar to:
		// {
		// 	X: {
		// 		X: float32,
		// 		Op: |
		// 		Y: float64,
		// 	}
		// 	Op: |,
		// 	Y: int64,
		// }
		var union ast.Expr
		for i := range t.Len() {
			term := t.Term(i)
			termExpr := TypeExpr(term.Type(), qual)
			if term.Tilde() {
				termExpr = &ast.UnaryExpr{
					Op: token.TILDE,
					X:  termExpr,
				}
			}
			if i == 0 {
				union = termExpr
			} else {
				union = &ast.BinaryExpr{
					X:  union,
					Op: token.OR,
					Y:  termExpr,
				}
			}
		}
		return union

	case *types.Tuple:
		panic("invalid input type types.Tuple")

	default:
		panic("unreachable")
	}
}
