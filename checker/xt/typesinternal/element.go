// Copyright 2024 The Go Authors. All rights reserved.
// Use of this source code is governed by a BSD-style
// license that can be found in the LICENSE file.

package typesinternal

import (
	"fmt"
	"go/types"

	"golang.org/x/tools/go/types/typeutil"
)

// ForEachElement calls f for type T and each type reachable from its
// type through reflection. It does this by recursively stripping off
// type constructors; in addition, for each named type N, the type *N
// is added to the result as it may have additional methods.
//
// The caller must provide an initially empty set used to de-duplicate
// identical types, potentially across multiple calls to ForEachElement.
// (Its final value holds all the elements seen, matching the arguments
// passed to f.)
//
// TODO(adonovan): share/harmonize with go/callgraph/rta.
func ForEachElement(rtypes *typeutil.Map, msets *typeutil.MethodSetCache, T types.Type, f func(types.Type)) {
	var visit func(T types.Type, skip bool)
	visit = func(T types.Type, skip bool) {
		if !skip {
			if seen, _ := rtypes.Set(T, true).(bool); seen {
				return // de-dup
			}

			f(T) // notify caller of new element type
		}

		// Recursion over signatures of each method.
		tmset := msets.MethodSet(T)
		for i := 0; i < tmset.Len(); i++ {
			sig := tmset.At(i).Type().(*types.Signature)
			// It is tempting to call visit(sig, false)
			// but, as noted in golang.org/cl/65450043,
			// the Signature.Recv field is ignored by
			// types.Identical and typeutil.Map, which
			// is confusing at best.
			//
			// More importantly, the true signature rtype
			// reachable from a method using reflection
			// has no receiver but an extra ordinary parameter.
			// For the Read method of io.Reader we want:
			//   func(Reader, []byte) (int, error)
			// but here sig is:
			//   func([]byte) (int, error)
			// with .Recv = Reader (though it is hard to
			// notice because it doesn't affect Signature.String
			// or types.Identical).
			//
			// TODO(adonovan): construct and visit the correct
			// non-method signature with an extra parameter
			// (though since unnamed func types have no methods
			// there is essentially no actual demand for this).
			//
			// TODO(adonovan): document whether or not it is
			// safe to skip non-exported methods (as RTA does).
			visit(sig.Params(), true)  // skip the Tuple
			visit(sig.Results(), true) // skip the Tuple
		}

		switch T := T.(type) {
		case *types.Alias:
			visit(types.Unalias(T), skip) // emulates the pre-Alias behavior

		case *types.Basic:
			// nop

		case *types.Interface:
			// nop---handled by recursion over method set.

		case *types.Pointer:
			visit(T.Elem(), false)

		case *types.Slice:
			visit(T.Elem(), false)

		case *types.Chan:
			visit(T.Elem(), false)

		case *types.Map:
			visit(T.Key(), false)
			visit(T.Elem(), false)

		case *types.Signature:
			if T.Recv() != nil {
				panic(fmt.Sprintf("Signature %s has Recv %s", T, T.Recv()))
			}
			visit(T.Params(), true)  // skip the Tuple
			visit(T.Results(), true) // skip the Tuple

		case *types.Named:
			// A pointer-to-named type can be derived from a named
			// type via reflection.  It may have methods too.
			visit(types.NewPointer(T), false)

			// Consider 'type T struct{S}' where S has methods.
			// Reflection provides no way to get from T to struct{S},
			// only to S, so the method set of struct{S} is unwanted,
			// so set 'skip' flag during recursion.
			visit(T.Underlying(), true) // skip the unnamed type

		case *types.Array:
			visit(T.Elem(), false)

		case *types.Struct:
			for i, n := 0, T.NumFields(); i < n; i++ {
				// TODO(adonovan): document whether or not
				// it is safe to skip non-exported fields.
				visit(T.Field(i).Type(), false)
			}

		case *types.Tuple:
			for i, n := 0, T.Len(); i < n; i++ {
				visit(T.At(i).Type(), false)
			}

		case *types.TypeParam, *types.Union:
			// forEachReachable must not be called on parameterized types.
			panic(T)

		default:
			panic(T)
		}
	}
	visit(T, false)
}
