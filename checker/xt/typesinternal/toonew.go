// Copyright 2024 The Go Authors. All rights reserved.
// Use of this source code is governed by a BSD-style
// license that can be found in the LICENSE file.

package typesinternal

import (
	"go/types"

	"dhcpverif/xt/stdlib"
	"dhcpverif/xt/versions"
)

// TooNewStdSymbols computes the set of package-level symbols
// exported by pkg that are not available at the specified version.
// The result maps each symbol to its minimum version.
//
// The pkg is allowed to contain type errors.
func TooNewStdSymbols(pkg *types.Package, version string) map[types.Object]string {
	disallowed := make(map[types.Object]string)

	// Pass 1: package-level symbols.
	symbols := stdlib.PackageSymbols[pkg.Path()]
	for _, sym := range symbols {
		symver := sym.Version.String()
		if versions.Before(version, symver) {
			switch sym.Kind {
			case stdlib.Func, stdlib.Var, stdlib.Const, stdlib.Type:
				disallowed[pkg.Scope().Lookup(sym.Name)] = symver
			}
		}
	}

	// Pass 2: fields and methods.
	//
	// We allow fields and methods if their associated type is
	// disallowed, as otherwise we would report false positives
	// for compatibility shims. Consider:
	//
	//   //go:build go1.22
	//   type T struct { F std.Real } // correct new API
	//
	//   //go:build !go1.22
	//   type T struct { F fake } // shim
	//   type fake struct { ... }
	//   func (fake) M () {}
	//
	// These alternative declarations of T use either the std.Real
	// type, introduced in go1.22, or a fake type, for the field
	// F. (The fakery could be arbitrarily deep, involving more
	// nested fields and methods than are shown here.) Clients
	// that use the compatibility shim T will compile with any
	// version of go, whether older or newer than go1.22, but only
	// the newer version will use the std.Real implementation.
	//
	// Now consider a reference to method M in new(T).F.M() in a
	// module that requires a minimum of go1.21. The analysis may
	// occur using a version of Go higher than 1.21, selecting the
	// first version of T, so the method M is Real.M. This would
	// spuriously cause the analyzer to report a reference to a
	// too-new symbol even though this expression compiles just
	// fine (with the fake implementation) using go1.21.
	for _, sym := range symbols {
		symVersion := sym.Version.String()
		if !versions.Before(version, symVersion) {
			continue // allowed
		}

		var obj types.Object
		switch sym.Kind {
		case stdlib.Field:
			typename, name := sym.SplitField()
			if t := pkg.Scope().Lookup(typename); t != nil && disallowed[t] == "" {
				obj, _, _ = types.LookupFieldOrMethod(t.Type(), false, pkg, name)
			}

		case stdlib.Method:
			ptr, recvname, name := sym.SplitMethod()
			if t := pkg.Scope().Lookup(recvname); t != nil && disallowed[t] == "" {
				obj, _, _ = types.LookupFieldOrMethod(t.Type(), ptr, pkg, name)
			}
		}
		if obj != nil {
			disallowed[obj] = symVersion
		}
	}

	return disallowed
}
