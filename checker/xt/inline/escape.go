// Copyright 2023 The Go Authors. All rights reserved.
// Use of this source code is governed by a BSD-style
// license that can be found in the LICENSE file.

package inline

import (
	"fmt"
	"go/ast"
	"go/token"
	"go/types"
)

// escape implements a simple "address-taken" escape analysis. It
// calls f for each local variable that appears on the left side of an
// assignment (escapes=false) or has its address taken (escapes=true).
// The initialization of a variable by its declaration does not count
// as an assignment.
func escape(info *types.Info, root ast.Node, f func(v *types.Var, escapes bool)) {

	// lvalue is called for each address-taken expression or LHS of assignment.
	// Supported forms are: x, (x), x[i], x.f, *x, T{}.
	var lvalue func(e ast.Expr, escapes bool)
	lvalue = func(e ast.Expr, escapes bool) {
		switch e := e.(type) {
		case *ast.Ident:
			if v, ok := info.Uses[e].(*types.Var); ok {
				if !isPkgLevel(v) {
					f(v, escapes)
				}
			}
		case *ast.ParenExpr:
			lvalue(e.X, escapes)
		case *ast.IndexExpr:
			// TODO(adonovan): support generics without assuming e.X has a core type.
			// Consider:
			//
			// func Index[T interface{ [3]int | []int }](t T, i int) *int {
			//     return &t[i]
			// }
			//
			// We must traverse the normal terms and check
			// whether any of them is an array.
			//
			// We assume TypeOf returns non-nil.
			if _, ok := info.TypeOf(e.X).Underlying().(*types.Array); ok {
				lvalue(e.X, escapes) // &a[i] on array
			}
		case *ast.SelectorExpr:
			// We assume TypeOf returns non-nil.
			if _, ok := info.TypeOf(e.X).Underlying().(*types.Struct); ok {
				lvalue(e.X, escapes) // &s.f on struct
			}
		case *ast.StarExpr:
			// *ptr indirects an existing pointer
		case *ast.CompositeLit:
			// &T{...} creates a new variable
		default:
			panic(fmt.Sprintf("&x on %T", e)) // unreachable in well-typed code
		}
	}

	// Search function body for operations &x, x.f(), x++, and x = y
	// where x is a parameter. Each of these treats x as an address.
	ast.Inspect(root, func(n ast.Node) bool {
		switch n := n.(type) {
		case *ast.UnaryExpr:
			if n.Op == token.AND {
				lvalue(n.X, true) // &x
			}

		case *ast.CallExpr:
			// implicit &x in method call x.f(),
			// where x has type T and method is (*T).f
			if sel, ok := n.Fun.(*ast.SelectorExpr); ok {
				if seln, ok := info.Selections[sel]; ok &&
					seln.Kind() == types.MethodVal &&
					isPointer(seln.Obj().Type().Underlying().(*types.Signature).Recv().Type()) {
					tArg, indirect := effectiveReceiver(seln)
					if !indirect && !isPointer(tArg) {
						lvalue(sel.X, true) // &x.f
					}
				}
			}

		case *ast.AssignStmt:
			for _, lhs := range n.Lhs {
				if id, ok := lhs.(*ast.Ident); ok &&
					info.Defs[id] != nil &&
					n.Tok == token.DEFINE {
					// declaration: doesn't count
				} else {
					lvalue(lhs, false)
				}
			}

		case *ast.IncDecStmt:
			lvalue(n.X, false)
		}
		return true
	})
}
