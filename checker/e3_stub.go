package main

import "golang.org/x/tools/go/ssa"

type e3Finding struct{ short, pos, detail string }
type e3Engine struct{}

func getE3(c *Ctx) *e3Engine { return &e3Engine{} }
func (e *e3Engine) retentionFindings(f *ssa.Function, param int) []e3Finding { return nil }
