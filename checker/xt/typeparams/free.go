// Copyright 2024 The Go Authors. All rights reserved.
// Use of this source code is governed by a BSD-style
// license that can be found in the LICENSE file.

package typeparams

import (
	"go/types"

	"dhcpverif/xt/aliases"
)

// Free is a memoization of the set of free type parameters within a
// type. It makes a sequence of calls to [Free.Has] for overlapping
// types more efficient. The zero value is ready for use.
//
// NOTE: Adapted from go/types/infer.go. If it is later exported, factor.
type Free struct {
	seen map[types.Type]bool
}

// Has reports whether the specified type has a free type parameter.
func (w *Free) Has(typ types.Type) (res bool) {
	// detect cycles
	if x, ok := w.seen[typ]; ok {
		return x
	}
	if w.seen == nil {
		w.seen = make(map[types.Type]bool)
	}
	w.seen[typ] = false
	defer func() {
		w.seen[typ] = res
	}()

	switch t := typ.(type) {
	case nil, *types.Basic: // TODO(gri) should nil be handled here?
		break

	case *types.Alias:
		if aliases.TypeParams(t).Len() > aliases.TypeArgs(t).Len() {
			return true // This is an uninstantiated Alias.
		}
		// The expansion of an alias can have free type parameters,
		// whether or not the alias itself has type parameters:
		//
		//   func _[K comparable]() {
		//     type Set      = map[K]bool // free(Set)      = {K}
		//     type MapTo[V] = map[K]V    // free(Map[foo]) = {V}
		//   }
		//
		// So, we must Unalias.
		return w.Has(types.Unalias(t))

	case *types.Array:
		return w.Has(t.Elem())

	case *types.Slice:
		return w.Has(t.Elem())

	case *types.Struct:
		for i, n := 0, t.NumFields(); i < n; i++ {
			if w.Has(t.Field(i).Type()) {
				return true
			}
		}

	case *types.Pointer:
		return w.Has(t.Elem())

	case *types.Tuple:
		n := t.Len()
		for i := 0; i < n; i++ {
			if w.Has(t.At(i).Type()) {
				return true
			}
		}

	case *types.Signature:
		// t.tparams may not be nil if we are looking at a signature
		// of a generic function type (or an interface method) that is
		// part of the type we're testing. We don't care about these type
		// parameters.
		// Similarly, the receiver of a method may declare (rather than
		// use) type parameters, we don't care about those either.
		// Thus, we only need to look at the input and result parameters.
		return w.Has(t.Params()) || w.Has(t.Results())

	case *types.Interface:
		for i, n := 0, t.NumMethods(); i < n; i++ {
			if w.Has(t.Method(i).Type()) {
				return true
			}
		}
		terms, err := InterfaceTermSet(t)
		if err != nil {
			return false // ill typed
		}
		for _, term := range terms {
			if w.Has(term.Type()) {
				return true
			}
		}

	case *types.Map:
		return w.Has(t.Key()) || w.Has(t.Elem())

	case *types.Chan:
		return w.Has(t.Elem())

	case *types.Named:
		args := t.TypeArgs()
		if params := t.TypeParams(); params.Len() > args.Len() {
			return true // this is an uninstantiated named type.
		}
		for i, n := 0, args.Len(); i < n; i++ {
			if w.Has(args.At(i)) {
				return true
			}
		}
		return w.Has(t.Underlying()) // recurse for types local to parameterized functions

	case *types.TypeParam:
		return true

	default:
		panic(t) // unreachable
	}

	return false
}
