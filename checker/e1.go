package main

// E1 — table cross-checks: dispatch switches versus constant-returning methods.

import (
	"fmt"
	"go/token"
	"go/types"
	"sort"

	"golang.org/x/tools/go/ssa"
)

// switchTable: for a function that switches on parameter `prm` and allocates a value per case,
// the map constant -> allocated type (pointer type of the heap alloc in the case's block).
func switchTable(f *ssa.Function, prm ssa.Value) (map[int64]types.Type, types.Type) {
	tab := map[int64]types.Type{}
	var deflt types.Type
	caseBlocks := map[*ssa.BasicBlock]bool{}
	var lastElse *ssa.BasicBlock
	for _, b := range f.Blocks {
		iff := ifOf(b)
		if iff == nil {
			continue
		}
		bo, ok := iff.Cond.(*ssa.BinOp)
		if !ok || bo.Op != token.EQL {
			continue
		}
		var k int64
		switch {
		case bo.X == prm:
			kk, ok := intConst(bo.Y)
			if !ok {
				continue
			}
			k = kk
		case bo.Y == prm:
			kk, ok := intConst(bo.X)
			if !ok {
				continue
			}
			k = kk
		default:
			continue
		}
		caseBlocks[b.Succs[0]] = true
		for _, in := range b.Succs[0].Instrs {
			if al, ok := in.(*ssa.Alloc); ok && al.Heap {
				if _, named := al.Type().(*types.Pointer).Elem().(*types.Named); named {
					tab[k] = al.Type()
				}
			}
		}
		lastElse = b.Succs[1]
	}
	if lastElse != nil && !caseBlocks[lastElse] {
		for _, in := range lastElse.Instrs {
			if al, ok := in.(*ssa.Alloc); ok && al.Heap {
				if _, named := al.Type().(*types.Pointer).Elem().(*types.Named); named {
					deflt = al.Type()
				}
			}
		}
	}
	return tab, deflt
}

// constMethod: the constant returned by method `name` of type t (pointer or value receiver), if it
// returns one constant on all paths.
func constMethod(p *Prog, t types.Type, name string) (int64, bool) {
	ms := p.SSA.MethodSets.MethodSet(t)
	for i := 0; i < ms.Len(); i++ {
		if ms.At(i).Obj().Name() != name {
			continue
		}
		f := p.SSA.MethodValue(ms.At(i))
		if f == nil {
			return 0, false
		}
		// unwrap promoted/pointer wrappers
		for f.Synthetic != "" && len(f.Blocks) > 0 {
			var inner *ssa.Function
			allInstrs(f, func(in ssa.Instruction) {
				if cl, ok := in.(*ssa.Call); ok && cl.Call.StaticCallee() != nil && cl.Call.StaticCallee().Name() == name {
					inner = cl.Call.StaticCallee()
				}
			})
			if inner == nil {
				break
			}
			f = inner
		}
		rets := returnsOf(f)
		if len(rets) == 0 {
			return 0, false
		}
		var val int64
		for i, r := range rets {
			k, ok := intConst(r.Results[0])
			if !ok {
				return 0, false
			}
			if i > 0 && k != val {
				return 0, false
			}
			val = k
		}
		return val, true
	}
	return 0, false
}

func sortedKeys64(m map[int64]types.Type) []int64 {
	var ks []int64
	for k := range m {
		ks = append(ks, k)
	}
	sort.Slice(ks, func(i, j int) bool { return ks[i] < ks[j] })
	return ks
}

// e1ParserTables: C02-K1
func e1ParserTables(c *Ctx, rule string) {
	r := c.R
	v6 := modPath + "/dhcpv6"
	inTable := map[string]bool{}
	for _, spec := range []struct {
		fn, method string
		prm        int
		min        int
	}{{v6 + ".ParseOption", "Code", 0, 30}, {v6 + ".parseNTPSuboption", "Code", 0, 3}, {v6 + ".DUIDFromBytes", "DUIDType", -1, 4}} {
		f := c.P.Func(spec.fn)
		if f == nil {
			r.Undecided(rule, spec.fn+": anchor", "-", "function not found")
			continue
		}
		var prm ssa.Value
		if spec.prm >= 0 {
			prm = f.Params[spec.prm]
		} else {
			// the switch operand is a conversion of a Lexer read: find the Convert feeding the comparisons
			allInstrs(f, func(in ssa.Instruction) {
				if cv, ok := in.(*ssa.Convert); ok && namedIs(cv.Type(), v6, "DUIDType") {
					prm = cv
				}
				if cv, ok := in.(*ssa.ChangeType); ok && namedIs(cv.Type(), v6, "DUIDType") {
					prm = cv
				}
			})
		}
		if prm == nil {
			r.Undecided(rule, spec.fn+": switch operand", c.P.pos(f.Pos()), "not found")
			continue
		}
		tab, deflt := resolveSwitchTable(f, prm)
		r.Count(rule+"-cases-"+f.Name(), len(tab))
		r.Expect(rule+"-cases-"+f.Name(), spec.min)
		for _, k := range sortedKeys64(tab) {
			t := tab[k]
			inTable[types.TypeString(t, nil)] = true
			got, ok := constMethod(c.P, t, spec.method)
			key := fmt.Sprintf("%s: case %d allocates %s whose %s() returns %d", f.Name(), k, types.TypeString(t, shortQual), spec.method, k)
			if !ok {
				r.Violation(rule, key, c.P.pos(f.Pos()), spec.method+"() of "+types.TypeString(t, shortQual)+" is not a constant: a decoded option of this type reports a code other than the one it was parsed under")
				continue
			}
			r.Check(got == k, rule, key, c.P.pos(f.Pos()), "constant of "+spec.method+"() equals the case label",
				fmt.Sprintf("%s() returns %d: re-encoding a decoded value emits another code (round trip and typed accessors break)", spec.method, got))
		}
		if deflt != nil {
			inTable[types.TypeString(deflt, nil)] = true
			r.OK(rule, f.Name()+": unknown codes fall back to "+types.TypeString(deflt, shortQual), c.P.pos(f.Pos()), "default branch", "")
		} else {
			r.Violation(rule, f.Name()+": unknown codes have a fallback type", c.P.pos(f.Pos()), "no default allocation: unknown codes are not kept verbatim")
		}
	}
	// converse: every option type with a constant Code() is in a parser table
	sp := c.P.SSAPkg[v6]
	if sp == nil {
		return
	}
	optT, _ := sp.Pkg.Scope().Lookup("Option").(*types.TypeName)
	if optT == nil {
		r.Undecided(rule, "dhcpv6.Option interface", "-", "not found")
		return
	}
	iface := optT.Type().Underlying().(*types.Interface)
	n := 0
	for _, name := range sp.Pkg.Scope().Names() {
		tn, ok := sp.Pkg.Scope().Lookup(name).(*types.TypeName)
		if !ok || tn.IsAlias() {
			continue
		}
		if _, isI := tn.Type().Underlying().(*types.Interface); isI {
			continue
		}
		pt := types.NewPointer(tn.Type())
		if !types.Implements(pt, iface) {
			continue
		}
		if _, ok := constMethod(c.P, pt, "Code"); !ok {
			continue // OptionGeneric: code is a field
		}
		n++
		r.Check(inTable[types.TypeString(pt, nil)], rule, "option type "+tn.Name()+" is produced by a parser table", c.P.pos(tn.Pos()), "type appears in ParseOption/parseNTPSuboption",
			"a type implementing dhcpv6.Option with a constant Code() is missing from the parser switch: its round trip yields OptionGeneric instead")
	}
	r.Count(rule+"-option-types", n)
	r.Expect(rule+"-option-types", 30)
}

// resolveSwitchTable: switchTable of f on prm; when f has no such switch, of the in-module helper that
// receives prm as an argument (ParseOption → newOptionForCode(code)), up to three levels.
func resolveSwitchTable(f *ssa.Function, prm ssa.Value) (map[int64]types.Type, types.Type) {
	tab, deflt := switchTable(f, prm)
	for depth, cur, curPrm := 0, f, prm; len(tab) == 0 && depth < 3; depth++ {
		var next *ssa.Function
		var nextPrm ssa.Value
		allInstrs(cur, func(in ssa.Instruction) {
			cl, ok := in.(*ssa.Call)
			if !ok || cl.Call.StaticCallee() == nil || !inModule(cl.Call.StaticCallee()) || cl.Call.StaticCallee().Blocks == nil {
				return
			}
			for i, a := range cl.Call.Args {
				if a == curPrm && i < len(cl.Call.StaticCallee().Params) && next == nil {
					next, nextPrm = cl.Call.StaticCallee(), cl.Call.StaticCallee().Params[i]
				}
			}
		})
		if next == nil {
			break
		}
		tab, deflt = switchTable(next, nextPrm)
		cur, curPrm = next, nextPrm
	}
	return tab, deflt
}
