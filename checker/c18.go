package main

// C18 — raw UDP connection: reader guards/provenance, header layout of the writer,
// checksum ordering (DESIGN §5 C18).

import (
	"fmt"
	"go/token"
	"go/types"
	"sort"
	"strings"

	"golang.org/x/tools/go/ssa"
)

func init() { register("C18", true, checkC18) }

const nc4 = modPath + "/dhcpv4/nclient4"

func rawReadFrom(c *Ctx) *ssa.Function {
	for _, f := range c.P.ModuleFuncs() {
		if pkgPathOf(f) == nc4 && f.Name() == "ReadFrom" && recvNamed(f) != nil && recvNamed(f).Obj().Name() == "BroadcastRawUDPConn" {
			return f
		}
	}
	return nil
}

func checkC18(c *Ctx) {
	r := c.R
	r.Decides = append(r.Decides,
		"K1 reader: all panic obligations of ReadFrom's closure closed (as C03), and the frame-size fact they rest on: isValid is given exactly the number of bytes under the Lexer",
		"K2 the payload returned is Consume(IP payload length − 8) of the same Lexer, i.e. bounded by the IP total length, not by the frame length",
		"K3 every rejecting guard (invalid header, protocol ≠ 17, payload < 8, address/port mismatch) leads back to the read; the loop is left only on read error, n == 0 and success; delivery requires each guard",
		"K4 the source address returned is {IP source field, UDP source port} of the frame just parsed",
		"K5 writer: slot layout of the IPv4 and UDP headers against RFC 791 / RFC 768 (offset, width, value of every header store; version/IHL from constants; total length 20+8+len; protocol 17; UDP length 8+len; ports/addresses from the arguments; payload appended verbatim); getters and setters use the same offsets",
		"K6 ordering: each checksum field is written after all other fields of its header, from the complement of the value computed over that header",
		"K7 byte weights and fold of the RFC 1071 summation routine; K8 partial sums are combined only through that routine: no 16-bit addition has a checksum-derived operand outside it")
	r.NotDecided = append(r.NotDecided, "that the checksum values verify under RFC 1071 (carry folding is arithmetic on runtime values)", "arrival-order claims over frame sequences")
	fn := rawReadFrom(c)
	if fn == nil {
		r.Undecided("C18-anchor", "BroadcastRawUDPConn.ReadFrom", "-", "not found")
		return
	}
	// K1: panic obligations of the reader's closure
	e, err := newE4(c, "C18-K1")
	if err != nil {
		r.Undecided("C18-K1", "compiler diagnostics / ledger", "-", err.Error())
	} else {
		// ledger entries are shared with C03: same keys under the C03-K1 prefix
		e.ledgerPrefix = "C03-K1"
		funcs := closureOf(c.P, []*ssa.Function{fn})
		res := e.run(funcs)
		e4Nil(e, funcs, res)
		r.Count("C18-K1-bounds-sites", res.nBounds)
		r.Expect("C18-K1-bounds-sites", 10)
	}
	byteOrderRule(c, "C18-K10", []string{"dhcpv4/nclient4"}, 1)
	platformWidthRule(c, "C18-K11", []string{"dhcpv4/nclient4"})
	c18Client4Frame(c)
	c18FoldComplete(c, []string{nc4, cl4})
	c18Reader(c, fn, "C18")
	c18Writer(c)
	c18ChecksumShape(c)
	c18ChecksumArith(c)
}

// c18ChecksumArith: K8 — ones'-complement partial sums are only ever combined through the summation routine
// (end-around carry). Outside the two arithmetic leaves (calculateChecksum, checksumCombine) no value that
// derives from a checksum result is an operand of a 16-bit (or narrower) addition or subtraction: that drops the carry.
func c18ChecksumArith(c *Ctx) {
	r := c.R
	sp := c.P.SSAPkg[nc4]
	if sp == nil {
		r.Undecided("C18-K8", "nclient4 package", "-", "not loaded")
		return
	}
	var pf []*ssa.Function
	for _, f := range c.P.ModuleFuncs() {
		if f.Pkg == sp && f.Blocks != nil {
			pf = append(pf, f)
		}
	}
	sortFuncs(pf)
	leaf := map[*ssa.Function]bool{}
	for _, f := range pf {
		if f.Name() == "calculateChecksum" && f.Signature.Recv() == nil || f.Name() == "checksumCombine" {
			leaf[f] = true
		}
	}
	if len(leaf) < 2 {
		r.Undecided("C18-K8", "nclient4: summation routines", "-", "calculateChecksum / checksumCombine not found")
		return
	}
	// S: package functions returning a 16-bit value that reach a leaf
	inS := map[*ssa.Function]bool{}
	for f := range leaf {
		inS[f] = true
	}
	for changed := true; changed; {
		changed = false
		for _, f := range pf {
			if inS[f] || f.Signature.Results().Len() != 1 {
				continue
			}
			bt, ok := f.Signature.Results().At(0).Type().Underlying().(*types.Basic)
			if !ok || bt.Kind() != types.Uint16 {
				continue
			}
			allInstrs(f, func(in ssa.Instruction) {
				if cl, ok := in.(*ssa.Call); ok && cl.Call.StaticCallee() != nil && inS[cl.Call.StaticCallee()] && !inS[f] {
					// the call's result must reach the return
					inS[f] = true
					changed = true
				}
			})
		}
	}
	tainted := map[ssa.Value]bool{}
	var mark func(v ssa.Value)
	mark = func(v ssa.Value) {
		if tainted[v] {
			return
		}
		tainted[v] = true
		refs := v.Referrers()
		if refs == nil {
			return
		}
		for _, ref := range *refs {
			switch x := ref.(type) {
			case *ssa.Phi:
				mark(x)
			case *ssa.Convert:
				mark(x)
			case *ssa.ChangeType:
				mark(x)
			case *ssa.UnOp:
				if x.Op == token.XOR {
					mark(x)
				}
			case *ssa.Call:
				if sf := x.Call.StaticCallee(); sf != nil && sf.Pkg == sp && sf.Blocks != nil {
					for i, a := range x.Call.Args {
						if a == v && i < len(sf.Params) {
							mark(sf.Params[i])
						}
					}
				}
			}
		}
	}
	for _, f := range pf {
		allInstrs(f, func(in ssa.Instruction) {
			if cl, ok := in.(*ssa.Call); ok && cl.Call.StaticCallee() != nil && inS[cl.Call.StaticCallee()] {
				mark(cl)
			}
		})
	}
	n, bad := 0, 0
	for _, f := range pf {
		if leaf[f] {
			continue
		}
		allInstrs(f, func(in ssa.Instruction) {
			bo, ok := in.(*ssa.BinOp)
			if !ok || (bo.Op != token.ADD && bo.Op != token.SUB) {
				return
			}
			bt, ok := bo.Type().Underlying().(*types.Basic)
			if !ok || (bt.Kind() != types.Uint16 && bt.Kind() != types.Uint8 && bt.Kind() != types.Int16) {
				return
			}
			n++
			if tainted[bo.X] || tainted[bo.Y] {
				bad++
				r.Violation("C18-K8", shortName(f)+": checksum term combined by a plain "+bt.Name()+" "+bo.Op.String(), c.P.ipos(bo),
					"a partial ones'-complement sum is an operand of a 16-bit addition: the carry out of bit 15 is lost instead of being added back (RFC 1071), so the emitted checksum is off by one whenever the sum wraps")
			}
		})
	}
	if bad == 0 {
		r.OK("C18-K8", "nclient4: partial checksums are combined only through the summation routines", "-", "taint from checksum results to 16-bit additions outside calculateChecksum/checksumCombine", fmt.Sprintf("%d checksum-valued functions, %d narrow additions scanned", len(inS), n))
	}
	r.Count("C18-K8-checksum-functions", len(inS))
	r.Expect("C18-K8-checksum-functions", 5)
}

// c18ChecksumShape: K7 — byte weights of the RFC 1071 sum: a byte at an even offset is added as the high
// octet (<< 8), a byte at an odd offset as the low octet; a trailing odd byte counts as a high octet; the
// 32-bit sum is folded to 16 bits with end-around carry.
func c18ChecksumShape(c *Ctx) {
	r, sx := c.R, c.Sx()
	f := c.P.Func(nc4 + ".calculateChecksum")
	if f == nil {
		r.Undecided("C18-K7", "nclient4.calculateChecksum", "-", "not found")
		return
	}
	key := func(s string) string { return "nclient4.calculateChecksum: " + s }
	buf := f.Params[0]
	n := 0
	allInstrs(f, func(in ssa.Instruction) {
		ia, ok := in.(*ssa.IndexAddr)
		if !ok || ia.X != ssa.Value(buf) {
			return
		}
		n++
		// parity class of the index
		par := "?"
		switch idx := ia.Index.(type) {
		case *ssa.Phi:
			// loop counter starting at 0 with step 2, or the decremented length on the odd path
			even := true
			isCounter := false
			for _, e := range idx.Edges {
				if k, ok := intConst(e); ok {
					if k%2 != 0 {
						even = false
					}
					continue
				}
				if bo, ok := e.(*ssa.BinOp); ok && bo.Op == token.ADD && bo.X == ssa.Value(idx) {
					if k, ok := intConst(bo.Y); ok && k%2 == 0 {
						isCounter = true
						continue
					}
				}
				even = false
			}
			if even && isCounter {
				par = "even"
			}
		case *ssa.BinOp:
			if idx.Op == token.ADD {
				if ph, ok := idx.X.(*ssa.Phi); ok {
					if k, ok := intConst(idx.Y); ok && k == 1 {
						_ = ph
						par = "odd"
					}
				}
			}
			if idx.Op == token.SUB {
				// l-1 on the path where l is odd
				if k, ok := intConst(idx.Y); ok && k == 1 && strings.HasPrefix(sx.Of(idx.X).String(), "len(") {
					par = "even(last of odd length)"
				}
			}
		}
		// how the loaded byte enters the sum
		shifted := false
		var visit func(v ssa.Value, d int)
		visit = func(v ssa.Value, d int) {
			if d > 3 {
				return
			}
			for _, ref := range *v.Referrers() {
				switch t := ref.(type) {
				case *ssa.UnOp:
					visit(t, d+1)
				case *ssa.Convert:
					visit(t, d+1)
				case *ssa.BinOp:
					if t.Op == token.SHL {
						if k, ok := intConst(t.Y); ok && k == 8 {
							shifted = true
						}
					}
				}
			}
		}
		visit(ia, 0)
		switch {
		case strings.HasPrefix(par, "even"):
			r.Check(shifted, "C18-K7", key("byte at "+par+" offset is the high octet of its 16-bit word"), c.P.ipos(ia), "load feeds a << 8", "a byte at an even offset is added without the 8-bit shift: the checksum does not verify under RFC 1071 (payloads of odd length / all payloads)")
		case par == "odd":
			r.Check(!shifted, "C18-K7", key("byte at odd offset is the low octet of its 16-bit word"), c.P.ipos(ia), "load is added unshifted", "a byte at an odd offset is shifted")
		default:
			r.Undecided("C18-K7", key("index parity of "+shortDesc(ia.Index, 3)), c.P.ipos(ia), "the summation loop is not in the recognised form (counter from 0 step 2, trailing byte at len−1)")
		}
	})
	// a whole 16-bit word taken at an even offset with binary.BigEndian.Uint16(buf[i:]) is the even byte shifted by 8 plus
	// the odd byte: it stands for both loads
	allInstrs(f, func(in ssa.Instruction) {
		cl, ok := in.(*ssa.Call)
		if !ok || cl.Call.StaticCallee() == nil || funcKey(cl.Call.StaticCallee()) != "(encoding/binary.bigEndian).Uint16" || len(cl.Call.Args) != 2 {
			return
		}
		sl, ok := cl.Call.Args[1].(*ssa.Slice)
		if !ok || sl.X != ssa.Value(buf) || sl.Low == nil {
			return
		}
		even := false
		if idx, ok := sl.Low.(*ssa.Phi); ok {
			even = true
			isCounter := false
			for _, e := range idx.Edges {
				if k, ok := intConst(e); ok {
					if k%2 != 0 {
						even = false
					}
					continue
				}
				if bo, ok := e.(*ssa.BinOp); ok && bo.Op == token.ADD && bo.X == ssa.Value(idx) {
					if k, ok := intConst(bo.Y); ok && k%2 == 0 {
						isCounter = true
						continue
					}
				}
				even = false
			}
			even = even && isCounter
		}
		if even {
			n += 2
			r.OK("C18-K7", key("16-bit words are taken big-endian at even offsets"), c.P.ipos(cl), "binary.BigEndian.Uint16(buf[i:]) with i an even counter", "")
		} else {
			r.Undecided("C18-K7", key("offset parity of a word load"), c.P.ipos(cl), "a 16-bit word is loaded at an offset that is not an even loop counter")
		}
	})
	r.Check(n == 3, "C18-K7", key("three byte loads: trailing odd byte, even and odd byte of each word"), c.P.pos(f.Pos()), "instance count", fmt.Sprintf("%d loads of the buffer", n))
	// the trailing byte is handled only when the length is odd
	okOdd := false
	for _, b := range f.Blocks {
		if iff := ifOf(b); iff != nil {
			s := sx.Of(iff.Cond).String()
			if strings.Contains(s, "bin[&](const(1),len(") && (strings.HasPrefix(s, "bin[!=](") || strings.HasPrefix(s, "bin[==](")) {
				okOdd = true
			}
		}
	}
	r.Check(okOdd, "C18-K7", key("trailing byte handled iff the length is odd"), c.P.pos(f.Pos()), "test len & 1", "no parity test of the length")
	// fold
	g := c.P.Func(nc4 + ".checksumCombine")
	if g == nil {
		r.Undecided("C18-K7", "nclient4.checksumCombine", "-", "not found")
		return
	}
	s := sx.Of(returnsOf(g)[0].Results[0]).String()
	okFold := strings.HasPrefix(s, "conv[uint16](bin[+](") && strings.Contains(s, "bin[>>](") && strings.Contains(s, "const(16)")
	r.Check(okFold, "C18-K7", "nclient4.checksumCombine: end-around carry fold uint16(v + v>>16) of the 32-bit sum of both operands", c.P.pos(g.Pos()), "symx", "combine computes "+s)
}

var _ = token.ADD

// c18Reader is also used by C03 (rule prefix C03) for the frame-size fact.
func c18Reader(c *Ctx, fn *ssa.Function, prop string) {
	r, sx := c.R, c.Sx()
	key := func(s string) string { return "nclient4.ReadFrom: " + s }
	var read, isValid, newBuf, finalConsume, match *ssa.Call
	var has *ssa.Call
	allInstrs(fn, func(in ssa.Instruction) {
		cl, ok := in.(*ssa.Call)
		if !ok {
			return
		}
		cc := cl.Common()
		switch {
		case isInvokeOf(cc, "net", "PacketConn", "ReadFrom"):
			read = cl
		case cc.StaticCallee() != nil && cc.StaticCallee().Name() == "isValid" && pkgPathOf(cc.StaticCallee()) == nc4:
			isValid = cl
		case isFuncCall(cc, uioPath, "NewBigEndianBuffer"):
			newBuf = cl
		case isFuncCall(cc, nc4, "udpMatch"):
			match = cl
		case cc.StaticCallee() != nil && strings.HasSuffix(funcKey(cc.StaticCallee()), "uio.Buffer).Has"):
			has = cl
		case cc.StaticCallee() != nil && strings.HasSuffix(funcKey(cc.StaticCallee()), "uio.Lexer).Consume"):
			finalConsume = cl // last one in block order is the payload
		}
	})
	if read == nil || isValid == nil || newBuf == nil || finalConsume == nil || match == nil || has == nil {
		r.Undecided(prop+"-K1", key("anchors"), c.P.pos(fn.Pos()), fmt.Sprintf("read=%v isValid=%v buffer=%v consume=%v udpMatch=%v has=%v", read != nil, isValid != nil, newBuf != nil, finalConsume != nil, match != nil, has != nil))
		return
	}
	n := extractOf(read, 0)
	// frame-size fact
	data := newBuf.Call.Args[0]
	ds := sx.Of(data).String()
	ns := ""
	if n != nil {
		ns = sx.Of(n).String()
	}
	arg := sx.Of(isValid.Call.Args[1]).String()
	// the buffer is over pkt[:n]
	overN := strings.HasPrefix(ds, "slice(") && strings.HasSuffix(ds, ",const(_),"+ns+",const(_))")
	okSize := (overN && arg == ns) || arg == "len("+ds+")"
	r.Check(okSize, prop+"-K1", key("isValid is given the number of bytes under the Lexer"), c.P.ipos(isValid), "symx: buffer over pkt[:n] and isValid(n)",
		"isValid bounds the IP total length by "+arg+", but the Lexer holds "+ds+": a frame whose header claims more bytes than were received passes, Consume(hlen) returns nil and the header accessors index out of range")
	// isValid receiver is the data of that buffer
	recvS := sx.Of(isValid.Call.Args[0]).String()
	r.Check(strings.Contains(recvS, "uio.Buffer).Data]") && strings.Contains(recvS, sx.Of(newBuf).String()), prop+"-K1", key("isValid examines the bytes of the Lexer"), c.P.ipos(isValid), "symx", "isValid is called on "+recvS)
	if prop != "C18" {
		return
	}
	loop := sccOf(read.Block())
	if loop == nil {
		r.Violation("C18-K3", key("read loop"), c.P.ipos(read), "ReadFrom is not in a loop: a foreign frame ends the read instead of being skipped")
		return
	}
	// ReadFrom's buffer has the same length on every iteration
	if _, isPhi := read.Call.Args[0].(*ssa.Phi); isPhi {
		r.Violation("C18-K3", key("receive buffer keeps its full length across skipped frames"), c.P.ipos(read), "the slice handed to PacketConn.ReadFrom is re-sliced across iterations: after a short skipped frame the next frame is truncated and dropped")
	} else {
		r.OK("C18-K3", key("receive buffer keeps its full length across skipped frames"), c.P.ipos(read), "ReadFrom argument is not a loop-carried slice", "")
	}
	// K3: exits
	readErr := extractOf(read, 2)
	delivered := finalConsume.Block()
	for b := range loop {
		for _, s := range b.Succs {
			if loop[s] {
				continue
			}
			iff := ifOf(b)
			kind := ""
			if iff != nil {
				if _, nn, ok := nilEdgesOf(iff, func(v ssa.Value) bool { return readErr != nil && v == ssa.Value(readErr) }); ok && nn.To == s {
					kind = "read error"
				}
				if bo, ok := iff.Cond.(*ssa.BinOp); ok && bo.Op == token.EQL && n != nil && (bo.X == ssa.Value(n) || bo.Y == ssa.Value(n)) && b.Succs[0] == s {
					kind = "n == 0"
				}
			}
			if s == delivered || delivered.Dominates(s) || b == delivered {
				kind = "success"
			}
			r.Check(kind != "", "C18-K3", key("loop exit: "+exitDesc(c, b, s)), c.P.ipos(b.Instrs[len(b.Instrs)-1]), "exit is "+kind, "a rejecting guard returns from ReadFrom instead of skipping the frame")
		}
	}
	if !loop[delivered] {
		// delivery block is outside the cycle (it returns): fine
	}
	// delivery requires every guard (atoms of the split graph: nested ifs, && chains and switch cases alike)
	atoms := atomsIn(fn)
	reqAtom := func(name string, pred func(atomFact) (want bool, ok bool)) {
		found := false
		for _, x := range atoms {
			if _, ok := pred(x); ok {
				found = true
			}
		}
		if !found {
			r.Violation("C18-K3", key("guard "+name+" present"), c.P.ipos(finalConsume), "guard not found")
			return
		}
		ok := mustPassAtoms(fn, delivered, func(as []atomFact) bool {
			for _, x := range as {
				if w, isG := pred(x); isG && w {
					return true
				}
			}
			return false
		})
		r.Check(ok, "C18-K3", key("delivery requires "+name), c.P.ipos(finalConsume), "delivery unreachable without an edge on which the guard holds", "a frame is delivered although "+name+" does not hold")
	}
	boolIs := func(v ssa.Value) func(atomFact) (bool, bool) {
		return func(x atomFact) (bool, bool) {
			if x.v == v {
				return x.val, true
			}
			return false, false
		}
	}
	reqAtom("a valid IPv4 header (isValid)", boolIs(isValid))
	reqAtom("8 bytes of UDP header in the buffer", boolIs(has))
	reqAtom("a destination matching the bound address/port (udpMatch)", boolIs(match))
	// protocol == 17
	isProto := func(s string) bool {
		return strings.Contains(s, "ipv4).transportProtocol]") || strings.Contains(s, "ipv4).protocol]")
	}
	reqAtom("protocol 17 (UDP)", func(x atomFact) (bool, bool) {
		bo, ok := x.v.(*ssa.BinOp)
		if !ok || (bo.Op != token.EQL && bo.Op != token.NEQ) {
			return false, false
		}
		xs, ys := sx.Of(bo.X).String(), sx.Of(bo.Y).String()
		if !((isProto(xs) && ys == "const(17)") || (isProto(ys) && xs == "const(17)")) {
			return false, false
		}
		return (bo.Op == token.EQL) == x.val, true
	})
	// udpMatch(addr, upc.boundAddr) with addr = {dst address, dst port}
	if al, ok := match.Call.Args[0].(*ssa.Alloc); ok {
		ip, port := allocFieldStores(c, al)
		r.Check(strings.Contains(ip["IP"], "ipv4).destinationAddress]") && strings.Contains(port["Port"], "udp).destinationPort]"), "C18-K3", key("udpMatch compares the frame's destination address and port"), c.P.ipos(match), "symx of the UDPAddr handed to udpMatch",
			"udpMatch is given IP="+ip["IP"]+" Port="+port["Port"])
	}
	b1 := sx.Of(match.Call.Args[1]).String()
	r.Check(b1 == "field[boundAddr]("+sx.Of(fn.Params[0]).String()+")", "C18-K3", key("udpMatch compares with the connection's bound address"), c.P.ipos(match), "symx", "second argument is "+b1)
	// K2: payload length
	sz := sx.Of(finalConsume.Call.Args[1]).String()
	okLen := strings.HasPrefix(sz, "bin[-](conv[int](call[(dhcpv4/nclient4.ipv4).payloadLength](") && strings.HasSuffix(sz, ",const(8))")
	r.Check(okLen, "C18-K2", key("payload size is IP payload length − 8"), c.P.ipos(finalConsume), "symx", "the delivered byte count is "+sz+": it must derive from the IP total length minus header lengths, never from the frame length (link-layer padding)")
	r.Check(sx.Of(finalConsume.Call.Args[0]).String() == sx.Of(newBuf).String(), "C18-K2", key("payload is consumed from the frame's Lexer"), c.P.ipos(finalConsume), "symx", "")
	for _, ret := range returnsOf(fn) {
		if ret.Block() != delivered {
			continue
		}
		s0 := sx.Of(ret.Results[0]).String()
		want := "call[builtin copy](" + sx.Of(fn.Params[1]).String() + "," + sx.Of(finalConsume).String() + ")"
		r.Check(s0 == want, "C18-K2", key("returned count is copy(b, payload)"), c.P.ipos(ret), "symx", "returns "+s0)
		// K4 source address
		v := ret.Results[1]
		if mi, ok := v.(*ssa.MakeInterface); ok {
			v = mi.X
		}
		if al, ok := v.(*ssa.Alloc); ok {
			f, _ := allocFieldStores(c, al)
			r.Check(strings.Contains(f["IP"], "ipv4).sourceAddress]") && strings.Contains(f["Port"], "udp).sourcePort]"), "C18-K4", key("returned address is the frame's source address and port"), c.P.ipos(ret), "symx", "returned IP="+f["IP"]+" Port="+f["Port"])
		} else {
			r.Violation("C18-K4", key("returned address"), c.P.ipos(ret), "the returned address is not a fresh UDPAddr built from the frame: "+sx.Of(v).String())
		}
	}
	// isValid guard set (the facts the ledger rests on)
	c18IsValid(c, isValid.Call.StaticCallee())
	// udpMatch semantics
	c18UdpMatch(c, match.Call.StaticCallee())
}

func allocFieldStores(c *Ctx, al *ssa.Alloc) (map[string]string, map[string]string) {
	out := map[string]string{}
	for _, ref := range *al.Referrers() {
		fa, ok := ref.(*ssa.FieldAddr)
		if !ok {
			continue
		}
		name := derefStruct(al.Type()).Field(fa.Field).Name()
		for _, r2 := range *fa.Referrers() {
			if st, ok := r2.(*ssa.Store); ok && st.Addr == ssa.Value(fa) {
				out[name] = c.Sx().Of(st.Val).String()
			}
		}
	}
	return out, out
}

// normalFacts: comparison facts in one normal form "L < R", "L <= R", "L == R", "L != R" (polarity folded in,
// > and >= mirrored, operands of == / != in lexical order), so that `!(a < b)`, `a >= b` and `b <= a` coincide
func normalFacts(c *Ctx, facts []guardFact) []string {
	sx := c.Sx()
	var out []string
	for _, f := range facts {
		cf, ok := normCmp(f.cond, f.pol)
		if !ok {
			out = append(out, f.str)
			continue
		}
		l, r := sx.Of(cf.l).String(), sx.Of(cf.r).String()
		if (cf.op == token.EQL || cf.op == token.NEQ) && l > r {
			l, r = r, l
		}
		out = append(out, l+" "+cf.op.String()+" "+r)
	}
	sort.Strings(out)
	return dedupe(out)
}

// c18IsValid: isValid returns true only under len(b) >= 20 ∧ hlen >= 20 ∧ hlen <= tlen ∧ tlen <= pktSize ∧ version == 4.
// Every return that can yield true is examined: `return true` with the facts of its block, `return <expr>` with
// those facts plus what <expr> == true implies (a && b written as an expression).
func c18IsValid(c *Ctx, f *ssa.Function) {
	r := c.R
	key := func(s string) string { return "nclient4.ipv4.isValid: " + s }
	gc := newGuardCache(c)
	b := "param((dhcpv4/nclient4.ipv4).isValid#0)"
	n := "param((dhcpv4/nclient4.ipv4).isValid#1)"
	hl := "conv[int](call[(dhcpv4/nclient4.ipv4).headerLength](" + b + "))"
	tl := "conv[int](call[(dhcpv4/nclient4.ipv4).totalLength](" + b + "))"
	ver := "call[dhcpv4/nclient4.ipVersion](" + b + ")"
	need := map[string][]string{
		"len(b) >= 20": {"const(20) <= len(" + b + ")", "const(19) < len(" + b + ")"},
		"hlen >= 20":   {"const(20) <= " + hl, "const(19) < " + hl},
		"hlen <= tlen": {hl + " <= " + tl},
		"tlen <= n":    {tl + " <= " + n},
		"version == 4": {"const(4) == " + ver, ver + " == const(4)"},
	}
	var names []string
	for k := range need {
		names = append(names, k)
	}
	sort.Strings(names)
	nTrue := 0
	for _, ret := range returnsOf(f) {
		res := ret.Results[0]
		if k, ok := boolConst(res); ok && !k {
			continue
		}
		nTrue++
		facts := append([]guardFact{}, gc.of(ret.Block())...)
		if _, isK := boolConst(res); !isK {
			for _, a := range impliedAtoms(res, true, 0) {
				facts = append(facts, guardFact{cond: a.v, pol: a.val})
			}
			// a φ result: facts of the only edge that can carry true are part of impliedAtoms' φ rule; the
			// facts of that edge's predecessor block hold as well
			if ph, ok := res.(*ssa.Phi); ok {
				var cand []int
				for i, e := range ph.Edges {
					if k, isK := boolConst(e); isK && !k {
						continue
					}
					cand = append(cand, i)
				}
				if len(cand) == 1 {
					facts = append(facts, gc.of(ph.Block().Preds[cand[0]])...)
				}
			}
		}
		fs := normalFacts(c, facts)
		for _, k := range names {
			ok := false
			for _, alt := range need[k] {
				for _, x := range fs {
					if x == alt {
						ok = true
					}
				}
			}
			r.Check(ok, "C18-K1", key("true only if "+k), c.P.ipos(ret), "facts under which this return yields true", "isValid can return true without "+k+" (facts: "+strings.Join(fs, " ∧ ")+")")
		}
	}
	r.Check(nTrue >= 1, "C18-K1", key("a return that can yield true"), c.P.pos(f.Pos()), "instance count", "isValid never returns true")
}

func c18UdpMatch(c *Ctx, f *ssa.Function) {
	r, sx := c.R, c.Sx()
	key := func(s string) string { return "nclient4.udpMatch: " + s }
	// what the predicate computes, by truth table over its atomic conditions:
	//   bound == nil  ∨  ((bound.IP == nil ∨ bound.IP.Equal(addr.IP)) ∧ bound.Port == addr.Port)
	// however it is written (early returns, one boolean expression, temporaries)
	addr, bound := sx.Of(f.Params[0]).String(), sx.Of(f.Params[1]).String()
	type role struct {
		name string
		neg  bool
	}
	roles := map[ssa.Value]role{}
	var unknown []string
	for _, a := range boolAtomsOf(f) {
		s := sx.Of(a).String()
		neg := false
		if bo, ok := a.(*ssa.BinOp); ok && bo.Op == token.NEQ {
			neg = true
			s = "bin[==]" + s[len("bin[!=]"):]
		}
		switch s {
		case "bin[==](const(nil:*net.UDPAddr)," + bound + ")", "bin[==](" + bound + ",const(nil:*net.UDPAddr))":
			roles[a] = role{"N", neg}
		case "bin[==](const(nil:net.IP),field[IP](" + bound + "))", "bin[==](field[IP](" + bound + "),const(nil:net.IP))":
			roles[a] = role{"A", neg}
		case "call[(net.IP).Equal](field[IP](" + bound + "),field[IP](" + addr + "))", "call[(net.IP).Equal](field[IP](" + addr + "),field[IP](" + bound + "))":
			roles[a] = role{"B", neg}
		case "bin[==](field[Port](" + addr + "),field[Port](" + bound + "))", "bin[==](field[Port](" + bound + "),field[Port](" + addr + "))":
			roles[a] = role{"C", neg}
		default:
			unknown = append(unknown, s)
		}
	}
	if len(unknown) > 0 {
		r.Violation("C18-K3", key("decides on the bound address and port only"), c.P.pos(f.Pos()), "the predicate also depends on "+strings.Join(unknown, ", ")+": frames for the bound address and port can be skipped, or foreign ones delivered")
		return
	}
	have := map[string]bool{}
	for _, ro := range roles {
		have[ro.name] = true
	}
	if !(have["N"] && have["A"] && have["B"] && have["C"]) {
		r.Violation("C18-K3", key("nil bound ⇒ accept; bound IP set and different ⇒ reject; else ports equal"), c.P.pos(f.Pos()),
			fmt.Sprintf("the predicate does not test all of: bound == nil (%v), bound.IP == nil (%v), bound.IP.Equal(addr.IP) (%v), ports equal (%v)", have["N"], have["A"], have["B"], have["C"]))
		return
	}
	bad := ""
	for m := 0; m < 16; m++ {
		val := map[string]bool{"N": m&1 != 0, "A": m&2 != 0, "B": m&4 != 0, "C": m&8 != 0}
		assign := map[ssa.Value]bool{}
		for a, ro := range roles {
			assign[a] = val[ro.name] != ro.neg
		}
		got, ok := boolEval(f, 0, assign)
		if !ok {
			r.Undecided("C18-K3", key("truth table"), c.P.pos(f.Pos()), "the predicate is not a loop-free boolean function of its atomic conditions")
			return
		}
		want := val["N"] || ((val["A"] || val["B"]) && val["C"])
		if got != want {
			bad = fmt.Sprintf("for bound==nil:%v bound.IP==nil:%v IPs equal:%v ports equal:%v the predicate yields %v, the contract %v", val["N"], val["A"], val["B"], val["C"], got, want)
		}
	}
	r.Check(bad == "", "C18-K3", key("nil bound ⇒ accept; bound IP set and different ⇒ reject; else ports equal"), c.P.pos(f.Pos()), "truth table over the four atomic conditions (16 rows)", bad)
}

// ---------------------------------------------------------------------------
// writer

type offWrite struct {
	off, width int
	val        string
	pos        string
	order      int
}

// offsetWrites: stores into the byte slice that is parameter 0 of f, at constant offsets, following
// calls that pass the same slice on as receiver.
func offsetWrites(c *Ctx, f *ssa.Function, subst map[string]string, depth int, seq *int) []offWrite {
	sx := c.Sx()
	var out []offWrite
	p0 := f.Params[0]
	rep := func(s string) string {
		for k, v := range subst {
			s = strings.ReplaceAll(s, k, v)
		}
		return s
	}
	for _, b := range f.Blocks {
		for _, in := range b.Instrs {
			switch x := in.(type) {
			case *ssa.Store:
				if ia, ok := x.Addr.(*ssa.IndexAddr); ok && ia.X == ssa.Value(p0) {
					if k, ok := intConst(ia.Index); ok {
						*seq++
						out = append(out, offWrite{int(k), 1, rep(sx.Of(x.Val).String()), c.P.ipos(x), *seq})
					}
				}
			case *ssa.Call:
				cc := x.Common()
				sf := cc.StaticCallee()
				if sf == nil {
					if isBuiltinCall(cc, "copy") {
						a0 := cc.Args[0]
						if ct, ok := a0.(*ssa.ChangeType); ok {
							a0 = ct.X
						}
						if sl, ok := a0.(*ssa.Slice); ok && sl.X == ssa.Value(p0) {
							lo, ok1 := intConst(sl.Low)
							hi, ok2 := intConst(sl.High)
							if ok1 && ok2 {
								*seq++
								out = append(out, offWrite{int(lo), int(hi - lo), rep(sx.Of(cc.Args[1]).String()), c.P.ipos(x), *seq})
							}
						}
					}
					continue
				}
				k := funcKey(sf)
				w := 0
				if strings.HasSuffix(k, "ndian).PutUint16") {
					w = 2
				} else if strings.HasSuffix(k, "ndian).PutUint32") {
					w = 4
				}
				if w > 0 {
					a1 := cc.Args[1]
					if ct, ok := a1.(*ssa.ChangeType); ok {
						a1 = ct.X
					}
					if sl, ok := a1.(*ssa.Slice); ok && sl.X == ssa.Value(p0) {
						lo := int64(0)
						if sl.Low != nil {
							lo, _ = intConst(sl.Low)
						}
						*seq++
						out = append(out, offWrite{int(lo), w, rep(sx.Of(cc.Args[2]).String()), c.P.ipos(x), *seq})
					}
					continue
				}
				if depth < 3 && inModule(sf) && sf.Blocks != nil && len(cc.Args) > 0 && cc.Args[0] == ssa.Value(p0) && sf.Signature.Recv() != nil {
					sub := map[string]string{}
					for i := 1; i < len(cc.Args); i++ {
						sub[sx.Of(sf.Params[i]).String()] = rep(sx.Of(cc.Args[i]).String())
					}
					out = append(out, offsetWrites(c, sf, sub, depth+1, seq)...)
				}
			}
		}
	}
	return out
}

func c18Writer(c *Ctx) {
	r, sx := c.R, c.Sx()
	find := func(recv, name string) *ssa.Function {
		for _, f := range c.P.ModuleFuncs() {
			if pkgPathOf(f) != nc4 || f.Name() != name {
				continue
			}
			if recv == "" && f.Signature.Recv() == nil {
				return f
			}
			if n := recvNamed(f); n != nil && n.Obj().Name() == recv {
				return f
			}
		}
		return nil
	}
	ipEnc, udpEnc, pkt := find("ipv4", "encode"), find("udp", "encode"), find("", "udp4pkt")
	if ipEnc == nil || udpEnc == nil || pkt == nil {
		r.Undecided("C18-K5", "writer anchors", "-", "ipv4.encode / udp.encode / udp4pkt not found")
		return
	}
	fld := func(f *ssa.Function, name string) string {
		return "field[" + name + "](" + sx.Of(f.Params[1]).String() + ")"
	}
	seq := 0
	ipW := offsetWrites(c, ipEnc, nil, 0, &seq)
	// RFC 791 §3.1
	type slot struct {
		off, w int
		name   string
		want   func(string) bool
		desc   string
	}
	eq := func(s string) func(string) bool { return func(g string) bool { return g == s } }
	ipSpec := []slot{
		{0, 1, "version|IHL", func(g string) bool {
			return strings.Contains(g, "const(64)") && strings.Contains(g, "bin[/]("+fld(ipEnc, "IHL")+",const(4))") && strings.Contains(g, "const(15)")
		}, "(4<<4) | ((IHL/4) & 0xf)"},
		{1, 1, "TOS", eq(fld(ipEnc, "TOS")), "i.TOS"},
		{2, 2, "total length", eq(fld(ipEnc, "TotalLength")), "i.TotalLength"},
		{4, 2, "identification", eq(fld(ipEnc, "ID")), "i.ID"},
		{6, 2, "flags|fragment offset", func(g string) bool {
			return strings.Contains(g, fld(ipEnc, "Flags")) && strings.Contains(g, fld(ipEnc, "FragmentOffset")) && strings.Contains(g, "const(13)") && strings.Contains(g, "const(3)")
		}, "(flags<<13) | (offset>>3)"},
		{8, 1, "TTL", eq(fld(ipEnc, "TTL")), "i.TTL"},
		{9, 1, "protocol", eq(fld(ipEnc, "Protocol")), "i.Protocol"},
		{10, 2, "header checksum", eq(fld(ipEnc, "checksum")), "i.checksum"},
		{12, 4, "source address", eq(fld(ipEnc, "SrcAddr")), "i.SrcAddr"},
		{16, 4, "destination address", eq(fld(ipEnc, "DstAddr")), "i.DstAddr"},
	}
	checkLayout := func(what string, ws []offWrite, spec []slot, total int) {
		cover := make([]int, total)
		for _, s := range spec {
			var hit *offWrite
			for i := range ws {
				if ws[i].off == s.off && ws[i].width == s.w {
					hit = &ws[i]
				}
			}
			k := fmt.Sprintf("%s: bytes %d..%d carry %s", what, s.off, s.off+s.w-1, s.name)
			if hit == nil {
				r.Violation("C18-K5", k, c.P.pos(ipEnc.Pos()), "no store of width "+fmt.Sprint(s.w)+" at offset "+fmt.Sprint(s.off))
				continue
			}
			r.Check(s.want(hit.val), "C18-K5", k, hit.pos, "offset/width/value against RFC table", "stored value is "+hit.val+", want "+s.desc)
			for j := s.off; j < s.off+s.w; j++ {
				cover[j]++
			}
		}
		for _, w := range ws {
			known := false
			for _, s := range spec {
				if s.off == w.off && s.w == w.width {
					known = true
				}
			}
			if !known {
				r.Violation("C18-K5", fmt.Sprintf("%s: unexpected store at offset %d width %d", what, w.off, w.width), w.pos, "a header store that matches no field of the RFC layout: "+w.val)
			}
		}
	}
	checkLayout("IPv4 header (RFC 791 §3.1)", ipW, ipSpec, 20)
	seq = 0
	udpW := offsetWrites(c, udpEnc, nil, 0, &seq)
	udpSpec := []slot{
		{0, 2, "source port", eq(fld(udpEnc, "SrcPort")), "u.SrcPort"},
		{2, 2, "destination port", eq(fld(udpEnc, "DstPort")), "u.DstPort"},
		{4, 2, "length", eq(fld(udpEnc, "Length")), "u.Length"},
		{6, 2, "checksum", eq(fld(udpEnc, "checksum")), "u.checksum"},
	}
	checkLayout("UDP header (RFC 768)", udpW, udpSpec, 8)
	// getter/setter offsets agree with the layout
	getters := []struct {
		recv, name string
		off, w     int
	}{{"ipv4", "headerLength", 0, 1}, {"ipv4", "protocol", 9, 1}, {"ipv4", "totalLength", 2, 2}, {"ipv4", "sourceAddress", 12, 4}, {"ipv4", "destinationAddress", 16, 4},
		{"udp", "sourcePort", 0, 2}, {"udp", "destinationPort", 2, 2}, {"udp", "length", 4, 2}}
	for _, g := range getters {
		f := find(g.recv, g.name)
		if f == nil {
			r.Undecided("C18-K5", "getter "+g.recv+"."+g.name, "-", "not found")
			continue
		}
		off, w := -1, 0
		allInstrs(f, func(in ssa.Instruction) {
			switch x := in.(type) {
			case *ssa.IndexAddr:
				if k, ok := intConst(x.Index); ok && x.X == ssa.Value(f.Params[0]) {
					off, w = int(k), 1
				}
			case *ssa.Slice:
				if x.X == ssa.Value(f.Params[0]) {
					lo := int64(0)
					if x.Low != nil {
						lo, _ = intConst(x.Low)
					}
					off = int(lo)
					if x.High != nil {
						hi, _ := intConst(x.High)
						w = int(hi - lo)
					}
				}
			case *ssa.Call:
				if sf := x.Call.StaticCallee(); sf != nil && strings.HasSuffix(funcKey(sf), "ndian).Uint16") {
					w = 2
				}
			}
		})
		r.Check(off == g.off && w == g.w, "C18-K5", fmt.Sprintf("getter %s.%s reads offset %d width %d", g.recv, g.name, g.off, g.w), c.P.pos(f.Pos()), "constant offset/width", fmt.Sprintf("reads offset %d width %d", off, w))
	}
	// headerLength = (b[0] & 0xf) * 4
	if f := find("ipv4", "headerLength"); f != nil {
		s := sx.Of(returnsOf(f)[0].Results[0]).String()
		r.Check(strings.Contains(s, "const(15)") && strings.Contains(s, "const(4)") && strings.HasPrefix(s, "bin[*]("), "C18-K5", "getter ipv4.headerLength is (b[0] & 0xf) * 4", c.P.pos(f.Pos()), "symx", "headerLength computes "+s)
	}
	if f := find("ipv4", "payloadLength"); f != nil {
		// every return is totalLength − headerLength; a return of 0 is accepted only where the subtraction would wrap
		// (behind a guard totalLength < headerLength — unreachable for a header that passed isValid)
		okAll, got, nSub := true, "", 0
		gc := newGuardCache(c)
		for _, ret := range returnsOf(f) {
			s := sx.Of(ret.Results[0]).String()
			isSub := strings.HasPrefix(s, "bin[-](call[(dhcpv4/nclient4.ipv4).totalLength](") && strings.Contains(s, "ipv4).headerLength](")
			if isSub {
				nSub++
				continue
			}
			clamp := false
			if k, isK := intConst(ret.Results[0]); isK && k == 0 {
				for _, ft := range gc.of(ret.Block()) {
					cf, ok := normCmp(ft.cond, ft.pol)
					if !ok {
						continue
					}
					l, rr := sx.Of(cf.l).String(), sx.Of(cf.r).String()
					if cf.op == token.LSS && strings.Contains(l, "ipv4).totalLength](") && strings.Contains(rr, "ipv4).headerLength](") {
						clamp = true
					}
				}
			}
			if !clamp {
				okAll, got = false, s
			}
		}
		r.Check(okAll && nSub >= 1, "C18-K2", "ipv4.payloadLength is totalLength − headerLength", c.P.pos(f.Pos()), "symx of every return (0 only where the subtraction would wrap)", "payloadLength computes "+got)
	}
	c18Udp4pkt(c, pkt)
}

// c18NoStaleHeader: K9 — a header slice handed out by the Lexer (WriteN) stays valid only while the Lexer's
// buffer is not reallocated. Either the buffer's capacity equals the sum of everything written to it (no
// write can reallocate), or every use of a header slice precedes every later growing write to the same Lexer.
func c18NoStaleHeader(c *Ctx, f *ssa.Function, calls []*ssa.Call, helperArg map[*ssa.Parameter]ssa.Value) {
	r, sx := c.R, c.Sx()
	key := func(s string) string { return "nclient4.udp4pkt: " + s }
	isLex := func(cl *ssa.Call, m string) bool {
		return cl.Call.StaticCallee() != nil && (strings.HasSuffix(funcKey(cl.Call.StaticCallee()), "uio.Lexer)."+m) || strings.HasSuffix(funcKey(cl.Call.StaticCallee()), "uio.Buffer)."+m))
	}
	// additive normal form: constant + multiset of non-constant terms
	var flat func(v ssa.Value, k *int64, terms *[]string)
	flat = func(v ssa.Value, k *int64, terms *[]string) {
		v = stripConv(v)
		if p, ok := v.(*ssa.Parameter); ok && helperArg[p] != nil {
			flat(helperArg[p], k, terms)
			return
		}
		if c0, ok := intConst(v); ok {
			*k += c0
			return
		}
		if bo, ok := v.(*ssa.BinOp); ok && bo.Op == token.ADD {
			flat(bo.X, k, terms)
			flat(bo.Y, k, terms)
			return
		}
		*terms = append(*terms, sx.Of(v).String())
	}
	var capK, sumK int64
	var capT, sumT []string
	var haveCap bool
	allInstrs(f, func(in ssa.Instruction) {
		if ms, ok := in.(*ssa.MakeSlice); ok {
			for _, ref := range *ms.Referrers() {
				if cl, ok := ref.(*ssa.Call); ok && isFuncCall(cl.Common(), uioPath, "NewBigEndianBuffer") {
					flat(ms.Cap, &capK, &capT)
					haveCap = true
				}
			}
		}
	})
	var growth []int
	var headers []ssa.Value
	for i, cl := range calls {
		switch {
		case isLex(cl, "WriteN"), isLex(cl, "Append"):
			flat(cl.Call.Args[1], &sumK, &sumT)
			growth = append(growth, i)
			headers = append(headers, cl)
		case isLex(cl, "WriteBytes"):
			if ln, ok := cl.Call.Args[1].(ssa.Value); ok {
				if p, ok := ln.(*ssa.Parameter); ok && helperArg[p] != nil {
					ln = helperArg[p]
				}
				sumT = append(sumT, "len("+sx.Of(ln).String()+")")
			}
			growth = append(growth, i)
		case isLex(cl, "Write8"), isLex(cl, "Write16"), isLex(cl, "Write32"), isLex(cl, "Write64"):
			w := map[string]int64{"Write8": 1, "Write16": 2, "Write32": 4, "Write64": 8}[cl.Call.StaticCallee().Name()]
			sumK += w
			growth = append(growth, i)
		}
	}
	sort.Strings(capT)
	sort.Strings(sumT)
	exact := haveCap && capK == sumK && strings.Join(capT, "+") == strings.Join(sumT, "+")
	if exact {
		r.OK("C18-K9", key("header slices stay valid: buffer capacity equals the bytes written"), c.P.pos(f.Pos()), "cap(make) = Σ write sizes (additive normal form)", fmt.Sprintf("%d + %s", capK, strings.Join(capT, " + ")))
		return
	}
	// otherwise: every use of a header slice precedes every later growing write
	idxOf := map[*ssa.Call]int{}
	for i, cl := range calls {
		idxOf[cl] = i
	}
	bad := ""
	for _, h := range headers {
		hi := idxOf[h.(*ssa.Call)]
		// aliases of the header slice
		seen := map[ssa.Value]bool{}
		work := []ssa.Value{h}
		for len(work) > 0 {
			v := work[len(work)-1]
			work = work[:len(work)-1]
			if seen[v] {
				continue
			}
			seen[v] = true
			for _, ref := range *v.Referrers() {
				switch x := ref.(type) {
				case *ssa.ChangeType:
					work = append(work, x)
				case *ssa.Slice:
					work = append(work, x)
				case *ssa.Call:
					ui, ok := idxOf[x]
					if !ok {
						continue
					}
					for _, g := range growth {
						if g > hi && g < ui {
							bad = fmt.Sprintf("%s at %s uses a header slice after the Lexer grew again at %s", calleeName(x.Common()), c.P.ipos(x), c.P.ipos(calls[g]))
						}
					}
				}
			}
		}
	}
	r.Check(bad == "", "C18-K9", key("no header slice is used after a later growing write (buffer capacity is not the exact frame size)"), c.P.pos(f.Pos()), "uses of WriteN results precede later Lexer writes",
		"the buffer's capacity ("+fmt.Sprintf("%d + %s", capK, strings.Join(capT, " + "))+") is not the sum of the bytes written ("+fmt.Sprintf("%d + %s", sumK, strings.Join(sumT, " + "))+"): a write can reallocate, and "+bad+": the bytes stored through it never reach the frame")
}

func c18Udp4pkt(c *Ctx, f *ssa.Function) {
	r, sx := c.R, c.Sx()
	key := func(s string) string { return "nclient4.udp4pkt: " + s }
	packet, dest, src := sx.Of(f.Params[0]).String(), sx.Of(f.Params[1]).String(), sx.Of(f.Params[2]).String()
	// the two field structs
	var ipF, udpF map[string]string
	// the literals may sit in an unexported helper of the package called from udp4pkt with its own parameters
	// (writeUDPHeader(hdr, packet, dest, src, udpLen)): the helper's parameters are rewritten to the arguments
	for _, g := range marshalHelpers(c, f) {
		g := g
		subst := map[string]string{}
		if g != f {
			allInstrs(f, func(in ssa.Instruction) {
				if cl, ok := in.(*ssa.Call); ok && cl.Call.StaticCallee() == g {
					for i, p := range g.Params {
						if i < len(cl.Call.Args) {
							subst[sx.Of(p).String()] = sx.Of(cl.Call.Args[i]).String()
						}
					}
				}
			})
		}
		rew := func(m map[string]string) map[string]string {
			for k, v := range m {
				for from, to := range subst {
					v = strings.ReplaceAll(v, from, to)
				}
				m[k] = v
			}
			return m
		}
		allInstrs(g, func(in ssa.Instruction) {
			al, ok := in.(*ssa.Alloc)
			if !ok {
				return
			}
			switch {
			case namedIs(al.Type(), nc4, "ipv4Fields") && ipF == nil:
				m, _ := allocFieldStores(c, al)
				ipF = rew(m)
			case namedIs(al.Type(), nc4, "udpFields") && udpF == nil:
				m, _ := allocFieldStores(c, al)
				udpF = rew(m)
			}
		})
	}
	if ipF == nil || udpF == nil {
		r.Undecided("C18-K5", key("field structs"), c.P.pos(f.Pos()), "ipv4Fields / udpFields literals not found")
		return
	}
	lenP := "len(" + packet + ")"
	chk := func(m map[string]string, fld, want, why string) {
		r.Check(normSumStr(m[fld]) == normSumStr(want), "C18-K5", key(fld+" = "+why), c.P.pos(f.Pos()), "symx of the field literal (sums in additive normal form)", fld+" is "+m[fld]+", want "+want)
	}
	chk(ipF, "IHL", "const(20)", "20 (no options)")
	chk(ipF, "TotalLength", "conv[uint16](bin[+](bin[+](const(20),const(8)),"+lenP+"))", "20 + 8 + len(payload)")
	chk(ipF, "Protocol", "const(17)", "17 (UDP)")
	chk(ipF, "SrcAddr", "call[(net.IP).To4](field[IP]("+src+"))", "src.IP.To4()")
	chk(ipF, "DstAddr", "call[(net.IP).To4](field[IP]("+dest+"))", "dest.IP.To4()")
	chk(udpF, "SrcPort", "conv[uint16](field[Port]("+src+"))", "src.Port")
	chk(udpF, "DstPort", "conv[uint16](field[Port]("+dest+"))", "dest.Port")
	chk(udpF, "Length", "conv[uint16](bin[+](const(8),"+lenP+"))", "8 + len(payload)")
	for _, bad := range []string{"TOS", "ID", "Flags", "FragmentOffset"} {
		if v, ok := ipF[bad]; ok && v != "const(0)" {
			r.Violation("C18-K5", key(bad+" left zero"), c.P.pos(f.Pos()), bad+" is set to "+v)
		}
	}
	if v, ok := ipF["TTL"]; !ok || v == "const(0)" {
		r.Violation("C18-K5", key("TTL non-zero"), c.P.pos(f.Pos()), "TTL not set")
	}
	// sequence of calls: WriteN(20) → encode → setChecksum(^calc) → WriteN(8) → encode → setChecksum(^calc(xsum,len)) → WriteBytes(packet) → Data()
	// calls in program order; the calls of an unexported helper of the package are spliced in at its call site
	var calls []*ssa.Call
	helperSet := map[*ssa.Function]bool{}
	for _, g := range marshalHelpers(c, f) {
		if g != f && !token.IsExported(g.Name()) && g.Signature.Recv() == nil {
			helperSet[g] = true
		}
	}
	var collect func(g *ssa.Function, d int)
	collect = func(g *ssa.Function, d int) {
		allInstrs(g, func(in ssa.Instruction) {
			if cl, ok := in.(*ssa.Call); ok && cl.Call.StaticCallee() != nil {
				if helperSet[cl.Call.StaticCallee()] && d < 2 {
					collect(cl.Call.StaticCallee(), d+1)
					return
				}
				calls = append(calls, cl)
			}
		})
	}
	collect(f, 0)
	// parameters of the spliced helpers, written in the caller's terms
	helperSubst := map[string]string{}
	helperArg := map[*ssa.Parameter]ssa.Value{}
	allInstrs(f, func(in ssa.Instruction) {
		if cl, ok := in.(*ssa.Call); ok && cl.Call.StaticCallee() != nil && helperSet[cl.Call.StaticCallee()] {
			g := cl.Call.StaticCallee()
			for i, p := range g.Params {
				if i < len(cl.Call.Args) {
					helperSubst[sx.Of(p).String()] = sx.Of(cl.Call.Args[i]).String()
					helperArg[p] = cl.Call.Args[i]
				}
			}
		}
	})
	inCaller := func(s string) string {
		for from, to := range helperSubst {
			s = strings.ReplaceAll(s, from, to)
		}
		return s
	}
	// hdrOf: a header value in the caller's terms; a header returned by a spliced helper is the value the helper returns
	hdrOf := func(v ssa.Value) string {
		if cl, ok := stripConv(v).(*ssa.Call); ok && cl.Call.StaticCallee() != nil && helperSet[cl.Call.StaticCallee()] {
			if rets := returnsOf(cl.Call.StaticCallee()); len(rets) == 1 && len(rets[0].Results) == 1 {
				return inCaller(sx.Of(rets[0].Results[0]).String())
			}
		}
		return inCaller(sx.Of(v).String())
	}
	idx := func(pred func(*ssa.Call) bool) int {
		for i, cl := range calls {
			if pred(cl) {
				return i
			}
		}
		return -1
	}
	name := func(cl *ssa.Call) string { return shortName(cl.Call.StaticCallee()) }
	ipEncI := idx(func(cl *ssa.Call) bool { return name(cl) == "(dhcpv4/nclient4.ipv4).encode" })
	ipCkI := idx(func(cl *ssa.Call) bool { return name(cl) == "(dhcpv4/nclient4.ipv4).setChecksum" })
	udpEncI := idx(func(cl *ssa.Call) bool { return name(cl) == "(dhcpv4/nclient4.udp).encode" })
	udpCkI := idx(func(cl *ssa.Call) bool { return name(cl) == "(dhcpv4/nclient4.udp).setChecksum" })
	wbI := idx(func(cl *ssa.Call) bool { return strings.HasSuffix(name(cl), "uio.Lexer).WriteBytes") })
	c18NoStaleHeader(c, f, calls, helperArg)
	if ipEncI < 0 || ipCkI < 0 || udpEncI < 0 || udpCkI < 0 || wbI < 0 {
		r.Violation("C18-K6", key("steps present"), c.P.pos(f.Pos()), fmt.Sprintf("encode/setChecksum/WriteBytes calls: %d %d %d %d %d", ipEncI, ipCkI, udpEncI, udpCkI, wbI))
		return
	}
	r.Check(ipEncI < ipCkI, "C18-K6", key("IP checksum written after the other IP header fields"), c.P.ipos(calls[ipCkI]), "call order", "the IP checksum is computed/written before the header is complete")
	r.Check(udpEncI < udpCkI, "C18-K6", key("UDP checksum written after the other UDP header fields"), c.P.ipos(calls[udpCkI]), "call order", "the UDP checksum is computed/written before the header is complete")
	s1 := sx.Of(calls[ipCkI].Call.Args[1]).String()
	r.Check(strings.HasPrefix(s1, "un[^](call[(dhcpv4/nclient4.ipv4).calculateChecksum]("), "C18-K6", key("IP checksum is the complement of the sum over the header"), c.P.ipos(calls[ipCkI]), "symx", "IP checksum value is "+s1)
	s2 := sx.Of(calls[udpCkI].Call.Args[1]).String()
	okU := strings.HasPrefix(s2, "un[^](call[(dhcpv4/nclient4.udp).calculateChecksum](") && strings.Contains(s2, "call[dhcpv4/nclient4.checksum]("+packet+",call[dhcpv4/nclient4.pseudoHeaderchecksum](") && strings.Contains(s2, "udp).length](")
	r.Check(okU, "C18-K6", key("UDP checksum is the complement of the sum over pseudo-header, header and payload"), c.P.ipos(calls[udpCkI]), "symx", "UDP checksum value is "+s2)
	// both setChecksum receivers are the headers just written
	r.Check(hdrOf(calls[ipCkI].Call.Args[0]) == hdrOf(calls[ipEncI].Call.Args[0]) && strings.Contains(sx.Of(calls[ipEncI].Call.Args[0]).String(), "WriteN]") && strings.HasSuffix(hdrOf(calls[ipEncI].Call.Args[0]), ",const(20))"),
		"C18-K5", key("IP header occupies the first 20 bytes"), c.P.ipos(calls[ipEncI]), "symx: WriteN(20)", "IP header slice is "+sx.Of(calls[ipEncI].Call.Args[0]).String())
	r.Check(hdrOf(calls[udpCkI].Call.Args[0]) == hdrOf(calls[udpEncI].Call.Args[0]) && strings.HasSuffix(hdrOf(calls[udpEncI].Call.Args[0]), ",const(8))"),
		"C18-K5", key("UDP header occupies the next 8 bytes"), c.P.ipos(calls[udpEncI]), "symx: WriteN(8)", "UDP header slice is "+hdrOf(calls[udpEncI].Call.Args[0])+"; the checksum is stored through "+hdrOf(calls[udpCkI].Call.Args[0]))
	// order of the two WriteN and the payload
	var wn []int
	for i, cl := range calls {
		if strings.HasSuffix(name(cl), "uio.Buffer).WriteN") {
			wn = append(wn, i)
		}
	}
	r.Check(len(wn) == 2 && wn[0] < wn[1] && wn[1] < wbI, "C18-K5", key("frame is IP header, UDP header, payload in this order"), c.P.pos(f.Pos()), "order of WriteN(20), WriteN(8), WriteBytes", fmt.Sprintf("%d WriteN calls, payload at %d", len(wn), wbI))
	r.Check(sx.Of(calls[wbI].Call.Args[1]).String() == packet, "C18-K5", key("payload appended verbatim"), c.P.ipos(calls[wbI]), "symx", "WriteBytes argument is "+sx.Of(calls[wbI].Call.Args[1]).String())
	for _, ret := range returnsOf(f) {
		s := sx.Of(ret.Results[0]).String()
		r.Check(strings.Contains(s, "uio.Buffer).Data]"), "C18-K5", key("returns the assembled buffer"), c.P.ipos(ret), "symx", "returns "+s)
	}
	// pseudo-header: src, dst, {0, proto}
	if ph := c.P.Func(nc4 + ".pseudoHeaderchecksum"); ph != nil {
		s := sx.Of(returnsOf(ph)[0].Results[0]).String()
		a, b := sx.Of(ph.Params[1]).String(), sx.Of(ph.Params[2]).String()
		ok := strings.Contains(s, "call[dhcpv4/nclient4.checksum](conv[[]byte]("+a+"),const(0))") || strings.Contains(s, "checksum]("+a+",const(0))")
		ok = ok && strings.Contains(s, b)
		r.Check(ok, "C18-K6", "nclient4.pseudoHeaderchecksum: sums source address, destination address and {0, protocol}", c.P.pos(ph.Pos()), "symx", "pseudo header checksum computes "+s)
	}
	// census of frame builders: the header encoders ipv4.encode / udp.encode are called only by the reviewed builder (and
	// the helpers spliced into it) — any other caller assembles frames by a layout nobody compared with the RFC
	{
		ok := map[*ssa.Function]bool{}
		for _, g := range marshalHelpers(c, f) {
			ok[g] = true
		}
		nCallers := 0
		for _, g := range c.P.ModuleFuncs() {
			if pkgPathOf(g) != nc4 || g.Blocks == nil {
				continue
			}
			allInstrs(g, func(in ssa.Instruction) {
				cl, isCall := in.(*ssa.Call)
				if !isCall || cl.Call.StaticCallee() == nil {
					return
				}
				n := shortName(cl.Call.StaticCallee())
				if n != "(dhcpv4/nclient4.ipv4).encode" && n != "(dhcpv4/nclient4.udp).encode" {
					return
				}
				nCallers++
				r.Check(ok[g], "C18-K5", "nclient4: "+n+" is called only by the reviewed frame builder udp4pkt (caller "+shortName(g)+")", c.P.ipos(cl), "census of callers of the header encoders",
					shortName(g)+" assembles IPv4/UDP headers outside udp4pkt: a second frame builder whose layout, checksums and buffer handling are not the reviewed ones")
			})
		}
		r.Count("C18-K5-encoder-callers", nCallers)
		r.Expect("C18-K5-encoder-callers", 2)
	}
	// WriteTo wraps every datagram
	for _, g := range c.P.ModuleFuncs() {
		if pkgPathOf(g) == nc4 && g.Name() == "WriteTo" && recvNamed(g) != nil && recvNamed(g).Obj().Name() == "BroadcastRawUDPConn" {
			// every transmission of the raw connection sends a frame built by the reviewed builder from this call's own
			// arguments: a second frame builder (a pooled or in-place variant) is a frame layout nobody reviewed
			var ws []*ssa.Call
			allInstrs(g, func(in ssa.Instruction) {
				if cl, ok := in.(*ssa.Call); ok && isInvokeOf(cl.Common(), "net", "PacketConn", "WriteTo") {
					ws = append(ws, cl)
				}
			})
			if len(ws) == 0 {
				r.Violation("C18-K5", "nclient4.WriteTo: transmits", c.P.pos(g.Pos()), "no PacketConn.WriteTo")
				continue
			}
			want := "call[dhcpv4/nclient4.udp4pkt](" + sx.Of(g.Params[1]).String() + ","
			for _, w := range ws {
				s := sx.Of(w.Call.Args[0]).String()
				r.Check(strings.HasPrefix(s, want) && strings.HasSuffix(s, ",field[boundAddr]("+sx.Of(g.Params[0]).String()+"))"), "C18-K5", "nclient4.WriteTo: sends udp4pkt(b, addr, boundAddr)", c.P.ipos(w), "symx", "transmits "+s)
			}
		}
	}
}

// normSumStr: a symx string whose core is a sum bin[+](…) with nested sums and constants is rewritten to
// sum(<constant total>,<sorted other terms>); conversions around it are kept. Other strings are returned unchanged.
func normSumStr(s string) string {
	pre, core, post := "", s, ""
	for strings.HasPrefix(core, "conv[") && strings.HasSuffix(core, ")") {
		i := strings.Index(core, "](")
		if i < 0 {
			break
		}
		pre += core[:i+2]
		post = ")" + post
		core = core[i+2 : len(core)-1]
	}
	if !strings.HasPrefix(core, "bin[+](") {
		return s
	}
	var k int64
	var terms []string
	var flat func(e string)
	flat = func(e string) {
		if strings.HasPrefix(e, "bin[+](") && strings.HasSuffix(e, ")") {
			in := e[len("bin[+](") : len(e)-1]
			if i := splitTop(in, ","); i >= 0 {
				flat(in[:i])
				flat(in[i+1:])
				return
			}
		}
		if strings.HasPrefix(e, "const(") && strings.HasSuffix(e, ")") {
			var v int64
			if _, err := fmt.Sscanf(e[6:len(e)-1], "%d", &v); err == nil {
				k += v
				return
			}
		}
		terms = append(terms, e)
	}
	flat(core)
	sort.Strings(terms)
	return pre + "sum(" + fmt.Sprint(k) + "," + strings.Join(terms, ",") + ")" + post
}
