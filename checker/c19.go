package main

// C19 — domain-name labels: re-emission rule, length-prefix agreement, pointer arithmetic shape.

import (
	"fmt"
	"go/token"
	"go/types"
	"strings"

	"golang.org/x/tools/go/ssa"
)

func init() { register("C19", true, checkC19) }

const lblPkg = modPath + "/rfc1035label"

func checkC19(c *Ctx) {
	r := c.R
	r.Decides = append(r.Decides,
		"K1 re-emission: (*Labels).ToBytes returns either the stored original or a fresh encoding of the current Labels; the original is returned only when re-parsing it failed or when the names parsed from it equal the current names under an exact, element-wise string comparison; both returns exist",
		"K2 length-prefix agreement: the encoder emits byte(len(part)), the part, and a zero terminator per name (a single zero for the empty name); the decoder treats a zero byte as end of name, a byte with both top bits set as a pointer, anything else as 'next L bytes'",
		"K3 pointer offset: the jump target is the 14-bit big-endian value ((b0 &^ 0xC0) widened, shifted by 8) + b1; decoding starts at offset 0 of the buffer given",
		"K6 every caller of the label decoder in the library hands the decoded set on as decoded (no store, copy or writing callee rooted at it after the decode)",
		"K7 the DHCPv6 options that carry names (domain search list, client FQDN, NTP server FQDN) have the reviewed wire schema: the names go through the label codec, nothing is cached or re-encoded beside it",
		"K4 decoder obligations shared with C03 (bounds, termination), C08 (no retention), C09 (no amplification) are evaluated there")
	r.NotDecided = append(r.NotDecided, "which names RFC 1035/4704 assign to an arbitrary byte string (the decoder is a hand-written state machine; only the structural clauses above are judged)")
	sp := c.P.SSAPkg[lblPkg]
	if sp == nil {
		r.Undecided("C19-K1", "rfc1035label package", "-", "not loaded")
		return
	}
	c19ToBytes(c)
	c19Same(c)
	c19Encoder(c)
	c19Decoder(c)
	e2CheckLayouts(c, "C19-K1", func(name string, f *ssa.Function) bool { return strings.Contains(name, "rfc1035label.Labels)") }, 2)
	// the options that carry names encode and decode them through the label codec and nothing else (wire schema rows)
	e2CheckLayouts(c, "C19-K7", func(name string, f *ssa.Function) bool {
		return strings.Contains(name, "dhcpv6.optDomainSearchList)") || strings.Contains(name, "dhcpv6.OptFQDN)") || strings.Contains(name, "dhcpv6.NTPSuboptionSrvFQDN)")
	}, 6)
	// the decode side of re-emission: what the decoders reject and which fields they set under which condition equal the
	// reviewed set (E8), and the original bytes are kept for every accepted input
	e8CheckRejects(c, "C19-K5", func(n string) bool { return strings.Contains(n, "rfc1035label.") }, 1)
	c19KeepsOriginal(c)
	// users of the decoder hand its result on as decoded (shared C17-K12): a caller that edits the decoded names breaks both
	// "decodes to these names" and "an unmodified set re-emits its original bytes"
	n := 0
	for _, f := range c.P.ModuleFuncs() {
		if f.Parent() != nil || f.Blocks == nil || pkgPathOf(f) == lblPkg || strings.HasSuffix(pkgPathOf(f), "_test") {
			continue
		}
		allInstrs(f, func(in ssa.Instruction) {
			cl, ok := in.(*ssa.Call)
			if !ok || cl.Call.StaticCallee() == nil {
				return
			}
			sf := cl.Call.StaticCallee()
			if pkgPathOf(sf) != lblPkg || !strings.HasPrefix(sf.Name(), "FromBytes") {
				return
			}
			n++
			c17KeepsDecoded(c, "C19-K6", &accInfo{fn: f, decCall: cl})
		})
	}
	r.Count("C19-K6-decode-sites", n)
	r.Expect("C19-K6-decode-sites", 4)
}

// c19KeepsOriginal: (*Labels).FromBytes stores a private copy of its whole input in `original` on every accepting path
// (whatever the input looks like): "an unmodified set re-emits its original bytes" starts here.
func c19KeepsOriginal(c *Ctx) {
	r := c.R
	var f *ssa.Function
	for _, g := range c.P.MethodsNamed("FromBytes") {
		if n := recvNamed(g); n != nil && n.Obj().Name() == "Labels" && pkgPathOf(g) == lblPkg {
			f = g
		}
	}
	key := "rfc1035label.Labels.FromBytes: the whole input is kept as the original bytes on every accepting path"
	if f == nil {
		r.Undecided("C19-K5", key, "-", "not found")
		return
	}
	in := ssa.Value(f.Params[1])
	isWholeCopy := func(v ssa.Value) bool {
		switch x := v.(type) {
		case *ssa.MakeSlice:
			if lenOperand(x.Len) != in {
				return false
			}
			// copy(x, input) somewhere in the function
			ok := false
			allInstrs(f, func(i ssa.Instruction) {
				if cl, isC := i.(*ssa.Call); isC && isBuiltinCall(cl.Common(), "copy") && cl.Call.Args[1] == in {
					dst := cl.Call.Args[0]
					if dst == v {
						ok = true
					}
					// copy(l.original, data) right after l.original = make(…): the destination is a load of the field just stored
					if u, isU := dst.(*ssa.UnOp); isU && u.Op == token.MUL {
						if fa, isFA := u.X.(*ssa.FieldAddr); isFA && fa.X == ssa.Value(f.Params[0]) && derefStruct(fa.X.Type()).Field(fa.Field).Name() == "original" {
							ok = true
						}
					}
				}
			})
			return ok
		case *ssa.Call:
			if isBuiltinCall(x.Common(), "append") && len(x.Call.Args) == 2 && x.Call.Args[1] == in {
				return isEmptyInit(x.Call.Args[0]) || isNilConst(x.Call.Args[0])
			}
			if callee := x.Call.StaticCallee(); callee != nil && (funcKey(callee) == "bytes.Clone" || funcKey(callee) == "slices.Clone") && x.Call.Args[0] == in {
				return true
			}
		}
		return false
	}
	var good []*ssa.Store
	bad := 0
	allInstrs(f, func(i ssa.Instruction) {
		st, ok := i.(*ssa.Store)
		if !ok {
			return
		}
		fa, ok := st.Addr.(*ssa.FieldAddr)
		if !ok || derefStruct(fa.X.Type()) == nil || derefStruct(fa.X.Type()).Field(fa.Field).Name() != "original" {
			return
		}
		if isWholeCopy(st.Val) {
			good = append(good, st)
		} else {
			bad++
		}
	})
	ok := len(good) >= 1 && bad == 0
	why := ""
	if bad > 0 {
		why = "original is also set to something other than a copy of the whole input"
	} else if len(good) == 0 {
		why = "no store of a copy of the whole input into original"
	}
	if ok {
		for _, rt := range returnsOf(f) {
			if len(rt.Results) != 1 || !isNilConst(rt.Results[0]) {
				continue
			}
			dom := false
			for _, st := range good {
				if st.Block() == rt.Block() || st.Block().Dominates(rt.Block()) {
					dom = true
				}
			}
			if !dom {
				ok, why = false, "an accepting return is reached without keeping the input: such a set re-encodes from its names (pointers expanded, partial names completed)"
			}
		}
	}
	r.Check(ok, "C19-K5", key, c.P.pos(f.Pos()), "a store of make(len(input))+copy / append(nil, input...) dominates every nil-error return", why)
}

func lblFunc(c *Ctx, name string) *ssa.Function {
	if f := c.P.Func(lblPkg + "." + name); f != nil {
		return f
	}
	for _, f := range c.P.ModuleFuncs() {
		if pkgPathOf(f) == lblPkg && f.Name() == name {
			return f
		}
	}
	return nil
}

var c19Rule = "C19-K1"

// c19StdEqual: ToBytes compares the name lists with slices.Equal (set by c19ToBytes, read by c19Same)
var c19StdEqual bool

func c19ToBytes(c *Ctx) {
	r, sx := c.R, c.Sx()
	var f *ssa.Function
	for _, g := range c.P.MethodsNamed("ToBytes") {
		if pkgPathOf(g) == lblPkg {
			f = g
		}
	}
	if f == nil {
		r.Undecided(c19Rule, "Labels.ToBytes", "-", "not found")
		return
	}
	key := func(s string) string { return "rfc1035label.Labels.ToBytes: " + s }
	recv := sx.Of(f.Params[0]).String()
	orig := "field[original](" + recv + ")"
	cur := "field[Labels](" + recv + ")"
	var parse, sameCall *ssa.Call
	allInstrs(f, func(in ssa.Instruction) {
		if cl, ok := in.(*ssa.Call); ok && cl.Call.StaticCallee() != nil {
			nm := cl.Call.StaticCallee().Name()
			if o := cl.Call.StaticCallee().Origin(); o != nil {
				nm = o.Name()
			}
			switch nm {
			case "labelsFromBytes":
				parse = cl
			case "same":
				sameCall = cl
			case "Equal":
				// slices.Equal: the standard-library form of the same exact, element-wise comparison
				if o := cl.Call.StaticCallee().Origin(); o != nil && funcKey(o) == "slices.Equal" {
					sameCall = cl
					c19StdEqual = true
				}
			}
		}
	})
	if parse == nil || sameCall == nil {
		r.Violation(c19Rule, key("original is re-parsed and compared"), c.P.pos(f.Pos()), fmt.Sprintf("labelsFromBytes call: %v, same call: %v — the decision to re-emit the original no longer depends on comparing its names with the current ones", parse != nil, sameCall != nil))
		return
	}
	r.Check(sx.Of(parse.Call.Args[0]).String() == orig, c19Rule, key("the bytes re-parsed are the stored original"), c.P.ipos(parse), "symx", "re-parses "+sx.Of(parse.Call.Args[0]).String())
	a0, a1 := sx.Of(sameCall.Call.Args[0]).String(), sx.Of(sameCall.Call.Args[1]).String()
	parsed := sx.Of(extractOf(parse, 0)).String()
	r.Check((a0 == parsed && a1 == cur) || (a1 == parsed && a0 == cur), c19Rule, key("compares the names parsed from the original with the current names"), c.P.ipos(sameCall), "symx", "same("+a0+", "+a1+")")
	perr := extractOf(parse, 1)
	var origRet, freshRet *ssa.Return
	for _, ret := range returnsOf(f) {
		s := sx.Of(ret.Results[0]).String()
		switch {
		case s == orig:
			origRet = ret
		case strings.HasPrefix(s, "call[rfc1035label.labelsToBytes]("+cur):
			freshRet = ret
		default:
			r.Violation(c19Rule, key("returns the original or a fresh encoding"), c.P.ipos(ret), "returns "+s)
		}
	}
	r.Check(origRet != nil && freshRet != nil, c19Rule, key("both re-emission paths exist"), c.P.pos(f.Pos()), "two returns", fmt.Sprintf("original path: %v, fresh path: %v", origRet != nil, freshRet != nil))
	if origRet == nil || perr == nil {
		return
	}
	// original returned only under err != nil or same(...) == true
	var edges []Edge
	for _, b := range f.Blocks {
		iff := ifOf(b)
		if iff == nil {
			continue
		}
		if _, nn, ok := nilEdgesOf(iff, func(v ssa.Value) bool { return v == ssa.Value(perr) }); ok {
			edges = append(edges, nn)
		}
		if tE, _, ok := boolEdgesOf(iff, func(v ssa.Value) bool { return v == ssa.Value(sameCall) }); ok {
			edges = append(edges, tE)
		}
	}
	r.Check(len(edges) == 2 && mustPassEdges(f, origRet.Block(), edges...), c19Rule, key("original re-emitted only if it does not parse or its names equal the current names"), c.P.ipos(origRet), "must-pass {parse error, same == true}",
		"the stored original can be returned although the names were changed (a modified label set re-encodes to its old bytes)")
	// fresh path requires same == false (or original nil)
	if freshRet != nil {
		ok := false
		for _, b := range f.Blocks {
			if iff := ifOf(b); iff != nil {
				if _, fE, k := boolEdgesOf(iff, func(v ssa.Value) bool { return v == ssa.Value(sameCall) }); k {
					// fresh return reachable through the false edge
					if reachFrom(fE.To, nil, nil)[freshRet.Block()] || fE.To == freshRet.Block() {
						ok = true
					}
				}
			}
		}
		r.Check(ok, c19Rule, key("changed names are re-encoded"), c.P.ipos(freshRet), "fresh encoding reachable from same == false", "")
	}
}

// c19Same: exact element-wise comparison
func c19Same(c *Ctx) {
	r, sx := c.R, c.Sx()
	f := lblFunc(c, "same")
	if f == nil {
		if c19StdEqual {
			r.OK(c19Rule, "rfc1035label: names are compared with slices.Equal", "-", "exact element-wise comparison of the standard library", "")
			return
		}
		r.Undecided(c19Rule, "rfc1035label.same", "-", "not found")
		return
	}
	key := func(s string) string { return "rfc1035label.same: " + s }
	a, b := f.Params[0], f.Params[1]
	as, bs := sx.Of(a).String(), sx.Of(b).String()
	// no calls other than len
	clean := true
	allInstrs(f, func(in ssa.Instruction) {
		if cl, ok := in.(*ssa.Call); ok && !isBuiltinCall(cl.Common(), "len") {
			clean = false
			r.Violation(c19Rule, key("exact comparison (no helper calls)"), c.P.ipos(cl), "calls "+calleeName(cl.Common())+": names are compared through a transformation (case folding, joining …), so some edits of the name list are not seen and the stale original is re-emitted")
		}
	})
	// length guard
	lenGuard, elemCmp := false, false
	var elemIf *ssa.If
	for _, blk := range f.Blocks {
		iff := ifOf(blk)
		if iff == nil {
			continue
		}
		bo, ok := iff.Cond.(*ssa.BinOp)
		if !ok {
			continue
		}
		s := sx.Of(bo).String()
		if s == "bin[!=](len("+as+"),len("+bs+"))" || s == "bin[!=](len("+bs+"),len("+as+"))" {
			if ret, ok := blk.Succs[0].Instrs[len(blk.Succs[0].Instrs)-1].(*ssa.Return); ok && sx.Of(ret.Results[0]).String() == "const(false)" {
				lenGuard = true
			}
		}
		if bo.Op == token.NEQ {
			if bt, ok := bo.X.Type().Underlying().(*types.Basic); ok && bt.Info()&types.IsString != 0 {
				xs, ys := sx.Of(bo.X).String(), sx.Of(bo.Y).String()
				if strings.HasPrefix(xs, "elem("+as+",") && strings.HasPrefix(ys, "elem("+bs+",") && xs[len("elem("+as+","):] == ys[len("elem("+bs+","):] {
					if ret, ok := blk.Succs[0].Instrs[len(blk.Succs[0].Instrs)-1].(*ssa.Return); ok && sx.Of(ret.Results[0]).String() == "const(false)" {
						elemCmp, elemIf = true, iff
					}
				}
			}
		}
	}
	r.Check(lenGuard, c19Rule, key("different lengths are unequal"), c.P.pos(f.Pos()), "len(a) != len(b) ⇒ false", "no length comparison returning false")
	r.Check(elemCmp && clean, c19Rule, key("a[i] != b[i] at the same index ⇒ false"), c.P.pos(f.Pos()), "string inequality of same-index elements returns false", "no exact element-wise comparison")
	if elemIf != nil {
		r.Check(inCycle(elemIf.Block()), c19Rule, key("every index is compared"), c.P.ipos(elemIf), "comparison inside the index loop", "the element comparison is not in a loop")
	}
	for _, ret := range returnsOf(f) {
		if sx.Of(ret.Results[0]).String() == "const(true)" {
			r.Check(!inCycle(ret.Block()), c19Rule, key("true only after the loop"), c.P.ipos(ret), "return true outside the loop", "returns true inside the loop")
		}
	}
}

// c19ListEncoder: labelsToBytes is the plain concatenation of the per-name encodings, in order, for every list:
// one scan over the argument, the accumulator grows by append(acc, labelToBytes(name)...) on every iteration, every
// return yields the accumulator after the scan. (No compression pointers, no size-dependent alternative form: DHCPv6
// forbids compression (RFC 8415 §10) and the decoder of the peer need not implement it.)
// perNameEncoder: the function that encodes ONE name, found by role: the module function the list encoder calls in
// its scan with the scanned element — either `acc = append(acc, enc(name)...)` (returns a fresh encoding) or
// `acc = enc(acc, name)` (append style: extends and returns its first argument). nameIdx / dstIdx are the positions of
// the name and of the destination parameter (dstIdx = -1 for the first style).
func perNameEncoder(c *Ctx) (per *ssa.Function, nameIdx, dstIdx int) {
	f := lblFunc(c, "labelsToBytes")
	if f == nil {
		return nil, -1, -1
	}
	sx := c.Sx()
	for _, l := range findScanLoops(f) {
		if l.coll != ssa.Value(f.Params[0]) {
			continue
		}
		el := l.elems(sx)
		for b := range l.loop {
			for _, in := range b.Instrs {
				cl, ok := in.(*ssa.Call)
				if !ok || cl.Call.StaticCallee() == nil || !inModule(cl.Call.StaticCallee()) || pkgPathOf(cl.Call.StaticCallee()) != lblPkg {
					continue
				}
				ni, di := -1, -1
				for ai, a := range cl.Call.Args {
					if el[a] {
						ni = ai
					} else if _, isSl := a.Type().Underlying().(*types.Slice); isSl {
						di = ai
					}
				}
				if ni >= 0 {
					return cl.Call.StaticCallee(), ni, di
				}
			}
		}
	}
	return nil, -1, -1
}

// c19ListEncoder: labelsToBytes is the plain concatenation of the per-name encodings, in order, for every list:
// one scan over the argument, the accumulator grows by the encoding of each name on every iteration (either style of
// perNameEncoder), every return yields the accumulator after the scan. (No compression pointers, no size-dependent
// alternative form: DHCPv6 forbids compression (RFC 8415 §10) and the decoder of the peer need not implement it.)
func c19ListEncoder(c *Ctx) {
	r, sx := c.R, c.Sx()
	f := lblFunc(c, "labelsToBytes")
	per, nameIdx, dstIdx := perNameEncoder(c)
	key := "rfc1035label.labelsToBytes: the encoding of a list is the concatenation of the encodings of its names, in order, on every path"
	if f == nil || per == nil {
		r.Undecided("C19-K2", key, "-", "the list encoder labelsToBytes or the per-name encoder it calls in its scan was not found")
		return
	}
	// the scan that encodes: a scan loop with a call of the per-name encoder or an append in it; a scan that only adds up
	// sizes (to pre-size the buffer) has neither and is not part of the encoding
	var ls []*scanLoop
	for _, l0 := range findScanLoops(f) {
		encodes := false
		for b := range l0.loop {
			for _, in := range b.Instrs {
				if cl, ok := in.(*ssa.Call); ok && (cl.Call.StaticCallee() == per || isBuiltinCall(cl.Common(), "append")) {
					encodes = true
				}
			}
		}
		if encodes {
			ls = append(ls, l0)
		}
	}
	if len(ls) != 1 || ls[0].coll != ssa.Value(f.Params[0]) {
		r.Undecided("C19-K2", key, c.P.pos(f.Pos()), "not one ascending scan of the argument (idiom not recognised)")
		return
	}
	l := ls[0]
	el := l.elems(sx)
	ok, why := true, ""
	if len(l.sideExits()) > 0 {
		ok, why = false, "the scan can stop early"
	}
	var acc *ssa.Phi
	var app *ssa.Call
	for _, in := range l.hdr.Instrs {
		ph, isPhi := in.(*ssa.Phi)
		if !isPhi {
			break
		}
		if _, isSl := ph.Type().Underlying().(*types.Slice); !isSl {
			continue
		}
		good := true
		var a *ssa.Call
		for i, e := range ph.Edges {
			if !l.loop[l.hdr.Preds[i]] {
				good = good && isEmptyInit(e)
				continue
			}
			cl, isCall := e.(*ssa.Call)
			if !isCall {
				good = false
				continue
			}
			switch {
			case isBuiltinCall(cl.Common(), "append") && len(cl.Call.Args) == 2 && cl.Call.Args[0] == ssa.Value(ph):
				enc, isEnc := cl.Call.Args[1].(*ssa.Call)
				if !isEnc || enc.Call.StaticCallee() != per || dstIdx >= 0 || nameIdx >= len(enc.Call.Args) || !el[enc.Call.Args[nameIdx]] {
					good = false
					continue
				}
				a = cl
			case cl.Call.StaticCallee() == per && dstIdx >= 0 && dstIdx < len(cl.Call.Args) && cl.Call.Args[dstIdx] == ssa.Value(ph) && el[cl.Call.Args[nameIdx]]:
				a = cl
			default:
				good = false
			}
		}
		if good && a != nil {
			acc, app = ph, a
		}
	}
	if acc == nil {
		ok, why = false, "no accumulator that starts empty and grows by the encoding of each name on every iteration"
	}
	if ok {
		gc := newGuardCache(c)
		for _, rt := range returnsOf(f) {
			// `if len(names) == 0 { return nil }`: the concatenation over no names
			if len(rt.Results) == 1 && isEmptyInit(rt.Results[0]) {
				lo, hi := gc.lenBounds(rt.Block(), func(v ssa.Value) bool { return lenOperand(v) == ssa.Value(f.Params[0]) })
				if lo == 0 && hi == 0 {
					continue
				}
			}
			if len(rt.Results) != 1 || rt.Results[0] != ssa.Value(acc) || !(rt.Block() == l.done || l.done.Dominates(rt.Block())) {
				ok, why = false, "a return yields something other than the concatenation (an alternative encoding on some path)"
			}
		}
	}
	pos := c.P.pos(f.Pos())
	if app != nil {
		pos = c.P.ipos(app)
	}
	r.Check(ok, "C19-K2", key, pos, "scan loop, unconditional extension by the per-name encoding, accumulator returned", why)
}

func c19Encoder(c *Ctx) {
	c19ListEncoder(c)
	r, sx := c.R, c.Sx()
	f, nameIdx, dstIdx := perNameEncoder(c)
	if f == nil {
		r.Undecided("C19-K2", "rfc1035label: per-name encoder", "-", "the function labelsToBytes calls with each name was not found")
		return
	}
	// append style: everything the encoder emits is appended onto its destination parameter, which every return hands back
	if dstIdx >= 0 {
		dst := ssa.Value(f.Params[dstIdx])
		visiting := map[ssa.Value]bool{}
		var onDst func(v ssa.Value, d int) bool
		onDst = func(v ssa.Value, d int) bool {
			if v == dst || visiting[v] {
				return true
			}
			if d > 12 {
				return false
			}
			switch t := v.(type) {
			case *ssa.Phi:
				visiting[v] = true
				defer delete(visiting, v)
				for _, e := range t.Edges {
					if e != v && !onDst(e, d+1) {
						return false
					}
				}
				return true
			case *ssa.Call:
				return isBuiltinCall(t.Common(), "append") && onDst(t.Call.Args[0], d+1)
			}
			return false
		}
		okDst := true
		for _, rt := range returnsOf(f) {
			okDst = okDst && len(rt.Results) == 1 && onDst(rt.Results[0], 0)
		}
		r.Check(okDst, "C19-K2", "rfc1035label."+f.Name()+": extends the destination it is given and returns it", c.P.pos(f.Pos()), "every result is a chain of appends onto the destination parameter", "the encoder returns something other than its destination extended by the name")
	}
	key := func(s string) string { return "rfc1035label." + f.Name() + ": " + s }
	var appends []*ssa.Call
	allInstrs(f, func(in ssa.Instruction) {
		if cl, ok := in.(*ssa.Call); ok && isBuiltinCall(cl.Common(), "append") {
			appends = append(appends, cl)
		}
	})
	hasLen, hasPart, hasZero := false, false, false
	zeroApps := map[*ssa.Call]bool{}
	var lenApp, partApp *ssa.Call
	for _, ap := range appends {
		s := sx.Of(ap.Call.Args[1]).String()
		// single-element append: the element stored into the varargs array
		if sl, ok := ap.Call.Args[1].(*ssa.Slice); ok {
			if al, ok := sl.X.(*ssa.Alloc); ok && al.Comment == "varargs" {
				for _, ref := range *al.Referrers() {
					if ia, ok := ref.(*ssa.IndexAddr); ok {
						for _, r2 := range *ia.Referrers() {
							if st, ok := r2.(*ssa.Store); ok {
								s = sx.Of(st.Val).String()
							}
						}
					}
				}
			}
		}
		switch {
		case (strings.Contains(s, "conv[uint8](len(") || strings.Contains(s, "conv[byte](len(")) && inCycle(ap.Block()):
			hasLen, lenApp = true, ap
		case (strings.Contains(s, "conv[[]byte](") || isStringTyped(ap.Call.Args[1])) && inCycle(ap.Block()):
			hasPart, partApp = true, ap
		case !inCycle(ap.Block()):
			// terminator: append(encoded, 0)
			if sl, ok := ap.Call.Args[1].(*ssa.Slice); ok {
				if al, ok := sl.X.(*ssa.Alloc); ok {
					for _, ref := range *al.Referrers() {
						if ia, ok := ref.(*ssa.IndexAddr); ok {
							for _, r2 := range *ia.Referrers() {
								if st, ok := r2.(*ssa.Store); ok {
									if k, ok := intConst(st.Val); ok && k == 0 {
										hasZero = true
										zeroApps[ap] = true
									}
								}
							}
						}
					}
					if isZeroAlloc(al) {
						hasZero = true
						zeroApps[ap] = true
					}
				}
			}
		}
	}
	r.Check(hasLen && hasPart, "C19-K2", key("each part is emitted as byte(len(part)) followed by the part"), c.P.pos(f.Pos()), "two appends in the part loop", fmt.Sprintf("length append: %v, part append: %v", hasLen, hasPart))
	if lenApp != nil && partApp != nil {
		r.Check(instrDominates(lenApp, partApp), "C19-K2", key("length byte precedes the part"), c.P.ipos(partApp), "dominance", "the part is appended before its length")
		// same part
		ls, ps := sx.Of(lenApp.Call.Args[1]).String(), sx.Of(partApp.Call.Args[1]).String()
		_ = ls
		_ = ps
	}
	r.Check(hasZero, "C19-K2", key("a name ends with a zero byte"), c.P.pos(f.Pos()), "append(…, 0) after the loop", "no zero terminator is appended")
	// … on every path: each returned value is the terminating append itself or the one-byte literal {0}
	var endsZero func(v ssa.Value, d int) bool
	endsZero = func(v ssa.Value, d int) bool {
		if d > 4 {
			return false
		}
		switch t := v.(type) {
		case *ssa.Call:
			return zeroApps[t]
		case *ssa.Phi:
			for _, e := range t.Edges {
				if !endsZero(e, d+1) {
					return false
				}
			}
			return true
		case *ssa.Slice:
			if al, ok := t.X.(*ssa.Alloc); ok {
				if at, ok := al.Type().(*types.Pointer).Elem().Underlying().(*types.Array); ok && at.Len() == 1 {
					zero := true
					for _, ref := range *al.Referrers() {
						if ia, ok := ref.(*ssa.IndexAddr); ok {
							for _, r2 := range *ia.Referrers() {
								if st, ok := r2.(*ssa.Store); ok {
									if k, ok := intConst(st.Val); !ok || k != 0 {
										zero = false
									}
								}
							}
						}
					}
					return zero
				}
			}
		}
		return false
	}
	for _, ret := range returnsOf(f) {
		r.Check(len(ret.Results) == 1 && endsZero(ret.Results[0], 0), "C19-K2", key("every returned encoding ends with the zero byte"), c.P.ipos(ret), "result is append(…, 0) or the literal {0}",
			"a name can be returned without its terminating zero: the decoder runs it into the next name")
	}
	// split on "."
	okSplit := false
	allInstrs(f, func(in ssa.Instruction) {
		if cl, ok := in.(*ssa.Call); ok && isFuncCall(cl.Common(), "strings", "Split") {
			if sx.Of(cl.Call.Args[1]).String() == `const(".")` && cl.Call.Args[0] == ssa.Value(f.Params[nameIdx]) {
				okSplit = true
			}
		}
	})
	r.Check(okSplit, "C19-K2", key("parts are the dot-separated components of the name"), c.P.pos(f.Pos()), `strings.Split(label, ".")`, "the name is not split on dots")
}

func c19Decoder(c *Ctx) {
	r, sx := c.R, c.Sx()
	f := lblFunc(c, "labelsFromBytes")
	if f == nil {
		r.Undecided("C19-K2", "rfc1035label.labelsFromBytes", "-", "not found")
		return
	}
	key := func(s string) string { return "rfc1035label.labelsFromBytes: " + s }
	buf := f.Params[0]
	// the length byte: conv int (buf[pos])
	var zeroIf, ptrIf *ssa.If
	for _, b := range f.Blocks {
		iff := ifOf(b)
		if iff == nil {
			continue
		}
		s := sx.Of(iff.Cond).String()
		if strings.HasPrefix(s, "bin[==](const(0),conv[int](elem("+sx.Of(buf).String()+",") {
			zeroIf = iff
		}
		if strings.HasPrefix(s, "bin[==](bin[&](const(192),conv[int](elem(") || strings.HasPrefix(s, "bin[==](const(192),bin[&](const(192),conv[int](elem(") {
			ptrIf = iff
		}
	}
	r.Check(zeroIf != nil, "C19-K2", key("a zero length byte ends the current name"), c.P.pos(f.Pos()), "test length == 0", "no test of the length byte against zero")
	r.Check(ptrIf != nil, "C19-K2", key("a byte with both top bits set is a compression pointer"), c.P.pos(f.Pos()), "test length & 0xC0 == 0xC0", "no pointer test (length & 0xC0 == 0xC0)")
	if zeroIf != nil {
		// on the zero edge the finished name is appended to the result list
		t := zeroIf.Block().Succs[0]
		okApp := false
		for _, in := range t.Instrs {
			if cl, ok := in.(*ssa.Call); ok && isBuiltinCall(cl.Common(), "append") {
				okApp = true
			}
		}
		r.Check(okApp, "C19-K2", key("the finished name is appended on the zero byte"), c.P.ipos(zeroIf), "append on the zero edge", "")
	}
	// the label branch: chunk = string(buf[pos : pos+length]) with the same length byte
	okChunk := false
	allInstrs(f, func(in ssa.Instruction) {
		if sl, ok := in.(*ssa.Slice); ok && sl.X == ssa.Value(buf) && sl.Low != nil && sl.High != nil {
			lo, hi := sx.Of(sl.Low).String(), sx.Of(sl.High).String()
			if strings.HasPrefix(hi, "bin[+](") && strings.Contains(hi, lo[:len(lo)-1]) || strings.Contains(hi, "conv[int](elem(") {
				okChunk = true
			}
		}
	})
	r.Check(okChunk, "C19-K2", key("a label of length L is the next L bytes"), c.P.pos(f.Pos()), "buf[pos : pos+length]", "no slice buf[pos:pos+length]")
	// K3 pointer offset shape: find the cursor φ edge that is input-derived
	var jump ssa.Value
	for _, hdr := range loopHeaders(f) {
		for _, p := range headerPhis(hdr) {
			if p.Comment != "pos" && !strings.Contains(p.Comment, "pos") {
				continue
			}
			for _, e := range p.Edges {
				if bo, ok := e.(*ssa.BinOp); ok && bo.Op == token.ADD {
					if hasShift(bo.X, 0) || hasShift(bo.Y, 0) {
						jump = bo
					}
				}
				// the two-byte expression may sit in a straight-line helper (pointerOffset(hi, lo)): judged inlined
				if cl, ok := e.(*ssa.Call); ok {
					if g := cl.Call.StaticCallee(); g != nil && inModule(g) && g.Blocks != nil && len(g.Blocks) == 1 && !token.IsExported(g.Name()) {
						if ret, ok := g.Blocks[0].Instrs[len(g.Blocks[0].Instrs)-1].(*ssa.Return); ok && len(ret.Results) == 1 {
							if bo, ok := ret.Results[0].(*ssa.BinOp); ok && bo.Op == token.ADD && (hasShift(bo.X, 0) || hasShift(bo.Y, 0)) {
								jump = cl
							}
						}
					}
				}
			}
		}
	}
	if jump == nil {
		r.Violation("C19-K3", key("pointer offset computed from two bytes"), c.P.pos(f.Pos()), "no jump target of the form (hi << 8) + lo")
		return
	}
	sxI := newSymx(c.P)
	sxI.inline = true
	js := sxI.Of(jump).String()
	bs := sx.Of(buf).String()
	// want: bin[+](bin[<<](conv[int](bin[&^](elem(buf,P-1),const(192))),const(8)),conv[int](elem(buf,P)))
	okShape := strings.HasPrefix(js, "bin[+](bin[<<](conv[int](bin[&^](elem("+bs+",") && strings.Contains(js, ",const(192))),const(8)),conv[int](elem("+bs+",")
	r.Check(okShape, "C19-K3", key("pointer offset is ((b0 &^ 0xC0) widened) << 8 + b1"), c.P.ipos(jump.(ssa.Instruction)), "symx shape",
		"the jump target is "+js+": the high six bits must be widened to int before the shift (a shift on a byte always yields 0) and combined with the next byte")
	// decoding starts at position 0
	for _, hdr := range loopHeaders(f) {
		for _, p := range headerPhis(hdr) {
			if p.Comment == "pos" {
				for i, e := range p.Edges {
					if !sccOf(hdr)[hdr.Preds[i]] {
						k, ok := intConst(e)
						r.Check(ok && k == 0, "C19-K3", key("decoding starts at offset 0"), c.P.ipos(p), "initial cursor 0", "initial cursor is "+sx.Of(e).String())
					}
				}
			}
		}
	}
}

// hasShift: the operand is (or is a conversion of) a left shift
func hasShift(v ssa.Value, d int) bool {
	if d > 2 {
		return false
	}
	switch t := v.(type) {
	case *ssa.BinOp:
		return t.Op == token.SHL
	case *ssa.Convert:
		return hasShift(t.X, d+1)
	}
	return false
}

// isStringTyped: append(b, s...) with s a string appends the same bytes as append(b, []byte(s)...)
func isStringTyped(v ssa.Value) bool {
	bt, ok := v.Type().Underlying().(*types.Basic)
	return ok && bt.Info()&types.IsString != 0
}
