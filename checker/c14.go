package main

// C14 — servers dispatch each valid datagram exactly once and survive bad ones.
// Structural rules on the serve loops of server4 and server6 (DESIGN §5 C14).

import (
	"fmt"
	"go/token"
	"go/types"
	"strings"

	"golang.org/x/tools/go/ssa"
)

func init() { register("C14", true, checkC14) }

type serveAnchors struct {
	fn       *ssa.Function
	goIns    []*ssa.Go
	read     *ssa.Call // conn.ReadFrom
	decode   *ssa.Call // dhcpvX.FromBytes
	loop     map[*ssa.BasicBlock]bool
	pkgShort string
}

// sccOf returns the strongly connected component containing b (nil if b is
// not on a cycle).
func sccOf(b *ssa.BasicBlock) map[*ssa.BasicBlock]bool {
	fw := reachFromSuccs(b, nil, nil)
	if !fw[b] {
		return nil
	}
	out := map[*ssa.BasicBlock]bool{}
	for x := range fw {
		if reachFromSuccs(x, nil, nil)[b] {
			out[x] = true
		}
	}
	return out
}

func checkC14(c *Ctx) {
	r := c.R
	r.Decides = append(r.Decides,
		"K1 the serve loop is left only on the ReadFrom-error edge (no other return, panic or break)",
		"K2 the decode-error edge returns to the read without starting a handler",
		"K3 every path from decode success back to the read starts exactly one handler goroutine with (s.conn, peer', decoded message); frozen exception: server4 skips a peer that is not *net.UDPAddr",
		"K4 the read buffer is allocated inside the loop, the decoder is given exactly rbuf[:n], and the decoded message does not alias the buffer (E3, shared with C08)",
		"K5 (v4) peer rewrite to {IPv4bcast, sender port} exactly under IP==nil or To4().Equal(IPv4zero)",
		"K6 Close deferred on entry; Close closes the connection",
		"K7 the handler field Serve reads is only ever set to the handler parameter the caller passed (no wrapper)",
		"K8 the panic obligations (E4, including results used although their error was dropped) of the serve methods and of every function they call synchronously outside the decoder closure are closed")
	r.NotDecided = append(r.NotDecided,
		"handler concurrency and socket behaviour", "arbitrary datagram histories (only the per-iteration structure is judged)",
		"equality of the decoded message with the datagram's decoding beyond 'decoder receives rbuf[:n]' (C01/C02/C04/C05)")
	r.Expect("C14-serve-loops", 2)
	c14HandlerField(c, modPath+"/dhcpv4/server4", "server4")
	c14HandlerField(c, modPath+"/dhcpv6/server6", "server6")
	var serves []*ssa.Function
	for _, pk := range []struct{ path, dec, short string }{
		{modPath + "/dhcpv4/server4", modPath + "/dhcpv4", "server4"},
		{modPath + "/dhcpv6/server6", modPath + "/dhcpv6", "server6"},
	} {
		sp := c.P.SSAPkg[pk.path]
		if sp == nil {
			r.Undecided("C14-anchor", pk.short+": package not loaded", "-", "package "+pk.path+" missing")
			continue
		}
		// role: method on Server with a `go` inside a cycle
		var cands []*ssa.Function
		for _, f := range c.P.ModuleFuncs() {
			if f.Pkg != sp || f.Parent() != nil {
				continue
			}
			n := recvNamed(f)
			if n == nil || n.Obj().Name() != "Server" {
				continue
			}
			has := false
			allInstrs(f, func(in ssa.Instruction) {
				if g, ok := in.(*ssa.Go); ok && inCycle(g.Block()) {
					has = true
				}
			})
			if has {
				cands = append(cands, f)
			}
		}
		if len(cands) != 1 {
			r.Undecided("C14-anchor", pk.short+": serve loop", "-", fmt.Sprintf("expected exactly one Server method spawning goroutines in a loop, found %d", len(cands)))
			continue
		}
		r.Count("C14-serve-loops", 1)
		c14Serve(c, cands[0], pk.dec, pk.short)
		serves = append(serves, cands[0])
	}
	// K8: nothing the loop itself executes (synchronously, outside the handler goroutine) can panic: the panic
	// obligations of the serve methods and of what they call besides the decoders (whose closure is C03's)
	if len(serves) > 0 {
		e, err := newE4(c, "C14-K8")
		if err != nil {
			r.Undecided("C14-K8", "compiler diagnostics / ledger", "-", err.Error())
			return
		}
		e.ledgerPrefix = "C03-K1"
		dec := map[*ssa.Function]bool{}
		for _, f := range closureOf(c.P, c03Roots(c)) {
			dec[f] = true
		}
		var funcs []*ssa.Function
		for _, f := range closureOf(c.P, serves) {
			if !dec[f] || f == serves[0] || (len(serves) > 1 && f == serves[1]) {
				funcs = append(funcs, f)
			}
		}
		res := e.run(funcs)
		e4Nil(e, funcs, res)
		r.Count("C14-K8-functions", len(funcs))
		r.Expect("C14-K8-functions", 2)
	}
}

func c14Serve(c *Ctx, fn *ssa.Function, decPkg, short string) {
	r := c.R
	sx := c.Sx()
	key := func(s string) string { return short + ".Serve: " + s }
	recv := fn.Params[0]

	// --- anchors
	var reads, decodes []*ssa.Call
	var gos []*ssa.Go
	allInstrs(fn, func(in ssa.Instruction) {
		switch x := in.(type) {
		case *ssa.Call:
			if isInvokeOf(x.Common(), "net", "PacketConn", "ReadFrom") {
				reads = append(reads, x)
			}
			if isFuncCall(x.Common(), decPkg, "FromBytes") {
				decodes = append(decodes, x)
			}
		case *ssa.Go:
			gos = append(gos, x)
		}
	})
	if len(reads) != 1 || len(decodes) != 1 || len(gos) == 0 {
		r.Undecided("C14-anchor", key("anchors"), c.P.pos(fn.Pos()),
			fmt.Sprintf("need one PacketConn.ReadFrom, one %s.FromBytes, >=1 go; found %d/%d/%d", decPkg, len(reads), len(decodes), len(gos)))
		return
	}
	read, dec := reads[0], decodes[0]
	loop := sccOf(read.Block())
	if loop == nil {
		r.Violation("C14-K1", key("ReadFrom not in a loop"), c.P.ipos(read), "the read is not inside a cycle: at most one datagram is served")
		return
	}
	if !loop[dec.Block()] {
		r.Violation("C14-K3", key("decode outside loop"), c.P.ipos(dec), "decoder call is not in the serve loop")
		return
	}
	// receiver of ReadFrom is s.conn
	connSx := sx.Of(read.Call.Value).String()
	wantConn := "field[conn](" + sx.Of(recv).String() + ")"
	r.Check(connSx == wantConn, "C14-K3", key("ReadFrom on s.conn"), c.P.ipos(read), "symx", "ReadFrom receiver is "+connSx+", want "+wantConn)

	// --- K1: exits from the loop
	readErr := extractOf(read, 2)
	nExit := 0
	for b := range loop {
		for _, s := range b.Succs {
			if loop[s] {
				continue
			}
			nExit++
			ok := false
			if iff := ifOf(b); iff != nil && readErr != nil {
				if isNilCmp(iff.Cond, readErr, token.NEQ) && b.Succs[0] == s {
					ok = true
				}
				if isNilCmp(iff.Cond, readErr, token.EQL) && b.Succs[1] == s {
					ok = true
				}
			}
			if !ok && readErr != nil {
				// the test may be on a φ that carries the read error out of a merged helper: the exit is unreachable (over
				// feasible paths) once the err != nil edge of the read is removed
				for rb2 := range loop {
					if iff := ifOf(rb2); iff != nil {
						var e Edge
						switch {
						case isNilCmp(iff.Cond, readErr, token.NEQ):
							e = Edge{rb2, rb2.Succs[0]}
						case isNilCmp(iff.Cond, readErr, token.EQL):
							e = Edge{rb2, rb2.Succs[1]}
						default:
							continue
						}
						if !reachFeasible(read.Block(), map[Edge]bool{e: true}, nil)[s] {
							ok = true
						}
					}
				}
			}
			if ok {
				r.OK("C14-K1", key("loop exit on ReadFrom error"), c.P.ipos(b.Instrs[len(b.Instrs)-1]), "exit edge is err!=nil of ReadFrom", "")
			} else {
				r.Violation("C14-K1", key("loop exit "+exitDesc(c, b, s)), c.P.ipos(b.Instrs[len(b.Instrs)-1]),
					"the serve loop can be left on an edge other than the ReadFrom-error edge: a datagram (e.g. a malformed one) stops the server")
			}
		}
		for _, in := range b.Instrs {
			switch x := in.(type) {
			case *ssa.Panic:
				r.Violation("C14-K1", key("panic in loop"), c.P.ipos(in), "explicit panic inside the serve loop")
			case *ssa.Return:
				r.Violation("C14-K1", key("return in loop"), c.P.ipos(in), "return inside loop cycle")
			case *ssa.Call:
				// os.Exit / log.Fatal style terminators
				if f := x.Common().StaticCallee(); f != nil {
					fk := funcKey(f)
					if fk == "os.Exit" || strings.HasPrefix(fk, "log.Fatal") || strings.HasPrefix(fk, "log.Panic") || fk == "runtime.Goexit" {
						r.Violation("C14-K1", key("terminator call "+fk), c.P.ipos(in), "process/goroutine terminator inside the serve loop")
					}
				}
			}
		}
	}
	if nExit == 0 {
		r.Violation("C14-K1", key("no exit on read error"), c.P.ipos(read), "serve loop has no exit: Serve never returns when reading fails")
	}
	// the exit must return the read error
	for _, ret := range returnsOf(fn) {
		if len(ret.Results) == 1 {
			s := sx.Of(feasibleAt(retResult(ret, 0), ret.Block()))
			if readErr != nil && s.String() == sx.Of(readErr).String() {
				r.OK("C14-K1", key("returns the read error"), c.P.ipos(ret), "symx", "")
			} else {
				r.Violation("C14-K1", key("return value "+s.String()), c.P.ipos(ret), "Serve returns something other than the ReadFrom error")
			}
		}
	}

	// --- K4: buffer freshness and decoder argument
	bufArg := read.Call.Args[0]
	bufSx := sx.Of(bufArg)
	var mk ssa.Value
	switch x := bufArg.(type) {
	case *ssa.MakeSlice:
		mk = x
	case *ssa.Slice:
		if a, ok := x.X.(*ssa.Alloc); ok {
			mk = a
		}
	}
	if mk == nil {
		r.Violation("C14-K4", key("read buffer provenance"), c.P.ipos(read), "buffer passed to ReadFrom is not a fresh allocation ("+bufSx.String()+"): handlers running concurrently would see later datagrams")
	} else {
		mi := mk.(ssa.Instruction)
		if !loop[mi.Block()] {
			why := hoistedBufferSafe(c, read, dec, mi)
			r.Check(why == "", "C14-K4", key("read buffer allocated inside loop, or shared by nothing that outlives the iteration"), c.P.ipos(mi), "E3: the decoder keeps no memory of its input; the buffer is only read into, decoded from, measured and copied from",
				"the read buffer is allocated once outside the loop and reused while handlers still run, and "+why)
		} else {
			r.Check(loop[mi.Block()], "C14-K4", key("read buffer allocated inside loop"), c.P.ipos(mi), "allocation block is on the loop cycle",
				"the read buffer is allocated once outside the loop and reused while handlers still run")
		}
	}
	n := extractOf(read, 0)
	decArg := sx.Of(feasibleAt(dec.Call.Args[0], dec.Block())).String()
	wantArg := ""
	if n != nil {
		wantArg = "slice(" + bufSx.String() + ",const(_)," + sx.Of(n).String() + ",const(_))"
	}
	r.Check(decArg == wantArg, "C14-K4", key("decoder receives rbuf[:n]"), c.P.ipos(dec), "symx",
		"decoder argument is "+decArg+", want "+wantArg)
	// no other use of the buffer inside the loop (e.g. handing rbuf itself to the handler)
	if mk != nil {
		for _, ref := range *mk.Referrers() {
			switch u := ref.(type) {
			case *ssa.Slice:
				if u == bufArg {
					continue
				}
				if sx.Of(u).String() == wantArg {
					continue
				}
				r.Violation("C14-K4", key("other use of read buffer"), c.P.ipos(ref), "read buffer used besides ReadFrom/decoder: "+ref.String())
			case *ssa.Call:
				if u == read {
					continue
				}
				r.Violation("C14-K4", key("other use of read buffer"), c.P.ipos(ref), "read buffer used besides ReadFrom/decoder: "+ref.String())
			case *ssa.DebugRef:
			default:
				r.Violation("C14-K4", key("other use of read buffer"), c.P.ipos(ref), "read buffer used besides ReadFrom/decoder: "+ref.String())
			}
		}
	}
	// decoded message does not alias the buffer: E3 retention summary of the decoder
	e3 := getE3(c)
	for _, f := range e3.retentionFindings(dec.Call.StaticCallee(), 0) {
		r.Violation("C14-K4", key("decoded message aliases the read buffer via "+f.short), f.pos, f.detail)
	}
	r.OK("C14-K4", key("decoder retention summary consulted"), c.P.ipos(dec), "E3", "flows(input) of "+shortName(dec.Call.StaticCallee()))
	// … nor memory of a package-level variable (messages of different datagrams share nothing)
	ng := 0
	for _, f := range e3.sharedGlobalFindings(dec.Call.StaticCallee()) {
		ng++
		if ng <= 3 {
			r.Violation("C14-K4", key("decoded message "+f.short), f.pos, f.detail+" — handlers of different datagrams work on shared memory")
		}
	}

	// --- K2/K3: handler dispatch
	decErr := extractOf(dec, 1)
	msg := extractOf(dec, 0)
	var decIf *ssa.If
	var errEdge, okEdge Edge
	if decErr != nil {
		for b := range loop {
			if iff := ifOf(b); iff != nil {
				if isNilCmp(iff.Cond, decErr, token.NEQ) {
					decIf, errEdge, okEdge = iff, Edge{b, b.Succs[0]}, Edge{b, b.Succs[1]}
				} else if isNilCmp(iff.Cond, decErr, token.EQL) {
					decIf, errEdge, okEdge = iff, Edge{b, b.Succs[1]}, Edge{b, b.Succs[0]}
				}
			}
		}
	}
	if decIf == nil {
		r.Violation("C14-K2", key("decode error not tested"), c.P.ipos(dec), "the error result of the decoder is not branched on inside the loop")
		return
	}
	goBlocks := map[*ssa.BasicBlock]bool{}
	for _, g := range gos {
		goBlocks[g.Block()] = true
	}
	rb := read.Block()
	// K3: every datagram that was read is handed to the decoder — no path leads from the read back to the next read without
	// the decode call (a length or content pre-filter in front of the decoder drops datagrams the decoder would accept; which
	// datagrams "decode" is the decoder's verdict alone)
	if dec.Block() != rb {
		reach := reachFeasibleSuccs(rb, nil, map[*ssa.BasicBlock]bool{dec.Block(): true})
		r.Check(!reach[rb], "C14-K3", key("every datagram read reaches the decoder"), c.P.ipos(dec), "no path from the read to the next read avoids the decode call",
			"a datagram can be read and then skipped before it is decoded (a pre-filter on its length or content): datagrams that decode are not dispatched")
	} else {
		r.OK("C14-K3", key("every datagram read reaches the decoder"), c.P.ipos(dec), "read and decode in one block", "")
	}
	// K2: from the error edge, no go before the next read
	{
		reach := reachFeasible(errEdge.To, nil, map[*ssa.BasicBlock]bool{rb: true})
		bad := false
		for b := range reach {
			if goBlocks[b] {
				bad = true
			}
		}
		if errEdge.To == rb {
			bad = false
		}
		r.Check(!bad, "C14-K2", key("decode-error edge starts no handler"), c.P.ipos(decIf), "no go reachable from the error edge before the next read",
			"a handler goroutine can be started for a datagram that failed to decode")
		// the decode-error path must stay in the loop (K1 covers exits)
	}
	// K3: at least one go on every path ok-edge → read, modulo the frozen exception
	removed := map[Edge]bool{}
	if short == "server4" {
		// exception: comma-ok assertion of the peer to *net.UDPAddr failing
		for b := range loop {
			iff := ifOf(b)
			if iff == nil {
				continue
			}
			if ex, ok := iff.Cond.(*ssa.Extract); ok && ex.Index == 1 {
				if ta, ok := ex.Tuple.(*ssa.TypeAssert); ok && ta.CommaOk && namedIs(ta.AssertedType, "net", "UDPAddr") {
					if pe := extractOf(read, 1); pe != nil && (ta.X == ssa.Value(pe) || feasibleAt(ta.X, ta.Block()) == ssa.Value(pe)) {
						removed[Edge{b, b.Succs[1]}] = true
						r.Ledger("C14-K3", key("exception: peer not *net.UDPAddr is skipped"), c.P.ipos(iff), "frozen exception (DESIGN C14-K3)", "precondition on the connection type, outside the property's quantifier")
					}
				}
			}
		}
	}
	{
		blocked := map[*ssa.BasicBlock]bool{}
		for b := range goBlocks {
			blocked[b] = true
		}
		reach := reachFeasible(okEdge.To, removed, blocked)
		skip := reach[rb] && !goBlocks[okEdge.To]
		// also leaving the function without go is an exit (K1), not judged here
		r.Check(!skip, "C14-K3", key("decode success always reaches a handler spawn"), c.P.ipos(decIf), "every path from the success edge to the next read passes a go",
			"a successfully decoded datagram can return to the read without the handler being started (datagram silently dropped)")
	}
	// at most one go per iteration
	for _, g := range gos {
		if !loop[g.Block()] {
			r.Violation("C14-K3", key("go outside loop"), c.P.ipos(g), "handler spawn outside the serve loop")
			continue
		}
		cnt := 0
		for _, in := range g.Block().Instrs {
			if _, ok := in.(*ssa.Go); ok {
				cnt++
			}
		}
		reach := reachFromSuccs(g.Block(), nil, map[*ssa.BasicBlock]bool{rb: true})
		again := cnt > 1
		for b := range reach {
			if goBlocks[b] {
				again = true
			}
		}
		r.Check(!again, "C14-K3", key("at most one handler per datagram"), c.P.ipos(g), "no second go reachable before the next read",
			"the handler can be started twice for one datagram")
		// go must be dominated by the success edge
		r.Check(mustPassEdges(fn, g.Block(), okEdge) || !reachFrom(fn.Blocks[0], map[Edge]bool{okEdge: true}, nil)[g.Block()],
			"C14-K3", key("handler spawn only after decode success"), c.P.ipos(g), "go block unreachable without the decode-success edge",
			"a handler is started on a path that did not pass the decode-success edge")
		// --- callee and arguments
		// idiom: go func() { s.handler(conn, peer, m) }() — judged through the closure body, provided every
		// captured variable is allocated per iteration (inside the loop) or never reassigned
		callCommon := g.Common()
		if mc, isMC := g.Call.Value.(*ssa.MakeClosure); isMC && len(g.Call.Args) == 0 {
			cf := mc.Fn.(*ssa.Function)
			var inner *ssa.Call
			nCalls := 0
			allInstrs(cf, func(in ssa.Instruction) {
				if cl, ok := in.(*ssa.Call); ok {
					if _, isB := cl.Call.Value.(*ssa.Builtin); !isB {
						nCalls++
						inner = cl
					}
				}
			})
			if nCalls != 1 || inner == nil {
				r.Undecided("C14-K3", key("handler closure shape"), c.P.ipos(g), "the spawned closure does not consist of exactly one call")
				continue
			}
			for _, b := range mc.Bindings {
				al, ok := b.(*ssa.Alloc)
				if !ok {
					continue
				}
				nStores := 0
				for _, ref := range *al.Referrers() {
					if st, ok := ref.(*ssa.Store); ok && st.Addr == ssa.Value(al) {
						nStores++
					}
				}
				perIter := loop[al.Block()]
				entryOnly := !loop[al.Block()] && nStores <= 1 && !storedInLoop(al, loop)
				r.Check(perIter || entryOnly, "C14-K4", key("variable "+al.Comment+" captured by the handler goroutine is private to the iteration"), c.P.ipos(al), "captured cell allocated inside the loop (or never reassigned in it)",
					"the handler goroutine reads variable "+al.Comment+", which is declared outside the serve loop and reassigned by later iterations: a handler can see another datagram's message or peer")
			}
			callCommon = inner.Common()
		}
		gCallValue, gCallArgs := callCommon.Value, callCommon.Args
		hv := sx.Of(gCallValue).String()
		okH := strings.HasPrefix(hv, "field[") && strings.HasSuffix(hv, "]("+sx.Of(recv).String()+")") && strings.Contains(strings.ToLower(hv), "handler")
		if _, isSig := gCallValue.Type().Underlying().(*types.Signature); !isSig || callCommon.IsInvoke() {
			okH = false
		}
		r.Check(okH, "C14-K3", key("spawned function is the server's handler field"), c.P.ipos(g), "symx", "go target is "+hv)
		if len(gCallArgs) != 3 {
			r.Undecided("C14-K3", key("handler arity"), c.P.ipos(g), "handler call does not have 3 arguments")
			continue
		}
		a0 := sx.Of(gCallArgs[0]).String()
		r.Check(a0 == wantConn, "C14-K3", key("handler arg0 is s.conn"), c.P.ipos(g), "symx", "arg0 is "+a0)
		a2 := sx.Of(feasibleAt(gCallArgs[2], g.Block())).String()
		want2 := ""
		if msg != nil {
			want2 = sx.Of(msg).String()
		}
		r.Check(a2 == want2, "C14-K3", key("handler arg2 is the message decoded in this iteration"), c.P.ipos(g), "symx", "arg2 is "+a2+", want "+want2)
		peer := extractOf(read, 1)
		if short == "server6" {
			a1 := sx.Of(feasibleAt(gCallArgs[1], g.Block())).String()
			want1 := ""
			if peer != nil {
				want1 = sx.Of(peer).String()
			}
			r.Check(a1 == want1, "C14-K3", key("handler arg1 is the sender returned by ReadFrom"), c.P.ipos(g), "symx", "arg1 is "+a1+", want "+want1)
		} else {
			c14PeerRewrite(c, fn, g, gCallArgs[1], peer, key)
		}
	}

	// --- K6
	c14Close(c, fn, read, key)
	c14LoopWaits(c, fn, read, key)
}

func exitDesc(c *Ctx, from, to *ssa.BasicBlock) string {
	if iff := ifOf(from); iff != nil {
		pol := "true"
		if from.Succs[1] == to {
			pol = "false"
		}
		return "on " + c.Sx().Of(iff.Cond).String() + " = " + pol
	}
	return "unconditional"
}

func extractOf(call ssa.Value, idx int) *ssa.Extract {
	for _, ref := range *call.Referrers() {
		if e, ok := ref.(*ssa.Extract); ok && e.Index == idx {
			return e
		}
	}
	return nil
}

// isNilCmp: cond is `v op nil` (either operand order).
func isNilCmp(cond ssa.Value, v ssa.Value, op token.Token) bool {
	b, ok := cond.(*ssa.BinOp)
	if !ok || b.Op != op {
		return false
	}
	isNil := func(x ssa.Value) bool {
		c, ok := x.(*ssa.Const)
		return ok && c.Value == nil
	}
	return (b.X == v && isNil(b.Y)) || (b.Y == v && isNil(b.X))
}

func c14PeerRewrite(c *Ctx, fn *ssa.Function, g *ssa.Go, arg ssa.Value, peer *ssa.Extract, key func(string) string) {
	r := c.R
	sx := c.Sx()
	if mi, ok := arg.(*ssa.MakeInterface); ok {
		arg = mi.X
	}
	// candidates of the peer value: edges of a φ, or the stores into a captured variable
	type cand struct {
		v   ssa.Value
		blk *ssa.BasicBlock // block from which the candidate flows on (φ predecessor / store block)
	}
	var cands []cand
	var joinBlock *ssa.BasicBlock
	// the choice may live in an unexported helper called with the sender (peerOrBroadcast(upeer)): judged inside the
	// helper, with its parameter as the sender and its returns as the two candidates
	inHelper := false
	var keepBlk *ssa.BasicBlock
	isSender := func(v ssa.Value) bool {
		x, ok := v.(*ssa.Extract)
		if !ok {
			return false
		}
		ta, ok := x.Tuple.(*ssa.TypeAssert)
		return ok && x.Index == 0 && peer != nil && (ta.X == ssa.Value(peer) || feasibleAt(ta.X, ta.Block()) == ssa.Value(peer)) && namedIs(ta.AssertedType, "net", "UDPAddr")
	}
	if cl, ok := arg.(*ssa.Call); ok {
		h := cl.Call.StaticCallee()
		if h != nil && inModule(h) && h.Blocks != nil && !token.IsExported(h.Name()) && len(h.Params) == 1 && len(cl.Call.Args) == 1 && isSender(cl.Call.Args[0]) && h.Signature.Results().Len() == 1 {
			r.Check(sameCycle(cl.Block(), g.Block()), "C14-K5", key("the peer is chosen per datagram"), c.P.ipos(cl), "helper call on the loop's cycle", "the peer handed to the handlers is computed outside the serve loop")
			inHelper = true
			fn = h
			prm := ssa.Value(h.Params[0])
			isSender = func(v ssa.Value) bool { return v == prm }
			for _, rt := range returnsOf(h) {
				v := rt.Results[0]
				if ph, isPhi := v.(*ssa.Phi); isPhi && ph.Block() == rt.Block() {
					for i, e := range ph.Edges {
						cands = append(cands, cand{e, ph.Block().Preds[i]})
					}
					continue
				}
				cands = append(cands, cand{v, rt.Block()})
			}
			for _, cd := range cands {
				if isSender(cd.v) {
					keepBlk = cd.blk
				}
			}
			arg = nil
		}
	}
	switch x := arg.(type) {
	case *ssa.Phi:
		joinBlock = x.Block()
		for i, e := range x.Edges {
			cands = append(cands, cand{e, x.Block().Preds[i]})
		}
	case *ssa.UnOp:
		var cell *ssa.Alloc
		if fv, ok := x.X.(*ssa.FreeVar); ok {
			if b := sx.binding(fv); b != nil {
				cell, _ = b.(*ssa.Alloc)
			}
		} else if al, ok := x.X.(*ssa.Alloc); ok {
			cell = al
		}
		if cell != nil {
			for _, ref := range *cell.Referrers() {
				if st, ok := ref.(*ssa.Store); ok && st.Addr == ssa.Value(cell) {
					cands = append(cands, cand{st.Val, st.Block()})
				}
			}
		}
		joinBlock = g.Block()
	}
	if len(cands) != 2 {
		r.Undecided("C14-K5", key("peer argument shape"), c.P.ipos(g), "peer argument is not a two-way choice between the sender and a rewritten address: "+sx.Of(arg).String())
		return
	}
	// locate the comma-ok assertion value
	var upeer ssa.Value
	var alloc *ssa.Alloc
	var rewriteBlk *ssa.BasicBlock
	var keepPreds []*ssa.BasicBlock
	for _, cd := range cands {
		switch x := cd.v.(type) {
		case *ssa.Extract, *ssa.Parameter:
			if isSender(cd.v) {
				upeer = cd.v
				keepPreds = append(keepPreds, cd.blk)
				continue
			}
			r.Violation("C14-K5", key("peer source"), c.P.ipos(g), "peer candidate is not the sender returned by ReadFrom: "+sx.Of(cd.v).String())
		case *ssa.Alloc:
			alloc = x
			rewriteBlk = cd.blk
		default:
			r.Violation("C14-K5", key("peer source"), c.P.ipos(g), "peer candidate is neither the sender nor a fresh UDPAddr: "+sx.Of(cd.v).String())
		}
	}
	if upeer == nil || alloc == nil {
		r.Violation("C14-K5", key("peer rewrite present"), c.P.ipos(g), "handler peer is not {sender | fresh broadcast address}: "+sx.Of(arg).String())
		return
	}
	if !namedIs(alloc.Type(), "net", "UDPAddr") {
		r.Violation("C14-K5", key("rewritten peer type"), c.P.ipos(alloc), "rewritten peer is not a net.UDPAddr")
		return
	}
	// fresh per datagram: the address object is allocated inside the serve loop (one allocated before the loop is shared
	// by every handler still running: a later datagram's port overwrites the peer an earlier handler is replying to)
	r.Check(inHelper || sameCycle(alloc.Block(), g.Block()), "C14-K5", key("rewritten peer is allocated per datagram"), c.P.ipos(alloc), "allocation on the loop's cycle", "the rewritten peer address is allocated outside the serve loop and shared between datagrams: handlers of different senders see each other's port")
	// stores into the fresh UDPAddr
	gotIP, gotPort := "", ""
	for _, ref := range *alloc.Referrers() {
		fa, ok := ref.(*ssa.FieldAddr)
		if !ok {
			continue
		}
		name := derefStruct(alloc.Type()).Field(fa.Field).Name()
		for _, r2 := range *fa.Referrers() {
			if st, ok := r2.(*ssa.Store); ok && st.Addr == fa {
				switch name {
				case "IP":
					gotIP = sx.Of(st.Val).String()
				case "Port":
					gotPort = sx.Of(st.Val).String()
				default:
					r.Violation("C14-K5", key("rewritten peer field "+name), c.P.ipos(st), "unexpected field set on rewritten peer")
				}
			}
		}
	}
	r.Check(gotIP == "load(global(net.IPv4bcast))", "C14-K5", key("rewritten peer IP is the limited broadcast address"), c.P.ipos(alloc), "symx", "IP is "+gotIP)
	wantPort := "field[Port](" + sx.Of(upeer).String() + ")"
	r.Check(gotPort == wantPort, "C14-K5", key("rewritten peer keeps the sender's port"), c.P.ipos(alloc), "symx", "Port is "+gotPort+", want "+wantPort)

	// the conditions
	var nilIf, zeroIf *ssa.If
	ipOfUpeer := "field[IP](" + sx.Of(upeer).String() + ")"
	for _, b := range fn.Blocks {
		iff := ifOf(b)
		if iff == nil {
			continue
		}
		s := sx.Of(iff.Cond).String()
		if bo, ok := iff.Cond.(*ssa.BinOp); ok && bo.Op == token.EQL {
			if (s == "bin[==]("+"const(nil:net.IP)"+","+ipOfUpeer+")") || (s == "bin[==]("+ipOfUpeer+",const(nil:net.IP))") {
				nilIf = iff
			}
		}
		want := "call[(net.IP).Equal](call[(net.IP).To4](" + ipOfUpeer + "),load(global(net.IPv4zero)))"
		want2 := "call[(net.IP).Equal](" + ipOfUpeer + ",load(global(net.IPv4zero)))"
		want3 := "call[(net.IP).IsUnspecified](" + ipOfUpeer + ")"
		if s == want || s == want2 || s == want3 {
			zeroIf = iff
		}
	}
	if nilIf == nil || zeroIf == nil {
		r.Violation("C14-K5", key("rewrite condition"), c.P.ipos(alloc), fmt.Sprintf("did not find both tests `upeer.IP == nil` (found=%v) and `upeer.IP.To4().Equal(IPv4zero)` (found=%v) on the sender address", nilIf != nil, zeroIf != nil))
		return
	}
	tNil := Edge{nilIf.Block(), nilIf.Block().Succs[0]}
	fNil := Edge{nilIf.Block(), nilIf.Block().Succs[1]}
	tZero := Edge{zeroIf.Block(), zeroIf.Block().Succs[0]}
	fZero := Edge{zeroIf.Block(), zeroIf.Block().Succs[1]}
	// rewrite happens only if one of the tests is true
	if rewriteBlk == nil {
		rewriteBlk = alloc.Block()
	}
	r.Check(mustPassEdges(fn, rewriteBlk, tNil, tZero), "C14-K5", key("rewrite only when sender has no address"), c.P.ipos(alloc), "rewrite unreachable without a true edge of the two tests",
		"the peer is rewritten to broadcast on a path where the sender has a real address")
	// the sender's own address is passed on only if both tests are false: every path to the spawn that
	// avoids the rewrite passes the false edge of each test
	blocked := map[*ssa.BasicBlock]bool{rewriteBlk: true}
	okKeep := true
	keepTarget := g.Block()
	if inHelper {
		keepTarget = keepBlk
	}
	for _, e := range []Edge{fNil, fZero} {
		if keepTarget == nil || reachFrom(fn.Blocks[0], map[Edge]bool{e: true}, blocked)[keepTarget] {
			okKeep = false
		}
	}
	r.Check(okKeep, "C14-K5", key("sender kept only when it has a non-zero address"), c.P.ipos(g), "paths avoiding the rewrite pass both false edges",
		"the sender's own address is passed on although it is nil or 0.0.0.0")
	_ = keepPreds
	_ = joinBlock
}

// c14LoopWaits: K9 — the serve loop waits for nothing but the next datagram: no channel send or receive, blocking
// select, WaitGroup/Cond wait or sleep on the loop's cycle (in Serve itself or in what it calls synchronously there).
// A handler slot taken with a blocking send, a rate limiter, a wait for the previous handler: while the loop waits, valid
// datagrams are not dispatched, and Serve no longer returns when the connection is closed.
func c14LoopWaits(c *Ctx, fn *ssa.Function, read *ssa.Call, key func(string) string) {
	r := c.R
	n := 0
	for _, w := range waitOpsIn(fn) {
		if sameCycle(w.in.Block(), read.Block()) {
			n++
			r.Violation("C14-K9", key("the serve loop waits only for the next datagram: "+w.what), c.P.ipos(w.in),
				"a "+w.what+" on the serve loop's cycle: while it waits, decoded and later datagrams are not dispatched and a closed connection is not noticed")
		}
	}
	// synchronous callees invoked on the cycle
	allInstrs(fn, func(in ssa.Instruction) {
		cl, ok := in.(*ssa.Call)
		if !ok || !sameCycle(cl.Block(), read.Block()) {
			return
		}
		sf := cl.Call.StaticCallee()
		if sf == nil || !inModule(sf) || sf.Pkg != fn.Pkg {
			return
		}
		for _, g := range syncClosure(c.P, []*ssa.Function{sf}, 3) {
			if g.Pkg != fn.Pkg {
				continue
			}
			for _, w := range waitOpsIn(g) {
				n++
				r.Violation("C14-K9", key("the serve loop waits only for the next datagram: "+w.what+" in "+shortName(g)), c.P.ipos(w.in),
					"a "+w.what+" in a function the serve loop calls synchronously")
			}
		}
	})
	if n == 0 {
		r.OK("C14-K9", key("the serve loop waits only for the next datagram"), c.P.ipos(read), "no waiting operation on the loop's cycle", "")
	}
}

func c14Close(c *Ctx, fn *ssa.Function, read *ssa.Call, key func(string) string) {
	r := c.R
	sx := c.Sx()
	recv := fn.Params[0]
	var closeFn *ssa.Function
	found := false
	allInstrs(fn, func(in ssa.Instruction) {
		d, ok := in.(*ssa.Defer)
		if !ok {
			return
		}
		f := d.Call.StaticCallee()
		if f == nil || f.Name() != "Close" || len(d.Call.Args) == 0 || sx.Of(d.Call.Args[0]).String() != sx.Of(recv).String() {
			return
		}
		if d.Block().Dominates(read.Block()) && !inCycle(d.Block()) {
			found = true
			closeFn = f
		}
	})
	r.Check(found, "C14-K6", key("Close deferred before the loop"), c.P.pos(fn.Pos()), "defer s.Close() dominates the read", "Serve does not defer Close on entry: the socket leaks when reading fails")
	if closeFn == nil {
		// look it up by role anyway
		for _, f := range c.P.ModuleFuncs() {
			if f.Pkg == fn.Pkg && f.Name() == "Close" && recvNamed(f) == recvNamed(fn) {
				closeFn = f
			}
		}
	}
	if closeFn == nil {
		r.Undecided("C14-K6", key("Close method"), "-", "no Close method on Server")
		return
	}
	want := "field[conn](" + sx.Of(closeFn.Params[0]).String() + ")"
	n := 0
	var call *ssa.Call
	allInstrs(closeFn, func(in ssa.Instruction) {
		if cl, ok := in.(*ssa.Call); ok && isInvokeOf(cl.Common(), "net", "PacketConn", "Close") && sx.Of(cl.Call.Value).String() == want {
			n++
			call = cl
		}
	})
	okAll := n >= 1
	if call != nil {
		for _, rb := range returnBlocks(closeFn) {
			if !(call.Block() == rb || call.Block().Dominates(rb)) {
				okAll = false
			}
		}
	}
	r.Check(okAll, "C14-K6", shortName(closeFn)+": closes the connection on every path", c.P.pos(closeFn.Pos()), "conn.Close dominates every return", "Close does not close s.conn on every path")
	// Serve returns through its deferred Close: Close must not wait for anything (handlers may outlive the loop and
	// may call Close themselves) — no WaitGroup.Wait, channel receive, blocking select or sleep in its closure
	block := ""
	var blockPos ssa.Instruction
	for _, g := range closureOf(c.P, []*ssa.Function{closeFn}) {
		if !inModule(g) {
			continue
		}
		allInstrs(g, func(in ssa.Instruction) {
			if block != "" {
				return
			}
			switch x := in.(type) {
			case *ssa.UnOp:
				if x.Op == token.ARROW {
					block, blockPos = "channel receive", in
				}
			case *ssa.Select:
				if x.Blocking {
					block, blockPos = "blocking select", in
				}
			case ssa.CallInstruction:
				if sf := x.Common().StaticCallee(); sf != nil {
					switch funcKey(sf) {
					case "(*sync.WaitGroup).Wait", "time.Sleep", "(*sync.Cond).Wait":
						block, blockPos = "call of "+funcKey(sf), in
					}
				}
			}
		})
	}
	pos := c.P.pos(closeFn.Pos())
	if blockPos != nil {
		pos = c.P.ipos(blockPos)
	}
	r.Check(block == "", "C14-K6", shortName(closeFn)+": does not wait", pos, "no blocking operation in Close's closure",
		"Close blocks ("+block+"): Serve returns through its deferred Close, so it no longer returns when reading fails while a handler is still running, and a handler calling Close deadlocks")
}

// c14HandlerField: K7 — the function Serve starts per datagram is the handler the caller supplied: every store
// into the Server's handler field (Handler / handler) stores a parameter of the storing function of the Handler
// type itself, never a wrapper built around it (a wrapper can drop or duplicate invocations).
func c14HandlerField(c *Ctx, pkgPath, short string) {
	r := c.R
	sp := c.P.SSAPkg[pkgPath]
	if sp == nil {
		return
	}
	n := 0
	for _, f := range c.P.ModuleFuncs() {
		if f.Pkg != sp {
			continue
		}
		allInstrs(f, func(in ssa.Instruction) {
			st, ok := in.(*ssa.Store)
			if !ok {
				return
			}
			fa, ok := st.Addr.(*ssa.FieldAddr)
			if !ok {
				return
			}
			stt := derefStruct(fa.X.Type())
			if stt == nil || !namedIs(fa.X.Type(), pkgPath, "Server") {
				return
			}
			fname := stt.Field(fa.Field).Name()
			if !namedIs(stt.Field(fa.Field).Type(), pkgPath, "Handler") {
				return
			}
			n++
			v := st.Val
			if ct, ok := v.(*ssa.ChangeType); ok {
				v = ct.X
			}
			_, isParam := v.(*ssa.Parameter)
			how := "the stored value is a parameter of " + shortName(f)
			if cl, ok := v.(*ssa.Call); ok && !isParam {
				// a constructor helper returning the wrapper: s.logReceived(handler)
				if g := cl.Call.StaticCallee(); g != nil && inModule(g) && g.Blocks != nil {
					if rets := returnsOf(g); len(rets) == 1 && len(rets[0].Results) == 1 {
						rv := rets[0].Results[0]
						if ct, ok := rv.(*ssa.ChangeType); ok {
							rv = ct.X
						}
						if mc2, ok := rv.(*ssa.MakeClosure); ok {
							v = mc2
						}
					}
				}
			}
			if mc, ok := v.(*ssa.MakeClosure); ok && !isParam {
				// a wrapper is the caller's handler too if every path through it calls the captured handler
				// exactly once with the wrapper's own arguments
				if transparentWrapper(mc) {
					isParam = true
					how = "a wrapper that calls the captured handler exactly once, with its own arguments, on every path"
				}
			}
			r.Check(isParam, "C14-K7", short+": Server."+fname+" is the handler the caller supplied", c.P.ipos(st), how,
				"Server."+fname+" is set to "+c.Sx().Of(st.Val).String()+" in "+shortName(f)+": Serve then starts something other than the caller's handler per datagram (a wrapper that can skip, repeat or delay the call)")
		})
	}
	r.Count("C14-K7-handler-stores-"+short, n)
	r.Expect("C14-K7-handler-stores-"+short, 1)
}

// storedInLoop: the cell is assigned inside the loop
func storedInLoop(al *ssa.Alloc, loop map[*ssa.BasicBlock]bool) bool {
	for _, ref := range *al.Referrers() {
		if st, ok := ref.(*ssa.Store); ok && st.Addr == ssa.Value(al) && loop[st.Block()] {
			return true
		}
	}
	return false
}

// transparentWrapper: the closure captures a function value (a parameter of the enclosing function) and every
// path from its entry to a return passes exactly one call of that value whose arguments are the closure's own
// parameters in order; the call is not inside a loop, a go or a defer.
func transparentWrapper(mc *ssa.MakeClosure) bool {
	fn, ok := mc.Fn.(*ssa.Function)
	if !ok || fn.Blocks == nil {
		return false
	}
	var calls []*ssa.Call
	bad := false
	allInstrs(fn, func(in ssa.Instruction) {
		switch x := in.(type) {
		case *ssa.Call:
			fv, isFV := x.Call.Value.(*ssa.FreeVar)
			if !isFV {
				// a load of a captured cell
				if u, ok := x.Call.Value.(*ssa.UnOp); ok {
					fv, isFV = u.X.(*ssa.FreeVar)
				}
			}
			if !isFV || fv == nil {
				return
			}
			if _, isSig := fv.Type().Underlying().(*types.Signature); !isSig {
				if pt, ok := fv.Type().Underlying().(*types.Pointer); !ok {
					return
				} else if _, isSig2 := pt.Elem().Underlying().(*types.Signature); !isSig2 {
					return
				}
			}
			calls = append(calls, x)
		case *ssa.Go, *ssa.Defer:
			if _, isFV := x.(ssa.CallInstruction).Common().Value.(*ssa.FreeVar); isFV {
				bad = true
			}
		}
	})
	if bad || len(calls) != 1 {
		return false
	}
	cl := calls[0]
	if inCycle(cl.Block()) || len(cl.Call.Args) != len(fn.Params) {
		return false
	}
	for i, a := range cl.Call.Args {
		if a != ssa.Value(fn.Params[i]) {
			return false
		}
	}
	for _, rb := range returnBlocks(fn) {
		if !(cl.Block() == rb || cl.Block().Dominates(rb)) {
			return false
		}
	}
	return true
}
