package main

// A small inductive-invariant prover for one accumulator pair that keeps turning up when a string built by repeated
// concatenation is rewritten as "collect the pieces, join once":
//
//	var parts []string; nameLen := 0
//	for … {
//		…                                   // parts, nameLen unchanged
//		parts, nameLen = parts[:0], 0        // a name is complete
//		if len(parts) > 0 { nameLen++ }      // separator
//		parts = append(parts, string(buf[pos:pos+length])); nameLen += length
//	}
//
// Invariant: nameLen == len(strings.Join(parts, sep)) for a one-octet separator, i.e. the sum of the lengths of the
// pieces plus one for every piece but the first. It is checked edge by edge on the loop-header φs of the two variables:
// every incoming pair is (0, empty), (unchanged, unchanged) or (n + [len(parts) > 0] + len(s), append(parts, s)). A
// counter that is not reset together with the list, or that forgets the separator, is not such a pair — and a length limit
// tested on it is then not the limit on the joined name that the reviewed decoder enforces.

import (
	"go/token"
	"go/types"

	"golang.org/x/tools/go/ssa"
)

var joinedLenMemo = map[*ssa.Phi]bool{}

// joinedLenCounter: n is an integer φ that provably equals the length of the join of a []string φ of the same block
func joinedLenCounter(n *ssa.Phi) bool {
	if v, ok := joinedLenMemo[n]; ok {
		return v
	}
	res := false
	if bt, ok := n.Type().Underlying().(*types.Basic); ok && bt.Info()&types.IsInteger != 0 {
		for _, in := range n.Block().Instrs {
			parts, ok := in.(*ssa.Phi)
			if !ok {
				break
			}
			if parts == n || len(parts.Edges) != len(n.Edges) {
				continue
			}
			sl, isSl := parts.Type().Underlying().(*types.Slice)
			if !isSl {
				continue
			}
			if eb, isB := sl.Elem().Underlying().(*types.Basic); !isB || eb.Kind() != types.String {
				continue
			}
			if joinedLenPair(n, parts) {
				res = true
				break
			}
		}
	}
	joinedLenMemo[n] = res
	return res
}

func joinedLenPair(n, parts *ssa.Phi) bool {
	steps := 0
	for k := range n.Edges {
		nv, pv := n.Edges[k], parts.Edges[k]
		switch {
		case isZeroInt(nv) && isEmptyStrings(pv):
		case nv == ssa.Value(n) && pv == ssa.Value(parts):
		case joinedLenStep(n, parts, nv, pv):
			steps++
		default:
			return false
		}
	}
	return steps > 0
}

func isZeroInt(v ssa.Value) bool { k, ok := intConst(v); return ok && k == 0 }

// isEmptyStrings: nil, or x[:0]
func isEmptyStrings(v ssa.Value) bool {
	if isNilConst(v) {
		return true
	}
	if sl, ok := v.(*ssa.Slice); ok && sl.Low == nil && sl.High != nil {
		return isZeroInt(sl.High)
	}
	return false
}

// joinedLenStep: pv = append(parts, s) for one string s, nv = A + len(s) with A = n + 1 where len(parts) > 0, n where not
func joinedLenStep(n, parts *ssa.Phi, nv, pv ssa.Value) bool {
	ap, ok := pv.(*ssa.Call)
	if !ok || !isBuiltinCall(ap.Common(), "append") || len(ap.Call.Args) != 2 || ap.Call.Args[0] != ssa.Value(parts) {
		return false
	}
	vs := varargValues(ap.Call.Args[1])
	if len(vs) != 1 {
		return false
	}
	s := vs[0]
	add, ok := nv.(*ssa.BinOp)
	if !ok || add.Op != token.ADD {
		return false
	}
	for _, pr := range [][2]ssa.Value{{add.X, add.Y}, {add.Y, add.X}} {
		if isLenOfString(pr[1], s) && separatorCount(n, parts, pr[0]) {
			return true
		}
	}
	return false
}

// isLenOfString: l is the length of the string s: len(s), or s = string(b[lo:lo+l]) (the slice expression is
// bounds-checked, so the conversion has exactly l octets)
func isLenOfString(l, s ssa.Value) bool {
	if cl, ok := l.(*ssa.Call); ok && isBuiltinCall(cl.Common(), "len") && cl.Call.Args[0] == s {
		return true
	}
	cv, ok := s.(*ssa.Convert)
	if !ok {
		return false
	}
	sl, ok := cv.X.(*ssa.Slice)
	if !ok || sl.Low == nil || sl.High == nil {
		return false
	}
	hi, ok := sl.High.(*ssa.BinOp)
	if !ok || hi.Op != token.ADD {
		return false
	}
	same := func(a, b ssa.Value) bool {
		if a == b {
			return true
		}
		// the same sum written twice (t59 = t15 + t14 and the slice's own t15 + t14)
		x, ok1 := a.(*ssa.BinOp)
		y, ok2 := b.(*ssa.BinOp)
		return ok1 && ok2 && x.Op == y.Op && x.X == y.X && x.Y == y.Y
	}
	return (same(hi.X, sl.Low) && hi.Y == l) || (same(hi.Y, sl.Low) && hi.X == l)
}

// separatorCount: a is n + 1 on the way where len(parts) > 0 and n on the way where it is 0 (a φ of the merge after
// `if len(parts) > 0 { n++ }`)
func separatorCount(n, parts *ssa.Phi, a ssa.Value) bool {
	ph, ok := a.(*ssa.Phi)
	if !ok || len(ph.Edges) != 2 {
		return false
	}
	b := ph.Block()
	for k, e := range ph.Edges {
		pred := b.Preds[k]
		nonEmpty, known := partsNonEmptyOn(parts, pred, b)
		if !known {
			return false
		}
		if nonEmpty {
			bo, ok := e.(*ssa.BinOp)
			if !ok || bo.Op != token.ADD {
				return false
			}
			one := func(v ssa.Value) bool { k, ok := intConst(v); return ok && k == 1 }
			if !((bo.X == ssa.Value(n) && one(bo.Y)) || (bo.Y == ssa.Value(n) && one(bo.X))) {
				return false
			}
		} else if e != ssa.Value(n) {
			return false
		}
	}
	return true
}

// partsNonEmptyOn: the edge pred→b is taken only with len(parts) > 0 (true) / == 0 (false): pred is the testing block
// itself, or a block entered only from one side of the test
func partsNonEmptyOn(parts *ssa.Phi, pred, b *ssa.BasicBlock) (nonEmpty, known bool) {
	try := func(g *ssa.BasicBlock, via *ssa.BasicBlock) (bool, bool) {
		iff := ifOf(g)
		if iff == nil {
			return false, false
		}
		ne, em, ok := emptinessEdgesOf(iff, parts)
		if !ok {
			return false, false
		}
		switch via {
		case ne.To:
			if ne.To != em.To {
				return true, true
			}
		case em.To:
			return false, true
		}
		return false, false
	}
	// pred tests and jumps straight to b
	if r, ok := try(pred, b); ok {
		return r, true
	}
	// pred is one side of a test in its single predecessor
	if len(pred.Preds) == 1 {
		if r, ok := try(pred.Preds[0], pred); ok {
			return r, true
		}
	}
	return false, false
}
