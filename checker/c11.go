package main

// C11 — client calls always complete: timeout, cancellation, Close, cleanup.
// C12 — retransmission follows the configured schedule.

import (
	"fmt"
	"go/token"
	"go/types"
	"strings"

	"golang.org/x/tools/go/ssa"
)

func init() {
	register("C11", true, checkC11)
	register("C12", true, checkC12)
}

func checkC11(c *Ctx) {
	r := c.R
	r.Decides = append(r.Decides,
		"K1 the wait select receives on the client's done channel, a deadline channel, ctx.Done() and the transaction channel; the first three return ErrNoResponse, the internal deadline error and ctx.Err() respectively",
		"K2 deadline invariance: the deadline channel/timer of a try is created outside every cycle containing the wait select and is not reset inside one",
		"K3 cancel pairing: once send succeeded, cancel runs on every exit of the try (deferred right after the error check); on the write-error path send calls it itself",
		"K4 inside cancel, close(done) executes on every path and dominates pendingMu.Lock()",
		"K5 the only blocking operation performed while pendingMu may be held is the receive loop's delivery select, which also waits on the entry's done",
		"K6 Close: CAS success dominates conn.Close, close(c.done), wg.Wait in that order; wg.Add dominates the go; the receive loop defers wg.Done and returns on any ReadFrom error",
		"K7 id reuse: every path through cancel looks the entry up under the lock and deletes it when it is present and is the call's own",
		"K9 cancel removes only the entry this call registered: the delete is guarded by an identity test against the channels/entry created in send",
		"C10-K1/K2/K7 (shared) the receive loop delivers each accepted datagram as a message of its own (decoder receives b[:n] of a buffer allocated per datagram; the decoded message does not alias it)",
		"C10-K5 (shared) lock discipline: pendingMu is released at every return of every function that acquires it, never acquired twice, and every access to the pending map holds it",
		"C12-K1 (shared) retry driver: only the internal per-try deadline error leads to another try; every other result of a try — the context's error, ErrNoResponse after Close, a write error — is returned at once")
	r.NotDecided = append(r.NotDecided, "wall-clock bounds and goroutine scheduling", "a PacketConn whose Close does not unblock ReadFrom")
	r.Expect("C11-clients", 2)
	for _, short := range []string{"nclient4", "nclient6"} {
		a := resolveClientAnchors(c, short)
		if len(a.errs) > 0 {
			r.Undecided("C11-anchor", short+": "+strings.Join(a.errs, "; "), "-", "role-based anchors did not resolve")
			continue
		}
		r.Count("C11-clients", 1)
		// "with the response as soon as an acceptable one arrives": the receive loop delivers every datagram that passes the
		// filters, as a message that is its own (fresh buffer per datagram, no aliasing of it) — C10-K1/K2/K7. (First: the
		// symbolic expressions of the loop are memoised top-down here, as in C10.)
		c10RecvLoop(c, a)
		c11Wait(c, a)
		c11Cancel(c, a)
		c11Blocking(c, a)
		c11Close(c, a)
		c11CallWaits(c, a)
		c12Retry(c, a)
		sentinelFresh(c, a)
		// "the transaction id is free again" and "later calls complete" need pendingMu released on every exit of every
		// function that takes it (a goroutine that returns holding it blocks every later send and cancel): C10-K5
		c10Locks(c, a)
	}
}

type waitShape struct {
	sel                        *ssa.Select
	iDone, iTimer, iCtx, iChan int
	timerMake                  ssa.Instruction // call creating the deadline channel / timer
	// combined: the try's deadline and the caller's context share one case, `<-tryCtx.Done()` with
	// tryCtx, stop := context.WithTimeout(ctx, timeout); the case decides by the CALLER's context:
	// `if err := ctx.Err(); err != nil { return err }` (ctxBlock), else the deadline of the try passed (dlBlock)
	combined         bool
	dlBlock, ctxBlok *ssa.BasicBlock
	combinedWhy      string
}

// timerCase / ctxCase: the block executed for the try's deadline / for the end of the caller's context
func (w *waitShape) timerCase() *ssa.BasicBlock {
	if w.combined {
		return w.dlBlock
	}
	return selectCaseBlock(w.sel, w.iTimer)
}

func (w *waitShape) ctxCase() *ssa.BasicBlock {
	if w.combined {
		return w.ctxBlok
	}
	return selectCaseBlock(w.sel, w.iCtx)
}

// resolveCombined: case i of the wait select receives from Done() of a context derived with
// context.WithTimeout(parent, d); fills the combined shape when the case block tests parent.Err()
func (w *waitShape) resolveCombined(i int, done *ssa.Call, same func(a, b ssa.Value) bool) bool {
	ex, ok := done.Call.Value.(*ssa.Extract)
	if !ok || ex.Index != 0 {
		return false
	}
	mk, ok := ex.Tuple.(*ssa.Call)
	if !ok || !isFuncCall(mk.Common(), "context", "WithTimeout") || len(mk.Call.Args) != 2 {
		return false
	}
	parent := mk.Call.Args[0]
	b := selectCaseBlock(w.sel, i)
	if b == nil {
		w.combinedWhy = "case block of the derived context not found"
		return true
	}
	iff := ifOf(b)
	if iff == nil {
		w.combinedWhy = "the case on the derived context does not ask the caller's context whether it ended"
		return true
	}
	var errCall *ssa.Call
	nl, nn, okE := nilEdgesOf(iff, func(v ssa.Value) bool {
		cl, isCall := v.(*ssa.Call)
		if isCall && cl.Call.IsInvoke() && cl.Call.Method.Name() == "Err" && same(cl.Call.Value, parent) && cl.Block() == b {
			errCall = cl
			return true
		}
		return false
	})
	if !okE || errCall == nil {
		w.combinedWhy = "the case on the derived context is not decided by Err() of the caller's context (the derived context also ends by its own deadline when the caller's does)"
		return true
	}
	w.combined, w.iTimer, w.iCtx, w.timerMake = true, i, i, mk
	w.dlBlock, w.ctxBlok = nl.To, nn.To
	return true
}

// caseBlock: the block executed when select index == i
func selectCaseBlock(sel *ssa.Select, i int) *ssa.BasicBlock {
	idx := extractOf(sel, 0)
	if idx == nil {
		return nil
	}
	for _, ref := range *idx.Referrers() {
		bo, ok := ref.(*ssa.BinOp)
		if !ok || bo.Op != token.EQL {
			continue
		}
		k, ok := bo.Y.(*ssa.Const)
		if !ok || k.Int64() != int64(i) {
			continue
		}
		for _, r2 := range *bo.Referrers() {
			if iff, ok := r2.(*ssa.If); ok {
				return iff.Block().Succs[0]
			}
		}
	}
	return nil
}

func resolveWait(c *Ctx, a *clientAnchors) (*waitShape, string) {
	fn := a.try
	w := &waitShape{iDone: -1, iTimer: -1, iCtx: -1, iChan: -1}
	n := 0
	allInstrs(fn, func(in ssa.Instruction) {
		if s, ok := in.(*ssa.Select); ok {
			w.sel = s
			n++
		}
	})
	if n != 1 {
		return nil, fmt.Sprintf("expected one select in the try closure, found %d", n)
	}
	ch := extractOf(a.sendCall, 0)
	for i, s := range w.sel.States {
		if s.Dir != types.RecvOnly {
			return nil, "wait select has a send case"
		}
		v := s.Chan
		switch {
		case ch != nil && v == ssa.Value(ch):
			w.iChan = i
		case a.isClientFieldLoad(v, "done"):
			w.iDone = i
		default:
			if cl, ok := v.(*ssa.Call); ok {
				if cl.Call.IsInvoke() && cl.Call.Method.Name() == "Done" && namedIs(cl.Call.Value.Type(), "context", "Context") {
					if w.resolveCombined(i, cl, func(x, y ssa.Value) bool { return x == y || c.Sx().Of(x).String() == c.Sx().Of(y).String() }) {
						continue
					}
					w.iCtx = i
					continue
				}
				if isFuncCall(cl.Common(), "time", "After") || isFuncCall(cl.Common(), "time", "Tick") {
					w.iTimer, w.timerMake = i, cl
					continue
				}
			}
			// timer.C of a time.NewTimer / variable holding time.After's result
			if u, ok := v.(*ssa.UnOp); ok && u.Op == token.MUL {
				if fa, ok := u.X.(*ssa.FieldAddr); ok && namedIs(fa.X.Type(), "time", "Timer") {
					if cl, ok := fa.X.(*ssa.Call); ok && isFuncCall(cl.Common(), "time", "NewTimer") {
						w.iTimer, w.timerMake = i, cl
						continue
					}
				}
			}
			if ph, ok := v.(*ssa.Phi); ok {
				_ = ph
			}
			if namedIs(elemType(v.Type()), "time", "Time") {
				// a deadline channel from somewhere else (e.g. hoisted variable): find its creating call
				if mk := timeChanOrigin(v); mk != nil {
					w.iTimer, w.timerMake = i, mk
					continue
				}
				return nil, "deadline channel of unrecognised origin: " + c.Sx().Of(v).String()
			}
		}
	}
	return w, ""
}

func timeChanOrigin(v ssa.Value) ssa.Instruction {
	switch x := v.(type) {
	case *ssa.Call:
		if isFuncCall(x.Common(), "time", "After") || isFuncCall(x.Common(), "time", "NewTimer") {
			return x
		}
	case *ssa.UnOp:
		if fa, ok := x.X.(*ssa.FieldAddr); ok {
			return timeChanOrigin(fa.X)
		}
	case *ssa.ChangeType:
		return timeChanOrigin(x.X)
	}
	return nil
}

func c11Wait(c *Ctx, a *clientAnchors) {
	r, sx, fn := c.R, c.Sx(), a.try
	key := func(s string) string { return a.short + ".SendAndRead: " + s }
	w, why := resolveWait(c, a)
	if w == nil {
		r.Undecided("C11-K1", key("wait select"), c.P.pos(fn.Pos()), why)
		return
	}
	sel := w.sel
	r.Check(sel.Blocking, "C11-K1", key("wait select is blocking (no default case)"), c.P.ipos(sel), "Select.Blocking", "the wait select has a default case: the call spins")
	r.Check(w.iDone >= 0, "C11-K1", key("waits on the client's done channel"), c.P.ipos(sel), "select state", "the wait select has no case on Client.done: Close cannot end a pending call")
	if w.combinedWhy != "" {
		r.Violation("C11-K1", key("the case on the try's derived context tells the caller's end from the try's deadline"), c.P.ipos(sel), w.combinedWhy+": a caller's deadline is taken for a try's (the call retransmits and ends with the wrong error) or the reverse")
	}
	r.Check(w.iTimer >= 0, "C11-K1", key("waits on a deadline"), c.P.ipos(sel), "select state", "the wait select has no deadline case: a silent server blocks the call forever")
	r.Check(w.iCtx >= 0, "C11-K1", key("waits on ctx.Done()"), c.P.ipos(sel), "select state", "the wait select has no ctx.Done() case: cancellation is ignored")
	r.Check(w.iChan >= 0, "C11-K1", key("waits on the transaction channel"), c.P.ipos(sel), "select state", "the wait select does not receive from the channel returned by send")
	// what each case returns
	retOfBlock := func(b *ssa.BasicBlock) (string, *ssa.BasicBlock) {
		if b == nil {
			return "?", nil
		}
		// the case block must end in a return (possibly via rundefers); find the stored/returned error
		for _, in := range b.Instrs {
			if st, ok := in.(*ssa.Store); ok && isErrorType(st.Val.Type()) {
				return sx.Of(st.Val).String(), b
			}
		}
		if ret, ok := b.Instrs[len(b.Instrs)-1].(*ssa.Return); ok && len(ret.Results) == 1 {
			return sx.Of(ret.Results[0]).String(), b
		}
		// the case leaves the wait loop through a join that returns what the case set (results carried by φs)
		if v, ret := resultVia(b, -1); v != nil && ret != nil {
			return sx.Of(v).String(), b
		}
		return "no-return", b
	}
	endsInReturn := func(b *ssa.BasicBlock) bool {
		if b == nil {
			return false
		}
		if _, ok := b.Instrs[len(b.Instrs)-1].(*ssa.Return); ok {
			return true
		}
		_, ret := resultVia(b, -1)
		return ret != nil
	}
	if w.iDone >= 0 {
		s, b := retOfBlock(selectCaseBlock(sel, w.iDone))
		r.Check(endsInReturn(b) && s == "load(global("+a.short+".ErrNoResponse))", "C11-K1", key("done case returns ErrNoResponse"), c.P.ipos(sel), "symx", "the case on Client.done yields "+s)
	}
	if w.iTimer >= 0 {
		s, b := retOfBlock(w.timerCase())
		r.Check(endsInReturn(b) && s == "load(global("+a.short+".errDeadlineExceeded))", "C11-K1", key("deadline case returns the internal deadline error"), c.P.ipos(sel), "symx", "the deadline case yields "+s)
		// the duration is the try's timeout parameter
		if cl, ok := w.timerMake.(*ssa.Call); ok && (len(cl.Call.Args) == 1 || w.combined) {
			got := sx.Of(cl.Call.Args[len(cl.Call.Args)-1]).String()
			want := sx.Of(fn.Params[0]).String()
			r.Check(got == want, "C12-K1", key("deadline of a try is the timeout handed in by the retry driver"), c.P.ipos(cl), "symx", "deadline duration is "+got+", want "+want)
		}
	}
	if w.iCtx >= 0 {
		s, b := retOfBlock(w.ctxCase())
		okc := endsInReturn(b) && strings.HasPrefix(s, "call[invoke context.Context.Err](")
		r.Check(okc, "C11-K1", key("ctx case returns ctx.Err()"), c.P.ipos(sel), "symx", "the ctx.Done() case yields "+s+" (anything but ctx.Err() is misread by the retry driver or the caller)")
	}
	// K2 deadline invariance
	if w.timerMake != nil {
		same := sameCycle(w.timerMake.Block(), sel.Block())
		r.Check(!same, "C11-K2", key("deadline created once per try (outside the wait loop)"), c.P.ipos(w.timerMake), "creating call not on a cycle with the select",
			"the deadline channel is re-created on every iteration of the wait loop: each same-id datagram the matcher rejects restarts the try's timer, so the call can outlive timeout×(2^tries−1) indefinitely")
		allInstrs(fn, func(in ssa.Instruction) {
			if cl, ok := in.(*ssa.Call); ok && cl.Call.StaticCallee() != nil && cl.Call.StaticCallee().Name() == "Reset" && namedIs(cl.Call.StaticCallee().Signature.Recv().Type(), "time", "Timer") {
				r.Check(!sameCycle(cl.Block(), sel.Block()), "C11-K2", key("deadline not reset inside the wait loop"), c.P.ipos(cl), "Reset not on a cycle with the select", "the try's timer is reset inside the wait loop")
			}
		})
	}
	// the select is in a loop that is left only by the returns above and the accepted packet
	r.Check(inCycle(sel.Block()), "C11-K1", key("rejected packets keep the call waiting"), c.P.ipos(sel), "select on a cycle", "the wait select is not in a loop: the first rejected packet ends the try")
	// K3 cancel pairing
	rem := extractOf(a.sendCall, 1)
	errv := extractOf(a.sendCall, 2)
	var def *ssa.Defer
	allInstrs(fn, func(in ssa.Instruction) {
		if d, ok := in.(*ssa.Defer); ok && rem != nil && d.Call.Value == ssa.Value(rem) {
			def = d
		}
	})
	if def == nil {
		r.Violation("C11-K3", key("cancel deferred after a successful send"), c.P.ipos(a.sendCall), "the cancel function returned by send is not deferred: the transaction id stays registered after the call returns (id not reusable; the receive loop can block on its channel)")
	} else {
		okd := !inCycle(def.Block())
		// every block reachable from the err==nil edge is reached through the defer's block
		if errv != nil {
			for _, b := range fn.Blocks {
				if iff := ifOf(b); iff != nil {
					if nilE, _, ok := nilEdgesOf(iff, func(v ssa.Value) bool { return v == ssa.Value(errv) }); ok {
						for x := range reachFrom(nilE.To, nil, map[*ssa.BasicBlock]bool{def.Block(): true}) {
							if x != def.Block() {
								if _, isRet := x.Instrs[len(x.Instrs)-1].(*ssa.Return); isRet {
									okd = false
								}
								for _, in := range x.Instrs {
									if _, isSel := in.(*ssa.Select); isSel {
										okd = false
									}
								}
							}
						}
					}
				}
			}
		}
		r.Check(okd, "C11-K3", key("cancel deferred before any wait or return of a successful send"), c.P.ipos(def), "defer block cuts the success edge from every select/return", "a path after a successful send reaches the wait or a return without having deferred cancel")
	}
	// write-error path of send calls cancel
	{
		sf := a.send
		var write *ssa.Call
		allInstrs(sf, func(in ssa.Instruction) {
			if cl, ok := in.(*ssa.Call); ok && isInvokeOf(cl.Common(), "net", "PacketConn", "WriteTo") {
				write = cl
			}
		})
		if write != nil {
			werr := extractOf(write, 1)
			found := false
			for _, b := range sf.Blocks {
				iff := ifOf(b)
				if iff == nil || werr == nil {
					continue
				}
				if _, nn, ok := nilEdgesOf(iff, func(v ssa.Value) bool { return v == ssa.Value(werr) }); ok {
					found = true
					// every path from the error edge to a return passes a call of the cancel closure
					isCancelCall := func(in ssa.Instruction) bool {
						cl, ok := in.(*ssa.Call)
						if !ok {
							return false
						}
						if mc, ok := cl.Call.Value.(*ssa.MakeClosure); ok && mc.Fn == a.cancel {
							return true
						}
						return cl.Call.StaticCallee() == a.cancel
					}
					okc := true
					first := nn.To.Instrs[0]
					if !isCancelCall(first) && !everyPathFromHits(first, isCancelCall) {
						okc = false
					}
					r.Check(okc, "C11-K3", a.short+".send: cancel called on the write-error path", c.P.ipos(write), "every path from WriteTo's error edge to return calls cancel",
						"when WriteTo fails send returns without undoing the registration: the id stays pending forever and its channel can block the receive loop")
				}
			}
			if !found {
				r.Violation("C11-K3", a.short+".send: write error not tested", c.P.ipos(write), "the error of WriteTo is not branched on")
			}
		}
	}
}

func c11Cancel(c *Ctx, a *clientAnchors) {
	r, sx, fn := c.R, c.Sx(), a.cancel
	key := func(s string) string { return a.short + ".send.cancel: " + s }
	var closeDone, lock *ssa.Call
	var look *ssa.Lookup
	var del, closeCh *ssa.Call
	nClose := 0
	scan := func(g *ssa.Function) {
		allInstrs(g, func(in ssa.Instruction) {
			switch x := in.(type) {
			case *ssa.Call:
				if isBuiltinCall(x.Common(), "close") {
					s := sx.Of(x.Call.Args[0]).String()
					if strings.HasPrefix(s, "makechan") || c11FreshFromRegister(a, s) {
						closeDone = x
						nClose++
					} else {
						closeCh = x
					}
				}
				if a.isMuCall(x, "Lock") {
					lock = x
				}
				if isBuiltinCall(x.Common(), "delete") && a.isClientFieldLoad(x.Call.Args[0], "pending") {
					del = x
				}
			case *ssa.Lookup:
				if x.CommaOk && a.isClientFieldLoad(x.X, "pending") {
					look = x
				}
			}
		})
	}
	scan(fn)
	// the removal half may sit in an unexported helper of the package called from the closure (forget(msg, done)):
	// body is the function holding Lock/lookup/delete, entry the instruction of the closure that leads into it
	body := fn
	var entry ssa.Instruction
	rew := func(s string) string { return s }
	if lock == nil || look == nil || del == nil {
		allInstrs(fn, func(in ssa.Instruction) {
			cl, ok := in.(*ssa.Call)
			if !ok || cl.Call.StaticCallee() == nil || body != fn {
				return
			}
			g := cl.Call.StaticCallee()
			if g.Blocks == nil || funcPkg(g) != a.pkg.Pkg || token.IsExported(g.Name()) || hasNonCallRef(g) {
				return
			}
			has := false
			allInstrs(g, func(i2 ssa.Instruction) {
				if a.isMuCall(i2, "Lock") {
					has = true
				}
			})
			if !has {
				return
			}
			body, entry = g, cl
			sub := map[string]string{}
			for i, p := range g.Params {
				if i < len(cl.Call.Args) {
					sub[sx.Of(p).String()] = sx.Of(cl.Call.Args[i]).String()
				}
			}
			rew = func(s string) string {
				for from, to := range sub {
					s = strings.ReplaceAll(s, from, to)
				}
				return s
			}
		})
		if body != fn {
			scan(body)
		}
	}
	if closeDone == nil || lock == nil || look == nil || del == nil {
		r.Undecided("C11-K4", key("shape"), c.P.pos(fn.Pos()), fmt.Sprintf("need close(done), Lock, lookup, delete; found %v/%v/%v/%v", closeDone != nil, lock != nil, look != nil, del != nil))
		return
	}
	// done is the channel stored in the entry registered by send
	r.Check(nClose == 1 && !inCycle(closeDone.Block()), "C11-K4", key("done closed exactly once"), c.P.ipos(closeDone), "one close site, not in a loop", "the per-call done channel can be closed twice (panic) or in a loop")
	for _, rb := range returnBlocks(fn) {
		r.Check(closeDone.Block() == rb || closeDone.Block().Dominates(rb), "C11-K4", key("close(done) on every path"), c.P.ipos(closeDone), "close dominates every return",
			"cancel can return without closing the call's done channel: a receive loop blocked on the call's full channel is never released (Close hangs in wg.Wait)")
		if body == fn {
			r.Check(look.Block() == rb || look.Block().Dominates(rb), "C11-K7", key("entry looked up on every path"), c.P.ipos(look), "lookup dominates every return",
				"cancel can return without removing the entry: the transaction id is not reusable and later datagrams for it pile up")
		} else {
			r.Check(entry.Block() == rb || entry.Block().Dominates(rb), "C11-K7", key("entry looked up on every path"), c.P.ipos(entry), "the call of the removal helper dominates every return",
				"cancel can return without calling the removal helper: the transaction id is not reusable and later datagrams for it pile up")
		}
	}
	if body != fn {
		for _, rb := range returnBlocks(body) {
			r.Check(look.Block() == rb || look.Block().Dominates(rb), "C11-K7", key("entry looked up on every path of the removal helper"), c.P.ipos(look), "lookup dominates every return", "the removal helper can return without looking the entry up")
		}
		r.Check(instrDominates(closeDone, entry), "C11-K4", key("close(done) before taking the lock"), c.P.ipos(entry), "close dominates the call of the removal helper (which takes the lock)",
			"cancel takes pendingMu before closing done: if the receive loop holds the lock while blocked on this call's channel, both wait forever")
	} else {
		r.Check(instrDominates(closeDone, lock), "C11-K4", key("close(done) before taking the lock"), c.P.ipos(lock), "close dominates Lock",
			"cancel takes pendingMu before closing done: if the receive loop holds the lock while blocked on this call's channel, both wait forever")
	}
	// K7: on the present edge the entry is deleted with the same key
	kl, kd := rew(sx.Of(look.Index).String()), rew(sx.Of(del.Call.Args[1]).String())
	wantKey := "field[TransactionID](" + sx.Of(a.send.Params[2]).String() + ")"
	r.Check(kl == wantKey && kd == wantKey, "C11-K7", key("lookup and delete use the call's transaction id"), c.P.ipos(del), "symx", "lookup key "+kl+", delete key "+kd+", want "+wantKey)
	okv := extractOf(look, 1)
	// K7 (restated after F10): the call's OWN entry, when still present, is always deleted. Walk the split graph
	// remembering whether the path has learnt "ok" and, if cancel tests identity at all, "the entry is ours";
	// no return may be reached with both learnt and the delete not passed. (The first version demanded that any
	// present entry be deleted — more than the property states, and exactly the defect F10.)
	isEntryS := func(s string) bool { return strings.Contains(s, "lookup(field[pending](") }
	isIdent := func(x atomFact) bool {
		bo, ok := x.v.(*ssa.BinOp)
		if !ok || !((bo.Op == token.EQL && x.val) || (bo.Op == token.NEQ && !x.val)) {
			return false
		}
		xs, ys := rew(sx.Of(bo.X).String()), rew(sx.Of(bo.Y).String())
		return isEntryS(xs) != isEntryS(ys)
	}
	hasIdent, hasOk := false, false
	for _, x := range atomsIn(body) {
		if isIdent(x) {
			hasIdent = true
		}
		if okv != nil && x.v == ssa.Value(okv) {
			hasOk = true
		}
	}
	if !hasOk {
		r.Violation("C11-K7", key("presence not tested"), c.P.ipos(look), "cancel does not branch on the lookup result")
	} else {
		type st struct {
			n      sNode
			ok, id bool
		}
		start := st{sNode{body.Blocks[0], -1}, false, !hasIdent}
		seen := map[st]bool{start: true}
		stack := []st{start}
		survives := false
		for len(stack) > 0 {
			cur := stack[len(stack)-1]
			stack = stack[:len(stack)-1]
			if cur.n.b == del.Block() {
				continue // the delete is executed on this path
			}
			if _, isRet := cur.n.b.Instrs[len(cur.n.b.Instrs)-1].(*ssa.Return); isRet && cur.ok && cur.id {
				survives = true
			}
			ns, as := sSuccs(cur.n)
			for i, nx := range ns {
				nxt := st{nx, cur.ok, cur.id}
				for _, x := range as[i] {
					if x.v == ssa.Value(okv) && x.val {
						nxt.ok = true
					}
					if isIdent(x) {
						nxt.id = true
					}
				}
				if !seen[nxt] {
					seen[nxt] = true
					stack = append(stack, nxt)
				}
			}
		}
		r.Check(!survives, "C11-K7", key("the call's own entry, when present, is always deleted"), c.P.ipos(del), "no return is reachable after learning ok (and entry == own) without passing delete", "the call's own entry can survive cancel: its transaction id stays registered")
	}
	if closeCh != nil {
		li := a.lockFlow(closeCh.Parent())
		r.Check(li.must[closeCh], "C10-K8", key("transaction channel closed under the lock"), c.P.ipos(closeCh), "must-hold", "close(p.ch) without pendingMu held")
	}
	// K9 identity: the entry found under the call's transaction id is removed only if it is the entry this call
	// registered. Between close(done) and Lock the receive loop may already have retired this call's entry
	// (its `<-p.done` case) and another call may have registered the same id: removing by id alone closes the
	// channel of that later, unrelated call, which then returns (nil, nil).
	gc := newGuardCache(c)
	isEntry := func(s string) bool { return strings.Contains(s, "lookup(field[pending](") }
	identity := false
	for _, f := range gc.of(del.Block()) {
		bo, ok := f.cond.(*ssa.BinOp)
		if !ok || !((bo.Op == token.EQL && f.pol) || (bo.Op == token.NEQ && !f.pol)) {
			continue
		}
		xs, ys := rew(sx.Of(bo.X).String()), rew(sx.Of(bo.Y).String())
		own := func(s string) bool {
			return !isEntry(s) && (strings.HasPrefix(s, "makechan") || strings.HasPrefix(s, "alloc(") || strings.HasPrefix(s, "free(") || c11FreshFromRegister(a, s))
		}
		if (isEntry(xs) && own(ys)) || (isEntry(ys) && own(xs)) {
			identity = true
		}
	}
	r.Check(identity, "C11-K9", key("only the entry this call registered is removed (identity test before delete)"), c.P.ipos(del), "delete is guarded by entry == own entry / entry.done == done / entry.ch == ch",
		"cancel deletes whatever entry is registered under the transaction id: if the receive loop already retired this call's entry and a later call registered the same id, that call's channel is closed and it returns (nil, nil) — demonstrated in findings/F10-cancel-by-id")
}

// blocking operations while the lock may be held
func c11Blocking(c *Ctx, a *clientAnchors) {
	r := c.R
	if a.deliverFn == nil {
		// the delivering select may sit in a helper called from the receive loop (same resolution as C10-K1)
		loopSel := false
		allInstrs(a.recvLoop, func(in ssa.Instruction) {
			if s, ok := in.(*ssa.Select); ok {
				for _, stt := range s.States {
					if stt.Dir == types.SendOnly {
						loopSel = true
					}
				}
			}
		})
		if !loopSel {
			allInstrs(a.recvLoop, func(in ssa.Instruction) {
				cl, ok := in.(*ssa.Call)
				if !ok || cl.Call.StaticCallee() == nil {
					return
				}
				g := cl.Call.StaticCallee()
				if g.Blocks == nil || funcPkg(g) != a.pkg.Pkg || token.IsExported(g.Name()) || hasNonCallRef(g) {
					return
				}
				allInstrs(g, func(i2 ssa.Instruction) {
					if s2, ok := i2.(*ssa.Select); ok {
						for _, stt := range s2.States {
							if stt.Dir == types.SendOnly {
								a.deliverFn, a.deliverCall = g, cl
							}
						}
					}
				})
			})
		}
	}
	for _, f := range a.pkgFuncs(c.P) {
		li := a.lockFlow(f)
		allInstrs(f, func(in ssa.Instruction) {
			if !li.may[in] {
				return
			}
			blocking, what := false, ""
			switch x := in.(type) {
			case *ssa.Select:
				if x.Blocking {
					blocking, what = true, "select"
					if f == a.recvLoop || (a.deliverFn != nil && f == a.deliverFn) {
						// allowed: the delivery select (judged in C10-K1 to wait on the entry's done)
						// allowed: THE delivery select — a send to the channel of the looked-up transaction entry plus a receive
						// on that entry's done (the owner's cancel closes it, so the wait ends with the call); a select that
						// sends anywhere else waits on somebody who may never read
						toEntry, onEntryDone := false, false
						for _, s := range x.States {
							cs := c.Sx().Of(s.Chan).String()
							viaEntry := strings.Contains(cs, "lookup(field[pending](") || (a.deliverFn != nil && f == a.deliverFn && strings.Contains(cs, "param("))
							if s.Dir == types.SendOnly && viaEntry {
								toEntry = true
							}
							if s.Dir == types.SendOnly && !viaEntry {
								toEntry, onEntryDone = false, false
								break
							}
							if s.Dir == types.RecvOnly && viaEntry {
								onEntryDone = true
							}
						}
						if toEntry && onEntryDone {
							r.OK("C11-K5", shortName(f)+": delivery select is the only blocking operation under the lock", c.P.ipos(in), "allowed by rule (send to the entry's channel, receive on the entry's done, C10-K1)", "")
							return
						}
					}
				}
			case *ssa.Send:
				blocking, what = true, "channel send"
			case *ssa.UnOp:
				if x.Op == token.ARROW {
					blocking, what = true, "channel receive"
				}
			case *ssa.Call:
				cc := x.Common()
				switch {
				case cc.IsInvoke() && namedIs(cc.Value.Type(), "net", "PacketConn"):
					blocking, what = true, "PacketConn."+cc.Method.Name()
				case cc.StaticCallee() != nil && cc.StaticCallee().Name() == "Wait" && pkgPathOf(cc.StaticCallee()) == "sync":
					blocking, what = true, "WaitGroup.Wait"
				case isFuncCall(cc, "time", "Sleep"):
					blocking, what = true, "time.Sleep"
				case cc.StaticCallee() != nil && funcPkg(cc.StaticCallee()) == a.pkg.Pkg && cc.StaticCallee().Blocks != nil:
					// calls into the package while holding the lock: only trivially non-blocking helpers
					if a.deliverFn != nil && cc.StaticCallee() == a.deliverFn && f == a.recvLoop {
						// the delivery helper: its select is the allowed one (judged inside the helper)
						return
					}
					blocking, what = calleeMayBlock(cc.StaticCallee(), 0), "call of "+shortName(cc.StaticCallee())
				}
			}
			if blocking {
				r.Violation("C11-K5", shortName(f)+": "+what+" while pendingMu may be held", c.P.ipos(in), "a blocking operation under pendingMu stalls every other call's registration, cancellation and Close")
			}
		})
	}
	r.OK("C11-K5", a.short+": functions scanned for blocking operations under the lock", "-", "lock dataflow", "")
}

func calleeMayBlock(f *ssa.Function, depth int) bool {
	if depth > 3 {
		return true
	}
	blk := false
	allInstrs(f, func(in ssa.Instruction) {
		switch x := in.(type) {
		case *ssa.Select, *ssa.Send:
			blk = true
		case *ssa.UnOp:
			if x.Op == token.ARROW {
				blk = true
			}
		case *ssa.Call:
			cc := x.Common()
			if cc.IsInvoke() && !strings.HasSuffix(cc.Method.Name(), "String") && cc.Method.Name() != "Error" {
				blk = true
			} else if sf := cc.StaticCallee(); sf != nil && sf.Blocks != nil && inModule(sf) {
				if calleeMayBlock(sf, depth+1) {
					blk = true
				}
			}
		}
	})
	return blk
}

// c11CallWaits: K10 — on the way of a call (SendAndRead, its try closure, send, the retry driver and what they call
// synchronously inside the package) the only place a goroutine waits for another goroutine or for time is the wait
// select, whose cases include the context, the client's shutdown and the try's deadline. A sleep, a token bucket, a
// semaphore or a second select anywhere else on that way is a wait that cancellation, Close and the deadline cannot end.
func c11CallWaits(c *Ctx, a *clientAnchors) {
	r := c.R
	w, _ := resolveWait(c, a)
	roots := []*ssa.Function{a.sar, a.try, a.send, a.retry}
	n := 0
	for _, g := range syncClosure(c.P, roots, 3) {
		if g.Pkg != a.pkg && (g.Parent() == nil || g.Parent().Pkg != a.pkg) {
			pk := g
			for pk.Parent() != nil {
				pk = pk.Parent()
			}
			if pk.Pkg != a.pkg {
				continue
			}
		}
		if g == a.cancel {
			continue // judged by K4 (close(done) before Lock)
		}
		for _, op := range waitOpsIn(g) {
			if w != nil && op.in == ssa.Instruction(w.sel) {
				continue
			}
			n++
			r.Violation("C11-K10", a.short+": a call waits only in its wait select: "+op.what+" in "+shortName(g), c.P.ipos(op.in),
				"a "+op.what+" on the way of a call outside the wait select: while it waits neither the caller's context, nor Close, nor the try's deadline can end the call")
		}
	}
	if n == 0 {
		r.OK("C11-K10", a.short+": a call waits only in its wait select", c.P.pos(a.sar.Pos()), "no other waiting operation in SendAndRead, the try, send, the retry driver and their synchronous callees", "")
	}
}

func c11Close(c *Ctx, a *clientAnchors) {
	r, fn := c.R, a.closeFn
	key := func(s string) string { return a.short + ".Close: " + s }
	var cas, connClose, closeDone, wait *ssa.Call
	allInstrs(fn, func(in ssa.Instruction) {
		cl, ok := in.(*ssa.Call)
		if !ok {
			return
		}
		cc := cl.Common()
		switch {
		case isClosedCAS(a, cc):
			cas = cl
		case isInvokeOf(cc, "net", "PacketConn", "Close") && a.isClientFieldLoad(cc.Value, "conn"):
			connClose = cl
		case isBuiltinCall(cc, "close") && a.isClientFieldLoad(cc.Args[0], "done"):
			closeDone = cl
		case cc.StaticCallee() != nil && cc.StaticCallee().Name() == "Wait" && len(cc.Args) > 0 && a.isClientFieldAddr(cc.Args[0], "wg"):
			wait = cl
		}
	})
	if cas == nil || connClose == nil || closeDone == nil || wait == nil {
		r.Violation("C11-K6", key("steps present"), c.P.pos(fn.Pos()), fmt.Sprintf("Close must CAS closed, close the conn, close(c.done) and wg.Wait; found %v/%v/%v/%v", cas != nil, connClose != nil, closeDone != nil, wait != nil))
		return
	}
	// CAS success edge
	var succ Edge
	found := false
	for _, b := range fn.Blocks {
		if iff := ifOf(b); iff != nil {
			if tE, _, ok := boolEdgesOf(iff, func(v ssa.Value) bool { return v == ssa.Value(cas) }); ok {
				succ, found = tE, true
			}
		}
	}
	if !found {
		r.Violation("C11-K6", key("once-only guard"), c.P.ipos(cas), "the CAS result is not branched on: c.done can be closed twice")
		return
	}
	for _, st := range []*ssa.Call{connClose, closeDone, wait} {
		r.Check(mustPassEdges(fn, st.Block(), succ), "C11-K6", key("shutdown steps only after winning the CAS"), c.P.ipos(st), "step unreachable without the CAS-success edge", "a shutdown step runs although another Close already won")
	}
	r.Check(instrDominates(connClose, closeDone) && instrDominates(closeDone, wait), "C11-K6", key("order conn.Close, close(done), wg.Wait"), c.P.ipos(wait), "dominance order",
		"Close waits for the receive loop before unblocking it (or signals done before closing the conn)")
	// every path from the success edge to return passes all three
	for _, st := range []*ssa.Call{connClose, closeDone, wait} {
		st := st
		first := succ.To.Instrs[0]
		is := func(in ssa.Instruction) bool { return in == ssa.Instruction(st) }
		r.Check(is(first) || everyPathFromHits(first, is), "C11-K6", key("every winning Close performs all steps"), c.P.ipos(st), "must-pass-through", "a winning Close can return without "+st.String())
	}
	// wg.Add dominates go; loop defers wg.Done
	var add *ssa.Call
	host := a.goIns.Parent()
	allInstrs(host, func(in ssa.Instruction) {
		if cl, ok := in.(*ssa.Call); ok && cl.Call.StaticCallee() != nil && cl.Call.StaticCallee().Name() == "Add" && len(cl.Call.Args) > 0 && a.isClientFieldAddr(cl.Call.Args[0], "wg") {
			add = cl
		}
	})
	r.Check(add != nil && instrDominates(add, a.goIns), "C11-K6", a.short+": wg.Add before the go of the receive loop", c.P.ipos(a.goIns), "Add dominates go", "the receive loop is started without a preceding wg.Add: Close may return while it still runs")
	var done *ssa.Defer
	allInstrs(a.recvLoop, func(in ssa.Instruction) {
		if d, ok := in.(*ssa.Defer); ok && d.Call.StaticCallee() != nil && d.Call.StaticCallee().Name() == "Done" && len(d.Call.Args) > 0 && a.isClientFieldAddr(d.Call.Args[0], "wg") {
			done = d
		}
	})
	read := hasReadFromInCycle(a.recvLoop)
	r.Check(done != nil && read != nil && done.Block().Dominates(read.Block()) && !inCycle(done.Block()), "C11-K6", a.short+".receiveLoop: defers wg.Done on entry", c.P.pos(a.recvLoop.Pos()), "defer dominates the loop", "the receive loop does not defer wg.Done: Close hangs in wg.Wait")
	// returns on any read error
	if read != nil {
		rerr := extractOf(read, 2)
		okr := false
		for _, b := range a.recvLoop.Blocks {
			if iff := ifOf(b); iff != nil && rerr != nil {
				if _, nn, ok := nilEdgesOf(iff, func(v ssa.Value) bool { return v == ssa.Value(rerr) }); ok {
					loop := sccOf(read.Block())
					// from the error edge the loop is never re-entered
					re := false
					for x := range reachFrom(nn.To, nil, nil) {
						if loop[x] {
							re = true
						}
					}
					okr = !re
				}
			}
		}
		r.Check(okr, "C11-K6", a.short+".receiveLoop: returns on any ReadFrom error", c.P.ipos(read), "error edge never re-enters the loop", "a read error (e.g. closed connection) does not end the receive loop: Close never returns")
	}
}

// ---------------------------------------------------------------------------

func checkC12(c *Ctx) {
	r := c.R
	r.Decides = append(r.Decides,
		"K1 retry driver: loop condition i<retry ∨ retry<0 with i from 0 step 1; first timeout is c.timeout, doubled after and only after the internal deadline error; nil ⇒ return nil at once; any other error ⇒ returned at once; loop exit ⇒ deadline error; the try's deadline is that timeout",
		"K2 one transmission per try: the try calls send exactly once outside the wait loop; send calls conn.WriteTo exactly once with msg.ToBytes() and dest of SendAndRead's own parameters",
		"K3 identical bytes: between tries the message is only read (logger and ToBytes are read-only by C20; ToBytes deterministic by C07/C02)",
		"K4 the internal deadline error is mapped to ErrNoResponse and never escapes SendAndRead",
		"K5 (shared with C10-K1/K2/K3) the transaction is registered before its datagram is written, and the receive loop is left only when reading fails: a reply arriving during any try reaches the waiting call")
	r.NotDecided = append(r.NotDecided, "actual offsets in time (behaviour of time.After, scheduling)")
	r.Expect("C12-clients", 2)
	for _, short := range []string{"nclient4", "nclient6"} {
		a := resolveClientAnchors(c, short)
		if len(a.errs) > 0 {
			r.Undecided("C12-anchor", short+": "+strings.Join(a.errs, "; "), "-", "role-based anchors did not resolve")
			continue
		}
		r.Count("C12-clients", 1)
		c12Retry(c, a)
		c12Transmit(c, a)
		c12Map(c, a)
		// "fails with the no-response error at T×(2^n−1)": a try ends when ITS timeout has passed — the wait select has a
		// deadline case fed by the try's timeout, created once per try and never re-armed (C11-K1/K2)
		c11Wait(c, a)
		if a.sendCall != nil && len(a.sendCall.Call.Args) == 3 {
			sx := c.Sx()
			got1, got2 := sx.Of(a.sendCall.Call.Args[1]).String(), sx.Of(a.sendCall.Call.Args[2]).String()
			want1, want2 := sx.Of(a.sar.Params[2]).String(), sx.Of(a.sar.Params[3]).String()
			r.Check(got1 == want1 && got2 == want2, "C12-K2", a.short+".SendAndRead: send(dest, msg) gets SendAndRead's own dest and message", c.P.ipos(a.sendCall), "symx", "send called with ("+got1+", "+got2+"), want ("+want1+", "+want2+"): every try must go to the destination the caller gave (a rebuilt address can lose its zone) with the caller's message")
		}
		loggerPurity(c, short, "C12-K3")
		ctorDefaultsFirst(c, a)
		// "a response accepted during try k ends the call" needs the reply to be routed: the transaction is registered
		// before the datagram leaves (C10-K3) and the receive loop keeps running until the connection fails (C10-K1/K2)
		c10Send(c, a)
		c10RecvLoop(c, a)
		// "transmits at 0, T, 3T …": every try gets to transmit — send takes pendingMu, so the lock must be released on
		// every exit of every function that takes it (C10-K5); a leaked lock stops all later transmissions
		c10Locks(c, a)
	}
}

func c12Retry(c *Ctx, a *clientAnchors) {
	r, sx, fn := c.R, c.Sx(), a.retry
	key := func(s string) string { return a.short + ".retryFn: " + s }
	var call *ssa.Call
	n := 0
	allInstrs(fn, func(in ssa.Instruction) {
		if cl, ok := in.(*ssa.Call); ok {
			if prm, ok := cl.Call.Value.(*ssa.Parameter); ok && prm.Parent() == fn {
				call = cl
				n++
			}
		}
	})
	if n != 1 || call == nil || len(call.Call.Args) != 1 {
		r.Undecided("C12-K1", key("shape"), c.P.pos(fn.Pos()), fmt.Sprintf("expected one call of the try function with one argument, found %d", n))
		return
	}
	recv := sx.Of(fn.Params[0]).String()
	// timeout argument: phi(c.timeout, prev*2)
	tphi, ok := call.Call.Args[0].(*ssa.Phi)
	if !ok {
		r.Violation("C12-K1", key("timeout doubles between tries"), c.P.ipos(call), "the timeout handed to the try is not a loop-carried value: "+sx.Of(call.Call.Args[0]).String())
		return
	}
	var initOK, dblOK bool
	var dbl *ssa.BinOp
	var others []string
	for _, e := range tphi.Edges {
		s := sx.Of(e).String()
		switch {
		case s == "field[timeout]("+recv+")":
			initOK = true
		case e == ssa.Value(tphi):
		default:
			if bo, ok := e.(*ssa.BinOp); ok {
				isTwo := func(v ssa.Value) bool { k, ok := v.(*ssa.Const); return ok && k.Value != nil && k.Int64() == 2 }
				isOne := func(v ssa.Value) bool { k, ok := v.(*ssa.Const); return ok && k.Value != nil && k.Int64() == 1 }
				if (bo.Op == token.MUL && ((bo.X == ssa.Value(tphi) && isTwo(bo.Y)) || (bo.Y == ssa.Value(tphi) && isTwo(bo.X)))) ||
					(bo.Op == token.ADD && bo.X == ssa.Value(tphi) && bo.Y == ssa.Value(tphi)) ||
					(bo.Op == token.SHL && bo.X == ssa.Value(tphi) && isOne(bo.Y)) {
					dblOK, dbl = true, bo
					continue
				}
			}
			// nested phi that merges tphi and the doubled value (switch join)
			if ph, ok := e.(*ssa.Phi); ok {
				fine := true
				for _, e2 := range ph.Edges {
					if e2 == ssa.Value(tphi) {
						continue
					}
					if bo, ok := e2.(*ssa.BinOp); ok && bo.Op == token.MUL && bo.X == ssa.Value(tphi) {
						if k, ok := bo.Y.(*ssa.Const); ok && k.Int64() == 2 {
							dblOK, dbl = true, bo
							continue
						}
					}
					fine = false
				}
				if fine {
					continue
				}
			}
			others = append(others, s)
		}
	}
	r.Check(initOK, "C12-K1", key("first try uses the configured timeout"), c.P.ipos(call), "phi edge field timeout of receiver", "the first timeout is not c.timeout")
	r.Check(dblOK && len(others) == 0, "C12-K1", key("timeout is exactly doubled between tries"), c.P.ipos(call), "phi edges ⊆ {c.timeout, t, t*2}",
		"the next timeout is not exactly twice the previous one (extra sources: "+strings.Join(others, ", ")+"): the schedule 0, T, 3T, 7T … and the give-up time T×(2^n−1) are broken")
	// doubling happens only on the deadline error
	errv := ssa.Value(call)
	if dbl != nil {
		dlE, byIdDrv, found := sentinelTestEdge(sx, fn, errv, "load(global("+a.short+".errDeadlineExceeded))")
		c12IdentityConsistent(c, a, byIdDrv && found)
		if !found {
			r.Violation("C12-K1", key("deadline error recognised"), c.P.ipos(call), "the try's result is not compared with the internal deadline error")
		} else {
			r.Check(mustPassEdges(fn, dbl.Block(), dlE) || dbl.Block() == dlE.To, "C12-K1", key("doubling only after a deadline"), c.P.ipos(dbl), "doubling unreachable without err==errDeadlineExceeded", "the timeout doubles on a path that did not see the deadline error")
			// the deadline edge leads back to the loop, not to a return
			back := false
			for x := range reachFrom(dlE.To, nil, nil) {
				if x == call.Block() {
					back = true
				}
			}
			r.Check(back, "C12-K1", key("a deadline leads to the next try"), c.P.ipos(call), "call block reachable from the deadline edge", "after a deadline no further try is made")
			// … and nothing else does: with the deadline edge removed the try cannot be reached again from its own result
			// (a write error, the context's error, ErrNoResponse after Close, any transport "timeout" end the call at once)
			again := reachFromSuccs(call.Block(), map[Edge]bool{dlE: true}, nil)[call.Block()]
			r.Check(!again, "C12-K1", key("only the try's own deadline leads to another try"), c.P.ipos(call), "no cycle through the try avoids the err==errDeadlineExceeded edge",
				"another try is made after a result that is not the internal deadline error (an error classified by Timeout(), a wrapped error, …): a cancelled or expired context, a closed client or a failed write no longer end the call at once")
			// … and every path from the deadline edge to the next try doubles: the call block is not reachable
			// from the deadline edge once the doubling block is removed
			if back && dbl.Block() != dlE.To {
				skip := reachFrom(dlE.To, nil, map[*ssa.BasicBlock]bool{dbl.Block(): true})[call.Block()]
				r.Check(!skip, "C12-K1", key("every deadline doubles the timeout"), c.P.ipos(dbl), "no path from the deadline edge to the next try avoids the doubling",
					"after a deadline the next try can start with the timeout not doubled (a cap or condition on the doubling): the offsets 0, T, 3T, 7T … and the give-up time T×(2^n−1) no longer hold")
			} else if back {
				r.OK("C12-K1", key("every deadline doubles the timeout"), c.P.ipos(dbl), "the doubling sits on the deadline edge itself", "")
			}
		}
	}
	// nil ⇒ return nil; other error ⇒ return it
	nilRet, errRet, dlRet := false, false, false
	for _, ret := range returnsOf(fn) {
		s := sx.Of(ret.Results[0]).String()
		switch {
		case s == "const(nil:error)":
			nilRet = true
		case ret.Results[0] == errv:
			errRet = true
			// `if err != errDeadlineExceeded { return err }`: the try's result is handed back as it is, nil included
			if !nilGuardedBlock(fn, ret.Block(), errv) {
				nilRet = true
			}
		case s == "load(global("+a.short+".errDeadlineExceeded))":
			dlRet = true
			r.Check(!reachFromSuccs(call.Block(), nil, nil)[ret.Block()] || !sameCycle(ret.Block(), call.Block()), "C12-K1", key("exhausted tries yield the deadline error"), c.P.ipos(ret), "return outside the loop", "")
		default:
			if ph, ok := ret.Results[0].(*ssa.Phi); ok {
				for _, e := range ph.Edges {
					es := sx.Of(e).String()
					if es == "const(nil:error)" {
						nilRet = true
					} else if e == errv {
						errRet = true
					} else if es == "load(global("+a.short+".errDeadlineExceeded))" {
						dlRet = true
					} else {
						r.Violation("C12-K1", key("unexpected result "+es), c.P.ipos(ret), "retry driver returns a value that is neither nil, the try's error nor the deadline error")
					}
				}
			} else {
				r.Violation("C12-K1", key("unexpected result "+s), c.P.ipos(ret), "retry driver returns a value that is neither nil, the try's error nor the deadline error")
			}
		}
	}
	r.Check(nilRet && errRet && dlRet, "C12-K1", key("results: nil at once, other errors at once, deadline error when exhausted"), c.P.pos(fn.Pos()), "three return kinds present", fmt.Sprintf("nil=%v try-error=%v deadline=%v", nilRet, errRet, dlRet))
	// loop condition: from the head of the loop the try is entered exactly when  i < retry  ∨  retry < 0, decided by truth
	// table over the two tests (in either order, computed in the loop or once before it)
	var iphi *ssa.Phi
	condOK := false
	{
		ret := "field[retry](" + recv + ")"
		isA := func(v ssa.Value) bool {
			bo, ok := v.(*ssa.BinOp)
			if !ok || bo.Op != token.LSS || sx.Of(bo.Y).String() != ret {
				return false
			}
			if ph, ok := bo.X.(*ssa.Phi); ok && sameCycle(ph.Block(), call.Block()) {
				iphi = ph
				return true
			}
			return false
		}
		isB := func(v ssa.Value) bool { return sx.Of(v).String() == "bin[<]("+ret+",const(0))" }
		// find the counter first
		for _, b := range fn.Blocks {
			if iff := ifOf(b); iff != nil && sameCycle(b, call.Block()) {
				inner, _ := unwrapBool(iff.Cond)
				isA(inner)
			}
		}
		if iphi != nil {
			condOK = true
			for _, av := range []bool{false, true} {
				for _, bv := range []bool{false, true} {
					cur := iphi.Block()
					entered, decided := false, false
					for steps := 0; steps < 16 && !decided; steps++ {
						if cur == call.Block() {
							entered, decided = true, true
							break
						}
						if !sameCycle(cur, call.Block()) {
							decided = true
							break
						}
						switch t := cur.Instrs[len(cur.Instrs)-1].(type) {
						case *ssa.Jump:
							cur = cur.Succs[0]
						case *ssa.If:
							inner, same := unwrapBool(t.Cond)
							var val bool
							switch {
							case isA(inner):
								val = av
							case isB(inner):
								val = bv
							default:
								steps = 99 // a third test on the way to the try
								continue
							}
							if !same {
								val = !val
							}
							if val {
								cur = cur.Succs[0]
							} else {
								cur = cur.Succs[1]
							}
						default:
							decided = true
						}
					}
					if !decided || entered != (av || bv) {
						condOK = false
					}
				}
			}
		}
	}
	r.Check(condOK, "C12-K1", key("loop condition is i<retry || retry<0"), c.P.ipos(call), "symx of the two loop tests", "the retry loop's condition is not `i < c.retry || c.retry < 0`: wrong number of tries or negative count not retried forever")
	if iphi != nil {
		okI := len(iphi.Edges) == 2
		for _, e := range iphi.Edges {
			s := sx.Of(e).String()
			if s == "const(0)" {
				continue
			}
			if bo, ok := e.(*ssa.BinOp); ok && bo.Op == token.ADD && bo.X == ssa.Value(iphi) {
				if k, ok := bo.Y.(*ssa.Const); ok && k.Int64() == 1 {
					continue
				}
			}
			okI = false
		}
		r.Check(okI, "C12-K1", key("try counter runs 0,1,2,…"), c.P.ipos(iphi), "phi(0, i+1)", "the try counter does not start at 0 or does not step by 1")
	} else {
		r.Violation("C12-K1", key("try counter"), c.P.ipos(call), "no loop counter compared with c.retry")
	}
}

func c12Transmit(c *Ctx, a *clientAnchors) {
	r, sx := c.R, c.Sx()
	key := func(s string) string { return a.short + ": " + s }
	// one send call per try, outside the wait loop
	n := 0
	allInstrs(a.try, func(in ssa.Instruction) {
		if ci, ok := in.(ssa.CallInstruction); ok && ci.Common().StaticCallee() == a.send {
			n++
		}
	})
	r.Check(n == 1 && !inCycle(a.sendCall.Block()), "C12-K2", key("the try transmits once, outside the wait loop"), c.P.ipos(a.sendCall), "one call of send, not on a cycle", fmt.Sprintf("%d calls of send in the try; in a loop: %v", n, inCycle(a.sendCall.Block())))
	// send is called only from the try (and Release-like direct writers are judged in C13)
	for _, f := range a.pkgFuncs(c.P) {
		allInstrs(f, func(in ssa.Instruction) {
			if ci, ok := in.(ssa.CallInstruction); ok && ci.Common().StaticCallee() == a.send && f != a.try {
				r.Violation("C12-K2", key("send called outside the try closure"), c.P.ipos(in), shortName(f)+" calls send")
			}
		})
	}
	// the try is handed to the retry driver by SendAndRead
	okDrv := false
	allInstrs(a.sar, func(in ssa.Instruction) {
		if cl, ok := in.(*ssa.Call); ok && cl.Call.StaticCallee() == a.retry && len(cl.Call.Args) == 2 {
			if mc, ok := cl.Call.Args[1].(*ssa.MakeClosure); ok && mc.Fn == a.try {
				okDrv = true
			}
		}
	})
	r.Check(okDrv, "C12-K2", key("SendAndRead runs the try under the retry driver"), c.P.pos(a.sar.Pos()), "call of retry driver with the try closure", "SendAndRead does not pass its try closure to the retry driver")
	// WriteTo(msg.ToBytes(), dest)
	var write *ssa.Call
	allInstrs(a.send, func(in ssa.Instruction) {
		if cl, ok := in.(*ssa.Call); ok && isInvokeOf(cl.Common(), "net", "PacketConn", "WriteTo") {
			write = cl
		}
	})
	if write == nil {
		r.Violation("C12-K2", key("send transmits"), c.P.pos(a.send.Pos()), "no WriteTo in send")
		return
	}
	r.Check(!inCycle(write.Block()), "C12-K2", key("send transmits once"), c.P.ipos(write), "WriteTo not on a cycle", "WriteTo inside a loop")
	conn := sx.Of(write.Call.Value).String()
	r.Check(conn == "field[conn]("+sx.Of(a.send.Params[0]).String()+")", "C12-K2", key("transmission on the client's connection"), c.P.ipos(write), "symx", "WriteTo receiver is "+conn)
	b0 := sx.Of(write.Call.Args[0]).String()
	wantB := "(" + sx.Of(a.send.Params[2]).String() + ")"
	r.Check(strings.HasPrefix(b0, "call[(*dhcpv") && strings.Contains(b0, ").ToBytes]") && strings.HasSuffix(b0, wantB), "C12-K2", key("transmitted bytes are msg.ToBytes()"), c.P.ipos(write), "symx", "WriteTo payload is "+b0)
	d0 := sx.Of(write.Call.Args[1]).String()
	r.Check(d0 == sx.Of(a.send.Params[1]).String(), "C12-K2", key("transmitted to the requested destination"), c.P.ipos(write), "symx", "WriteTo destination is "+d0)
	// K6: a failed transmission fails the try: on the WriteTo-error edge every return of send carries a non-nil error
	// (whatever kind of error it is) — the retry driver's "any other error is returned at once" rests on it
	if werr := extractOf(write, 1); werr == nil {
		r.Violation("C12-K6", key("send looks at WriteTo's error"), c.P.ipos(write), "the error result of WriteTo is dropped: a failed transmission counts as sent and the try waits out its timeout")
	} else {
		var nn Edge
		found := false
		for _, b := range a.send.Blocks {
			if iff := ifOf(b); iff != nil {
				if _, e, ok := nilEdgesOf(iff, func(y ssa.Value) bool { return y == ssa.Value(werr) }); ok {
					nn, found = e, true
				}
			}
		}
		if !found {
			r.Violation("C12-K6", key("send looks at WriteTo's error"), c.P.ipos(write), "no nil test of WriteTo's error")
		} else {
			okErr, where := true, c.P.ipos(write)
			reach := reachFrom(nn.To, nil, nil)
			onlyViaNN := len(nn.To.Preds) == 1
			for _, rt := range returnsOf(a.send) {
				if !reach[rt.Block()] || !onlyViaNN {
					continue
				}
				if !(nn.To == rt.Block() || nn.To.Dominates(rt.Block())) {
					continue
				}
				ev := rt.Results[len(rt.Results)-1]
				if isNilConst(ev) || !definitelyError(ev, rt) {
					okErr, where = false, c.P.ipos(rt)
				}
			}
			r.Check(okErr && onlyViaNN, "C12-K6", key("every WriteTo error makes send fail"), where, "all returns on the WriteTo-error edge carry a non-nil error", "send reports success although WriteTo failed: the try waits out its timeout and the driver retransmits instead of returning the write error at once")
		}
	}
	// K3: the message is not written between tries: every use of the message value in SendAndRead,
	// the try and send is a field read, a call of a read-only method (judged by C20) or the logger.
	nUses := 0
	check := func(f *ssa.Function, root ssa.Value) {
		seen := map[ssa.Value]bool{}
		var visit func(v ssa.Value)
		visit = func(v ssa.Value) {
			if seen[v] {
				return
			}
			seen[v] = true
			for _, ref := range *v.Referrers() {
				nUses++
				switch x := ref.(type) {
				case *ssa.DebugRef:
				case *ssa.FieldAddr:
					for _, r2 := range *x.Referrers() {
						switch y := r2.(type) {
						case *ssa.UnOp, *ssa.DebugRef:
						case *ssa.Store:
							if y.Addr == ssa.Value(x) {
								r.Violation("C12-K3", key(shortName(f)+" writes a field of the message"), c.P.ipos(y), "the request is modified between tries: retransmissions are not identical")
							}
						default:
							r.Undecided("C12-K3", key(shortName(f)+": address of a message field escapes"), c.P.ipos(r2), fmt.Sprintf("%T", r2))
						}
					}
				case *ssa.Store:
					if x.Addr == v {
						r.Violation("C12-K3", key(shortName(f)+" overwrites the message"), c.P.ipos(x), "store through the message pointer")
					}
					// storing the pointer into a capture cell: follow the cell's loads in closures
				case *ssa.UnOp:
					if x.Op == token.MUL {
						r.Violation("C12-K3", key(shortName(f)+" copies the message by value"), c.P.ipos(x), "unexpected dereference")
					}
				case *ssa.Call:
					cc := x.Common()
					switch {
					case cc.StaticCallee() == a.send:
					case cc.IsInvoke() && (cc.Method.Name() == "PrintMessage" || cc.Method.Name() == "Printf"):
					case cc.StaticCallee() != nil && cc.StaticCallee().Signature.Recv() != nil && len(cc.Args) > 0 && cc.Args[0] == v && !isMutatorName(cc.StaticCallee().Name()) && inModule(cc.StaticCallee()):
						// read-only method by contract; purity is decided under C20
					default:
						r.Violation("C12-K3", key(shortName(f)+" hands the message to "+calleeName(cc)), c.P.ipos(x), "the request may be modified between tries")
					}
				case *ssa.MakeInterface, *ssa.ChangeType, *ssa.Phi:
					visit(x.(ssa.Value))
				default:
					r.Undecided("C12-K3", key(shortName(f)+": unrecognised use of the message"), c.P.ipos(ref), fmt.Sprintf("%T", ref))
				}
			}
		}
		visit(root)
	}
	check(a.send, a.send.Params[2])
	// in SendAndRead the parameter is spilled to a cell captured by the try closure
	msgP := a.sar.Params[3]
	for _, ref := range *msgP.Referrers() {
		if st, ok := ref.(*ssa.Store); ok && st.Val == ssa.Value(msgP) {
			if al, ok := st.Addr.(*ssa.Alloc); ok {
				// loads of the cell in sar and through the closure's free variable
				for _, r2 := range *al.Referrers() {
					if u, ok := r2.(*ssa.UnOp); ok {
						check(a.sar, u)
					}
					if st2, ok := r2.(*ssa.Store); ok && st2 != st {
						r.Violation("C12-K3", key("message variable reassigned"), c.P.ipos(st2), "the message variable is reassigned in SendAndRead")
					}
				}
				allInstrs(a.sar, func(in ssa.Instruction) {
					mc, ok := in.(*ssa.MakeClosure)
					if !ok || mc.Fn != a.try {
						return
					}
					for i, b := range mc.Bindings {
						if b == ssa.Value(al) {
							fv := a.try.FreeVars[i]
							for _, r3 := range *fv.Referrers() {
								if u, ok := r3.(*ssa.UnOp); ok {
									check(a.try, u)
								}
								if st3, ok := r3.(*ssa.Store); ok {
									r.Violation("C12-K3", key("message variable reassigned in the try"), c.P.ipos(st3), "the try closure assigns the captured message variable")
								}
							}
						}
					}
				})
			}
		} else if _, ok := ref.(*ssa.DebugRef); !ok {
			check(a.sar, msgP)
		}
	}
	r.Check(nUses >= 3, "C12-K3", key("message only read between tries"), c.P.pos(a.sar.Pos()), fmt.Sprintf("%d uses of the message classified as reads / read-only calls", nUses), "no uses of the message found: anchors wrong")
	_ = sx
}

// c12DeadlineSource: inside the try, the internal deadline error may only be produced by the
// deadline case of the wait select (anything else makes the driver double and retransmit).
// sentinelFresh: the internal per-try deadline error is a value of its own (errors.New in the package
// initialiser), not an alias of an error a caller or the context can produce (ErrNoResponse,
// context.DeadlineExceeded): the retry driver tells "this try timed out" from everything else by identity.
func sentinelFresh(c *Ctx, a *clientAnchors) {
	r := c.R
	var g *ssa.Global
	for _, m := range a.pkg.Members {
		if gl, ok := m.(*ssa.Global); ok && gl.Name() == "errDeadlineExceeded" {
			g = gl
		}
	}
	key := a.short + ": the internal deadline error is a distinct value (errors.New in the package initialiser)"
	if g == nil {
		r.Undecided("C12-K1", key, "-", "global errDeadlineExceeded not found")
		return
	}
	initF := a.pkg.Func("init")
	fresh, n := false, 0
	var pos ssa.Instruction
	for _, f := range append([]*ssa.Function{initF}, a.pkgFuncs(c.P)...) {
		if f == nil {
			continue
		}
		allInstrs(f, func(in ssa.Instruction) {
			st, ok := in.(*ssa.Store)
			if !ok || st.Addr != ssa.Value(g) {
				return
			}
			n++
			pos = in
			v := st.Val
			if mi, ok := v.(*ssa.MakeInterface); ok {
				v = mi.X
			}
			if cl, ok := v.(*ssa.Call); ok && (isFuncCall(cl.Common(), "errors", "New") || isFuncCall(cl.Common(), "fmt", "Errorf")) {
				fresh = true
			}
		})
	}
	p := "-"
	if pos != nil {
		p = c.P.ipos(pos)
	}
	r.Check(n == 1 && fresh, "C12-K1", key, p, "single store of an errors.New result", "errDeadlineExceeded is not a fresh error value (it aliases another error or is assigned more than once): a caller's context deadline, ErrNoResponse after Close, or a connection error is then taken for a try that timed out and retried")
}

// sentinelTestEdge: the edge of fn taken exactly when errv is recognised as the sentinel whose symx is dl —
// `errv == sentinel`, `errv != sentinel` (else edge), a switch case on it, or errors.Is(errv, sentinel).
// byIdentity reports whether the recognition is by == (a wrapped sentinel is then NOT recognised).
func sentinelTestEdge(sx *symxer, fn *ssa.Function, errv ssa.Value, dl string) (e Edge, byIdentity, found bool) {
	for _, b := range fn.Blocks {
		iff := ifOf(b)
		if iff == nil {
			continue
		}
		cond, same := unwrapBool(iff.Cond)
		if bo, ok := cond.(*ssa.BinOp); ok && (bo.Op == token.EQL || bo.Op == token.NEQ) {
			xs, ys := sx.Of(bo.X).String(), sx.Of(bo.Y).String()
			if (bo.X == errv && ys == dl) || (bo.Y == errv && xs == dl) {
				t := (bo.Op == token.EQL) == same
				e = Edge{b, b.Succs[1]}
				if t {
					e = Edge{b, b.Succs[0]}
				}
				return e, true, true
			}
		}
		if cl, ok := cond.(*ssa.Call); ok && isFuncCall(cl.Common(), "errors", "Is") && len(cl.Call.Args) == 2 {
			if cl.Call.Args[0] == errv && sx.Of(cl.Call.Args[1]).String() == dl {
				e = Edge{b, b.Succs[1]}
				if same {
					e = Edge{b, b.Succs[0]}
				}
				return e, false, true
			}
		}
	}
	return Edge{}, false, false
}

func c12DeadlineSource(c *Ctx, a *clientAnchors) {
	sentinelFresh(c, a)
	r := c.R
	key := func(s string) string { return a.short + ".SendAndRead: " + s }
	w, why := resolveWait(c, a)
	if w == nil || w.iTimer < 0 {
		r.Undecided("C12-K1", key("deadline case"), c.P.pos(a.try.Pos()), "wait select not resolved: "+why)
		return
	}
	tb := w.timerCase()
	n := 0
	allInstrs(a.try, func(in ssa.Instruction) {
		u, ok := in.(*ssa.UnOp)
		if !ok || u.Op != token.MUL {
			return
		}
		g, ok := u.X.(*ssa.Global)
		if !ok || g.Name() != "errDeadlineExceeded" {
			return
		}
		n++
		// … or in a block that, over feasible paths, is reached from the wait select only through the deadline case (the case
		// reports "timed out" by a nil pair and the caller of the merged helper turns that into the sentinel)
		viaDeadlineOnly := tb != nil && u.Block() != tb && !reachFeasible(w.sel.Block(), nil, map[*ssa.BasicBlock]bool{tb: true})[u.Block()]
		r.Check(u.Block() == tb || viaDeadlineOnly, "C12-K1", key("only the try's deadline produces the internal deadline error"), c.P.ipos(u), "load of errDeadlineExceeded sits in the deadline case",
			"the try reports the internal deadline error on a path other than its own deadline: the retry driver doubles the timeout and retransmits although the call should end")
	})
	r.Check(n >= 1, "C12-K1", key("deadline case reports the internal deadline error"), c.P.ipos(w.sel), "instance count", "no use of errDeadlineExceeded in the try")
}

func c12Map(c *Ctx, a *clientAnchors) {
	c12DeadlineSource(c, a)
	r, sx, fn := c.R, c.Sx(), a.sar
	key := func(s string) string { return a.short + ".SendAndRead: " + s }
	dl := "load(global(" + a.short + ".errDeadlineExceeded))"
	noresp := "load(global(" + a.short + ".ErrNoResponse))"
	var drv *ssa.Call
	allInstrs(fn, func(in ssa.Instruction) {
		if cl, ok := in.(*ssa.Call); ok && cl.Call.StaticCallee() == a.retry {
			drv = cl
		}
	})
	if drv == nil {
		r.Undecided("C12-K4", key("driver call"), c.P.pos(fn.Pos()), "retry driver not called")
		return
	}
	dlE, _, found := sentinelTestEdge(sx, fn, ssa.Value(drv), dl)
	if !found {
		r.Violation("C12-K4", key("deadline error mapped to ErrNoResponse"), c.P.ipos(drv), "the driver's result is not compared with the internal deadline error: it escapes to the caller")
		return
	}
	okMap := false
	if ret, ok := dlE.To.Instrs[len(dlE.To.Instrs)-1].(*ssa.Return); ok && len(ret.Results) == 2 {
		okMap = sx.Of(ret.Results[1]).String() == noresp
	}
	r.Check(okMap, "C12-K4", key("deadline error mapped to ErrNoResponse"), c.P.ipos(drv), "deadline edge returns ErrNoResponse", "on the deadline edge SendAndRead does not return ErrNoResponse")
	// the other returns never carry the internal error by name
	for _, ret := range returnsOf(fn) {
		if len(ret.Results) == 2 && sx.Of(ret.Results[1]).String() == dl {
			r.Violation("C12-K4", key("internal deadline error returned"), c.P.ipos(ret), "errDeadlineExceeded escapes")
		}
	}
	// success return carries the response variable
	_ = fmt.Sprint
}

// loggerPurity: the in-repo implementations of the clients' Logger.PrintMessage (called with the request
// before every transmission) write nothing reachable from the message they print (E3 mutation summaries).
func loggerPurity(c *Ctx, pkgShort, rule string) {
	r := c.R
	e := getE3(c)
	n := 0
	for _, f := range c.P.ModuleFuncs() {
		if f.Parent() != nil || f.Signature.Recv() == nil || f.Name() != "PrintMessage" || f.Synthetic != "" {
			continue
		}
		if !strings.HasSuffix(pkgPathOf(f), "/"+pkgShort) {
			continue
		}
		ps := map[int]bool{}
		for i, prm := range f.Params {
			if i > 0 && hasPtr(prm.Type()) {
				ps[i] = true
			}
		}
		if len(ps) == 0 {
			continue
		}
		n++
		fnd := e.mutationFindings(f, ps)
		bad := false
		for _, x := range fnd {
			if strings.HasPrefix(x.short, "UNDECIDED") {
				r.Undecided(rule, shortName(f)+": "+x.short, x.pos, x.detail)
				bad = true
				continue
			}
			bad = true
			r.Violation(rule, shortName(f)+": the logger writes the message it prints", x.pos, "writes: "+x.short+"\n    "+x.detail+"\n    the request is logged before every transmission: a logger that changes it makes retransmissions differ from the first datagram")
		}
		if !bad {
			r.OK(rule, shortName(f)+": writes nothing reachable from the message", c.P.pos(f.Pos()), "E3: mutates ∩ inputs = ∅", "")
		}
	}
	r.Count(rule+"-loggers-"+pkgShort, n)
	r.Expect(rule+"-loggers-"+pkgShort, 2)
}

// ctorDefaultsFirst: C12-K5 — in the constructor, a Client field that the retry driver reads and some ClientOpt can set is not written after
// an option has been applied: defaults come first, options prevail (WithRetry(0) / WithTimeout(0) stay what the
// caller asked for).
func ctorDefaultsFirst(c *Ctx, a *clientAnchors) {
	r := c.R
	optT, _ := a.pkg.Pkg.Scope().Lookup("ClientOpt").(*types.TypeName)
	if optT == nil || a.ctor == nil {
		r.Undecided("C12-K5", a.short+": ClientOpt type / constructor", "-", "not found")
		return
	}
	sig, _ := optT.Type().Underlying().(*types.Signature)
	fieldOf := func(st *ssa.Store) string {
		fa, ok := st.Addr.(*ssa.FieldAddr)
		if !ok {
			return ""
		}
		pt, ok := fa.X.Type().Underlying().(*types.Pointer)
		if !ok {
			return ""
		}
		n, ok := pt.Elem().(*types.Named)
		if !ok || n.Obj() != a.client.Obj() {
			return ""
		}
		return n.Underlying().(*types.Struct).Field(fa.Field).Name()
	}
	settable := map[string]bool{}
	for _, f := range a.pkgFuncs(c.P) {
		if f.Parent() == nil || sig == nil || !types.Identical(f.Signature, sig) {
			continue
		}
		allInstrs(f, func(in ssa.Instruction) {
			if st, ok := in.(*ssa.Store); ok {
				if n := fieldOf(st); n != "" {
					settable[n] = true
				}
			}
		})
	}
	// only the fields the retry driver reads (the schedule: timeout, number of tries)
	sched := map[string]bool{}
	if a.retry != nil {
		allInstrs(a.retry, func(in ssa.Instruction) {
			if fa, ok := in.(*ssa.FieldAddr); ok {
				if pt, ok := fa.X.Type().Underlying().(*types.Pointer); ok {
					if n, ok := pt.Elem().(*types.Named); ok && n.Obj() == a.client.Obj() {
						sched[n.Underlying().(*types.Struct).Field(fa.Field).Name()] = true
					}
				}
			}
		})
	}
	for k := range settable {
		if !sched[k] {
			delete(settable, k)
		}
	}
	var optCalls []ssa.Instruction
	allInstrs(a.ctor, func(in ssa.Instruction) {
		if cl, ok := in.(*ssa.Call); ok && cl.Call.StaticCallee() == nil && !cl.Call.IsInvoke() && types.Identical(cl.Call.Value.Type(), optT.Type()) {
			optCalls = append(optCalls, in)
		}
	})
	if len(optCalls) == 0 || len(settable) == 0 {
		r.Undecided("C12-K5", a.short+": options applied in the constructor", c.P.pos(a.ctor.Pos()), fmt.Sprintf("%d option calls, %d option-settable fields", len(optCalls), len(settable)))
		return
	}
	bad := ""
	allInstrs(a.ctor, func(in ssa.Instruction) {
		st, ok := in.(*ssa.Store)
		if !ok {
			return
		}
		n := fieldOf(st)
		if n == "" || !settable[n] {
			return
		}
		for _, oc := range optCalls {
			after := (oc.Block() == st.Block() && instrIndex(oc) < instrIndex(st)) || (oc.Block() != st.Block() && reachFromSuccs(oc.Block(), nil, nil)[st.Block()])
			if after {
				bad = "Client." + n + " is written at " + c.P.ipos(st) + " after an option may already have set it"
			}
		}
	})
	r.Check(bad == "", "C12-K5", a.short+": defaults are set before the options run; no option-settable field is written afterwards", c.P.pos(a.ctor.Pos()), fmt.Sprintf("fields settable by options: %d; option call sites: %d", len(settable), len(optCalls)),
		bad+": a default applied afterwards cannot tell \"not configured\" from an explicit zero (WithRetry(0), WithTimeout(0)), so the configured number of tries / timeout is not what the schedule uses")
}

// c12IdentityConsistent: when the retry driver recognises the internal deadline error by identity (==, switch), the
// value the try returns on its deadline must be the sentinel itself: a wrapped sentinel (fmt.Errorf("…%w", …)) is a
// different value, the driver takes it for "any other error" and returns at once — no retransmission ever happens.
func c12IdentityConsistent(c *Ctx, a *clientAnchors, byIdentity bool) {
	r, sx := c.R, c.Sx()
	key := a.short + ".SendAndRead: the deadline case yields the value the retry driver tests for"
	w, why := resolveWait(c, a)
	if w == nil || w.iTimer < 0 {
		r.Undecided("C12-K1", key, c.P.pos(a.try.Pos()), "wait select not resolved: "+why)
		return
	}
	tb := w.timerCase()
	dl := "load(global(" + a.short + ".errDeadlineExceeded))"
	ok, got := false, ""
	if tb != nil {
		v, ret := resultVia(tb, -1)
		if ret != nil && v != nil {
			got = sx.Of(v).String()
			if got == dl {
				ok = true
			} else if cl, isCall := v.(*ssa.Call); isCall && !byIdentity && isFuncCall(cl.Common(), "fmt", "Errorf") && len(cl.Call.Args) == 2 {
				// errors.Is in the driver sees through %w
				if strings.Contains(sx.Of(cl.Call.Args[0]).String(), "%w") {
					for _, av := range varargValues(cl.Call.Args[1]) {
						if mi, isMI := av.(*ssa.MakeInterface); isMI {
							av = mi.X
						}
						if sx.Of(av).String() == dl {
							ok = true
						}
					}
				}
			}
		}
	}
	how := "compared by identity"
	if !byIdentity {
		how = "tested with errors.Is"
	}
	r.Check(ok, "C12-K1", key, c.P.ipos(w.sel), "deadline case returns the sentinel ("+how+" in the driver)", "the deadline case yields "+got+" while the driver's test is "+how+": the deadline of a try is taken for another error, the call ends after the first try")
}

// varargValues: the values stored into the variadic argument array behind v (a slice of a "varargs" allocation)
func varargValues(v ssa.Value) []ssa.Value {
	sl, ok := v.(*ssa.Slice)
	if !ok {
		return nil
	}
	al, ok := sl.X.(*ssa.Alloc)
	if !ok {
		return nil
	}
	var out []ssa.Value
	for _, ref := range *al.Referrers() {
		if ia, ok := ref.(*ssa.IndexAddr); ok {
			for _, r2 := range *ia.Referrers() {
				if st, ok := r2.(*ssa.Store); ok && st.Addr == ssa.Value(ia) {
					out = append(out, st.Val)
				}
			}
		}
	}
	return out
}

// c11FreshFromRegister: s is the k-th result of the registration helper, and that result is a channel made in the helper
// on every registering return (nil on the refusing ones)
func c11FreshFromRegister(a *clientAnchors, s string) bool {
	if a.register == nil || !strings.HasPrefix(s, "extract[") {
		return false
	}
	var k int
	if _, err := fmt.Sscanf(s, "extract[%d](", &k); err != nil {
		return false
	}
	if !strings.HasPrefix(s[strings.Index(s, "(")+1:], "call["+shortName(a.register)+"]") {
		return false
	}
	made := false
	for _, ret := range returnsOf(a.register) {
		if k >= len(ret.Results) {
			return false
		}
		switch v := retResult(ret, k).(type) {
		case *ssa.MakeChan:
			made = true
		case *ssa.Const:
			if !v.IsNil() {
				return false
			}
		default:
			return false
		}
	}
	return made
}
