package main

// Wire-enum constants (E1c): the numeric value of every named constant of the protocol's enum types
// (option codes, message types, DUID types, status codes, hardware and architecture types) equals the
// IANA-assigned number recorded in spec/constants.json. The table is pure data keyed by the exported
// constant's name; a renumbering changes the bytes on the wire for that name and is therefore never
// behaviour-preserving. Constants that are not in the table (added later) are counted, not judged.

import (
	"encoding/json"
	"fmt"
	"go/constant"
	"go/types"
	"os"
	"path/filepath"
	"sort"
	"strings"
)

// enum types whose constants are wire values, by package path suffix
var wireEnumTypes = map[string][]string{
	"/dhcpv6": {"OptionCode", "MessageType", "DUIDType"},
	"/dhcpv4": {"optionCode", "MessageType", "OpcodeType", "AutoConfiguration"},
	"/iana":   {"StatusCode", "HWType", "Arch", "EnterpriseID"},
}

func wireConstants(p *Prog) map[string]int64 {
	out := map[string]int64{}
	for _, pk := range p.ModPkgs {
		var tnames []string
		for suf, ts := range wireEnumTypes {
			if pk.PkgPath == modPath+suf {
				tnames = ts
			}
		}
		if tnames == nil || pk.Types == nil {
			continue
		}
		sc := pk.Types.Scope()
		for _, n := range sc.Names() {
			k, ok := sc.Lookup(n).(*types.Const)
			if !ok || n == "_" {
				continue
			}
			nt, ok := k.Type().(*types.Named)
			if !ok || nt.Obj().Pkg() != pk.Types {
				continue
			}
			match := false
			for _, t := range tnames {
				if nt.Obj().Name() == t {
					match = true
				}
			}
			if !match || k.Val().Kind() != constant.Int {
				continue
			}
			v, exact := constant.Int64Val(k.Val())
			if !exact {
				continue
			}
			out[strings.TrimPrefix(pk.PkgPath, modPath+"/")+"."+nt.Obj().Name()+"."+n] = v
		}
	}
	return out
}

func cmdConsts(args []string) int {
	repo := "/repo"
	if len(args) > 0 {
		repo = args[0]
	}
	p, err := Load(repo, BuildConfig{"linux", "amd64"}, false)
	if err != nil {
		fmt.Fprintln(os.Stderr, err)
		return 2
	}
	b, _ := json.MarshalIndent(map[string]interface{}{"constants": wireConstants(p)}, "", " ")
	fmt.Println(string(b))
	return 0
}

// e1CheckConstants: compare with spec/constants.json; sel picks the entries (by key prefix) a property owns.
func e1CheckConstants(c *Ctx, rule string, prefixes []string, minN int) {
	r := c.R
	b, err := os.ReadFile(filepath.Join(c.Verif, "spec", "constants.json"))
	if err != nil {
		r.Undecided(rule, "spec/constants.json", "-", err.Error())
		return
	}
	var f struct {
		Constants map[string]int64 `json:"constants"`
	}
	if err := json.Unmarshal(b, &f); err != nil {
		r.Undecided(rule, "spec/constants.json", "-", err.Error())
		return
	}
	cur := wireConstants(c.P)
	sel := func(k string) bool {
		for _, p := range prefixes {
			if strings.HasPrefix(k, p) {
				return true
			}
		}
		return false
	}
	var keys []string
	for k := range f.Constants {
		if sel(k) {
			keys = append(keys, k)
		}
	}
	sort.Strings(keys)
	n, bad := 0, 0
	for _, k := range keys {
		v, ok := cur[k]
		if !ok {
			// removed or renamed constant: an API change, not a wire change
			continue
		}
		n++
		if v != f.Constants[k] {
			bad++
			r.Violation(rule, "constant "+k+" has its IANA-assigned value", "-", fmt.Sprintf("%s is %d, the assigned number is %d: values tagged with this name are emitted and recognised under the wrong number", k, v, f.Constants[k]))
		}
	}
	extra := 0
	for k := range cur {
		if sel(k) {
			if _, ok := f.Constants[k]; !ok {
				extra++
			}
		}
	}
	if bad == 0 {
		r.OK(rule, fmt.Sprintf("wire-enum constants equal the assigned numbers (%s)", strings.Join(prefixes, ", ")), "-", "E1c: spec/constants.json", fmt.Sprintf("%d constants compared, %d not in the table (not judged)", n, extra))
	}
	r.Count(rule+"-constants", n)
	r.Expect(rule+"-constants", minN)
}
