package main

// C06 — decode→encode→decode fixpoint: losslessness of the internal representation.

import (
	"fmt"
	"strings"

	"golang.org/x/tools/go/ssa"
)

func init() { register("C06", true, checkC06) }

func checkC06(c *Ctx) {
	r := c.R
	r.Decides = append(r.Decides,
		"K1 every decoder slot lands in a field the encoder writes back from, with the same width and an inverse transform (shared with C01-K1/C02-K2: wire-schema symmetry), except the allowed normalisations",
		"K2 every decode transform is injective on the wire domain or range-guarded: net.CIDRMask(x, bits) applied to a wire value is dominated by x <= bits (else the decoder returns an error); contradiction rule across siblings (dhcpv4 Route guards its mask length)",
		"K3 label sets keep and re-emit their original bytes while unmodified (shared with C19-K1)",
		"K4 the DHCPv4 option encoder emits at least one instance for every stored code other than Pad/End, also for empty and nil values (a decoded zero-length option survives re-encoding)")
	r.NotDecided = append(r.NotDecided, "the fixpoint itself for all accepted inputs (equality of runtime values); only slot/field/transform agreement and guardedness are structural")
	c06CIDR(c)
	c06Schema(c)
}

// c06CIDR: K2
func c06CIDR(c *Ctx) {
	r, sx := c.R, c.Sx()
	funcs := decodeClosure(c)
	gc := newGuardCache(c)
	n := 0
	for _, f := range funcs {
		if inUio(f) {
			continue
		}
		ord := map[string]int{}
		allInstrs(f, func(in ssa.Instruction) {
			cl, ok := in.(*ssa.Call)
			if !ok || !isFuncCall(cl.Common(), "net", "CIDRMask") {
				return
			}
			n++
			bits, okb := intConst(cl.Call.Args[1])
			v := cl.Call.Args[0]
			for {
				if cv, ok := v.(*ssa.Convert); ok {
					v = cv.X
					continue
				}
				break
			}
			base := shortName(f) + ": CIDRMask(" + shortDesc(v, 3) + ", " + fmt.Sprint(bits) + ")"
			ord[base]++
			key := base
			if ord[base] > 1 {
				key = fmt.Sprintf("%s #%d", base, ord[base])
			}
			if k, isK := intConst(v); isK {
				r.Check(okb && k >= 0 && k <= bits, "C06-K2", key, c.P.ipos(cl), "constant prefix length in range", "constant prefix length out of range")
				return
			}
			vs := sx.Of(v).String()
			_, hi := gc.lenBounds(cl.Block(), func(y ssa.Value) bool {
				for {
					if cv, ok := y.(*ssa.Convert); ok {
						y = cv.X
						continue
					}
					break
				}
				return y == v || sx.Of(y).String() == vs
			})
			r.Check(okb && hi >= 0 && hi <= bits, "C06-K2", key, c.P.ipos(cl), fmt.Sprintf("dominating guard implies prefix length <= %d", hi),
				fmt.Sprintf("the wire value is not range-checked before net.CIDRMask(x, %d): for x > %d CIDRMask returns nil, the value re-encodes as prefix length 0 and the prefix is lost on the second pass (decode→encode→decode is not a fixpoint)", bits, bits))
		})
	}
	r.Count("C06-K2-CIDRMask-sites", n)
	r.Expect("C06-K2-CIDRMask-sites", 4)
	_ = strings.Contains
}
