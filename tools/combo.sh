#!/bin/bash
# Cross-check of the two corpora: a behaviour-preserving commit (refactors/<r>) followed by a seeded change (seeded/<m>)
# on the same file. The seeded change must still be reported by its own property's check on the refactored code — a normal
# form that makes a refactoring silent must not make a defect invisible. Pairs: per refactoring up to N seeded changes that
# share a file with it and still apply; scratch copies under /tmp, removed afterwards. Output /tmp/combo/<r>+<m>.txt
# usage: tools/combo.sh [N] [refactoring ...]
cd /verif
N=${1:-2}; shift
refs="$@"; [ -z "$refs" ] && refs=$(ls -d refactors/*/ | xargs -n1 basename | grep -v "^B")
mkdir -p /tmp/combo
export SNAP=$(mktemp -d /tmp/snap.XXXXXX); mkdir -p $SNAP/bin $SNAP/spec; cp ${DHCPVERIF_BIN:-bin/dhcpverif} $SNAP/bin/dhcpverif; cp spec/*.json $SNAP/spec/; cp known_findings.json $SNAP/; unset DHCPVERIF_BIN
trap 'rm -rf $SNAP' EXIT
export GOFLAGS=-mod=mod GOPROXY=off GOSUMDB=off GOTOOLCHAIN=local GOWORK=off
pairs=/tmp/combo/pairs.txt; : > $pairs
for r in $refs; do
  files=$(grep '^+++ b/' refactors/$r/patch.diff | sed 's|+++ b/||')
  cands=""
  for f in $files; do cands="$cands $(grep -l "^+++ b/$f" seeded/*/patch.diff 2>/dev/null | xargs -n1 dirname 2>/dev/null | xargs -n1 basename 2>/dev/null)"; done
  # deterministic pseudo-random order per refactoring
  echo $cands | tr ' ' '\n' | sort -u | awk -v s="$r" 'BEGIN{srand(length(s)*7+1)}{print rand()"\t"$0}' | sort -n | cut -f2 | head -n 12 | while read m; do [ -n "$m" ] && echo "$r $m"; done >> $pairs.$r
done
cat $pairs.* > $pairs 2>/dev/null; rm -f $pairs.*
one() {
  r=$1; m=$2; N=$3
  cnt=/tmp/combo/.count.$r
  [ "$(cat $cnt 2>/dev/null || echo 0)" -ge "$N" ] && return
  tmp=$(mktemp -d /tmp/combo.XXXXXX)
  rsync -a --exclude .git /repo/ $tmp/repo/
  mkdir -p $tmp/verif/spec; cp $SNAP/spec/*.json $tmp/verif/spec/; cp $SNAP/known_findings.json $tmp/verif/
  if (cd $tmp/repo && patch -p1 -s < /verif/refactors/$r/patch.diff >/dev/null 2>&1 && patch -p1 -s -F0 < /verif/seeded/$m/patch.diff >/dev/null 2>&1 && go build ./... >/dev/null 2>&1); then
    echo $(( $(cat $cnt 2>/dev/null || echo 0) + 1 )) > $cnt
    p=${m:0:3}
    (cd /verif && $SNAP/bin/dhcpverif check $p --repo $tmp/repo --verif $tmp/verif > /tmp/combo/$r+$m.txt 2>&1)
    rc=$?
    if [ $rc -ne 0 ] && [ $rc -ne 1 ]; then echo "VIOLATION property=C00 ANALYSER-TERMINATED exit=$rc" >> /tmp/combo/$r+$m.txt; fi
  fi
  rm -rf $tmp
}
export -f one
rm -f /tmp/combo/.count.* /tmp/combo/*+*.txt
# sequential within a refactoring (the count), parallel across refactorings
cut -d' ' -f1 $pairs | sort -u | xargs -P 8 -I{} bash -c 'grep "^{} " /tmp/combo/pairs.txt | while read r m; do one $r $m '$N'; done'
miss=0; tot=0
for f in /tmp/combo/*+*.txt; do
  [ -f "$f" ] || continue
  b=$(basename $f .txt); m=${b#*+}; p=${m:0:3}; tot=$((tot+1))
  if ! grep -q "^VIOLATION property=$p" $f; then echo "MISSED $b"; miss=$((miss+1)); fi
  if grep -q "ANALYSER-TERMINATED" $f; then echo "CRASH $b"; fi
done
echo "$tot pairs, $miss missed"
