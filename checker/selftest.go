package main

// Self-tests of the thorough tier: the mutant corpus. Each patch (seeded changes from independent
// sub-agents under /verif/seeded, reverts of the fix commits under /verif/mutants) is applied to a
// scratch copy of the CURRENT /repo working tree outside /repo and /verif, analysed in its own
// process, and removed. The check for the property must report a violation on every mutant that
// /verif/mutants/expect.json lists for it. Still static: mutated source is analysed, never run.

import (
	"encoding/json"
	"fmt"
	"os"
	"os/exec"
	"path/filepath"
	"sort"
	"strings"
	"sync"
)

func cmdSelftest(args []string) int { return 0 }

type mutantResult struct {
	Name     string `json:"name"`
	Status   string `json:"status"` // detected | MISSED | skipped (patch does not apply)
	Rules    string `json:"rules,omitempty"`
	Expected bool   `json:"expected"`
}

func loadExpect(verif string) (map[string][]string, error) {
	b, err := os.ReadFile(filepath.Join(verif, "mutants", "expect.json"))
	if err != nil {
		return nil, err
	}
	var f struct {
		Expect map[string][]string `json:"expect"`
	}
	if err := json.Unmarshal(b, &f); err != nil {
		return nil, err
	}
	return f.Expect, nil
}

func patchPath(verif, name string) string {
	p := filepath.Join(verif, "seeded", name, "patch.diff")
	if _, err := os.Stat(p); err == nil {
		return p
	}
	return filepath.Join(verif, "mutants", name+".patch")
}

func runSelftests(r *Report, id, repo, verif string) {
	exp, err := loadExpect(verif)
	if err != nil {
		r.Undecided(id+"-selftest", "mutants/expect.json", "-", err.Error())
		return
	}
	var names []string
	for n, props := range exp {
		for _, p := range props {
			if p == id {
				names = append(names, n)
			}
		}
	}
	sort.Strings(names)
	if len(names) == 0 {
		r.Undecided(id+"-selftest", "no mutant lists this property", "-", "the corpus has no change this check is expected to detect")
		return
	}
	self, _ := os.Executable()
	results := make([]mutantResult, len(names))
	sem := make(chan struct{}, 6)
	var wg sync.WaitGroup
	for i, n := range names {
		wg.Add(1)
		go func(i int, n string) {
			defer wg.Done()
			sem <- struct{}{}
			defer func() { <-sem }()
			results[i] = runMutant(self, id, repo, verif, n)
		}(i, n)
	}
	wg.Wait()
	det, skip := 0, 0
	for _, m := range results {
		switch m.Status {
		case "detected":
			det++
			r.OK(id+"-selftest", "mutant "+m.Name+" is reported", "-", "VIOLATION on the mutated scratch copy", m.Rules)
		case "skipped":
			skip++
			r.Ledger(id+"-selftest", "mutant "+m.Name+" skipped", "-", "patch does not apply to the current tree", "the code it targets changed; not counted")
		default:
			r.Undecided(id+"-selftest", "mutant "+m.Name+" is reported", "-", "the check exits 0 on a scratch copy with "+patchPath(verif, m.Name)+" applied although the corpus expects a violation: a rule lost its teeth")
		}
	}
	r.Extra["selftest_mutants"] = results
	r.Extra["selftest_summary"] = fmt.Sprintf("%d mutants expected for %s: %d detected, %d skipped", len(names), id, det, skip)
}

func runMutant(self, id, repo, verif, name string) mutantResult {
	res := mutantResult{Name: name, Expected: true}
	tmp, err := os.MkdirTemp("", "dhcpverif-mutant-")
	if err != nil {
		res.Status = "skipped"
		return res
	}
	defer os.RemoveAll(tmp)
	src := filepath.Join(tmp, "repo")
	// copy the working tree without .git
	cp := exec.Command("rsync", "-a", "--exclude", ".git", repo+"/", src+"/")
	if out, err := cp.CombinedOutput(); err != nil {
		res.Status = "skipped"
		res.Rules = "copy failed: " + string(out)
		return res
	}
	ap := exec.Command("git", "apply", "--unsafe-paths", "--directory="+src, patchPath(verif, name))
	ap.Dir = tmp
	if _, err := ap.CombinedOutput(); err != nil {
		// try patch(1)
		pp := exec.Command("patch", "-p1", "-s", "-d", src, "-i", patchPath(verif, name))
		if _, err2 := pp.CombinedOutput(); err2 != nil {
			res.Status = "skipped"
			return res
		}
	}
	// private verif dir: specs + known findings, evidence goes to the scratch dir
	tv := filepath.Join(tmp, "verif")
	os.MkdirAll(filepath.Join(tv, "spec"), 0o755)
	for _, f := range []string{"spec/ledger.json", "spec/layouts.json", "spec/builders.json", "spec/constants.json", "spec/rejects.json", "spec/functions.json", "known_findings.json"} {
		if b, err := os.ReadFile(filepath.Join(verif, f)); err == nil {
			os.WriteFile(filepath.Join(tv, f), b, 0o644)
		}
	}
	cmd := exec.Command(self, "check", id, "--tier", "quick", "--repo", src, "--verif", tv)
	out, _ := cmd.CombinedOutput()
	code := cmd.ProcessState.ExitCode()
	if code == 1 && strings.Contains(string(out), "VIOLATION property="+id) {
		res.Status = "detected"
		var rules []string
		seen := map[string]bool{}
		for _, l := range strings.Split(string(out), "\n") {
			if i := strings.Index(l, "rule="); i >= 0 {
				rl := strings.Fields(l[i+5:])[0]
				if !seen[rl] {
					seen[rl] = true
					rules = append(rules, rl)
				}
			}
		}
		res.Rules = strings.Join(rules, " ")
		return res
	}
	res.Status = "MISSED"
	return res
}

// Negative self-tests of the thorough tier: behaviour-preserving commits (/verif/refactors/<name>/patch.diff) recorded
// as silent in refactors/silent.json. For the property under check, every recorded commit that touches one of the
// property's anchor files is applied to a scratch copy of the CURRENT working tree and analysed; the check must stay
// silent. A commit that now alarms means a recogniser lost generality (a false alarm in waiting); it is reported as an
// undecided self-test, like a missed mutant. Patches that no longer apply are skipped.
func runNegativeSelftests(r *Report, id, repo, verif string) {
	b, err := os.ReadFile(filepath.Join(verif, "refactors", "silent.json"))
	if err != nil {
		return // no record: nothing to re-check
	}
	var rec struct {
		Silent []string `json:"silent"`
	}
	if json.Unmarshal(b, &rec) != nil || len(rec.Silent) == 0 {
		return
	}
	anchors := propertyAnchorFiles(verif, id)
	var names []string
	for _, n := range rec.Silent {
		pb, err := os.ReadFile(filepath.Join(verif, "refactors", n, "patch.diff"))
		if err != nil {
			continue
		}
		touches := false
		for _, l := range strings.Split(string(pb), "\n") {
			if strings.HasPrefix(l, "+++ b/") {
				f := strings.TrimPrefix(l, "+++ b/")
				for _, g := range anchors {
					if ok, _ := filepath.Match(g, f); ok {
						touches = true
					}
				}
			}
		}
		if touches {
			names = append(names, n)
		}
	}
	sort.Strings(names)
	if len(names) == 0 {
		return
	}
	self, _ := os.Executable()
	type res struct{ name, status string }
	results := make([]res, len(names))
	sem := make(chan struct{}, 6)
	var wg sync.WaitGroup
	for i, n := range names {
		wg.Add(1)
		go func(i int, n string) {
			defer wg.Done()
			sem <- struct{}{}
			defer func() { <-sem }()
			results[i] = res{n, runRefactor(self, id, repo, verif, n)}
		}(i, n)
	}
	wg.Wait()
	silent, skipped := 0, 0
	for _, m := range results {
		switch m.status {
		case "silent":
			silent++
		case "skipped":
			skipped++
		default:
			r.Undecided(id+"-selftest", "behaviour-preserving commit "+m.name+" stays silent", "-", "the check reports a violation on a scratch copy with refactors/"+m.name+"/patch.diff applied although the corpus records it as silent: a recogniser lost generality ("+m.status+")")
		}
	}
	r.OK(id+"-selftest", "behaviour-preserving commits touching the property's anchor files stay silent", "-", "scratch copies analysed", fmt.Sprintf("%d commits: %d silent, %d skipped (patch no longer applies)", len(names), silent, skipped))
	r.Extra["selftest_refactors"] = fmt.Sprintf("%d behaviour-preserving commits re-checked for %s: %d silent, %d skipped", len(names), id, silent, skipped)
}

// propertyAnchorFiles: the anchor file globs of a property (properties.jsonl)
func propertyAnchorFiles(verif, id string) []string {
	b, err := os.ReadFile(filepath.Join(verif, "properties.jsonl"))
	if err != nil {
		return nil
	}
	for _, l := range strings.Split(string(b), "\n") {
		var p struct {
			ID      string `json:"id"`
			Anchors struct {
				Files []string `json:"files"`
			} `json:"anchors"`
		}
		if json.Unmarshal([]byte(l), &p) == nil && p.ID == id {
			return p.Anchors.Files
		}
	}
	return nil
}

func runRefactor(self, id, repo, verif, name string) string {
	tmp, err := os.MkdirTemp("", "dhcpverif-refactor-")
	if err != nil {
		return "skipped"
	}
	defer os.RemoveAll(tmp)
	src := filepath.Join(tmp, "repo")
	if out, err := exec.Command("rsync", "-a", "--exclude", ".git", repo+"/", src+"/").CombinedOutput(); err != nil {
		_ = out
		return "skipped"
	}
	pp := exec.Command("patch", "-p1", "-s", "-F0", "-d", src, "-i", filepath.Join(verif, "refactors", name, "patch.diff"))
	if _, err := pp.CombinedOutput(); err != nil {
		return "skipped"
	}
	tv := filepath.Join(tmp, "verif")
	os.MkdirAll(filepath.Join(tv, "spec"), 0o755)
	for _, f := range []string{"spec/ledger.json", "spec/layouts.json", "spec/builders.json", "spec/constants.json", "spec/rejects.json", "spec/functions.json", "known_findings.json"} {
		if b, err := os.ReadFile(filepath.Join(verif, f)); err == nil {
			os.WriteFile(filepath.Join(tv, f), b, 0o644)
		}
	}
	cmd := exec.Command(self, "check", id, "--tier", "quick", "--repo", src, "--verif", tv)
	out, _ := cmd.CombinedOutput()
	switch code := cmd.ProcessState.ExitCode(); {
	case code == 0:
		return "silent"
	case code == 1:
		for _, l := range strings.Split(string(out), "\n") {
			if i := strings.Index(l, "rule="); i >= 0 {
				return "alarm: " + strings.Fields(l[i+5:])[0]
			}
		}
		return "alarm"
	default:
		return fmt.Sprintf("analyser terminated with status %d", code)
	}
}
