package main

// Hand-written effect models: uio.Lexer as an abstract data type and the
// external (stdlib, x/net) functions reached from analysed code. Every row is
// a statement about code outside the analysed scope and is part of the trusted
// base (DESIGN §3.5, §9).

import (
	"go/types"
	"strings"

	"golang.org/x/tools/go/ssa"
)

type model struct {
	retAlias    []int // result 0 aliases the direct objects of these args
	retDeep     []int // result 0 may alias memory inside these args (loaded from them)
	retFresh    bool  // pointer-bearing results are fresh memory
	freshHolds  []int // the fresh result keeps references to the direct objects of these args
	mutElems    []int // writes the elements / pointee of these args
	mutInside   []int // writes bookkeeping cells inside these args (cursor etc.)
	insideCells []types.Type
	callsFunc   []int    // function-valued args that are invoked
	sortIface   int      // arg index+1 whose sort.Interface methods are invoked (0 = none)
	storeInto   [][2]int // {a,b}: memory of arg a now references the objects of arg b
	pure        bool
	formats     []int // fmt-style operands (variadic slice arg index)
}

var (
	tByteSlice = types.NewSlice(types.Typ[types.Byte])
	tByte      = types.Typ[types.Byte]
	tInt       = types.Typ[types.Int]
	tErr       = types.Universe.Lookup("error").Type()
)

var lexRead = []types.Type{tByteSlice, tInt, tErr}
var lexWrite = []types.Type{tByteSlice, tByte, tInt, tErr}

const uioL = "(*github.com/u-root/uio/uio.Lexer)."
const uioB = "(*github.com/u-root/uio/uio.Buffer)."

var modelTable = map[string]*model{
	// --- uio constructors
	"github.com/u-root/uio/uio.NewBigEndianBuffer":    {retFresh: true, freshHolds: []int{0}},
	"github.com/u-root/uio/uio.NewLittleEndianBuffer": {retFresh: true, freshHolds: []int{0}},
	"github.com/u-root/uio/uio.NewNativeEndianBuffer": {retFresh: true, freshHolds: []int{0}},
	"github.com/u-root/uio/uio.NewBuffer":             {retFresh: true, freshHolds: []int{0}},
	"github.com/u-root/uio/uio.NewLexer":              {retFresh: true, freshHolds: []int{0}},
	// --- alias producers
	uioL + "Consume": {retDeep: []int{0}, mutInside: []int{0}, insideCells: lexRead},
	uioB + "ReadN":   {retDeep: []int{0}, mutInside: []int{0}, insideCells: lexRead},
	uioB + "Data":    {retDeep: []int{0}},
	uioL + "Append":  {retDeep: []int{0}, mutInside: []int{0}, insideCells: lexWrite},
	uioB + "WriteN":  {retDeep: []int{0}, mutInside: []int{0}, insideCells: lexWrite},
	// --- copy producers
	uioL + "CopyN":     {retFresh: true, mutInside: []int{0}, insideCells: lexRead},
	uioL + "ReadAll":   {retFresh: true, mutInside: []int{0}, insideCells: lexRead},
	uioL + "Read8":     {mutInside: []int{0}, insideCells: lexRead},
	uioL + "Read16":    {mutInside: []int{0}, insideCells: lexRead},
	uioL + "Read32":    {mutInside: []int{0}, insideCells: lexRead},
	uioL + "Read64":    {mutInside: []int{0}, insideCells: lexRead},
	uioL + "ReadBytes": {mutInside: []int{0}, insideCells: lexRead, mutElems: []int{1}},
	uioL + "Read":      {mutInside: []int{0}, insideCells: lexRead, mutElems: []int{1}, retFresh: true},
	// --- writers (copy their operand into the Lexer's own buffer)
	uioL + "Write8":      {mutInside: []int{0}, insideCells: lexWrite},
	uioL + "Write16":     {mutInside: []int{0}, insideCells: lexWrite},
	uioL + "Write32":     {mutInside: []int{0}, insideCells: lexWrite},
	uioL + "Write64":     {mutInside: []int{0}, insideCells: lexWrite},
	uioL + "WriteBytes":  {mutInside: []int{0}, insideCells: lexWrite},
	uioL + "Write":       {mutInside: []int{0}, insideCells: lexWrite, retFresh: true},
	uioL + "WriteData":   {mutInside: []int{0}, insideCells: lexWrite},
	uioL + "Align":       {mutInside: []int{0}, insideCells: lexWrite},
	uioB + "Preallocate": {mutInside: []int{0}, insideCells: lexWrite},
	// --- status
	uioL + "Error":    {retFresh: true},
	uioL + "FinError": {retFresh: true},
	uioB + "Has":      {pure: true},
	uioB + "Len":      {pure: true},
	uioB + "Cap":      {pure: true},

	// --- net
	"(net.IP).To4":                {retAlias: []int{0}},
	"(net.IP).To16":               {retAlias: []int{0}, retFresh: true},
	"(net.IP).Mask":               {retFresh: true},
	"(net.IP).Equal":              {pure: true},
	"(net.IP).IsUnspecified":      {pure: true},
	"(net.IP).IsLoopback":         {pure: true},
	"(net.IP).IsMulticast":        {pure: true},
	"(net.IP).IsLinkLocalUnicast": {pure: true},
	"(net.IP).IsGlobalUnicast":    {pure: true},
	"(net.IP).DefaultMask":        {retFresh: true},
	"(net.IP).MarshalText":        {retFresh: true},
	"net.IPv4":                    {retFresh: true},
	"net.CIDRMask":                {retFresh: true},
	"net.IPv4Mask":                {retFresh: true},
	"net.ParseIP":                 {retFresh: true},
	"net.ParseMAC":                {retFresh: true},
	"net.ParseCIDR":               {retFresh: true},
	"(net.IPMask).Size":           {pure: true},
	"(*net.IPNet).Contains":       {pure: true},
	"net.InterfaceByName":         {retFresh: true},
	"net.InterfaceByIndex":        {retFresh: true},
	"net.Interfaces":              {retFresh: true},
	"(*net.Interface).Addrs":      {retFresh: true},
	"net.JoinHostPort":            {pure: true},
	"net.SplitHostPort":           {pure: true},
	"net.ResolveUDPAddr":          {retFresh: true},
	"net.ListenUDP":               {retFresh: true},
	"net.DialUDP":                 {retFresh: true},
	"(*net.UDPAddr).String":       {pure: true},

	// --- bytes / strings / encoding
	"bytes.Equal":                              {pure: true},
	"bytes.Compare":                            {pure: true},
	"bytes.IndexByte":                          {pure: true},
	"bytes.Index":                              {pure: true},
	"bytes.Contains":                           {pure: true},
	"bytes.HasPrefix":                          {pure: true},
	"bytes.HasSuffix":                          {pure: true},
	"bytes.Split":                              {retFresh: true, freshHolds: []int{0}},
	"bytes.TrimRight":                          {retAlias: []int{0}},
	"bytes.TrimLeft":                           {retAlias: []int{0}},
	"bytes.Trim":                               {retAlias: []int{0}},
	"bytes.TrimSpace":                          {retAlias: []int{0}},
	"bytes.TrimSuffix":                         {retAlias: []int{0}},
	"bytes.TrimPrefix":                         {retAlias: []int{0}},
	"bytes.Repeat":                             {retFresh: true},
	"bytes.Join":                               {retFresh: true},
	"bytes.ToLower":                            {retFresh: true},
	"bytes.ToUpper":                            {retFresh: true},
	"bytes.NewBuffer":                          {retFresh: true, freshHolds: []int{0}},
	"bytes.NewReader":                          {retFresh: true, freshHolds: []int{0}},
	"(*bytes.Buffer).Bytes":                    {retDeep: []int{0}},
	"(*bytes.Buffer).String":                   {pure: true},
	"(*bytes.Buffer).Len":                      {pure: true},
	"(*bytes.Buffer).Write":                    {mutInside: []int{0}, insideCells: lexWrite, retFresh: true},
	"(*bytes.Buffer).WriteByte":                {mutInside: []int{0}, insideCells: lexWrite, retFresh: true},
	"(*bytes.Buffer).WriteString":              {mutInside: []int{0}, insideCells: lexWrite, retFresh: true},
	"(*strings.Builder).WriteString":           {mutInside: []int{0}, insideCells: lexWrite, retFresh: true},
	"(*strings.Builder).WriteByte":             {mutInside: []int{0}, insideCells: lexWrite, retFresh: true},
	"(*strings.Builder).WriteRune":             {mutInside: []int{0}, insideCells: lexWrite, retFresh: true},
	"(*strings.Builder).Write":                 {mutInside: []int{0}, insideCells: lexWrite, retFresh: true},
	"(*strings.Builder).String":                {pure: true},
	"(*strings.Builder).Len":                   {pure: true},
	"(*strings.Builder).Grow":                  {mutInside: []int{0}, insideCells: lexWrite},
	"encoding/hex.EncodeToString":              {pure: true},
	"encoding/hex.DecodeString":                {retFresh: true},
	"encoding/hex.Dump":                        {pure: true},
	"(encoding/binary.bigEndian).Uint16":       {pure: true},
	"(encoding/binary.bigEndian).Uint32":       {pure: true},
	"(encoding/binary.bigEndian).Uint64":       {pure: true},
	"(encoding/binary.bigEndian).PutUint16":    {mutElems: []int{1}},
	"(encoding/binary.bigEndian).PutUint32":    {mutElems: []int{1}},
	"(encoding/binary.bigEndian).PutUint64":    {mutElems: []int{1}},
	"(encoding/binary.littleEndian).Uint16":    {pure: true},
	"(encoding/binary.littleEndian).Uint32":    {pure: true},
	"(encoding/binary.littleEndian).PutUint16": {mutElems: []int{1}},
	"(encoding/binary.littleEndian).PutUint32": {mutElems: []int{1}},
	"encoding/binary.Write":                    {retFresh: true}, // used with *bytes.Buffer targets only (client4)
	"encoding/binary.Read":                     {retFresh: true, mutElems: []int{2}},

	// --- sort
	"sort.Slice":       {mutElems: []int{0}, callsFunc: []int{1}},
	"sort.SliceStable": {mutElems: []int{0}, callsFunc: []int{1}},
	"sort.Ints":        {mutElems: []int{0}},
	"sort.Strings":     {mutElems: []int{0}},
	"sort.Sort":        {sortIface: 1},
	"sort.Stable":      {sortIface: 1},
	"sort.SearchInts":  {pure: true},
	"sort.Search":      {callsFunc: []int{1}},
	"slices.Sort[...]": {mutElems: []int{0}},
	// generic helpers of package slices (Go 1.21+), by what they do to their arguments
	"slices.SortFunc[...]":                     {mutElems: []int{0}, callsFunc: []int{1}},
	"slices.SortStableFunc[...]":               {mutElems: []int{0}, callsFunc: []int{1}},
	"slices.Reverse[...]":                      {mutElems: []int{0}},
	"slices.Contains[...]":                     {pure: true},
	"slices.ContainsFunc[...]":                 {callsFunc: []int{1}},
	"slices.Index[...]":                        {pure: true},
	"slices.IndexFunc[...]":                    {callsFunc: []int{1}},
	"slices.Equal[...]":                        {pure: true},
	"slices.EqualFunc[...]":                    {callsFunc: []int{2}},
	"slices.Compare[...]":                      {pure: true},
	"slices.Max[...]":                          {retDeep: []int{0}},
	"slices.Min[...]":                          {retDeep: []int{0}},
	"slices.BinarySearch[...]":                 {pure: true},
	"slices.IsSorted[...]":                     {pure: true},
	"slices.Clone[...]":                        {retFresh: true, freshHolds: []int{0}},
	"slices.Compact[...]":                      {mutElems: []int{0}, retAlias: []int{0}},
	"slices.CompactFunc[...]":                  {mutElems: []int{0}, retAlias: []int{0}, callsFunc: []int{1}},
	"slices.Delete[...]":                       {mutElems: []int{0}, retAlias: []int{0}},
	"slices.Insert[...]":                       {mutElems: []int{0}, retAlias: []int{0}, retFresh: true},
	"slices.Grow[...]":                         {retAlias: []int{0}, retFresh: true},
	"slices.Clip[...]":                         {retAlias: []int{0}},
	"bytes.Clone":                              {retFresh: true},
	"(encoding/binary.bigEndian).AppendUint16": {retAlias: []int{1}, retFresh: true, mutElems: []int{1}},
	"(encoding/binary.bigEndian).AppendUint32": {retAlias: []int{1}, retFresh: true, mutElems: []int{1}},
	"(encoding/binary.bigEndian).AppendUint64": {retAlias: []int{1}, retFresh: true, mutElems: []int{1}},

	// --- fmt / errors / misc: formatting calls String/Error/Format of operands; those
	// methods of module types are C20 roots in their own right (modular argument)
	"fmt.Sprintf":                            {pure: true, formats: []int{1}},
	"fmt.Sprint":                             {pure: true, formats: []int{0}},
	"fmt.Sprintln":                           {pure: true, formats: []int{0}},
	"fmt.Errorf":                             {retFresh: true, formats: []int{1}},
	"fmt.Printf":                             {retFresh: true, formats: []int{1}},
	"fmt.Println":                            {retFresh: true, formats: []int{0}},
	"fmt.Print":                              {retFresh: true, formats: []int{0}},
	"fmt.Fprintf":                            {retFresh: true, formats: []int{2}, mutInside: []int{0}, insideCells: lexWrite},
	"fmt.Fprint":                             {retFresh: true, formats: []int{1}, mutInside: []int{0}, insideCells: lexWrite},
	"fmt.Fprintln":                           {retFresh: true, formats: []int{1}, mutInside: []int{0}, insideCells: lexWrite},
	"log.Printf":                             {pure: true, formats: []int{1}},
	"log.Print":                              {pure: true, formats: []int{0}},
	"log.Println":                            {pure: true, formats: []int{0}},
	"(*log.Logger).Printf":                   {pure: true, formats: []int{2}},
	"(*log.Logger).Print":                    {pure: true, formats: []int{1}},
	"(*log.Logger).Println":                  {pure: true, formats: []int{1}},
	"errors.New":                             {retFresh: true},
	"errors.Is":                              {pure: true},
	"errors.As":                              {mutElems: []int{1}},
	"errors.Unwrap":                          {retDeep: []int{0}},
	"crypto/rand.Read":                       {mutElems: []int{0}, retFresh: true},
	"github.com/u-root/uio/rand.Read":        {mutElems: []int{0}, retFresh: true},
	"github.com/u-root/uio/rand.ReadContext": {mutElems: []int{1}, retFresh: true},
	// compiled regular expressions are read-only for matching (internal machine pools are not part of any input)
	"(*regexp.Regexp).FindStringSubmatch":  {retFresh: true},
	"(*regexp.Regexp).MatchString":         {pure: true},
	"(*regexp.Regexp).SubexpNames":         {retFresh: true},
	"(*regexp.Regexp).FindString":          {pure: true},
	"regexp.MustCompile":                   {retFresh: true},
	"regexp.Compile":                       {retFresh: true},
	"math/rand.Read":                       {mutElems: []int{0}, retFresh: true},
	"time.Now":                             {pure: true},
	"time.Since":                           {pure: true},
	"time.After":                           {retFresh: true},
	"time.NewTimer":                        {retFresh: true},
	"time.Unix":                            {pure: true},
	"time.Date":                            {pure: true},
	"(time.Time).Sub":                      {pure: true},
	"(time.Time).Add":                      {pure: true},
	"(time.Time).Unix":                     {pure: true},
	"(time.Time).Before":                   {pure: true},
	"(time.Time).After":                    {pure: true},
	"(time.Duration).Seconds":              {pure: true},
	"(time.Duration).Round":                {pure: true},
	"os.Hostname":                          {pure: true},
	"os.Getenv":                            {pure: true},
	"context.WithTimeout":                  {retFresh: true, freshHolds: []int{0}},
	"context.WithCancel":                   {retFresh: true, freshHolds: []int{0}},
	"context.WithDeadline":                 {retFresh: true, freshHolds: []int{0}},
	"context.Background":                   {retFresh: true},
	"context.TODO":                         {retFresh: true},
	"(*sync.Mutex).Lock":                   {mutElems: []int{0}},
	"(*sync.Mutex).Unlock":                 {mutElems: []int{0}},
	"(*sync.RWMutex).Lock":                 {mutElems: []int{0}},
	"(*sync.RWMutex).Unlock":               {mutElems: []int{0}},
	"(*sync.RWMutex).RLock":                {mutElems: []int{0}},
	"(*sync.RWMutex).RUnlock":              {mutElems: []int{0}},
	"(*sync.WaitGroup).Add":                {mutElems: []int{0}},
	"(*sync.WaitGroup).Done":               {mutElems: []int{0}},
	"(*sync.WaitGroup).Wait":               {mutElems: []int{0}},
	"sync/atomic.CompareAndSwapUint32":     {mutElems: []int{0}},
	"sync/atomic.LoadUint32":               {pure: true},
	"sync/atomic.StoreUint32":              {mutElems: []int{0}},
	"sync/atomic.AddUint32":                {mutElems: []int{0}},
	"(*sync/atomic.Bool).CompareAndSwap":   {mutElems: []int{0}},
	"(*sync/atomic.Bool).Load":             {pure: true},
	"(*sync/atomic.Bool).Store":            {mutElems: []int{0}},
	"(*sync/atomic.Uint32).CompareAndSwap": {mutElems: []int{0}},
	"(*sync/atomic.Uint32).Load":           {pure: true},
	"(*sync/atomic.Uint32).Store":          {mutElems: []int{0}},
	"(*sync/atomic.Int32).CompareAndSwap":  {mutElems: []int{0}},
	"(*sync/atomic.Int32).Load":            {pure: true},
	"(*sync/atomic.Int32).Store":           {mutElems: []int{0}},
}

// externalInvokeModels: interface methods whose implementations live outside
// the analysed scope.
var externalInvokeModels = map[string]*model{
	"net.PacketConn.ReadFrom":             {mutElems: []int{1}, retFresh: true},
	"net.PacketConn.WriteTo":              {retFresh: true},
	"net.PacketConn.Close":                {retFresh: true},
	"net.PacketConn.LocalAddr":            {retFresh: true},
	"net.PacketConn.SetDeadline":          {retFresh: true},
	"net.PacketConn.SetReadDeadline":      {retFresh: true},
	"net.PacketConn.SetWriteDeadline":     {retFresh: true},
	"net.Addr.String":                     {pure: true},
	"net.Addr.Network":                    {pure: true},
	"error.Error":                         {pure: true},
	"fmt.Stringer.String":                 {pure: true},
	"context.Context.Done":                {retFresh: true},
	"context.Context.Err":                 {retFresh: true},
	"context.Context.Deadline":            {pure: true},
	"context.Context.Value":               {retFresh: true},
	"io.Writer.Write":                     {retFresh: true},
	"io.Reader.Read":                      {mutElems: []int{1}, retFresh: true},
	"encoding/binary.ByteOrder.Uint16":    {pure: true},
	"encoding/binary.ByteOrder.Uint32":    {pure: true},
	"encoding/binary.ByteOrder.PutUint16": {mutElems: []int{1}},
	"encoding/binary.ByteOrder.PutUint32": {mutElems: []int{1}},
	"sort.Interface.Len":                  {pure: true},
	"sort.Interface.Less":                 {pure: true},
	"sort.Interface.Swap":                 {mutElems: []int{0}},
}

// packages whose package-level functions only read their operands and return
// fresh values (strings are immutable)
var purePkgs = map[string]bool{"strings": true, "strconv": true, "unicode": true, "unicode/utf8": true, "math": true, "math/bits": true,
	"encoding/hex": true, "encoding/base64": true, "path": true, "path/filepath": true}

var pureFresh = &model{retFresh: true}

// unboxedType: static type of a value before it was boxed into an interface
func unboxedType(v ssa.Value) types.Type {
	for {
		switch x := v.(type) {
		case *ssa.MakeInterface:
			return x.X.Type()
		case *ssa.ChangeInterface:
			v = x.X
		default:
			return v.Type()
		}
	}
}

func lookupModel(f *ssa.Function) *model {
	k := funcKey(f)
	if m, ok := modelTable[k]; ok {
		return m
	}
	if f.Signature.Recv() == nil && f.Pkg != nil && purePkgs[f.Pkg.Pkg.Path()] {
		return pureFresh
	}
	if o := f.Origin(); o != nil {
		k := funcKey(o) + "[...]"
		if k == "slices.Clone[...]" && f.Signature.Params().Len() == 1 {
			// a copy of pointer-free elements shares nothing with its argument
			if st, ok := f.Signature.Params().At(0).Type().Underlying().(*types.Slice); ok && !hasPtr(st.Elem()) {
				return &model{retFresh: true}
			}
		}
		if m, ok := modelTable[k]; ok {
			return m
		}
	}
	return nil
}

func (st *fstate) applyModel(in ssa.Instruction, f *ssa.Function, m *model, args []ssa.Value, as []oset, res ssa.Value, nres int) {
	e := st.e
	name := "model"
	if f != nil {
		name = shortName(f)
	}
	arg := func(i int) oset {
		if i < len(as) {
			return as[i]
		}
		return nil
	}
	out := oset{}
	for _, i := range m.retAlias {
		out.addAll(arg(i))
	}
	for _, i := range m.retDeep {
		out.addAll(st.load(arg(i)))
	}
	if m.retFresh && res != nil {
		r := e.rsite(in, "")
		out.add(r)
		for _, i := range m.freshHolds {
			var at types.Type
			if i < len(args) {
				at = args[i].Type()
			}
			st.addContainsT(r, arg(i), at)
			st.noteFlows(oset{r: {}}, arg(i), in, "wrapped by "+name, nil)
		}
	}
	if res != nil {
		for i := 0; i < nres; i++ {
			st.setResult(res, nres, i, out)
		}
	}
	for _, i := range m.mutElems {
		if i < len(args) {
			st.mut(arg(i), elemType(unboxedType(args[i])), in, "written by "+name, nil)
		}
	}
	for _, i := range m.mutInside {
		// bookkeeping cells live in the ADT object itself (for a parameter: the Lexer and the
		// Buffer it points to), never in the byte array it reads from
		tg := oset{}
		tg.addAll(arg(i))
		for _, ct := range m.insideCells {
			st.mut(tg, ct, in, "written by "+name, nil)
		}
	}
	for _, ab := range m.storeInto {
		for o := range arg(ab[0]) {
			st.addContainsT(o, arg(ab[1]), args[ab[1]].Type())
		}
		st.noteFlows(arg(ab[0]), arg(ab[1]), in, "stored by "+name, nil)
	}
	for _, i := range m.callsFunc {
		st.callFuncValue(in, arg(i), args[i].Type())
	}
	if m.sortIface > 0 {
		st.callSortIface(in, args[m.sortIface-1], arg(m.sortIface-1))
	}
	for _, i := range m.formats {
		if i < len(as) {
			st.formatArgs(in, st.load(arg(i)))
		}
	}
}

// callFuncValue: external code invokes a function value we handed to it (sort
// comparators). Its parameters are scalars here; free variables come from the
// closure object.
func (st *fstate) callFuncValue(in ssa.Instruction, fv oset, t types.Type) {
	sig, _ := t.Underlying().(*types.Signature)
	for o := range fv {
		if o.kind != kFn || o.fn == nil || o.fn.Blocks == nil {
			if o.kind == kPd || o.kind == kPr {
				st.undec["function value from a parameter handed to external code"] = st.e.p.ipos(in)
			}
			continue
		}
		if sig != nil && !sigCompatible(o.fn, sig) {
			continue
		}
		as := make([]oset, len(o.fn.Params))
		var fvs []oset
		fc := st.load(oset{o: {}})
		for range o.fn.FreeVars {
			fvs = append(fvs, fc)
		}
		st.applySummary(in, o.fn, nil, as, fvs, nil, 0)
	}
}

func (st *fstate) callSortIface(in ssa.Instruction, v ssa.Value, recv oset) {
	// dynamic type from the static type before boxing
	var t types.Type
	if mi, ok := v.(*ssa.MakeInterface); ok {
		t = mi.X.Type()
	}
	if t == nil {
		st.undec["sort.Sort on a value of unknown dynamic type"] = st.e.p.ipos(in)
		return
	}
	ms := st.e.p.SSA.MethodSets.MethodSet(t)
	for _, name := range []string{"Len", "Less", "Swap"} {
		sel := ms.Lookup(nil, name)
		if sel == nil {
			for i := 0; i < ms.Len(); i++ {
				if ms.At(i).Obj().Name() == name {
					sel = ms.At(i)
				}
			}
		}
		if sel == nil {
			continue
		}
		f := st.e.p.SSA.MethodValue(sel)
		if f == nil || f.Blocks == nil {
			continue
		}
		as := make([]oset, len(f.Params))
		if len(as) > 0 {
			as[0] = recv
		}
		st.applySummary(in, f, nil, as, nil, nil, 0)
	}
}

// external: a function outside the analysed scope without a model.
func (st *fstate) external(in ssa.Instruction, f *ssa.Function, args []ssa.Value, as []oset, res ssa.Value, nres int) {
	name := f.Name()
	// blanket row: printing methods defined outside the scope are pure
	if f.Signature.Recv() != nil && (name == "String" || name == "Error" || name == "GoString" || name == "Format") {
		return
	}
	ptrArgs := false
	for i, a := range args {
		if hasPtr(a.Type()) && len(as[i]) > 0 {
			ptrArgs = true
		}
	}
	if !ptrArgs {
		if res != nil && hasPtrResults(f.Signature) {
			r := st.e.rsite(in, "")
			for i := 0; i < nres; i++ {
				st.setResult(res, nres, i, oset{r: {}})
			}
		}
		return
	}
	st.undec["external function without model: "+funcKey(f)] = st.e.p.ipos(in)
}

func hasPtrResults(sig *types.Signature) bool {
	for i := 0; i < sig.Results().Len(); i++ {
		if hasPtr(sig.Results().At(i).Type()) {
			return true
		}
	}
	return false
}

func (st *fstate) externalInvoke(in ssa.Instruction, c *ssa.CallCommon, args []ssa.Value, res ssa.Value, nres int) {
	tn := types.TypeString(c.Value.Type(), nil)
	key := tn + "." + c.Method.Name()
	as := make([]oset, len(args))
	for i, a := range args {
		as[i] = st.get(a)
	}
	if m, ok := externalInvokeModels[key]; ok {
		st.applyModel(in, nil, m, args, as, res, nres)
		return
	}
	// embedded/derived interfaces: match by method name on well-known method sets
	mn := c.Method.Name()
	switch {
	case mn == "String" || mn == "Error":
		return
	case strings.HasSuffix(tn, "Logger") || strings.HasSuffix(tn, "Printfer") || strings.HasSuffix(tn, "logger"):
		// logging sinks: format their operands (see fmt rows)
		for i := range as {
			st.formatArgs(in, st.load(as[i]))
			st.formatArgs(in, as[i])
		}
		return
	}
	ptr := false
	for i := 1; i < len(args); i++ {
		if hasPtr(args[i].Type()) && len(as[i]) > 0 {
			ptr = true
		}
	}
	if !ptr {
		if res != nil && hasPtrResults(c.Signature()) {
			r := st.e.rsite(in, "")
			for i := 0; i < nres; i++ {
				st.setResult(res, nres, i, oset{r: {}})
			}
		}
		return
	}
	st.undec["interface method without in-scope implementation or model: "+key] = st.e.p.ipos(in)
}
