#!/bin/bash
# usage: tools/try.sh <binary> <name> [name...]  — name is a directory under seeded/ or refactors/ or a mutants/*.patch stem;
# runs all checks on a scratch copy with that patch and prints which properties alarm (development aid)
bin=$1; shift
mkdir -p /tmp/tryout
for n in "$@"; do
  if [ -f seeded/$n/patch.diff ]; then p=seeded/$n/patch.diff; elif [ -f refactors/$n/patch.diff ]; then p=refactors/$n/patch.diff; else p=mutants/$n.patch; fi
  echo "$n $p"
done | xargs -P 8 -L 1 sh -c 'DHCPVERIF_BIN='$bin' tools/runpatch.sh $0 $1 /tmp/tryout'
for n in "$@"; do
  props=$(grep "^VIOLATION" /tmp/tryout/$n.txt | sed 's/.*property=\(C[0-9]*\).*/\1/' | sort -u | tr '\n' ' ')
  echo "$n: ${props:-clean}"
done
