package main

// D10 — relational bounds prover for E4 obligations the compiler's prove pass left open.
//
// A small abstract interpretation over the SSA of one function: constant lower/upper bounds of integer
// values (definitions: constants, conversions from unsigned types, masks, shifts, divisions, +/− constants,
// φ with the facts of each incoming edge, len of arrays/make; guards: dominating comparisons with constants)
// and one relational form, v ≤ len(X) + k (definitions: len(X), bytes/strings.Index*(X,…) ≤ len(X)−1,
// copy, min; guards: dominating comparisons of v with len(X); φ edge-wise). Values are identified by SSA
// identity or by equal symx strings. Parameters take the range of the arguments at all their in-module
// call sites (one level). Integer overflow is not modelled (sizes here are bounded by datagram sizes).
//
// Nothing is run: every step is a syntactic rule on the current tree's SSA, and the discharge names the rule.

import (
	"fmt"
	"go/constant"
	"go/token"
	"go/types"
	"os"
	"strings"

	"golang.org/x/tools/go/ssa"
)

type relProver struct {
	initOnly map[*ssa.Global]bool
	e        *e4Engine
	budget   int
	assumeLo map[ssa.Value]int64
	visiting map[string]bool
}

func (e *e4Engine) prover() *relProver {
	return &relProver{e: e, budget: 4000, assumeLo: map[ssa.Value]int64{}, visiting: map[string]bool{}}
}

const relInf = int64(1) << 50

// cmpFact: a guard fact as  lhs op rhs  (op ∈ <,<=,==,!=), polarity applied, > and >= mirrored.
type cmpFact struct {
	l, r ssa.Value
	op   token.Token // LSS, LEQ, EQL, NEQ
}

func normCmp(cond ssa.Value, pol bool) (cmpFact, bool) {
	bo, ok := cond.(*ssa.BinOp)
	if !ok {
		return cmpFact{}, false
	}
	op := bo.Op
	l, r := bo.X, bo.Y
	switch op {
	case token.LSS, token.LEQ, token.GTR, token.GEQ, token.EQL, token.NEQ:
	default:
		return cmpFact{}, false
	}
	if !pol {
		switch op {
		case token.LSS:
			op = token.GEQ
		case token.LEQ:
			op = token.GTR
		case token.GTR:
			op = token.LEQ
		case token.GEQ:
			op = token.LSS
		case token.EQL:
			op = token.NEQ
		case token.NEQ:
			op = token.EQL
		}
	}
	switch op {
	case token.GTR:
		l, r, op = r, l, token.LSS
	case token.GEQ:
		l, r, op = r, l, token.LEQ
	}
	return cmpFact{l, r, op}, true
}

// factsAt: comparison facts that hold on entry to block b
func (p *relProver) factsAt(b *ssa.BasicBlock) []cmpFact {
	var out []cmpFact
	for _, f := range p.e.gc.of(b) {
		if cf, ok := normCmp(f.cond, f.pol); ok {
			out = append(out, cf)
		}
	}
	return out
}

// factsOnEdge: facts on the edge pred→succ (facts at pred plus pred's own branch condition)
func (p *relProver) factsOnEdge(pred, succ *ssa.BasicBlock) []cmpFact {
	out := p.factsAt(pred)
	if iff := ifOf(pred); iff != nil && len(pred.Succs) == 2 && pred.Succs[0] != pred.Succs[1] {
		if cf, ok := normCmp(iff.Cond, pred.Succs[0] == succ); ok {
			out = append(out, cf)
		}
	}
	return out
}

func (p *relProver) same(a, b ssa.Value) bool {
	if a == b {
		return true
	}
	if a == nil || b == nil {
		return false
	}
	// two loads of one package-level variable that is only ever assigned by its package initialiser
	if ua, ok := a.(*ssa.UnOp); ok && ua.Op == token.MUL {
		if ub, ok := b.(*ssa.UnOp); ok && ub.Op == token.MUL && ua.X == ub.X {
			if g, isG := ua.X.(*ssa.Global); isG && p.initOnlyGlobal(g) {
				return true
			}
		}
	}
	sx := p.e.c.Sx()
	as, bs := sx.Of(a).String(), sx.Of(b).String()
	if as != bs || strings.Contains(as, "opaque(") {
		return false
	}
	// two reads of memory are the same value only if the function does not write that memory in between;
	// cheap sufficient condition: the function stores to no field of that name / through no pointer
	if strings.Contains(as, "field[") || strings.Contains(as, "load(") || strings.Contains(as, "lookup(") || strings.Contains(as, "elem(") {
		var fn *ssa.Function
		if in, ok := a.(ssa.Instruction); ok {
			fn = in.Parent()
		}
		if fn != nil {
			st := p.storesOf(fn)
			if st.deref && (strings.Contains(as, "load(") || strings.Contains(as, "elem(")) {
				return false
			}
			if st.maps && strings.Contains(as, "lookup(") {
				return false
			}
			for f := range st.fields {
				if strings.Contains(as, "field["+f+"]") {
					return false
				}
			}
		}
	}
	return true
}

type storeSummary struct {
	fields map[string]bool
	deref  bool // a store through a pointer / into a slice element that is not a local cell
	maps   bool
}

var storeCache = map[*ssa.Function]*storeSummary{}

func (p *relProver) storesOf(fn *ssa.Function) *storeSummary {
	if s, ok := storeCache[fn]; ok {
		return s
	}
	s := &storeSummary{fields: map[string]bool{}}
	allInstrs(fn, func(in ssa.Instruction) {
		switch t := in.(type) {
		case *ssa.Store:
			switch a := t.Addr.(type) {
			case *ssa.FieldAddr:
				if _, local := a.X.(*ssa.Alloc); !local {
					s.fields[derefStruct(a.X.Type()).Field(a.Field).Name()] = true
				}
			case *ssa.Alloc:
			case *ssa.IndexAddr:
				if al, _, ok := addrPath(a); !ok || al == nil {
					s.deref = true
				}
			default:
				s.deref = true
			}
		case *ssa.MapUpdate:
			s.maps = true
		}
	})
	storeCache[fn] = s
	return s
}

func stripConv(v ssa.Value) ssa.Value {
	for {
		switch t := v.(type) {
		case *ssa.Convert:
			// only widening / same-size integer conversions keep the value
			from, ok1 := t.X.Type().Underlying().(*types.Basic)
			to, ok2 := t.Type().Underlying().(*types.Basic)
			if ok1 && ok2 && from.Info()&types.IsInteger != 0 && to.Info()&types.IsInteger != 0 && sizeofBasic(from) <= sizeofBasic(to) && (from.Info()&types.IsUnsigned != 0 || to.Info()&types.IsUnsigned == 0 || true) {
				if from.Info()&types.IsUnsigned == 0 && to.Info()&types.IsUnsigned != 0 {
					return v // signed → unsigned may change the value
				}
				v = t.X
				continue
			}
		case *ssa.ChangeType:
			v = t.X
			continue
		}
		return v
	}
}

// lenArg: if v is len(X) (possibly converted) returns X
func lenArg(v ssa.Value) (ssa.Value, bool) {
	v = stripConv(v)
	if cl, ok := v.(*ssa.Call); ok && isBuiltinCall(cl.Common(), "len") {
		return cl.Call.Args[0], true
	}
	return nil, false
}

// constLen: length of x known from its construction (array, make with constant, constant slice bounds)
func (p *relProver) constLen(x ssa.Value) (int64, bool) {
	x = p.resolveLoad(stripSliceConv(x))
	x = stripSliceConv(x)
	t := x.Type().Underlying()
	if pt, ok := t.(*types.Pointer); ok {
		t = pt.Elem().Underlying()
	}
	if a, ok := t.(*types.Array); ok {
		return a.Len(), true
	}
	switch s := x.(type) {
	case *ssa.MakeSlice:
		if k, ok := intConst(s.Len); ok {
			return k, true
		}
	case *ssa.Slice:
		lo := int64(0)
		if s.Low != nil {
			k, ok := intConst(s.Low)
			if !ok {
				return 0, false
			}
			lo = k
		}
		if s.High != nil {
			if k, ok := intConst(s.High); ok {
				return k - lo, true
			}
			return 0, false
		}
		if n, ok := p.constLen(s.X); ok {
			return n - lo, true
		}
	case *ssa.Const:
		if s.Value != nil && s.Value.Kind().String() == "String" {
			return int64(len(s.Value.ExactString())) - 2, false // not used
		}
	}
	return 0, false
}

// resolveLoad: the value a load yields when symx can name the reaching store (single-store cells, reaching
// stores of local cells); otherwise the load itself
func (p *relProver) resolveLoad(x ssa.Value) ssa.Value {
	for i := 0; i < 4; i++ {
		u, ok := x.(*ssa.UnOp)
		if !ok || u.Op != token.MUL {
			return x
		}
		v := p.e.c.Sx().StoredValue(u)
		if v == nil {
			v = p.precedingStore(u)
		}
		if v == nil {
			return x
		}
		x = stripSliceConv(v)
	}
	return x
}

// precedingStore: a load of a field path of a parameter that is preceded, in the same block, by a store to the
// same address expression with no call and no other store in between yields the stored value
func (p *relProver) precedingStore(u *ssa.UnOp) ssa.Value {
	fa, ok := u.X.(*ssa.FieldAddr)
	if !ok {
		return nil
	}
	as := p.e.c.Sx().Of(fa).String()
	if strings.Contains(as, "opaque(") {
		return nil
	}
	b := u.Block()
	idx := -1
	for i, in := range b.Instrs {
		if in == ssa.Instruction(u) {
			idx = i
		}
	}
	for i := idx - 1; i >= 0; i-- {
		switch t := b.Instrs[i].(type) {
		case *ssa.Store:
			if p.e.c.Sx().Of(t.Addr).String() == as {
				return t.Val
			}
			return nil
		case *ssa.Call, *ssa.Defer, *ssa.Go, *ssa.MapUpdate, *ssa.Send:
			return nil
		}
	}
	return nil
}

func stripSliceConv(x ssa.Value) ssa.Value {
	for {
		switch t := x.(type) {
		case *ssa.ChangeType:
			x = t.X
			continue
		case *ssa.Convert:
			// []byte ↔ named slice types, string(bytes) keep the length
			if _, ok := t.X.Type().Underlying().(*types.Slice); ok {
				x = t.X
				continue
			}
			if bt, ok := t.X.Type().Underlying().(*types.Basic); ok && bt.Info()&types.IsString != 0 {
				if _, isSl := t.Type().Underlying().(*types.Slice); isSl {
					x = t.X
					continue
				}
			}
		}
		return x
	}
}

// ---------------------------------------------------------------------------
// constant bounds

func (p *relProver) lower(v ssa.Value, facts []cmpFact, d int) int64 {
	p.budget--
	if d > 8 || p.budget < 0 || v == nil {
		return -relInf
	}
	if a, ok := p.assumeLo[v]; ok {
		return a
	}
	best := -relInf
	upd := func(x int64) {
		if x > best {
			best = x
		}
	}
	v0 := v
	v = stripConv(v)
	if bt, ok := v0.Type().Underlying().(*types.Basic); ok && bt.Info()&types.IsUnsigned != 0 {
		upd(0)
	}
	if bt, ok := v.Type().Underlying().(*types.Basic); ok && bt.Info()&types.IsUnsigned != 0 {
		upd(0)
	}
	switch t := v.(type) {
	case *ssa.Const:
		if k, ok := intConst(t); ok {
			return k
		}
	case *ssa.Call:
		cc := t.Common()
		if isBuiltinCall(cc, "len") || isBuiltinCall(cc, "cap") {
			upd(0)
			if n, ok := p.constLen(cc.Args[0]); ok {
				upd(n)
			}
			upd(p.minLen(cc.Args[0], facts))
		} else if isBuiltinCall(cc, "copy") {
			upd(0)
		} else if isBuiltinCall(cc, "min") {
			m := relInf
			for _, a := range cc.Args {
				if l := p.lower(a, facts, d+1); l < m {
					m = l
				}
			}
			upd(m)
		} else if isBuiltinCall(cc, "max") {
			for _, a := range cc.Args {
				upd(p.lower(a, facts, d+1))
			}
		} else if sf := cc.StaticCallee(); sf != nil {
			k := funcKey(sf)
			switch {
			case strings.HasSuffix(k, "uio.Buffer).Len"), strings.HasSuffix(k, "uio.Buffer).Cap"), strings.HasSuffix(k, ").Len") && (strings.HasPrefix(k, "(*bytes.") || strings.HasPrefix(k, "(*strings.")):
				upd(0)
			case strings.HasPrefix(k, "bytes.Index"), strings.HasPrefix(k, "strings.Index"), strings.HasPrefix(k, "bytes.LastIndex"), strings.HasPrefix(k, "strings.LastIndex"):
				upd(-1)
			}
		}
	case *ssa.Convert:
		if bt, ok := t.X.Type().Underlying().(*types.Basic); ok && bt.Info()&types.IsUnsigned != 0 {
			if tt, ok := t.Type().Underlying().(*types.Basic); ok && sizeofBasic(bt) < sizeofBasic(tt) {
				upd(0)
				upd(p.lower(t.X, facts, d+1))
			}
		}
	case *ssa.BinOp:
		switch t.Op {
		case token.ADD:
			l1, l2 := p.lower(t.X, facts, d+1), p.lower(t.Y, facts, d+1)
			if l1 > -relInf && l2 > -relInf {
				upd(l1 + l2)
			}
		case token.SUB:
			l1 := p.lower(t.X, facts, d+1)
			u2 := p.upper(t.Y, facts, d+1)
			if l1 > -relInf && u2 < relInf {
				upd(l1 - u2)
			}
			// x − y ≥ 0 when a fact says y ≤ x
			for _, f := range facts {
				if f.op == token.LEQ && p.same(f.l, t.Y) && p.same(f.r, t.X) {
					upd(0)
				}
				if f.op == token.LSS && p.same(f.l, t.Y) && p.same(f.r, t.X) {
					upd(1)
				}
			}
			// len(X) − k with minLen
			if x, ok := lenArg(t.X); ok {
				if k, okk := intConst(t.Y); okk {
					if m := p.minLen(x, facts); m > -relInf {
						upd(m - k)
					}
				}
			}
		case token.MUL:
			l1, l2 := p.lower(t.X, facts, d+1), p.lower(t.Y, facts, d+1)
			if l1 >= 0 && l2 >= 0 {
				upd(l1 * l2)
			}
		case token.QUO:
			if k, ok := intConst(t.Y); ok && k > 0 {
				if l := p.lower(t.X, facts, d+1); l >= 0 {
					upd(l / k)
				}
			}
		case token.REM, token.AND, token.SHR:
			if p.lower(t.X, facts, d+1) >= 0 && p.lower(t.Y, facts, d+1) >= 0 {
				upd(0)
			}
			if t.Op == token.AND {
				if k, ok := intConst(t.Y); ok && k >= 0 {
					upd(0)
				}
				if k, ok := intConst(t.X); ok && k >= 0 {
					upd(0)
				}
			}
		case token.SHL, token.OR:
			if p.lower(t.X, facts, d+1) >= 0 && p.lower(t.Y, facts, d+1) >= 0 {
				upd(0)
			}
		}
	case *ssa.Phi:
		// inductive: base edges give L; cyclic edges must keep it under the assumption φ ≥ L
		key := fmt.Sprintf("lo:%p", t)
		if p.visiting[key] {
			return -relInf
		}
		p.visiting[key] = true
		m := relInf
		var cyc []int
		for i, e := range t.Edges {
			if dependsOn(e, t, 0) {
				cyc = append(cyc, i)
				continue
			}
			l := p.lower(e, p.factsOnEdge(t.Block().Preds[i], t.Block()), d+1)
			if l < m {
				m = l
			}
		}
		if m < relInf && m > -relInf {
			okAll := true
			p.assumeLo[t] = m
			for _, i := range cyc {
				if p.lower(t.Edges[i], p.factsOnEdge(t.Block().Preds[i], t.Block()), d+1) < m {
					okAll = false
				}
			}
			delete(p.assumeLo, t)
			if okAll {
				upd(m)
			}
		}
		delete(p.visiting, key)
	case *ssa.Parameter:
		if lo, _, ok := p.paramRange(t); ok {
			upd(lo)
		}
	case *ssa.Extract:
		// n of (n, err) := Read(...)-like calls: not modelled
	}
	// guards: c ≤ v, c < v, v == c
	for _, f := range facts {
		switch {
		case p.same(f.r, v0) || p.same(f.r, v):
			if k, ok := intConst(f.l); ok {
				if f.op == token.LEQ {
					upd(k)
				} else if f.op == token.LSS {
					upd(k + 1)
				} else if f.op == token.EQL {
					upd(k)
				}
			} else if f.op == token.LEQ || f.op == token.LSS {
				if d < 4 {
					if l := p.lower(f.l, facts, d+3); l > -relInf {
						if f.op == token.LSS {
							l++
						}
						upd(l)
					}
				}
			}
		case p.same(f.l, v0) || p.same(f.l, v):
			if k, ok := intConst(f.r); ok && f.op == token.EQL {
				upd(k)
			}
			if k, ok := intConst(f.r); ok && f.op == token.NEQ && best == k {
				upd(k + 1)
			}
		}
	}
	return best
}

// loopInvariant: x is defined outside every cycle through the φ's block
func loopInvariant(x ssa.Value, ph *ssa.Phi) bool {
	x = stripSliceConv(x)
	switch t := x.(type) {
	case *ssa.Parameter, *ssa.Const, *ssa.Global, *ssa.FreeVar:
		return true
	case ssa.Instruction:
		b := t.Block()
		return b != nil && b != ph.Block() && b.Dominates(ph.Block()) && !sameCycle(b, ph.Block())
	}
	return false
}

func dependsOn(v ssa.Value, ph *ssa.Phi, d int) bool {
	if v == ssa.Value(ph) {
		return true
	}
	if d > 6 {
		return false
	}
	switch t := v.(type) {
	case *ssa.BinOp:
		return dependsOn(t.X, ph, d+1) || dependsOn(t.Y, ph, d+1)
	case *ssa.Convert:
		return dependsOn(t.X, ph, d+1)
	case *ssa.ChangeType:
		return dependsOn(t.X, ph, d+1)
	case *ssa.Phi:
		if t.Block() == ph.Block() {
			return false
		}
		for _, e := range t.Edges {
			if dependsOn(e, ph, d+1) {
				return true
			}
		}
	}
	return false
}

func (p *relProver) upper(v ssa.Value, facts []cmpFact, d int) int64 {
	p.budget--
	if d > 8 || p.budget < 0 || v == nil {
		return relInf
	}
	best := relInf
	upd := func(x int64) {
		if x < best {
			best = x
		}
	}
	v0 := v
	if bt, ok := v0.Type().Underlying().(*types.Basic); ok {
		switch bt.Kind() {
		case types.Uint8:
			upd(255)
		case types.Uint16:
			upd(65535)
		case types.Int8:
			upd(127)
		case types.Int16:
			upd(32767)
		}
	}
	v = stripConv(v)
	if bt, ok := v.Type().Underlying().(*types.Basic); ok && v != v0 {
		switch bt.Kind() {
		case types.Uint8:
			upd(255)
		case types.Uint16:
			upd(65535)
		}
	}
	switch t := v.(type) {
	case *ssa.Const:
		if k, ok := intConst(t); ok {
			return k
		}
	case *ssa.Call:
		cc := t.Common()
		if isBuiltinCall(cc, "len") || isBuiltinCall(cc, "cap") {
			if n, ok := p.constLen(cc.Args[0]); ok && isBuiltinCall(cc, "len") {
				upd(n)
			}
			upd(p.maxLen(cc.Args[0], facts))
		} else if isBuiltinCall(cc, "min") {
			for _, a := range cc.Args {
				upd(p.upper(a, facts, d+1))
			}
		} else if isBuiltinCall(cc, "copy") {
			for _, a := range cc.Args {
				if n, ok := p.constLen(a); ok {
					upd(n)
				}
			}
		} else if sf := cc.StaticCallee(); sf != nil && len(cc.Args) > 0 {
			fk := funcKey(sf)
			if strings.HasPrefix(fk, "bytes.Index") || strings.HasPrefix(fk, "strings.Index") || strings.HasPrefix(fk, "bytes.LastIndex") || strings.HasPrefix(fk, "strings.LastIndex") {
				if n, ok := p.constLen(cc.Args[0]); ok {
					upd(n - 1)
				}
				if m := p.maxLen(cc.Args[0], facts); m < relInf {
					upd(m - 1)
				}
			}
		}
	case *ssa.BinOp:
		switch t.Op {
		case token.ADD:
			u1, u2 := p.upper(t.X, facts, d+1), p.upper(t.Y, facts, d+1)
			if u1 < relInf && u2 < relInf {
				upd(u1 + u2)
			}
		case token.SUB:
			u1 := p.upper(t.X, facts, d+1)
			l2 := p.lower(t.Y, facts, d+1)
			if u1 < relInf && l2 > -relInf {
				upd(u1 - l2)
			}
		case token.MUL:
			u1, u2 := p.upper(t.X, facts, d+1), p.upper(t.Y, facts, d+1)
			if u1 < relInf && u2 < relInf && p.lower(t.X, facts, d+1) >= 0 && p.lower(t.Y, facts, d+1) >= 0 {
				upd(u1 * u2)
			}
		case token.QUO:
			if k, ok := intConst(t.Y); ok && k > 0 {
				if u := p.upper(t.X, facts, d+1); u < relInf && p.lower(t.X, facts, d+1) >= 0 {
					upd(u / k)
				}
			}
		case token.REM:
			if k, ok := intConst(t.Y); ok && k > 0 {
				upd(k - 1)
			}
		case token.AND:
			if k, ok := intConst(t.Y); ok && k >= 0 {
				upd(k)
			}
			if k, ok := intConst(t.X); ok && k >= 0 {
				upd(k)
			}
		case token.SHR:
			if k, ok := intConst(t.Y); ok && k >= 0 && k < 62 {
				if u := p.upper(t.X, facts, d+1); u < relInf && p.lower(t.X, facts, d+1) >= 0 {
					upd(u >> uint(k))
				}
			}
		}
	case *ssa.Phi:
		key := fmt.Sprintf("up:%p", t)
		if !p.visiting[key] {
			p.visiting[key] = true
			m := -relInf
			for i, e := range t.Edges {
				if e == ssa.Value(t) {
					continue
				}
				u := p.upper(e, p.factsOnEdge(t.Block().Preds[i], t.Block()), d+1)
				if u > m {
					m = u
				}
			}
			if m > -relInf {
				upd(m)
			}
			delete(p.visiting, key)
		}
	case *ssa.Parameter:
		if _, hi, ok := p.paramRange(t); ok {
			upd(hi)
		}
	}
	for _, f := range facts {
		if p.same(f.l, v0) || p.same(f.l, v) {
			if k, ok := intConst(f.r); ok {
				switch f.op {
				case token.LEQ, token.EQL:
					upd(k)
				case token.LSS:
					upd(k - 1)
				}
			} else if (f.op == token.LEQ || f.op == token.LSS) && d < 4 {
				if u := p.upper(f.r, facts, d+3); u < relInf {
					if f.op == token.LSS {
						u--
					}
					upd(u)
				}
			}
		}
		if (p.same(f.r, v0) || p.same(f.r, v)) && f.op == token.EQL {
			if k, ok := intConst(f.l); ok {
				upd(k)
			}
		}
	}
	return best
}

// paramRange: the range of an integer parameter over all in-module call sites of its function (one level;
// exported functions have unknown callers)
func (p *relProver) paramRange(prm *ssa.Parameter) (int64, int64, bool) {
	f := prm.Parent()
	if f == nil || token.IsExported(f.Name()) || f.Parent() != nil {
		return 0, 0, false
	}
	if bt, ok := prm.Type().Underlying().(*types.Basic); !ok || bt.Info()&types.IsInteger == 0 {
		return 0, 0, false
	}
	idx := -1
	for i, q := range f.Params {
		if q == prm {
			idx = i
		}
	}
	if idx < 0 {
		return 0, 0, false
	}
	key := "prm:" + funcKey(f) + fmt.Sprint(idx)
	if p.visiting[key] {
		return 0, 0, false
	}
	p.visiting[key] = true
	defer delete(p.visiting, key)
	if cg := p.e.c.P.cg; cg != nil {
		if nd := cg.Nodes[f]; nd != nil {
			for _, ed := range nd.In {
				if ed.Site == nil || ed.Site.Common().StaticCallee() != f {
					return 0, 0, false // reached dynamically (interface method, function value)
				}
			}
		}
	}
	lo, hi, n := relInf, -relInf, 0
	for _, g := range p.e.c.P.ModuleFuncs() {
		if g.Pkg != f.Pkg {
			continue
		}
		allInstrs(g, func(in ssa.Instruction) {
			ci, ok := in.(ssa.CallInstruction)
			if !ok || ci.Common().StaticCallee() != f || idx >= len(ci.Common().Args) {
				return
			}
			n++
			a := ci.Common().Args[idx]
			facts := p.factsAt(in.Block())
			if l := p.lower(a, facts, 5); l < lo {
				lo = l
			}
			if u := p.upper(a, facts, 5); u > hi {
				hi = u
			}
		})
	}
	// a function whose address is taken may have other callers
	if n == 0 || f.Referrers() != nil && hasNonCallRef(f) {
		return 0, 0, false
	}
	return lo, hi, true
}

func hasNonCallRef(f *ssa.Function) bool {
	refs := f.Referrers()
	if refs == nil {
		return false
	}
	for _, r := range *refs {
		if ci, ok := r.(ssa.CallInstruction); ok && ci.Common().Value == ssa.Value(f) {
			continue
		}
		return true
	}
	return false
}

// minLen / maxLen of a slice or string value: from construction and from guards on len(x)
func (p *relProver) minLen(x ssa.Value, facts []cmpFact) int64 {
	best := int64(0)
	if n, ok := p.constLen(x); ok {
		best = n
	}
	x = stripSliceConv(x)
	for _, f := range facts {
		if lx, ok := lenArg(f.r); ok && p.sameSlice(lx, x) {
			if k, okk := intConst(f.l); okk {
				if f.op == token.LEQ || f.op == token.EQL {
					if k > best {
						best = k
					}
				} else if f.op == token.LSS && k+1 > best {
					best = k + 1
				}
			}
		}
		if lx, ok := lenArg(f.l); ok && p.sameSlice(lx, x) {
			if k, okk := intConst(f.r); okk {
				if f.op == token.EQL && k > best {
					best = k
				}
				if f.op == token.NEQ && k == 0 && best < 1 {
					best = 1
				}
			}
		}
	}
	// a sub-slice with a symbolic upper bound: len = hi − lo
	if s, ok := x.(*ssa.Slice); ok && s.High != nil {
		lo := int64(0)
		if s.Low != nil {
			if k, okk := intConst(s.Low); okk {
				lo = k
			} else {
				lo = relInf
			}
		}
		if lo < relInf {
			if l := p.lower(s.High, facts, 6); l > -relInf && l-lo > best {
				best = l - lo
			}
		}
	}
	if s, ok := x.(*ssa.Slice); ok && s.High == nil && s.Low != nil {
		if k, okk := intConst(s.Low); okk {
			if m := p.minLen(s.X, facts); m-k > best {
				best = m - k
			}
		}
	}
	// result of Lexer.Append / Buffer.WriteN(k): exactly k bytes; a non-nil Consume(k)/CopyN(k) result has k bytes
	if cl, ok := x.(*ssa.Call); ok {
		if sf := cl.Call.StaticCallee(); sf != nil {
			fk := funcKey(sf)
			if strings.HasSuffix(fk, "uio.Lexer).Consume") || strings.HasSuffix(fk, "uio.Lexer).CopyN") || strings.HasSuffix(fk, "uio.Buffer).ReadN") {
				nonNil := false
				for _, f := range facts {
					isNil := func(v ssa.Value) bool { k, ok := v.(*ssa.Const); return ok && k.Value == nil }
					if f.op == token.NEQ && ((p.same(f.l, x) && isNil(f.r)) || (p.same(f.r, x) && isNil(f.l))) {
						nonNil = true
					}
				}
				if nonNil {
					if l := p.lower(cl.Call.Args[1], facts, 6); l > best {
						best = l
					}
					// relational: len(x) == arg; record through the numeric lower bound only
				}
			}
			if strings.HasSuffix(fk, "uio.Lexer).Append") || strings.HasSuffix(fk, "uio.Buffer).WriteN") {
				if l := p.lower(cl.Call.Args[1], facts, 6); l > best {
					best = l
				}
			}
		}
	}
	return best
}

func (p *relProver) maxLen(x ssa.Value, facts []cmpFact) int64 {
	best := relInf
	x = stripSliceConv(x)
	for _, f := range facts {
		if lx, ok := lenArg(f.l); ok && p.sameSlice(lx, x) {
			if k, okk := intConst(f.r); okk {
				switch f.op {
				case token.LEQ, token.EQL:
					if k < best {
						best = k
					}
				case token.LSS:
					if k-1 < best {
						best = k - 1
					}
				}
			}
		}
	}
	return best
}

func (p *relProver) sameSlice(a, b ssa.Value) bool {
	return p.same(stripSliceConv(a), stripSliceConv(b))
}

// ---------------------------------------------------------------------------
// relational: v ≤ len(X) + k

// leqLen proves v ≤ len(x) + k at the given facts.
func (p *relProver) leqLen(v ssa.Value, x ssa.Value, k int64, facts []cmpFact, d int) bool {
	p.budget--
	if d > 8 || p.budget < 0 {
		return false
	}
	// numerically
	if u := p.upper(v, facts, d+1); u < relInf {
		if u <= p.minLen(x, facts)+k {
			return true
		}
	}
	v0 := v
	v = stripConv(v)
	// v is len(x) itself
	if lx, ok := lenArg(v); ok && p.sameSlice(lx, x) && k >= 0 {
		return true
	}
	// x is a non-nil Consume(n)/CopyN(n): len(x) == n
	if n, ok := p.exactLenArg(x, facts); ok {
		if p.leqVal(v0, n, k, facts, d+1) {
			return true
		}
	}
	x = p.resolveLoad(stripSliceConv(x))
	// x is a sub-slice y[lo:] / y[:hi] / y[lo:hi]: len(x) = hi − lo
	if s, ok := stripSliceConv(x).(*ssa.Slice); ok {
		lo := int64(0)
		okLo := true
		if s.Low != nil {
			if c, okk := intConst(s.Low); okk {
				lo = c
			} else {
				okLo = false
			}
		}
		if okLo {
			if s.High == nil {
				if p.leqLen(v0, s.X, k-lo, facts, d+1) {
					return true
				}
			} else if c, okk := intConst(s.High); okk {
				if u := p.upper(v0, facts, d+1); u <= c-lo+k {
					return true
				}
			} else if p.leqVal(v0, s.High, k-lo, facts, d+1) {
				return true
			}
		}
	}
	switch t := v.(type) {
	case *ssa.BinOp:
		if t.Op == token.ADD {
			if c, ok := intConst(t.Y); ok && p.leqLen(t.X, x, k-c, facts, d+1) {
				return true
			}
			if c, ok := intConst(t.X); ok && p.leqLen(t.Y, x, k-c, facts, d+1) {
				return true
			}
		}
		if t.Op == token.SUB {
			if c, ok := intConst(t.Y); ok && p.leqLen(t.X, x, k+c, facts, d+1) {
				return true
			}
			if p.lower(t.Y, facts, d+1) >= 0 && p.leqLen(t.X, x, k, facts, d+1) {
				return true
			}
		}
	case *ssa.Call:
		cc := t.Common()
		if sf := cc.StaticCallee(); sf != nil && len(cc.Args) > 0 {
			fk := funcKey(sf)
			if strings.HasPrefix(fk, "bytes.Index") || strings.HasPrefix(fk, "strings.Index") || strings.HasPrefix(fk, "bytes.LastIndex") || strings.HasPrefix(fk, "strings.LastIndex") {
				if p.sameSlice(cc.Args[0], x) && k >= -1 {
					return true
				}
			}
		}
		if isBuiltinCall(cc, "copy") {
			for _, a := range cc.Args {
				if p.sameSlice(a, x) && k >= 0 {
					return true
				}
			}
		}
		if isBuiltinCall(cc, "min") {
			for _, a := range cc.Args {
				if p.leqLen(a, x, k, facts, d+1) {
					return true
				}
			}
		}
	case *ssa.Phi:
		key := fmt.Sprintf("leq:%p:%p:%d", t, x, k)
		if p.visiting[key] {
			// coinductive hypothesis (checked on every other edge): sound only for a loop-invariant x
			return loopInvariant(x, t)
		}
		p.visiting[key] = true
		ok := true
		for i, e := range t.Edges {
			if !p.leqLen(e, x, k, p.factsOnEdge(t.Block().Preds[i], t.Block()), d+1) {
				ok = false
				break
			}
		}
		delete(p.visiting, key)
		if ok {
			return true
		}
	}
	// guards: v < len(x), v ≤ len(x), v ≤ w with w ≤ len(x)+k'
	for _, f := range facts {
		if !(p.same(f.l, v0) || p.same(f.l, v)) {
			continue
		}
		if f.op != token.LSS && f.op != token.LEQ && f.op != token.EQL {
			continue
		}
		slack := int64(0)
		if f.op == token.LSS {
			slack = 1
		}
		if lx, ok := lenArg(f.r); ok && p.sameSlice(lx, x) {
			if -slack <= k {
				return true
			}
			continue
		}
		if d < 3 && p.leqLen(f.r, x, k+slack, facts, d+3) {
			return true
		}
	}
	// len(x) ≥ v … written as a fact on len(x): c ≤ len(x) handled numerically above; w ≤ len(x) with w == v+j
	for _, f := range facts {
		if lx, ok := lenArg(f.r); ok && p.sameSlice(lx, x) && (f.op == token.LEQ || f.op == token.LSS) {
			slack := int64(0)
			if f.op == token.LSS {
				slack = 1
			}
			// f.l ≤ len(x) − slack; if v ≤ f.l + j then v ≤ len(x) + j − slack
			if j, ok := p.offsetOf(v, f.l); ok && j-slack <= k {
				return true
			}
		}
	}
	return false
}

// exactLenArg: x is the result of Lexer.Consume(n)/CopyN(n) known to be non-nil here: its length is n
func (p *relProver) exactLenArg(x ssa.Value, facts []cmpFact) (ssa.Value, bool) {
	cl, ok := stripSliceConv(x).(*ssa.Call)
	if !ok || cl.Call.StaticCallee() == nil {
		return nil, false
	}
	fk := funcKey(cl.Call.StaticCallee())
	if !(strings.HasSuffix(fk, "uio.Lexer).Consume") || strings.HasSuffix(fk, "uio.Lexer).CopyN") || strings.HasSuffix(fk, "uio.Buffer).ReadN")) {
		return nil, false
	}
	isNil := func(v ssa.Value) bool { k, ok := v.(*ssa.Const); return ok && k.Value == nil }
	for _, f := range facts {
		if f.op == token.NEQ && ((p.sameSlice(f.l, x) && isNil(f.r)) || (p.sameSlice(f.r, x) && isNil(f.l))) {
			return cl.Call.Args[1], true
		}
	}
	return nil, false
}

// offsetOf: v == w + j for a constant j (syntactically)
func (p *relProver) offsetOf(v, w ssa.Value) (int64, bool) {
	v, w = stripConv(v), stripConv(w)
	if p.same(v, w) {
		return 0, true
	}
	if bo, ok := w.(*ssa.BinOp); ok && bo.Op == token.ADD {
		if c, okc := intConst(bo.Y); okc && p.same(v, stripConv(bo.X)) {
			return -c, true
		}
		if c, okc := intConst(bo.X); okc && p.same(v, stripConv(bo.Y)) {
			return -c, true
		}
		// w = a + b (both non-constant): v == a and b ≥ 0 ⇒ v ≤ w
	}
	if bo, ok := v.(*ssa.BinOp); ok && bo.Op == token.ADD {
		if c, okc := intConst(bo.Y); okc && p.same(stripConv(bo.X), w) {
			return c, true
		}
		if c, okc := intConst(bo.X); okc && p.same(stripConv(bo.Y), w) {
			return c, true
		}
	}
	return 0, false
}

// leqVal proves a ≤ b + k for two values
func (p *relProver) leqVal(a, b ssa.Value, k int64, facts []cmpFact, d int) bool {
	p.budget--
	if d > 8 || p.budget < 0 {
		return false
	}
	if j, ok := p.offsetOf(a, b); ok && j <= k {
		return true
	}
	ua, lb := p.upper(a, facts, d+1), p.lower(b, facts, d+1)
	if ua < relInf && lb > -relInf && ua <= lb+k {
		return true
	}
	if lx, ok := lenArg(b); ok {
		return p.leqLen(a, lx, k, facts, d+1)
	}
	for _, f := range facts {
		if (f.op == token.LEQ || f.op == token.LSS) && p.same(f.l, a) && p.same(f.r, b) {
			slack := int64(0)
			if f.op == token.LSS {
				slack = 1
			}
			if -slack <= k {
				return true
			}
		}
	}
	if ph, ok := stripConv(a).(*ssa.Phi); ok {
		key := fmt.Sprintf("leqv:%p:%p:%d", ph, b, k)
		if p.visiting[key] {
			return loopInvariant(b, ph)
		}
		p.visiting[key] = true
		okAll := true
		for i, e := range ph.Edges {
			if !p.leqVal(e, b, k, p.factsOnEdge(ph.Block().Preds[i], ph.Block()), d+1) {
				okAll = false
				break
			}
		}
		delete(p.visiting, key)
		return okAll
	}
	return false
}

// ---------------------------------------------------------------------------
// entry points used by e4Engine.bounds

// capOf: a constant capacity of x when known from construction, else -1
func (p *relProver) capConst(x ssa.Value) int64 {
	x = p.resolveLoad(stripSliceConv(x))
	x = stripSliceConv(x)
	t := x.Type().Underlying()
	if pt, ok := t.(*types.Pointer); ok {
		t = pt.Elem().Underlying()
	}
	if a, ok := t.(*types.Array); ok {
		return a.Len()
	}
	switch s := x.(type) {
	case *ssa.MakeSlice:
		if k, ok := intConst(s.Cap); ok {
			return k
		}
	case *ssa.Slice:
		if s.Max != nil {
			return -1
		}
		lo := int64(0)
		if s.Low != nil {
			k, ok := intConst(s.Low)
			if !ok {
				return -1
			}
			lo = k
		}
		if c := p.capConst(s.X); c >= 0 {
			return c - lo
		}
	}
	return -1
}

func (p *relProver) proveIndex(in ssa.Instruction, x, idx ssa.Value) (string, bool) {
	facts := p.factsAt(in.Block())
	if p.lower(idx, facts, 0) < 0 {
		return "", false
	}
	if p.leqLen(idx, x, -1, facts, 0) {
		return "D10 relational: 0 ≤ index and index ≤ len(x) − 1 (bounds/guards/φ edges)", true
	}
	return "", false
}

func (p *relProver) proveSlice(in ssa.Instruction, x, lo, hi ssa.Value) (string, bool) {
	facts := p.factsAt(in.Block())
	if dbg := os.Getenv("DHCPVERIF_RELDEBUG"); dbg != "" && strings.Contains(shortName(in.Parent()), dbg) {
		sx := p.e.c.Sx()
		fmt.Fprintf(os.Stderr, "RELDEBUG %s %s: x=%s\n   resolved=%T cap=%d", shortName(in.Parent()), p.e.c.P.ipos(in), sx.Of(x), p.resolveLoad(stripSliceConv(x)), p.capConst(x))
		if n, ok := p.constLen(x); ok {
			fmt.Fprintf(os.Stderr, " constLen=%d", n)
		}
		fmt.Fprintf(os.Stderr, " minLen=%d\n", p.minLen(x, facts))
		if hi != nil {
			fmt.Fprintf(os.Stderr, "   hi=%s lower=%d upper=%d\n", sx.Of(hi), p.lower(hi, facts, 0), p.upper(hi, facts, 0))
		}
		if lo != nil {
			fmt.Fprintf(os.Stderr, "   lo=%s lower=%d upper=%d\n", sx.Of(lo), p.lower(lo, facts, 0), p.upper(lo, facts, 0))
		}
		for _, f := range facts {
			fmt.Fprintf(os.Stderr, "   fact %s %s %s\n", sx.Of(f.l), f.op, sx.Of(f.r))
		}
	}
	_, isStr := x.Type().Underlying().(*types.Basic)
	capK := int64(-1)
	if !isStr {
		capK = p.capConst(x)
	}
	leqCap := func(v ssa.Value) bool {
		if capK >= 0 {
			if u := p.upper(v, facts, 0); u <= capK {
				return true
			}
		}
		return p.leqLen(v, x, 0, facts, 0)
	}
	if lo != nil && p.lower(lo, facts, 0) < 0 {
		return "", false
	}
	switch {
	case hi == nil && lo != nil:
		if p.leqLen(lo, x, 0, facts, 0) {
			return "D10 relational: 0 ≤ low ≤ len(x)", true
		}
	case hi != nil:
		if !leqCap(hi) {
			return "", false
		}
		if lo == nil {
			if p.lower(hi, facts, 0) >= 0 {
				return "D10 relational: 0 ≤ high ≤ cap(x)", true
			}
			return "", false
		}
		if p.leqVal(lo, hi, 0, facts, 0) {
			return "D10 relational: 0 ≤ low ≤ high ≤ cap(x)", true
		}
	}
	return "", false
}

// ---------------------------------------------------------------------------
// D11 — regexp submatch contract: for m := re.FindStringSubmatch(s) with len(m) != 0 (or m != nil),
// len(m) == re.NumSubexp()+1 == len(re.SubexpNames()). An index i < len(re.SubexpNames()) of the same re is
// therefore in range for m. m and re may reach the indexing function as parameters of an unexported function
// whose every in-package call site passes such a pair.

func isRegexpCall(v ssa.Value, names ...string) (*ssa.Call, ssa.Value) {
	cl, ok := stripSliceConv(v).(*ssa.Call)
	if !ok || cl.Call.StaticCallee() == nil {
		return nil, nil
	}
	fk := funcKey(cl.Call.StaticCallee())
	for _, n := range names {
		if fk == "(*regexp.Regexp)."+n && len(cl.Call.Args) > 0 {
			return cl, cl.Call.Args[0]
		}
	}
	return nil, nil
}

func (p *relProver) nonEmptyAt(x ssa.Value, facts []cmpFact) bool {
	isNil := func(v ssa.Value) bool { k, ok := v.(*ssa.Const); return ok && k.Value == nil }
	for _, f := range facts {
		if f.op == token.NEQ && ((p.sameSlice(f.l, x) && isNil(f.r)) || (p.sameSlice(f.r, x) && isNil(f.l))) {
			return true
		}
	}
	return p.minLen(x, facts) >= 1
}

// submatchOf: x is a non-empty submatch slice of regexp value re at this point
func (p *relProver) submatchOf(x, re ssa.Value, facts []cmpFact, depth int) bool {
	if cl, r := isRegexpCall(x, "FindStringSubmatch", "FindSubmatch"); cl != nil {
		return p.same(r, re) && p.nonEmptyAt(x, facts)
	}
	xp, ok1 := stripSliceConv(x).(*ssa.Parameter)
	rp, ok2 := re.(*ssa.Parameter)
	if !ok1 || !ok2 || xp.Parent() != rp.Parent() || depth > 1 {
		return false
	}
	f := xp.Parent()
	if token.IsExported(f.Name()) || f.Parent() != nil || hasNonCallRef(f) {
		return false
	}
	xi, ri := -1, -1
	for i, q := range f.Params {
		if q == xp {
			xi = i
		}
		if q == rp {
			ri = i
		}
	}
	if xi < 0 || ri < 0 {
		return false
	}
	n, okAll := 0, true
	for _, g := range p.e.c.P.ModuleFuncs() {
		if g.Pkg != f.Pkg {
			continue
		}
		allInstrs(g, func(in ssa.Instruction) {
			ci, ok := in.(ssa.CallInstruction)
			if !ok || ci.Common().StaticCallee() != f || xi >= len(ci.Common().Args) || ri >= len(ci.Common().Args) {
				return
			}
			n++
			if !p.submatchOf(ci.Common().Args[xi], ci.Common().Args[ri], p.factsAt(in.Block()), depth+1) {
				okAll = false
			}
		})
	}
	return n > 0 && okAll
}

func (p *relProver) proveRegexpSubmatch(in ssa.Instruction, x, idx ssa.Value) (string, bool) {
	facts := p.factsAt(in.Block())
	if p.lower(idx, facts, 0) < 0 {
		return "", false
	}
	// find a names slice S = re.SubexpNames() with idx < len(S)
	var found bool
	allInstrs(in.Parent(), func(i2 ssa.Instruction) {
		cl, ok := i2.(*ssa.Call)
		if !ok || found {
			return
		}
		if c2, re := isRegexpCall(cl, "SubexpNames"); c2 != nil {
			if p.leqLen(idx, cl, -1, facts, 0) && p.submatchOf(x, re, facts, 0) {
				found = true
			}
		}
	})
	if found {
		return "D11 regexp contract: index < len(re.SubexpNames()) = len(non-empty re.FindStringSubmatch(…))", true
	}
	return "", false
}

// D11 (dual): names[i] with names the SubexpNames() of the regexp that produced the submatch slice M and i < len(M).
// i >= 0 and i < len(M) make M non-empty, hence len(M) == len(names). names and M may be chosen together by a switch
// or an if (φs of the same block, paired edge by edge), and the regexp itself may be such a φ.
func isEmptySliceVal(v ssa.Value) bool {
	if k, ok := v.(*ssa.Const); ok && k.Value == nil {
		return true
	}
	return false
}

// emptyOnEdge: the value ph receives through its k-th edge is an empty slice there: the nil constant; a value whose
// emptiness test lies on every path to that predecessor, on its empty side (`if m = f(); len(m) != 0 { break }` leaves m
// empty at the loop's latch); or a φ that is empty on every one of its own edges
func emptyOnEdge(ph *ssa.Phi, k, d int) bool {
	if d > 4 || k >= len(ph.Edges) || k >= len(ph.Block().Preds) {
		return false
	}
	v := ph.Edges[k]
	if isEmptySliceVal(v) {
		return true
	}
	fn := ph.Parent()
	pred := ph.Block().Preds[k]
	for _, b := range fn.Blocks {
		iff := ifOf(b)
		if iff == nil {
			continue
		}
		if _, emp, ok := emptinessEdgesOf(iff, v); ok {
			if vi, isInstr := v.(ssa.Instruction); isInstr && (vi.Block() == b || vi.Block().Dominates(b)) {
				if (emp.To == pred && len(pred.Preds) == 1) || mustPassEdges(fn, pred, emp) || (b == pred && emp.To == ph.Block() && b.Succs[0] != b.Succs[1]) {
					return true
				}
			}
		}
	}
	if inner, ok := stripSliceConv(v).(*ssa.Phi); ok && inner != ph {
		for j := range inner.Edges {
			if inner.Edges[j] == ssa.Value(inner) || inner.Edges[j] == ssa.Value(ph) {
				continue
			}
			if !emptyOnEdge(inner, j, d+1) {
				return false
			}
		}
		return true
	}
	return false
}

func (p *relProver) submatchPairs(m, re ssa.Value, d int) bool {
	if d > 3 {
		return false
	}
	if cl, r := isRegexpCall(m, "FindStringSubmatch", "FindSubmatch"); cl != nil {
		return p.same(r, re)
	}
	mp, ok := stripSliceConv(m).(*ssa.Phi)
	if !ok {
		return false
	}
	rp, rePhi := re.(*ssa.Phi)
	for k, me := range mp.Edges {
		if emptyOnEdge(mp, k, 0) {
			continue // len 0 on that path: no index below it
		}
		rk := re
		if rePhi {
			if rp.Block() != mp.Block() || k >= len(rp.Edges) {
				return false
			}
			rk = rp.Edges[k]
		}
		if !p.submatchPairs(me, rk, d+1) {
			return false
		}
	}
	return true
}

func (p *relProver) namesPairs(n, m ssa.Value, d int) bool {
	if d > 3 {
		return false
	}
	if cl, re := isRegexpCall(n, "SubexpNames"); cl != nil {
		return p.submatchPairs(m, re, d)
	}
	np, ok1 := stripSliceConv(n).(*ssa.Phi)
	mp, ok2 := stripSliceConv(m).(*ssa.Phi)
	if !ok1 || !ok2 || np.Block() != mp.Block() || len(np.Edges) != len(mp.Edges) {
		return false
	}
	for k := range np.Edges {
		if emptyOnEdge(mp, k, 0) {
			continue
		}
		if !p.namesPairs(np.Edges[k], mp.Edges[k], d+1) {
			return false
		}
	}
	return true
}

func (p *relProver) proveRegexpNames(in ssa.Instruction, x, idx ssa.Value) (string, bool) {
	facts := p.factsAt(in.Block())
	if p.lower(idx, facts, 0) < 0 {
		return "", false
	}
	found := false
	allInstrs(in.Parent(), func(i2 ssa.Instruction) {
		if found {
			return
		}
		m, ok := i2.(ssa.Value)
		if !ok {
			return
		}
		if _, isSl := m.Type().Underlying().(*types.Slice); !isSl {
			return
		}
		switch i2.(type) {
		case *ssa.Phi, *ssa.Call:
		default:
			return
		}
		if m == x {
			return
		}
		if p.leqLen(idx, m, -1, facts, 0) && p.namesPairs(x, m, 0) {
			found = true
		}
	})
	if found {
		return "D11 regexp contract: 0 <= index < len(M) for a submatch slice M, names = SubexpNames() of the regexp that produced M (paired edge by edge)", true
	}
	return "", false
}

// initOnlyGlobal: no function other than the package initialiser stores to g or takes its address for anything but a load
func (p *relProver) initOnlyGlobal(g *ssa.Global) bool {
	if p.initOnly == nil {
		p.initOnly = map[*ssa.Global]bool{}
	}
	if v, ok := p.initOnly[g]; ok {
		return v
	}
	ok := true
	for _, f := range p.e.c.P.ModuleFuncs() {
		if f.Pkg != g.Pkg {
			continue
		}
		isInit := f.Name() == "init" || strings.HasPrefix(f.Name(), "init#")
		allInstrs(f, func(in ssa.Instruction) {
			for _, op := range in.Operands(nil) {
				if op == nil || *op != ssa.Value(g) {
					continue
				}
				switch t := in.(type) {
				case *ssa.UnOp:
					if t.Op != token.MUL {
						ok = false
					}
				case *ssa.Store:
					if !(isInit && t.Addr == ssa.Value(g)) {
						ok = false
					}
				case *ssa.DebugRef:
				default:
					ok = false
				}
			}
		})
	}
	if g.Pkg != nil {
		if init := g.Pkg.Func("init"); init != nil && init.Blocks != nil {
			_ = init
		}
	}
	p.initOnly[g] = ok
	return ok
}

// D13 — search contract of package slices: slices.Index / IndexFunc / BinarySearch-free forms return -1 or an index of
// the slice they searched. x[i] with i the result of such a search of x and i >= 0 on every path is in range.
func (p *relProver) proveSearchIndex(in ssa.Instruction, x, idx ssa.Value) (string, bool) {
	cl, ok := idx.(*ssa.Call)
	if !ok || cl.Call.StaticCallee() == nil || cl.Call.StaticCallee().Origin() == nil || len(cl.Call.Args) < 1 {
		return "", false
	}
	switch funcKey(cl.Call.StaticCallee().Origin()) {
	case "slices.Index", "slices.IndexFunc":
	default:
		return "", false
	}
	if !p.sameSlice(cl.Call.Args[0], x) && !p.same(cl.Call.Args[0], x) {
		return "", false
	}
	facts := p.factsAt(in.Block())
	if p.lower(idx, facts, 0) < 0 {
		return "", false
	}
	return "D13 search contract: the index is the non-negative result of slices.Index/IndexFunc over the same slice", true
}

// D14 — comparator contract of package sort: sort.Slice(s, less) / sort.SliceStable call less(i, j) only with
// 0 <= i, j < len(s). Inside the closure passed as less, s2[p] with p one of the closure's two parameters and s2 the
// captured variable that the sort call's first argument was loaded from (a cell with a single store) is in range.
func (p *relProver) proveSortLess(in ssa.Instruction, x, idx ssa.Value) (string, bool) {
	g := in.Parent()
	prm, ok := idx.(*ssa.Parameter)
	if !ok || g.Parent() == nil || prm.Parent() != g || len(g.Params) != 2 {
		return "", false
	}
	ld, ok := x.(*ssa.UnOp)
	if !ok || ld.Op != token.MUL {
		return "", false
	}
	fv, ok := ld.X.(*ssa.FreeVar)
	if !ok {
		return "", false
	}
	// the captured cell is not written inside the closure
	for _, ref := range *fv.Referrers() {
		if st, isSt := ref.(*ssa.Store); isSt && st.Addr == ssa.Value(fv) {
			return "", false
		}
	}
	fvIdx := -1
	for i, f := range g.FreeVars {
		if f == fv {
			fvIdx = i
		}
	}
	var mk *ssa.MakeClosure
	n := 0
	allInstrs(g.Parent(), func(i2 ssa.Instruction) {
		if m, ok := i2.(*ssa.MakeClosure); ok && m.Fn == ssa.Value(g) {
			mk = m
			n++
		}
	})
	if n != 1 || fvIdx < 0 {
		return "", false
	}
	cell, ok := mk.Bindings[fvIdx].(*ssa.Alloc)
	if !ok {
		return "", false
	}
	stores := 0
	for _, ref := range *cell.Referrers() {
		if st, isSt := ref.(*ssa.Store); isSt && st.Addr == ssa.Value(cell) {
			stores++
		}
	}
	if stores != 1 {
		return "", false
	}
	for _, ref := range *mk.Referrers() {
		cl, ok := ref.(*ssa.Call)
		if !ok || cl.Call.StaticCallee() == nil || len(cl.Call.Args) != 2 || cl.Call.Args[1] != ssa.Value(mk) {
			continue
		}
		if k := funcKey(cl.Call.StaticCallee()); k != "sort.Slice" && k != "sort.SliceStable" {
			continue
		}
		s := cl.Call.Args[0]
		if mi, ok := s.(*ssa.MakeInterface); ok {
			s = mi.X
		}
		if sl, ok := s.(*ssa.UnOp); ok && sl.Op == token.MUL && sl.X == ssa.Value(cell) {
			return "D14 sort contract: less(i, j) is called with 0 <= i, j < len(s) for the slice handed to sort.Slice, which is the captured one", true
		}
	}
	return "", false
}

// D15 — strings.Split contract: strings.Split(s, sep) with a non-empty constant sep returns 1 + strings.Count(s, sep)
// elements, i.e. at least one; and at least 1 + Count(P, sep) when a dominating guard says strings.HasPrefix(s, P) for a
// constant P. x[k] with x that result and k a constant below the bound is in range.
func (p *relProver) proveSplitIndex(in ssa.Instruction, x, idx ssa.Value) (string, bool) {
	k, ok := intConst(idx)
	if !ok || k < 0 {
		return "", false
	}
	cl, ok := x.(*ssa.Call)
	if !ok || cl.Call.StaticCallee() == nil || funcKey(cl.Call.StaticCallee()) != "strings.Split" || len(cl.Call.Args) != 2 {
		return "", false
	}
	sepC, ok := cl.Call.Args[1].(*ssa.Const)
	if !ok || sepC.Value == nil || sepC.Value.Kind() != constant.String {
		return "", false
	}
	sep := constant.StringVal(sepC.Value)
	if sep == "" {
		return "", false
	}
	bound := int64(1)
	why := "at least one element"
	for _, f := range p.e.gc.of(in.Block()) {
		hc, ok := f.cond.(*ssa.Call)
		if !ok || !f.pol || hc.Call.StaticCallee() == nil || funcKey(hc.Call.StaticCallee()) != "strings.HasPrefix" || len(hc.Call.Args) != 2 {
			continue
		}
		if !p.same(hc.Call.Args[0], cl.Call.Args[0]) {
			continue
		}
		pc, ok := hc.Call.Args[1].(*ssa.Const)
		if !ok || pc.Value == nil || pc.Value.Kind() != constant.String {
			continue
		}
		if n := int64(1 + strings.Count(constant.StringVal(pc.Value), sep)); n > bound {
			bound = n
			why = fmt.Sprintf("the string has the prefix %q, which contains the separator %d time(s)", constant.StringVal(pc.Value), n-1)
		}
	}
	if k < bound {
		return fmt.Sprintf("D15 strings.Split contract: %s, so the result has at least %d element(s)", why, bound), true
	}
	return "", false
}
