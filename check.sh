#!/bin/sh
# usage: check.sh <Cxx> <quick|thorough> [extra args]
# Builds the analyser if needed and runs one property check against /repo's
# current working tree. Exit 0 = held, 1 = VIOLATION/UNDECIDED printed.
set -u
cd "$(dirname "$0")" || exit 2
export GOFLAGS=-mod=mod GOPROXY=off GOSUMDB=off GOTOOLCHAIN=local GOWORK=off
if [ ! -x bin/dhcpverif ] || [ -n "$(find checker -newer bin/dhcpverif -name '*.go' 2>/dev/null | head -1)" ]; then
  mkdir -p bin
  (cd checker && go build -o ../bin/dhcpverif .) || { echo "ERROR: cannot build analyser"; exit 2; }
fi
id="$1"; tier="${2:-quick}"; shift; shift 2>/dev/null || true
bin/dhcpverif check "$id" --tier "$tier" --repo "${VERIF_REPO:-/repo}" --verif "$(pwd)" "$@"
rc=$?
# Undecided fails: an analyser that terminates abnormally (a fatal runtime error cannot be recovered inside the
# process) has decided nothing, which is reported as a violation of the property being checked.
if [ "$rc" -ne 0 ] && [ "$rc" -ne 1 ]; then
  mkdir -p evidence/replay
  rp="$(pwd)/evidence/replay/$id-analyser-terminated.json"
  printf '{"property":"%s","obligation":{"rule":"%s-analyser","key":"analyser terminated abnormally (exit %s): nothing was decided"}}\n' "$id" "$id" "$rc" > "$rp"
  echo "VIOLATION property=$id replay=$rp"
  echo "    UNDECIDED rule=$id-analyser: the analyser terminated abnormally (exit $rc) on this tree; no obligation was decided"
  exit 1
fi
exit "$rc"
