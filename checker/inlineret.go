package main

// Second strategy of the normalisation pre-pass (inlinenew.go): helpers the source inliner of x/tools refuses.
//
// The x/tools inliner replaces a call by the callee's body only when the body can become statements or an expression
// of the caller; a helper with several returns, a loop or a select — `awaitMatch`, `readMessage`, `newDUID`,
// `sendAndReadOnce` — can only be turned into a function literal called in place, which merges nothing. The commonest
// medium-sized refactoring ("move this loop into a method") produces exactly such helpers. For them the call statement
//
//	x, err = c.helper(a, b)
//
// is rewritten to
//
//	var inl1_a0 *Client = c; var inl1_a1 A = a; var inl1_a2 B = b      // arguments, evaluated once, in order
//	var inl1_r0 X; var inl1_r1 error                                   // results
//	{
//		c := inl1_a0; p := inl1_a1; q := inl1_a2                       // the helper's own names
//	inl1:
//		for {
//			… body of helper, every `return u, v` replaced by `{ inl1_r0, inl1_r1 = u, v; break inl1 }` …
//			break inl1
//		}
//	}
//	x, err = inl1_r0, inl1_r1
//
// which behaves like the call: arguments are evaluated once and in order, the body runs with its own names in its own
// scope, a return leaves the body with the results set. It is refused whenever that is not certain: a callee with
// defer statements unless the call statement is itself a return or is directly followed by one (then "when the helper
// returns" and "when the caller returns" are the same moment), recover, goto, variadic parameters, recursion, promoted
// methods, an identifier of the callee that means something else at the call site, or a call that is not the whole
// right-hand side of an assignment, an expression statement, the operand of a return, or the (possibly negated)
// condition / the init statement of an if. If the rewritten tree does not type-check the edit is taken back.

import (
	"bytes"
	"fmt"
	"go/ast"
	"go/token"
	"go/types"
	"sort"
	"strings"

	"golang.org/x/tools/go/ast/astutil"
	"golang.org/x/tools/go/packages"
)

func srcOf(fset *token.FileSet, content []byte, n ast.Node) string {
	return string(content[fset.Position(n.Pos()).Offset:fset.Position(n.End()).Offset])
}

// inlineWithReturns: the new content of the caller's file, or an error saying why the call stays a call
func inlineWithReturns(pk *packages.Package, f *ast.File, content []byte, call *ast.CallExpr, callee *ast.FuncDecl, calleeFile *ast.File, calleeContent []byte, seq int) ([]byte, error) {
	fset := pk.Fset
	info := pk.TypesInfo
	fnObj, _ := info.Defs[callee.Name].(*types.Func)
	if fnObj == nil {
		return nil, fmt.Errorf("callee object not found")
	}
	sig := fnObj.Type().(*types.Signature)
	if sig.Variadic() {
		return nil, fmt.Errorf("variadic callee")
	}
	if sig.TypeParams() != nil || sig.RecvTypeParams() != nil {
		return nil, fmt.Errorf("generic callee")
	}
	// --- the statement that holds the call
	path, _ := astutil.PathEnclosingInterval(f, call.Pos(), call.End())
	var stmt ast.Stmt
	var encl *ast.FuncDecl
	for i, n := range path {
		if fd, ok := n.(*ast.FuncDecl); ok {
			encl = fd
		}
		if stmt != nil {
			continue
		}
		s, ok := n.(ast.Stmt)
		if !ok || i+1 >= len(path) {
			continue
		}
		switch path[i+1].(type) {
		case *ast.BlockStmt, *ast.CaseClause, *ast.CommClause:
			if _, isBlock := s.(*ast.BlockStmt); !isBlock {
				stmt = s
			}
		}
	}
	if stmt == nil || encl == nil {
		return nil, fmt.Errorf("call is not inside a statement list")
	}
	if cc, isComm := stmt.(*ast.CommClause); isComm {
		_ = cc
		return nil, fmt.Errorf("call in a select communication")
	}
	for _, n := range path {
		if n == ast.Node(stmt) {
			break
		}
		if _, isLit := n.(*ast.FuncLit); isLit {
			return nil, fmt.Errorf("call inside a function literal nested in the statement")
		}
	}
	nres := sig.Results().Len()
	isCallOrNot := func(e ast.Expr) bool {
		e = ast.Unparen(e)
		if u, ok := e.(*ast.UnaryExpr); ok && u.Op == token.NOT {
			e = ast.Unparen(u.X)
		}
		return e == ast.Expr(call)
	}
	form := ""
	switch s := stmt.(type) {
	case *ast.ExprStmt:
		if ast.Unparen(s.X) == ast.Expr(call) {
			form = "expr"
		}
	case *ast.AssignStmt:
		if len(s.Rhs) == 1 && ast.Unparen(s.Rhs[0]) == ast.Expr(call) && (s.Tok == token.ASSIGN || s.Tok == token.DEFINE) && len(s.Lhs) == nres {
			form = "assign"
			for _, l := range s.Lhs {
				if hasCall(l) {
					form = ""
				}
			}
		}
	case *ast.ReturnStmt:
		if len(s.Results) == 1 && ast.Unparen(s.Results[0]) == ast.Expr(call) {
			form = "return"
		}
	case *ast.IfStmt:
		switch {
		case s.Init == nil && nres == 1 && isCallOrNot(s.Cond):
			form = "ifcond"
		case s.Init != nil:
			if as, ok := s.Init.(*ast.AssignStmt); ok && len(as.Rhs) == 1 && ast.Unparen(as.Rhs[0]) == ast.Expr(call) && len(as.Lhs) == nres {
				form = "ifinit"
			}
		}
	}
	if form == "" {
		return nil, fmt.Errorf("call position not supported (not a whole statement, right-hand side, return operand or if condition/init)")
	}
	// --- the callee's body
	hasDefer, bad := false, ""
	var returns []*ast.ReturnStmt
	ast.Inspect(callee.Body, func(n ast.Node) bool {
		switch x := n.(type) {
		case *ast.FuncLit:
			return false
		case *ast.DeferStmt:
			hasDefer = true
		case *ast.BranchStmt:
			if x.Tok == token.GOTO {
				bad = "goto in the callee"
			}
		case *ast.ReturnStmt:
			returns = append(returns, x)
		case *ast.CallExpr:
			if id, ok := x.Fun.(*ast.Ident); ok && id.Name == "recover" {
				bad = "recover in the callee"
			}
			if o := calleeOf(info, x); o != nil && o == types.Object(fnObj) {
				bad = "recursive callee"
			}
		case *ast.LabeledStmt:
			bad = "labels in the callee"
		}
		return true
	})
	if bad != "" {
		return nil, fmt.Errorf("%s", bad)
	}
	// defer statements at the top level of the callee's body whose call is a plain `f()` / `x.m()` / `x.y.m()` on names
	// the body never assigns again: they are turned into explicit calls in front of every exit they cover (an exit covers
	// the defers that precede, at the top level, the statement it sits in), in reverse order — what the deferred calls
	// do when the helper returns. Any other defer keeps the stricter rule below.
	type topDefer struct {
		idx  int
		stmt *ast.DeferStmt
		text string
	}
	var topDefers []topDefer
	convertDefers := hasDefer
	if hasDefer {
		nTop := 0
		for i, st := range callee.Body.List {
			ds, ok := st.(*ast.DeferStmt)
			if !ok {
				continue
			}
			nTop++
			if len(ds.Call.Args) != 0 || !plainCallee(ds.Call.Fun) {
				convertDefers = false
				break
			}
			root := rootIdent(ds.Call.Fun)
			if root == nil || assignedIn(info, callee.Body, root, ds.Pos()) {
				convertDefers = false
				break
			}
			topDefers = append(topDefers, topDefer{i, ds, srcOf(fset, calleeContent, ds.Call)})
		}
		nAll := 0
		ast.Inspect(callee.Body, func(n ast.Node) bool {
			if _, isLit := n.(*ast.FuncLit); isLit {
				return false
			}
			if _, ok := n.(*ast.DeferStmt); ok {
				nAll++
			}
			return true
		})
		if nAll != nTop {
			convertDefers = false
		}
	}
	// the defers stay defers when the helper's return and the caller's are the same moment (the call statement is a
	// return, or is directly followed by one, outside any loop of the caller); they are converted only where that rule
	// would refuse — and never when one of them releases a mutex: a helper that holds a lock for its whole body is a
	// critical section, which the lock rules judge as a unit (check-and-register helpers)
	if convertDefers {
		tail := form == "return"
		if !tail {
			if list := stmtListOf(path, stmt); list != nil {
				for i, s := range list {
					if s == stmt && i+1 < len(list) {
						if _, isRet := list[i+1].(*ast.ReturnStmt); isRet {
							tail = true
						}
					}
				}
			}
		}
		for _, n := range path {
			if _, isFn := n.(*ast.FuncLit); isFn {
				break
			}
			switch n.(type) {
			case *ast.ForStmt, *ast.RangeStmt:
				tail = false
			}
		}
		if tail {
			convertDefers = false
		}
		for _, td := range topDefers {
			if sel, ok := ast.Unparen(td.stmt.Call.Fun).(*ast.SelectorExpr); ok {
				if fn, ok := info.Uses[sel.Sel].(*types.Func); ok && fn.Pkg() != nil && fn.Pkg().Path() == "sync" && (fn.Name() == "Unlock" || fn.Name() == "RUnlock") {
					convertDefers = false
				}
			}
		}
	}
	if convertDefers {
		hasDefer = false
	}
	if hasDefer && form != "return" {
		// only when the caller returns right after the call statement
		ok := false
		if list := stmtListOf(path, stmt); list != nil {
			for i, s := range list {
				if s == stmt && i+1 < len(list) {
					if _, isRet := list[i+1].(*ast.ReturnStmt); isRet {
						ok = true
					}
				}
			}
		}
		if !ok {
			return nil, fmt.Errorf("callee defers and the caller goes on after the call")
		}
	}
	if hasDefer {
		// … and the call statement is not on a cycle of the caller (a deferred call per iteration would pile up)
		for _, n := range path {
			switch n.(type) {
			case *ast.ForStmt, *ast.RangeStmt:
				return nil, fmt.Errorf("callee defers and the call sits in a loop of the caller")
			}
			if _, isFn := n.(*ast.FuncLit); isFn {
				break
			}
		}
	}
	// --- identifiers of the callee that mean something else at the call site; imports the caller's file lacks
	scope := pk.Types.Scope().Innermost(stmt.Pos())
	if scope == nil {
		return nil, fmt.Errorf("no scope at the call site")
	}
	callerImports := map[string]string{} // name → path
	for _, is := range f.Imports {
		p := strings.Trim(is.Path.Value, `"`)
		name := ""
		if is.Name != nil {
			name = is.Name.Name
		} else if o, ok := info.Implicits[is].(*types.PkgName); ok {
			name = o.Name()
		}
		callerImports[name] = p
	}
	needImport := map[string]string{}
	var capErr error
	checkIdent := func(id *ast.Ident) {
		o := info.Uses[id]
		if o == nil || capErr != nil {
			return
		}
		switch ob := o.(type) {
		case *types.PkgName:
			p := ob.Imported().Path()
			if have, ok := callerImports[ob.Name()]; ok {
				if have != p {
					capErr = fmt.Errorf("import name %s means another package in the caller's file", ob.Name())
				}
			} else {
				if _, shadow := scope.LookupParent(ob.Name(), stmt.Pos()); shadow != nil {
					capErr = fmt.Errorf("import name %s is shadowed at the call site", ob.Name())
				}
				needImport[ob.Name()] = p
			}
			if _, shadow := scope.LookupParent(ob.Name(), stmt.Pos()); shadow != nil {
				if _, isPkg := shadow.(*types.PkgName); !isPkg {
					capErr = fmt.Errorf("import name %s is shadowed at the call site", ob.Name())
				}
			}
		default:
			par := o.Parent()
			if par == pk.Types.Scope() || par == types.Universe {
				if _, here := scope.LookupParent(o.Name(), stmt.Pos()); here != o {
					capErr = fmt.Errorf("identifier %s of the callee means something else at the call site", o.Name())
				}
			}
		}
	}
	ast.Inspect(callee.Type, func(n ast.Node) bool {
		if id, ok := n.(*ast.Ident); ok {
			checkIdent(id)
		}
		return true
	})
	if callee.Recv != nil {
		ast.Inspect(callee.Recv, func(n ast.Node) bool {
			if id, ok := n.(*ast.Ident); ok {
				checkIdent(id)
			}
			return true
		})
	}
	ast.Inspect(callee.Body, func(n ast.Node) bool {
		if id, ok := n.(*ast.Ident); ok {
			checkIdent(id)
		}
		return true
	})
	if capErr != nil {
		return nil, capErr
	}
	// --- parameters and arguments
	type bind struct{ name, typ, arg string }
	var binds []bind
	pre := fmt.Sprintf("inl%d_", seq)
	if callee.Recv != nil && len(callee.Recv.List) == 1 {
		sel, ok := ast.Unparen(call.Fun).(*ast.SelectorExpr)
		if !ok {
			return nil, fmt.Errorf("method called through a value")
		}
		if s := info.Selections[sel]; s == nil || len(s.Index()) != 1 || s.Kind() != types.MethodVal {
			return nil, fmt.Errorf("promoted or indirect method selection")
		}
		rf := callee.Recv.List[0]
		name := "_"
		if len(rf.Names) == 1 {
			name = rf.Names[0].Name
		}
		argText := srcOf(fset, content, sel.X)
		_, paramPtr := sig.Recv().Type().(*types.Pointer)
		_, argPtr := info.TypeOf(sel.X).Underlying().(*types.Pointer)
		switch {
		case paramPtr && !argPtr:
			argText = "&(" + argText + ")"
		case !paramPtr && argPtr:
			argText = "*(" + argText + ")"
		}
		binds = append(binds, bind{name, srcOf(fset, calleeContent, rf.Type), argText})
	} else if callee.Recv != nil {
		return nil, fmt.Errorf("receiver list")
	}
	ai := 0
	for _, pf := range callee.Type.Params.List {
		names := pf.Names
		if len(names) == 0 {
			names = []*ast.Ident{ast.NewIdent("_")}
		}
		for _, nm := range names {
			if ai >= len(call.Args) {
				return nil, fmt.Errorf("argument count")
			}
			binds = append(binds, bind{nm.Name, srcOf(fset, calleeContent, pf.Type), srcOf(fset, content, call.Args[ai])})
			ai++
		}
	}
	if ai != len(call.Args) {
		return nil, fmt.Errorf("argument count (a multi-value call as the argument list)")
	}
	// results
	type res struct{ name, typ string }
	var ress []res
	if callee.Type.Results != nil {
		for _, rf := range callee.Type.Results.List {
			t := srcOf(fset, calleeContent, rf.Type)
			if len(rf.Names) == 0 {
				ress = append(ress, res{"", t})
			}
			for _, nm := range rf.Names {
				ress = append(ress, res{nm.Name, t})
			}
		}
	}
	if len(ress) != nres {
		return nil, fmt.Errorf("result count")
	}
	var rnames []string
	for i := range ress {
		rnames = append(rnames, fmt.Sprintf("%sr%d", pre, i))
	}
	// --- the body with its returns rewritten (from the last to the first, by offset)
	bodyStart := fset.Position(callee.Body.Lbrace).Offset + 1
	bodyEnd := fset.Position(callee.Body.Rbrace).Offset
	body := append([]byte(nil), calleeContent[bodyStart:bodyEnd]...)
	// the explicit calls that stand for the converted defers at an exit inside the top-level statement `topIdx`
	deferCalls := func(topIdx int) string {
		var b strings.Builder
		for i := len(topDefers) - 1; i >= 0; i-- {
			if topDefers[i].idx < topIdx {
				b.WriteString(topDefers[i].text + "; ")
			}
		}
		return b.String()
	}
	topIndexOf := func(pos token.Pos) int {
		for i, st := range callee.Body.List {
			if st.Pos() <= pos && pos < st.End() {
				return i
			}
		}
		return len(callee.Body.List)
	}
	type edit struct {
		s, e int
		repl string
	}
	var edits []edit
	if convertDefers {
		for _, td := range topDefers {
			edits = append(edits, edit{fset.Position(td.stmt.Pos()).Offset - bodyStart, fset.Position(td.stmt.End()).Offset - bodyStart, "{}"})
		}
	}
	sort.Slice(returns, func(i, j int) bool { return returns[i].Pos() > returns[j].Pos() })
	for _, rt := range returns {
		s, e := fset.Position(rt.Pos()).Offset-bodyStart, fset.Position(rt.End()).Offset-bodyStart
		dc := ""
		if convertDefers {
			dc = deferCalls(topIndexOf(rt.Pos()))
		}
		var repl string
		switch {
		case nres == 0:
			repl = fmt.Sprintf("{ %sbreak %send }", dc, pre)
		case len(rt.Results) == 0:
			// bare return of named results
			var ns []string
			for _, r := range ress {
				if r.name == "" || r.name == "_" {
					return nil, fmt.Errorf("bare return with unnamed results")
				}
				ns = append(ns, r.name)
			}
			repl = fmt.Sprintf("{ %s = %s; %sbreak %send }", strings.Join(rnames, ", "), strings.Join(ns, ", "), dc, pre)
		default:
			var es []string
			for _, x := range rt.Results {
				es = append(es, srcOf(fset, calleeContent, x))
			}
			repl = fmt.Sprintf("{ %s = %s; %sbreak %send }", strings.Join(rnames, ", "), strings.Join(es, ", "), dc, pre)
		}
		edits = append(edits, edit{s, e, repl})
	}
	sort.Slice(edits, func(i, j int) bool { return edits[i].s > edits[j].s })
	for _, ed := range edits {
		body = append(body[:ed.s:ed.s], append([]byte(ed.repl), body[ed.e:]...)...)
	}
	fallOff := ""
	if convertDefers {
		fallOff = deferCalls(len(callee.Body.List))
	}
	// --- assemble
	var b bytes.Buffer
	for i, bd := range binds {
		fmt.Fprintf(&b, "var %sa%d %s = %s\n", pre, i, bd.typ, bd.arg)
	}
	for i, r := range ress {
		fmt.Fprintf(&b, "var %s %s\n", rnames[i], r.typ)
	}
	b.WriteString("{\n")
	for i, bd := range binds {
		if bd.name == "_" || bd.name == "" {
			fmt.Fprintf(&b, "_ = %sa%d\n", pre, i)
			continue
		}
		fmt.Fprintf(&b, "%s := %sa%d\n_ = %s\n", bd.name, pre, i, bd.name)
	}
	for _, r := range ress {
		if r.name != "" && r.name != "_" {
			fmt.Fprintf(&b, "var %s %s\n_ = %s\n", r.name, r.typ, r.name)
		}
	}
	fmt.Fprintf(&b, "%send:\nfor {\n", pre)
	b.Write(body)
	fmt.Fprintf(&b, "\n%sbreak %send\n}\n}\n", fallOff, pre)
	for _, rn := range rnames {
		fmt.Fprintf(&b, "_ = %s\n", rn)
	}
	// the statement itself, with the call replaced by the results
	stmtStart, stmtEnd := fset.Position(stmt.Pos()).Offset, fset.Position(stmt.End()).Offset
	callStart, callEnd := fset.Position(call.Pos()).Offset, fset.Position(call.End()).Offset
	switch form {
	case "expr":
	default:
		b.Write(content[stmtStart:callStart])
		b.WriteString(strings.Join(rnames, ", "))
		b.Write(content[callEnd:stmtEnd])
		b.WriteString("\n")
	}
	var out bytes.Buffer
	out.Write(content[:stmtStart])
	out.Write(b.Bytes())
	out.Write(content[stmtEnd:])
	res2 := out.Bytes()
	// imports the caller's file lacks
	if len(needImport) > 0 {
		var names []string
		for n := range needImport {
			names = append(names, n)
		}
		sort.Strings(names)
		var imp bytes.Buffer
		for _, n := range names {
			fmt.Fprintf(&imp, "\nimport %s %q\n", n, needImport[n])
		}
		at := fset.Position(f.Name.End()).Offset
		res2 = append(append(append([]byte(nil), res2[:at]...), imp.Bytes()...), res2[at:]...)
	}
	return res2, nil
}

func hasCall(e ast.Expr) bool {
	found := false
	ast.Inspect(e, func(n ast.Node) bool {
		if _, ok := n.(*ast.CallExpr); ok {
			found = true
		}
		return !found
	})
	return found
}

func calleeOf(info *types.Info, call *ast.CallExpr) types.Object {
	switch fn := ast.Unparen(call.Fun).(type) {
	case *ast.Ident:
		return info.Uses[fn]
	case *ast.SelectorExpr:
		return info.Uses[fn.Sel]
	}
	return nil
}

// stmtListOf: the statement list (of a block or a case clause) that holds stmt
func stmtListOf(path []ast.Node, stmt ast.Stmt) []ast.Stmt {
	for i, n := range path {
		if n == ast.Node(stmt) && i+1 < len(path) {
			switch p := path[i+1].(type) {
			case *ast.BlockStmt:
				return p.List
			case *ast.CaseClause:
				return p.Body
			case *ast.CommClause:
				return p.Body
			}
		}
	}
	return nil
}

// plainCallee: f, x.m, x.y.m — identifiers and field/method selections only
func plainCallee(e ast.Expr) bool {
	switch x := ast.Unparen(e).(type) {
	case *ast.Ident:
		return true
	case *ast.SelectorExpr:
		return plainCallee(x.X)
	}
	return false
}

func rootIdent(e ast.Expr) *ast.Ident {
	for {
		switch x := ast.Unparen(e).(type) {
		case *ast.Ident:
			return x
		case *ast.SelectorExpr:
			e = x.X
		default:
			return nil
		}
	}
}

// assignedIn: the variable `root` denotes is assigned (or its address taken) somewhere in body after position `after`
func assignedIn(info *types.Info, body *ast.BlockStmt, root *ast.Ident, after token.Pos) bool {
	obj := info.Uses[root]
	if obj == nil {
		return true
	}
	if _, isVar := obj.(*types.Var); !isVar {
		return false // a function or package name
	}
	found := false
	ast.Inspect(body, func(n ast.Node) bool {
		switch x := n.(type) {
		case *ast.AssignStmt:
			if x.Pos() > after {
				for _, l := range x.Lhs {
					if id, ok := ast.Unparen(l).(*ast.Ident); ok && (info.Uses[id] == obj || info.Defs[id] == obj) {
						found = true
					}
				}
			}
		case *ast.UnaryExpr:
			if x.Op == token.AND {
				if id, ok := ast.Unparen(x.X).(*ast.Ident); ok && info.Uses[id] == obj {
					found = true
				}
			}
		case *ast.IncDecStmt:
			if id, ok := ast.Unparen(x.X).(*ast.Ident); ok && info.Uses[id] == obj && x.Pos() > after {
				found = true
			}
		}
		return !found
	})
	return found
}
