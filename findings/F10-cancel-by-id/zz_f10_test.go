package nclient4

import (
	"context"
	"net"
	"sync"
	"testing"
	"time"

	"github.com/insomniacslk/dhcp/dhcpv4"
)

type fakeConn struct {
	in     chan []byte
	closed chan struct{}
	once   sync.Once
}

func (f *fakeConn) ReadFrom(b []byte) (int, net.Addr, error) {
	select {
	case p := <-f.in:
		return copy(b, p), &net.UDPAddr{IP: net.IPv4(10, 0, 0, 1), Port: 67}, nil
	case <-f.closed:
		return 0, nil, net.ErrClosed
	}
}
func (f *fakeConn) WriteTo(b []byte, a net.Addr) (int, error) { return len(b), nil }
func (f *fakeConn) Close() error                              { f.once.Do(func() { close(f.closed) }); return nil }
func (f *fakeConn) LocalAddr() net.Addr                       { return &net.UDPAddr{} }
func (f *fakeConn) SetDeadline(time.Time) error               { return nil }
func (f *fakeConn) SetReadDeadline(time.Time) error           { return nil }
func (f *fakeConn) SetWriteDeadline(time.Time) error          { return nil }

// A call that has finished must not disturb a later call that legitimately reuses its transaction id.
func TestF10LateCancelKillsNewTransaction(t *testing.T) {
	mac := net.HardwareAddr{1, 2, 3, 4, 5, 6}
	xid := dhcpv4.TransactionID{9, 9, 9, 9}
	hits := 0
	for trial := 0; trial < 400 && hits == 0; trial++ {
		fc := &fakeConn{in: make(chan []byte, 64), closed: make(chan struct{})}
		c, err := NewWithConn(fc, mac, WithTimeout(5*time.Second), WithRetry(1))
		if err != nil {
			t.Fatal(err)
		}
		c.bufferCap = 1
		req, _ := dhcpv4.New(dhcpv4.WithTransactionID(xid), dhcpv4.WithHwAddr(mac))
		rep, _ := dhcpv4.New(dhcpv4.WithTransactionID(xid), dhcpv4.WithHwAddr(mac), dhcpv4.WithMessageType(dhcpv4.MessageTypeOffer))
		rep.OpCode = dhcpv4.OpcodeBootReply
		wire := rep.ToBytes()

		inMatcher := make(chan struct{}, 16)
		release := make(chan struct{})
		first := true
		ctxA, cancelA := context.WithCancel(context.Background())
		doneA := make(chan struct{})
		go func() {
			defer close(doneA)
			c.SendAndRead(ctxA, &net.UDPAddr{IP: net.IPv4bcast, Port: 67}, req, func(p *dhcpv4.DHCPv4) bool {
				if first {
					first = false
					inMatcher <- struct{}{}
					<-release
				}
				return false
			})
		}()
		time.Sleep(2 * time.Millisecond)
		fc.in <- wire // A takes it and blocks in its matcher
		<-inMatcher
		fc.in <- wire // fills A's buffer (cap 1)
		fc.in <- wire // the receive loop now blocks in its select, holding pendingMu
		time.Sleep(2 * time.Millisecond)

		type res struct {
			p   *dhcpv4.DHCPv4
			err error
		}
		resB := make(chan res, 1)
		ctxB, cancelB := context.WithTimeout(context.Background(), 200*time.Millisecond)
		go func() { // B: same transaction id, queues on pendingMu inside send
			p, err := c.SendAndRead(ctxB, &net.UDPAddr{IP: net.IPv4bcast, Port: 67}, req, nil)
			resB <- res{p, err}
		}()
		time.Sleep(2 * time.Millisecond)
		cancelA()
		close(release)
		<-doneA
		rb := <-resB
		cancelB()
		if rb.err == nil && rb.p == nil {
			hits++
			t.Logf("trial %d: the second call returned (nil, nil): its channel was closed by the first call's late cancel", trial)
		}
		c.Close()
	}
	if hits > 0 {
		t.Fatalf("a finished call's cancel removed and closed the entry of a later call with the same transaction id (%d hit)", hits)
	}
}
