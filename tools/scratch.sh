#!/bin/bash
# usage: tools/scratch.sh <name>  — makes /tmp/exp/<name>/{repo,verif} with the patch applied (development aid); prints the repo path
n=$1
if [ -f seeded/$n/patch.diff ]; then p=seeded/$n/patch.diff; elif [ -f refactors/$n/patch.diff ]; then p=refactors/$n/patch.diff; else p=mutants/$n.patch; fi
d=/tmp/exp/$n; rm -rf $d; mkdir -p $d/verif/spec
rsync -a --exclude .git /repo/ $d/repo/
cp spec/*.json $d/verif/spec/; cp known_findings.json $d/verif/
(cd $d/repo && patch -p1 -s < /verif/$p) && echo $d
