package main

import (
	"go/types"
	"strings"

	"golang.org/x/tools/go/ssa"
)

// decoderPostProcessing: once a decoder method has read from its input, what it decoded is not rewritten by a
// step that sees none of the input. Concretely: in every decoder method with a pointer receiver, a call that
// (a) is reachable from a Lexer read of the decoder, (b) receives the receiver, a field of it, or a value loaded
// from it, (c) receives nothing derived from the input, and (d) writes memory reachable from that argument
// (E3 mutation summary for module callees; table for the in-place helpers of sort and slices) is reported:
// it is a normalisation of decoded values (de-duplicating, sorting, trimming a decoded list), after which the
// fields no longer hold what the wire said and re-encoding is not what was decoded.
// Not reported: a reset of the receiver before the first read; nested decoders; helpers that store input data.
func decoderPostProcessing(c *Ctx, rule string) {
	r := c.R
	e := getE3(c)
	_, decs := codecFuncs(c.P)
	decSet := map[*ssa.Function]bool{}
	for _, f := range decs {
		decSet[f] = true
	}
	n := 0
	for _, f := range decs {
		if f.Signature.Recv() == nil || len(f.Params) == 0 || f.Blocks == nil {
			continue
		}
		if _, ok := f.Params[0].Type().Underlying().(*types.Pointer); !ok {
			continue
		}
		n++
		recv := f.Params[0]
		// Lexer values of f: results of uio constructors and anything of Lexer type
		isLexV := func(v ssa.Value) bool {
			t := v.Type().String()
			return strings.Contains(t, "uio.Lexer") || strings.Contains(t, "uio.Buffer")
		}
		type site struct {
			b *ssa.BasicBlock
			i int
		}
		var reads []site
		for _, b := range f.Blocks {
			for i, in := range b.Instrs {
				cl, ok := in.(*ssa.Call)
				if !ok {
					continue
				}
				sf := cl.Call.StaticCallee()
				if sf == nil {
					continue
				}
				hasLex := false
				for _, a := range cl.Call.Args {
					if isLexV(a) {
						hasLex = true
					}
				}
				if !hasLex {
					continue
				}
				if inUio(sf) {
					switch sf.Name() {
					case "Read8", "Read16", "Read32", "Read64", "Consume", "CopyN", "ReadAll", "ReadBytes", "Data":
						reads = append(reads, site{b, i})
					}
				} else {
					reads = append(reads, site{b, i})
				}
			}
		}
		if len(reads) == 0 {
			continue
		}
		afterRead := func(b *ssa.BasicBlock, i int) bool {
			for _, s := range reads {
				if s.b == b && s.i < i {
					return true
				}
				if s.b != b && reachFromSuccs(s.b, nil, nil)[b] {
					return true
				}
				if s.b == b && reachFromSuccs(s.b, nil, nil)[b] {
					return true // the read sits in a loop with the call
				}
			}
			return false
		}
		var fromRecv func(v ssa.Value, d int) bool
		fromRecv = func(v ssa.Value, d int) bool {
			if d > 12 {
				return false
			}
			switch x := v.(type) {
			case *ssa.Parameter:
				return x == recv
			case *ssa.FieldAddr:
				return fromRecv(x.X, d+1)
			case *ssa.IndexAddr:
				return fromRecv(x.X, d+1)
			case *ssa.UnOp:
				return fromRecv(x.X, d+1)
			case *ssa.Slice:
				return fromRecv(x.X, d+1)
			case *ssa.ChangeType:
				return fromRecv(x.X, d+1)
			case *ssa.Convert:
				return fromRecv(x.X, d+1)
			case *ssa.MakeInterface:
				return fromRecv(x.X, d+1)
			}
			return false
		}
		seenIn := map[ssa.Value]bool{}
		var fromInput func(v ssa.Value, d int) bool
		fromInput = func(v ssa.Value, d int) bool {
			if v == nil || d > 16 || seenIn[v] {
				return false
			}
			seenIn[v] = true
			defer delete(seenIn, v)
			switch x := v.(type) {
			case *ssa.Parameter:
				return x != recv
			case *ssa.Call:
				for _, a := range x.Call.Args {
					if isLexV(a) || fromInput(a, d+1) {
						return true
					}
				}
				if x.Call.IsInvoke() {
					return fromInput(x.Call.Value, d+1)
				}
				return false
			case *ssa.Alloc:
				for _, ref := range *x.Referrers() {
					if st, ok := ref.(*ssa.Store); ok && st.Addr == ssa.Value(x) && fromInput(st.Val, d+1) {
						return true
					}
					// the cell is filled by a callee that also gets the Lexer or other input (route.Unmarshal(buf))
					if cl, ok := ref.(*ssa.Call); ok {
						for _, a := range cl.Call.Args {
							if a != ssa.Value(x) && (isLexV(a) || fromInput(a, d+1)) {
								return true
							}
						}
					}
					// elements / fields of the cell (the array behind a variadic argument list, a composite literal)
					switch a := ref.(type) {
					case *ssa.IndexAddr, *ssa.FieldAddr:
						for _, r2 := range *a.(ssa.Value).Referrers() {
							if st, ok := r2.(*ssa.Store); ok && st.Addr == a.(ssa.Value) && fromInput(st.Val, d+1) {
								return true
							}
						}
					}
				}
				return false
			case *ssa.Const, *ssa.Global, *ssa.Function, *ssa.Builtin, *ssa.FreeVar:
				return false
			}
			if in, ok := v.(ssa.Instruction); ok {
				for _, op := range in.Operands(nil) {
					if *op != nil && fromInput(*op, d+1) {
						return true
					}
				}
			}
			return false
		}
		// the same step written in place (or inlined by the normalisation pre-pass): after the first read, a store into the
		// receiver of a value that is computed from the receiver's own content and from nothing of the input
		for _, b := range f.Blocks {
			for i, in := range b.Instrs {
				st, ok := in.(*ssa.Store)
				if !ok || !fromRecv(st.Addr, 0) || !afterRead(b, i) {
					continue
				}
				if _, isConst := st.Val.(*ssa.Const); isConst {
					continue
				}
				// the stored value: derived from a load of the receiver, and not from the input
				derivesRecv := false
				seenV := map[ssa.Value]bool{}
				var walk func(v ssa.Value, d int)
				walk = func(v ssa.Value, d int) {
					if v == nil || seenV[v] || d > 12 {
						return
					}
					seenV[v] = true
					if u, isLoad := v.(*ssa.UnOp); isLoad && fromRecv(u.X, 0) {
						derivesRecv = true
						return
					}
					if ins, isIn := v.(ssa.Instruction); isIn {
						for _, op := range ins.Operands(nil) {
							if *op != nil {
								walk(*op, d+1)
							}
						}
					}
				}
				walk(st.Val, 0)
				if !derivesRecv || fromInput(st.Val, 0) {
					continue
				}
				r.Violation(rule, shortName(f)+": decoded value rewritten in place after the input was read", c.P.ipos(st),
					"after reading, the decoder stores into its receiver a value computed from the receiver's own content and from nothing of the input ("+c.Sx().Of(st.Val).String()+"): the decoded value is normalised (de-duplicated, sorted, trimmed) after decoding — the fields no longer hold what the wire carried")
			}
		}
		for _, b := range f.Blocks {
			for i, in := range b.Instrs {
				cl, ok := in.(*ssa.Call)
				if !ok {
					continue
				}
				sf := cl.Call.StaticCallee()
				if sf == nil || decSet[sf] || inUio(sf) {
					continue
				}
				args := cl.Call.Args
				var recvArgs []int
				input := false
				for j, a := range args {
					if isLexV(a) {
						input = true
						continue
					}
					if fromRecv(a, 0) {
						recvArgs = append(recvArgs, j)
						continue
					}
					if fromInput(a, 0) {
						input = true
					}
				}
				if len(recvArgs) == 0 || input || !afterRead(b, i) {
					continue
				}
				key := shortName(f) + ": " + calleeName(cl.Common()) + " after the input was read"
				writes := ""
				switch {
				case inModule(sf) && sf.Blocks != nil:
					ps := map[int]bool{}
					for _, j := range recvArgs {
						ps[j] = true
					}
					for _, fd := range e.mutationFindings(sf, ps) {
						if strings.HasPrefix(fd.short, "UNDECIDED") {
							continue
						}
						writes = fd.short
						break
					}
				default:
					switch k := funcKey(originOf(sf)); {
					case strings.HasPrefix(k, "sort.") && (sf.Name() == "Slice" || sf.Name() == "SliceStable" || sf.Name() == "Sort" || sf.Name() == "Stable" || sf.Name() == "Strings" || sf.Name() == "Ints"):
						writes = "the elements (in-place sort)"
					case strings.HasPrefix(k, "slices.") && (strings.HasPrefix(originOf(sf).Name(), "Sort") || strings.HasPrefix(originOf(sf).Name(), "Compact") || originOf(sf).Name() == "Reverse"):
						writes = "the elements (in-place " + originOf(sf).Name() + ")"
					}
				}
				if writes == "" {
					r.OK(rule, key, c.P.ipos(cl), "callee writes nothing reachable from the decoded value (E3)", "")
					continue
				}
				r.Violation(rule, key, c.P.ipos(cl), "the decoder hands what it has decoded to "+calleeName(cl.Common())+", which sees none of the input and writes "+writes+
					": the decoded value is rewritten (normalised) after decoding — the fields no longer hold what the wire carried, and decode→encode→decode is not a fixpoint")
			}
		}
	}
	r.Expect(rule+"-decoders", 50)
	r.Count(rule+"-decoders", n)
}

// originOf: the generic function f instantiates, or f itself
func originOf(f *ssa.Function) *ssa.Function {
	if o := f.Origin(); o != nil {
		return o
	}
	return f
}
