// Copyright 2021 The Go Authors. All rights reserved.
// Use of this source code is governed by a BSD-style
// license that can be found in the LICENSE file.

// Package typeparams contains common utilities for writing tools that
// interact with generic Go code, as introduced with Go 1.18. It
// supplements the standard library APIs. Notably, the StructuralTerms
// API computes a minimal representation of the structural
// restrictions on a type parameter.
//
// An external version of these APIs is available in the
// golang.org/x/exp/typeparams module.
package typeparams

import (
	"go/ast"
	"go/token"
	"go/types"
)

// UnpackIndexExpr extracts data from AST nodes that represent index
// expressions.
//
// For an ast.IndexExpr, the resulting indices slice will contain exactly one
// index expression. For an ast.IndexListExpr (go1.18+), it may have a variable
// number of index expressions.
//
// For nodes that don't represent index expressions, the first return value of
// UnpackIndexExpr will be nil.
func UnpackIndexExpr(n ast.Node) (x ast.Expr, lbrack token.Pos, indices []ast.Expr, rbrack token.Pos) {
	switch e := n.(type) {
	case *ast.IndexExpr:
		return e.X, e.Lbrack, []ast.Expr{e.Index}, e.Rbrack
	case *ast.IndexListExpr:
		return e.X, e.Lbrack, e.Indices, e.Rbrack
	}
	return nil, token.NoPos, nil, token.NoPos
}

// PackIndexExpr returns an *ast.IndexExpr or *ast.IndexListExpr, depending on
// the cardinality of indices. Calling PackIndexExpr with len(indices) == 0
// will panic.
func PackIndexExpr(x ast.Expr, lbrack token.Pos, indices []ast.Expr, rbrack token.Pos) ast.Expr {
	switch len(indices) {
	case 0:
		panic("empty indices")
	case 1:
		return &ast.IndexExpr{
			X:      x,
			Lbrack: lbrack,
			Index:  indices[0],
			Rbrack: rbrack,
		}
	default:
		return &ast.IndexListExpr{
			X:       x,
			Lbrack:  lbrack,
			Indices: indices,
			Rbrack:  rbrack,
		}
	}
}

// IsTypeParam reports whether t is a type parameter (or an alias of one).
func IsTypeParam(t types.Type) bool {
	_, ok := types.Unalias(t).(*types.TypeParam)
	return ok
}
