package main

func c17Accessors(c *Ctx) {}
