package main

// E2 — wire-schema extraction: abstractly execute an encoder or decoder over the
// uio.Lexer ADT and produce its slot sequence (width, field, transform) with
// alternatives and loops (DESIGN §4 E2).

import (
	"fmt"
	"go/token"
	"go/types"
	"sort"
	"strings"

	"golang.org/x/tools/go/ssa"
)

type e2Node struct {
	kind string // slot | loop | alt | fail | ret
	w    string // slot width: 1 2 4 8 N<n> var(<ref>) rest
	f    string // field / source description
	x    string // transform class
	a, b []*e2Node
	pos  string
	note string
}

func e2Str(ns []*e2Node) string {
	var p []string
	for _, n := range ns {
		switch n.kind {
		case "slot":
			s := n.w
			if n.f != "" {
				s += ":" + n.f
			}
			if n.x != "" {
				s += "~" + n.x
			}
			p = append(p, s)
		case "loop":
			p = append(p, "{ "+e2Str(n.a)+" }*")
		case "alt":
			as, bs := e2Str(n.a), e2Str(n.b)
			if as == bs {
				if as != "" {
					p = append(p, as)
				}
			} else {
				p = append(p, "( "+as+" | "+bs+" )")
			}
		case "fail":
			p = append(p, "FAIL")
		case "ret":
			p = append(p, "RET("+n.note+")")
		}
	}
	return strings.Join(p, " ")
}

// e2Simplify: drop failing alternatives (decoder rejections), empty alts, merge identical alternatives
func e2Simplify(ns []*e2Node) []*e2Node {
	var out []*e2Node
	for _, n := range ns {
		switch n.kind {
		case "loop":
			n.a = e2Simplify(n.a)
			if e2Str(n.a) == "" {
				continue // a loop that neither reads nor writes (a size computation)
			}
			out = append(out, n)
		case "alt":
			n.a, n.b = e2Simplify(n.a), e2Simplify(n.b)
			// `if len(xs) == 0 { return <empty> }` in front of loops over xs: the loops emit nothing for an empty xs, so the
			// early return is the zero-iteration case of the other side
			if m := e2EmptyGuard(n); m != nil {
				out = append(out, m...)
				if e2Ends(m) {
					return out
				}
				continue
			}
			fa, fb := e2Fails(n.a), e2Fails(n.b)
			switch {
			case fa && fb:
				out = append(out, &e2Node{kind: "fail"})
				return out
			case fa:
				out = append(out, n.b...)
				if e2Ends(n.b) {
					return out
				}
			case fb:
				out = append(out, n.a...)
				if e2Ends(n.a) {
					return out
				}
			default:
				if e2Str(n.a) == e2Str(n.b) {
					out = append(out, n.a...)
					if e2Ends(n.a) {
						return out
					}
				} else if m := e2MergeAltC(n.a, n.b, n.note); m != nil {
					out = append(out, m...)
					if e2Ends(m) {
						return out
					}
				} else {
					out = append(out, n)
				}
			}
		case "fail":
			out = append(out, n)
			return out
		case "slot":
			// a byte-slice literal []byte{a, b, c} written at once is three one-byte slots
			if parts := literalParts(n); parts != nil {
				for _, p := range parts {
					out = append(out, &e2Node{kind: "slot", w: "1", f: p, pos: n.pos})
				}
				continue
			}
			out = append(out, n)
		default:
			out = append(out, n)
		}
	}
	return out
}

// literalParts: the element sources of a slot that came from a byte-slice literal of as many elements as its width
func literalParts(n *e2Node) []string {
	if n.x != "" {
		return nil
	}
	var k int
	if _, err := fmt.Sscanf(n.w, "%d", &k); err != nil || fmt.Sprint(k) != n.w || k < 2 || k > 16 {
		return nil
	}
	var parts []string
	rest := n.f
	for {
		i := splitTop(rest, ",")
		if i < 0 {
			parts = append(parts, rest)
			break
		}
		parts = append(parts, rest[:i])
		rest = rest[i+1:]
	}
	if len(parts) != k {
		return nil
	}
	for i, p := range parts {
		// element transforms were rendered as f~xf inside the list
		parts[i] = p
	}
	return parts
}

// e2Width: total constant width of a slot sequence, or -1
func e2Width(ns []*e2Node) int {
	t := 0
	for _, n := range ns {
		if n.kind == "ret" {
			continue
		}
		if n.kind != "slot" {
			return -1
		}
		var k int
		if _, err := fmt.Sscanf(n.w, "%d", &k); err != nil || fmt.Sprint(k) != n.w {
			return -1
		}
		t += k
	}
	return t
}

// e2MergeAlt: two alternatives that write the same constant number of bytes become one slot
// (zeros vs value: `if x != nil {write x} else {write zeros}`)
func e2MergeAlt(a, b []*e2Node) []*e2Node {
	// slot-wise merge when both sides have the same slot widths in the same order
	sa, sb := e2Slots(a), e2Slots(b)
	if sa != nil && sb != nil && len(sa) == len(sb) && len(sa) > 1 {
		same := true
		for i := range sa {
			if sa[i].w != sb[i].w {
				same = false
			}
		}
		if same {
			var out []*e2Node
			for i := range sa {
				m := e2MergeAlt([]*e2Node{sa[i]}, []*e2Node{sb[i]})
				if m == nil {
					if e2Str([]*e2Node{sa[i]}) == e2Str([]*e2Node{sb[i]}) {
						m = []*e2Node{sa[i]}
					} else {
						return nil
					}
				}
				out = append(out, m...)
			}
			if e2Ends(a) && e2Ends(b) {
				out = append(out, a[len(a)-1])
			}
			return out
		}
	}
	wa, wb := e2Width(a), e2Width(b)
	if wa < 0 || wa != wb || wa == 0 {
		return nil
	}
	// zeros written in several pieces (two 8-byte zero words for a missing 16-byte address) are one zero slot of the total width
	zeroFill := func(ss []*e2Node) bool {
		if len(ss) < 2 {
			return false
		}
		for _, n := range ss {
			if n.f != "const:0" || n.x != "" {
				return false
			}
		}
		return true
	}
	if len(sb) == 1 && zeroFill(sa) {
		sa = []*e2Node{{kind: "slot", w: fmt.Sprint(wa), f: "const:0"}}
		a = append(append([]*e2Node{}, sa...), a[len(e2Slots(a)):]...)
	}
	if len(sa) == 1 && zeroFill(sb) {
		sb = []*e2Node{{kind: "slot", w: fmt.Sprint(wb), f: "const:0"}}
		b = append(append([]*e2Node{}, sb...), b[len(e2Slots(b)):]...)
	}
	if len(sa) != 1 || len(sb) != 1 {
		return nil
	}
	desc := func(ns []*e2Node) string {
		var p []string
		for _, n := range ns {
			if n.kind != "slot" {
				continue
			}
			s := n.f
			if n.x != "" {
				s += "~" + n.x
			}
			p = append(p, s)
		}
		p = dedupe(p)
		return strings.Join(p, ",")
	}
	// true branch first, false branch second (the order is meaningful: which side writes the zeros)
	fa, fb := desc(a), desc(b)
	merged := "[" + fa + " : " + fb + "]"
	if fa == fb {
		merged = fa
	}
	out := []*e2Node{{kind: "slot", w: fmt.Sprint(wa), f: merged}}
	if e2Ends(a) && e2Ends(b) {
		out = append(out, a[len(a)-1])
	}
	return out
}

// e2MergeAltC: like e2MergeAlt; a slot whose alternatives are all constants records the selecting condition
func e2MergeAltC(a, b []*e2Node, cond string) []*e2Node {
	m := e2MergeAlt(a, b)
	for _, n := range m {
		if n.kind != "slot" || !strings.HasPrefix(n.f, "[") {
			continue
		}
		if cond != "" {
			n.f = "{" + cond + "}?" + n.f
		}
	}
	return m
}

// e2Slots: the slots of a sequence consisting only of slots (plus a trailing ret), else nil
func e2Slots(ns []*e2Node) []*e2Node {
	var out []*e2Node
	for _, n := range ns {
		if n.kind == "ret" {
			continue
		}
		if n.kind != "slot" {
			return nil
		}
		out = append(out, n)
	}
	return out
}

func e2Fails(ns []*e2Node) bool {
	return len(ns) > 0 && ns[len(ns)-1].kind == "fail"
}
func e2Ends(ns []*e2Node) bool {
	return len(ns) > 0 && (ns[len(ns)-1].kind == "fail" || ns[len(ns)-1].kind == "ret")
}

// ---------------------------------------------------------------------------

func constArgsAll(x *e2Ctx, args []ssa.Value, d int) string {
	var as []string
	for _, a := range args {
		as = append(as, x.pathOf(a, d+1))
	}
	return strings.Join(as, ",")
}

type e2Ctx struct {
	acc map[ssa.Value]bool // append-built result of an encoder without Lexer
	// rendering options used by E6 (builders): name φs by their variable, show call arguments
	namedPhis, callArgs, fullArgs bool
	c                             *Ctx
	fn                            *ssa.Function
	lex                           map[ssa.Value]bool // values that denote the tracked Lexer
	enc                           bool
	subst                         map[string]string // callee param symx -> caller expression (encoders)
	depth                         int
	ipdom                         map[*ssa.BasicBlock]*ssa.BasicBlock
	visited                       map[*ssa.BasicBlock]int
	undec                         []string
	// decoder: mapping of callee receiver to caller cell
	root     string
	phiStack []*ssa.Phi
}

func postDominators(fn *ssa.Function) map[*ssa.BasicBlock]*ssa.BasicBlock {
	// iterative algorithm on the reverse CFG with a virtual exit (nil)
	blocks := fn.Blocks
	n := len(blocks)
	idx := map[*ssa.BasicBlock]int{}
	for i, b := range blocks {
		idx[b] = i
	}
	// pdom sets as bitsets
	full := make([]bool, n)
	for i := range full {
		full[i] = true
	}
	pd := make([][]bool, n)
	isExit := func(b *ssa.BasicBlock) bool { return len(b.Succs) == 0 }
	for i, b := range blocks {
		pd[i] = make([]bool, n)
		if isExit(b) {
			pd[i][i] = true
		} else {
			copy(pd[i], full)
		}
	}
	for changed := true; changed; {
		changed = false
		for i := n - 1; i >= 0; i-- {
			b := blocks[i]
			if isExit(b) {
				continue
			}
			nw := make([]bool, n)
			copy(nw, full)
			for _, s := range b.Succs {
				si := idx[s]
				for k := 0; k < n; k++ {
					nw[k] = nw[k] && pd[si][k]
				}
			}
			nw[i] = true
			for k := 0; k < n; k++ {
				if nw[k] != pd[i][k] {
					changed = true
				}
			}
			pd[i] = nw
		}
	}
	// immediate post-dominator: the strict post-dominator that is post-dominated by all other strict ones
	ip := map[*ssa.BasicBlock]*ssa.BasicBlock{}
	for i, b := range blocks {
		var cands []int
		for k := 0; k < n; k++ {
			if k != i && pd[i][k] {
				cands = append(cands, k)
			}
		}
		for _, k := range cands {
			ok := true
			for _, m := range cands {
				if m != k && !pd[k][m] {
					ok = false
				}
			}
			if ok {
				ip[b] = blocks[k]
			}
		}
	}
	return ip
}

func isLoopHeader(b *ssa.BasicBlock) bool {
	for _, p := range b.Preds {
		if b.Dominates(p) {
			return true
		}
	}
	return false
}

func (x *e2Ctx) undecided(s string) { x.undec = append(x.undec, s) }

// walk from block b until `stop` (exclusive).
func (x *e2Ctx) walk(b, stop *ssa.BasicBlock) []*e2Node {
	var out []*e2Node
	for b != nil && b != stop {
		x.visited[b]++
		if x.visited[b] > 6 {
			x.undecided("control flow too irregular at " + x.c.P.ipos(b.Instrs[0]))
			return out
		}
		if isLoopHeader(b) {
			loop := sccOf(b)
			// header instructions (condition) first
			out = append(out, x.blockOps(b)...)
			var inSucc, outSucc *ssa.BasicBlock
			for _, s := range b.Succs {
				if loop[s] {
					inSucc = s
				} else {
					outSucc = s
				}
			}
			if inSucc == nil {
				x.undecided("loop without body at " + x.c.P.ipos(b.Instrs[0]))
				return out
			}
			body := x.walkLoopBody(inSucc, b, loop)
			out = append(out, &e2Node{kind: "loop", a: body, pos: x.c.P.ipos(b.Instrs[len(b.Instrs)-1]), note: x.loopBound(b)})
			if outSucc == nil {
				// exits are inside the body (for { … break/return })
				return out
			}
			b = outSucc
			continue
		}
		out = append(out, x.blockOps(b)...)
		last := b.Instrs[len(b.Instrs)-1]
		switch t := last.(type) {
		case *ssa.Return:
			out = append(out, x.retNode(t))
			return out
		case *ssa.Panic:
			out = append(out, &e2Node{kind: "fail"})
			return out
		case *ssa.Jump:
			b = b.Succs[0]
		case *ssa.If:
			j := x.ipdom[b]
			a := x.walk(b.Succs[0], j)
			bb := x.walk(b.Succs[1], j)
			out = append(out, &e2Node{kind: "alt", a: a, b: bb, pos: x.c.P.ipos(t), note: x.apply(x.pathOf(t.Cond, 0))})
			if j == nil {
				return out
			}
			b = j
		default:
			return out
		}
	}
	return out
}

// walkLoopBody: nodes on the paths from `from` back to the header (inside the loop); exits out of the loop
// inside the body (break / return) become alternatives ending in ret/fail or are dropped (break).
func (x *e2Ctx) walkLoopBody(from, hdr *ssa.BasicBlock, loop map[*ssa.BasicBlock]bool) []*e2Node {
	var out []*e2Node
	b := from
	for b != nil && b != hdr {
		if !loop[b] {
			// left the loop (break): stop here
			out = append(out, &e2Node{kind: "ret", note: "break"})
			return out
		}
		x.visited[b]++
		if x.visited[b] > 6 {
			x.undecided("loop body too irregular at " + x.c.P.ipos(b.Instrs[0]))
			return out
		}
		if isLoopHeader(b) && b != hdr {
			inner := sccOf(b)
			out = append(out, x.blockOps(b)...)
			var inSucc, outSucc *ssa.BasicBlock
			for _, s := range b.Succs {
				if inner[s] && s != hdr && !x.reachesOnlyVia(s, b, hdr) {
					inSucc = s
				} else {
					outSucc = s
				}
			}
			if inSucc == nil || outSucc == nil {
				x.undecided("nested loop shape at " + x.c.P.ipos(b.Instrs[0]))
				return out
			}
			body := x.walkLoopBody(inSucc, b, inner)
			out = append(out, &e2Node{kind: "loop", a: body})
			b = outSucc
			continue
		}
		out = append(out, x.blockOps(b)...)
		last := b.Instrs[len(b.Instrs)-1]
		switch t := last.(type) {
		case *ssa.Return:
			out = append(out, x.retNode(t))
			return out
		case *ssa.Panic:
			out = append(out, &e2Node{kind: "fail"})
			return out
		case *ssa.Jump:
			b = b.Succs[0]
		case *ssa.If:
			// join inside the loop: nearest block post-dominating b within the loop, else the header
			j := x.ipdom[b]
			if j == nil || !loop[j] {
				j = hdr
			}
			a := x.walkLoopBody(b.Succs[0], j, loop)
			bb := x.walkLoopBody(b.Succs[1], j, loop)
			out = append(out, &e2Node{kind: "alt", a: a, b: bb, note: x.apply(x.pathOf(t.Cond, 0))})
			if j == hdr {
				return out
			}
			b = j
		default:
			return out
		}
	}
	return out
}

func (x *e2Ctx) reachesOnlyVia(s, b, hdr *ssa.BasicBlock) bool { return false }

func (x *e2Ctx) retNode(r *ssa.Return) *e2Node {
	if x.enc {
		return &e2Node{kind: "ret", note: "enc"}
	}
	// decoder: classify the error result
	if len(r.Results) == 0 {
		return &e2Node{kind: "ret", note: "void"}
	}
	ev := r.Results[len(r.Results)-1]
	if !isErrorType(ev.Type()) {
		return &e2Node{kind: "ret", note: "noerr"}
	}
	if isNilConst(ev) {
		if n := x.delegatedThenNil(r); n != "" {
			return &e2Node{kind: "ret", note: n}
		}
		return &e2Node{kind: "ret", note: "nil"}
	}
	if definitelyError(ev, r) {
		return &e2Node{kind: "fail"}
	}
	if cl, ok := ev.(*ssa.Call); ok {
		if sf := cl.Call.StaticCallee(); sf != nil {
			k := funcKey(sf)
			if strings.HasSuffix(k, "uio.Lexer).FinError") && x.lex[cl.Call.Args[0]] {
				return &e2Node{kind: "ret", note: "fin"}
			}
			if strings.HasSuffix(k, "uio.Lexer).Error") && x.lex[cl.Call.Args[0]] {
				return &e2Node{kind: "ret", note: "err"}
			}
			return &e2Node{kind: "ret", note: "delegated:" + shortName(sf)}
		}
		if cl.Call.IsInvoke() {
			return &e2Node{kind: "ret", note: "delegated:" + cl.Call.Method.Name()}
		}
	}
	return &e2Node{kind: "ret", note: "maybe"}
}

// blockOps: Lexer operations of one block, in order
func (x *e2Ctx) blockOps(b *ssa.BasicBlock) []*e2Node {
	var out []*e2Node
	for _, in := range b.Instrs {
		cl, ok := in.(*ssa.Call)
		if !ok {
			continue
		}
		out = append(out, x.callOps(cl)...)
	}
	return out
}

func (x *e2Ctx) isLex(v ssa.Value) bool {
	if x.lex[v] {
		return true
	}
	// buf.Buffer (embedded *Buffer of the Lexer)
	if u, ok := v.(*ssa.UnOp); ok && u.Op == token.MUL {
		if fa, ok := u.X.(*ssa.FieldAddr); ok && x.lex[fa.X] {
			return true
		}
	}
	return false
}

func (x *e2Ctx) callOps(cl *ssa.Call) []*e2Node {
	cc := cl.Common()
	sf := cc.StaticCallee()
	pos := x.c.P.ipos(cl)
	// an encoder that builds its result in a local []byte by appends (no Lexer): the accumulator is the write cursor
	if x.acc != nil {
		if isBuiltinCall(cc, "append") && len(cc.Args) == 2 && x.acc[cc.Args[0]] {
			if vs := varargValues(cc.Args[1]); len(vs) > 0 {
				if sl, ok := cc.Args[1].(*ssa.Slice); ok {
					if al, ok := sl.X.(*ssa.Alloc); ok && al.Comment == "varargs" {
						var out []*e2Node
						for _, v := range varargsInOrder(al) {
							f, xf := x.srcOf(v)
							out = append(out, &e2Node{kind: "slot", w: "1", f: f, x: xf, pos: pos})
						}
						return out
					}
				}
			}
			w, f, xf := x.bytesSrc(cc.Args[1])
			return []*e2Node{{kind: "slot", w: w, f: f, x: xf, pos: pos}}
		}
		if sf != nil && len(cc.Args) == 3 && x.acc[cc.Args[1]] {
			if w, ok := map[string]string{"(encoding/binary.bigEndian).AppendUint16": "2", "(encoding/binary.bigEndian).AppendUint32": "4", "(encoding/binary.bigEndian).AppendUint64": "8"}[funcKey(sf)]; ok {
				f, xf := x.srcOf(cc.Args[2])
				return []*e2Node{{kind: "slot", w: w, f: f, x: xf, pos: pos}}
			}
		}
	}
	if sf == nil {
		return nil
	}
	k := funcKey(sf)
	if inUio(sf) && len(cc.Args) > 0 && x.isLex(cc.Args[0]) {
		m := sf.Name()
		switch m {
		case "Write8", "Write16", "Write32", "Write64":
			w := map[string]string{"Write8": "1", "Write16": "2", "Write32": "4", "Write64": "8"}[m]
			f, xf := x.srcOf(cc.Args[1])
			return []*e2Node{{kind: "slot", w: w, f: f, x: xf, pos: pos}}
		case "WriteBytes", "Write", "WriteData":
			w, f, xf := x.bytesSrc(cc.Args[1])
			return []*e2Node{{kind: "slot", w: w, f: f, x: xf, pos: pos}}
		case "Read8", "Read16", "Read32", "Read64":
			w := map[string]string{"Read8": "1", "Read16": "2", "Read32": "4", "Read64": "8"}[m]
			f, xf := x.dstOf(cl)
			if f == "_" && usedAsSize(cl) {
				f = "len"
			}
			return []*e2Node{{kind: "slot", w: w, f: f, x: xf, pos: pos}}
		case "CopyN", "Consume":
			w := x.sizeStr(cc.Args[1])
			f, xf := x.dstOf(cl)
			return []*e2Node{{kind: "slot", w: w, f: f, x: xf, pos: pos, note: m}}
		case "ReadAll":
			f, xf := x.dstOf(cl)
			return []*e2Node{{kind: "slot", w: "rest", f: f, x: xf, pos: pos}}
		case "ReadBytes":
			w, f, xf := x.bytesDst(cc.Args[1])
			return []*e2Node{{kind: "slot", w: w, f: f, x: xf, pos: pos}}
		case "Data":
			if !x.enc {
				// decoder handing the remainder on without copying
				f, xf := x.dstOf(cl)
				return []*e2Node{{kind: "slot", w: "rest", f: f, x: xf, pos: pos, note: "Data"}}
			}
			return nil
		case "WriteN", "Append":
			// copy(buf.WriteN(k), src): a k-byte slot filled (and zero padded) from src
			w := x.sizeStr(cc.Args[1])
			f, xf := "const:0", ""
			for _, ref := range *cl.Referrers() {
				if cp, ok := ref.(*ssa.Call); ok && isBuiltinCall(cp.Common(), "copy") && cp.Call.Args[0] == ssa.Value(cl) {
					var wsrc string
					wsrc, f, xf = x.bytesSrc(cp.Call.Args[1])
					// copy(buf.Append(len(src)), src) is WriteBytes(src): exactly the source, nothing padded
					if lo := lenOperand(cc.Args[1]); lo != nil {
						src := stripBytesConv(cp.Call.Args[1])
						if lo == src || x.c.Sx().Of(lo).String() == x.c.Sx().Of(src).String() {
							return []*e2Node{{kind: "slot", w: wsrc, f: f, x: xf, pos: pos}}
						}
					}
					xf += "pad"
				}
			}
			return []*e2Node{{kind: "slot", w: w, f: f, x: xf, pos: pos}}
		case "Has", "Len", "Error", "FinError", "Cap":
			return nil
		default:
			x.undecided("Lexer method " + m + " at " + pos)
			return nil
		}
	}
	// the DHCPv4 option list has its own clauses (C01-K3/K4, C04-K2, C07): not inlined
	if sf.Name() == "Marshal" && recvNamed(sf) != nil && recvNamed(sf).Obj().Name() == "Options" && pkgPathOf(sf) == modPath+"/dhcpv4" && len(cc.Args) == 2 && x.isLex(cc.Args[1]) {
		return []*e2Node{{kind: "slot", w: "opts4", f: x.apply(x.pathOf(cc.Args[0], 0)), pos: pos}}
	}
	// in-module callee that receives the Lexer: inline
	for i, a := range cc.Args {
		if x.isLex(a) && (inModule(sf) || inUio(sf)) && sf.Blocks != nil {
			if x.depth >= 4 {
				x.undecided("inlining depth exceeded at " + pos)
				return nil
			}
			// an argument chosen by an if/else before the call: the helper is inlined once per alternative, under that condition
			inlineWith := func(over map[int]string) []*e2Node {
				sub := &e2Ctx{c: x.c, fn: sf, lex: map[ssa.Value]bool{sf.Params[i]: true}, enc: x.enc, depth: x.depth + 1, subst: map[string]string{}, visited: map[*ssa.BasicBlock]int{}}
				sub.ipdom = postDominators(sf)
				for j, p := range sf.Params {
					if j == i {
						continue
					}
					if o, ok := over[j]; ok {
						sub.subst[x.c.Sx().Of(p).String()] = o
					} else if x.enc {
						s, _ := x.srcOf(cc.Args[j])
						sub.subst[x.c.Sx().Of(p).String()] = s
					} else {
						sub.subst[x.c.Sx().Of(p).String()] = x.cellOf(cc.Args[j])
					}
				}
				ns := sub.walk(sf.Blocks[0], nil)
				sub.resolveLocals(ns)
				x.undec = append(x.undec, sub.undec...)
				return ns
			}
			if x.enc {
				for j := range sf.Params {
					if j == i || j >= len(cc.Args) {
						continue
					}
					s, xf := x.srcOf(cc.Args[j])
					if cond, a, b, ok := splitDecision(s); ok && xf == "" {
						na, nb := inlineWith(map[int]string{j: a}), inlineWith(map[int]string{j: b})
						strip := func(ns []*e2Node) []*e2Node {
							var out []*e2Node
							for _, n := range e2Simplify(ns) {
								if n.kind != "ret" {
									out = append(out, n)
								}
							}
							return out
						}
						return []*e2Node{{kind: "alt", a: strip(na), b: strip(nb), note: cond, pos: pos}}
					}
				}
			}
			ns := inlineWith(nil)
			// drop the callee's trailing ret
			var out []*e2Node
			for _, n := range e2Simplify(ns) {
				if n.kind == "ret" {
					continue
				}
				out = append(out, n)
			}
			_ = k
			if !x.enc {
				x.bindReturns(out, cl)
			}
			return out
		}
	}
	return nil
}

// bindReturns: slots of an inlined decoder helper whose value leaves the helper through its k-th result
// ("return#k") continue in the caller from that result of the call
func (x *e2Ctx) bindReturns(ns []*e2Node, cl *ssa.Call) {
	for _, n := range ns {
		switch n.kind {
		case "loop":
			x.bindReturns(n.a, cl)
		case "alt":
			x.bindReturns(n.a, cl)
			x.bindReturns(n.b, cl)
		case "slot":
			for iter := 0; iter < 4 && strings.Contains(n.f, "return#"); iter++ {
				i := strings.Index(n.f, "return#")
				j := i + len("return#")
				k := 0
				for j < len(n.f) && n.f[j] >= '0' && n.f[j] <= '9' {
					k = k*10 + int(n.f[j]-'0')
					j++
				}
				var v ssa.Value
				if cl.Call.Signature().Results().Len() == 1 {
					v = cl
				} else if ex := extractOf(cl, k); ex != nil {
					v = ex
				}
				d, xf := "_", ""
				if v != nil {
					d, xf = x.dstOf(v)
				}
				n.f = n.f[:i] + d + n.f[j:]
				if xf != "" {
					if n.x == "" {
						n.x = xf
					} else {
						n.x = n.x + "&" + xf
					}
				}
			}
		}
	}
}

// usedAsSize: the value read is (only) used as the size of a following CopyN/Consume
func usedAsSize(v ssa.Value) bool {
	found := false
	var visit func(v ssa.Value, d int)
	visit = func(v ssa.Value, d int) {
		if d > 3 {
			return
		}
		for _, ref := range *v.Referrers() {
			switch t := ref.(type) {
			case *ssa.Convert:
				visit(t, d+1)
			case *ssa.Call:
				if sf := t.Call.StaticCallee(); sf != nil && inUio(sf) && (sf.Name() == "CopyN" || sf.Name() == "Consume") {
					found = true
				}
			}
		}
	}
	visit(v, 0)
	return found
}

// sizeStr: width of CopyN/Consume: constant or var(ref)
func (x *e2Ctx) sizeStr(v ssa.Value) string {
	if k, ok := intConst(v); ok {
		return fmt.Sprintf("%d", k)
	}
	// strip conversions
	for {
		if cv, ok := v.(*ssa.Convert); ok {
			v = cv.X
			continue
		}
		break
	}
	// the value of an earlier Lexer read → reference by its destination name or as "prev"
	if cl, ok := v.(*ssa.Call); ok {
		if sf := cl.Call.StaticCallee(); sf != nil && inUio(sf) && strings.HasPrefix(sf.Name(), "Read") {
			return "var(len)"
		}
		if sf := cl.Call.StaticCallee(); sf != nil && (strings.HasSuffix(funcKey(sf), "uio.Buffer).Len")) {
			return "rest"
		}
	}
	return "var(" + x.apply(x.c.Sx().Of(v).String()) + ")"
}

func (x *e2Ctx) apply(s string) string {
	// longest keys first
	var ks []string
	for k := range x.subst {
		ks = append(ks, k)
	}
	sort.Slice(ks, func(i, j int) bool { return len(ks[i]) > len(ks[j]) })
	for _, k := range ks {
		s = strings.ReplaceAll(s, k, x.subst[k])
	}
	return s
}

// ---------------------------------------------------------------------------
// encoder sources

// pathOf: a readable access path for an SSA value rooted at the receiver/params: "T1", "Prefix.IP", "Data[]"
func (x *e2Ctx) pathOf(v ssa.Value, d int) string {
	if d > 10 {
		return "?"
	}
	switch t := v.(type) {
	case *ssa.Parameter:
		s := x.c.Sx().Of(t).String()
		if r, ok := x.subst[s]; ok {
			return r
		}
		if len(t.Parent().Params) > 0 && t == t.Parent().Params[0] && t.Parent().Signature.Recv() != nil {
			return ""
		}
		return "$" + t.Name()
	case *ssa.FreeVar:
		return "$" + t.Name()
	case *ssa.UnOp:
		if t.Op == token.MUL {
			// load: from a field address, or from a local cell with a single store
			if r := x.c.Sx().load(t, 6); r != nil && r.V != nil && r.V != ssa.Value(t) {
				if _, isAlloc := t.X.(*ssa.Alloc); isAlloc {
					return x.pathOf(r.V, d+1)
				}
				if fa, ok := t.X.(*ssa.FieldAddr); ok {
					if al2, isAlloc2 := fa.X.(*ssa.Alloc); isAlloc2 && !isResultObject(al2) {
						return x.pathOf(r.V, d+1)
					}
				}
			}
			return x.pathOf(t.X, d+1)
		}
	case *ssa.FieldAddr:
		st := derefStruct(t.X.Type())
		return joinPath(x.pathOf(t.X, d+1), st.Field(t.Field).Name())
	case *ssa.Field:
		st := t.X.Type().Underlying().(*types.Struct)
		return joinPath(x.pathOf(t.X, d+1), st.Field(t.Field).Name())
	case *ssa.IndexAddr:
		if _, ok := intConst(t.Index); ok {
			return x.pathOf(t.X, d+1) + "[" + x.c.Sx().Of(t.Index).String()[6:] // const(k)
		}
		return x.pathOf(t.X, d+1) + "[]"
	case *ssa.Index:
		return x.pathOf(t.X, d+1) + "[]"
	case *ssa.Lookup:
		return x.pathOf(t.X, d+1) + "[" + x.pathOf(t.Index, d+1) + "]"
	case *ssa.Extract:
		// range element: extract of Next
		if nx, ok := t.Tuple.(*ssa.Next); ok {
			if rg, ok := nx.Iter.(*ssa.Range); ok {
				return x.pathOf(rg.X, d+1) + "[]"
			}
		}
		return x.pathOf(t.Tuple, d+1) + fmt.Sprintf("#%d", t.Index)
	case *ssa.Alloc:
		// a spilled parameter (value receiver whose address is taken)
		var st *ssa.Store
		nst := 0
		for _, ref := range *t.Referrers() {
			if s, ok := ref.(*ssa.Store); ok && s.Addr == ssa.Value(t) {
				st = s
				nst++
			}
		}
		if nst == 1 {
			if _, isP := st.Val.(*ssa.Parameter); isP {
				return x.pathOf(st.Val, d+1)
			}
		}
		for _, ref := range *t.Referrers() {
			if st, ok := ref.(*ssa.Store); ok && st.Val == ssa.Value(t) {
				if _, isFA := st.Addr.(*ssa.FieldAddr); isFA {
					return x.pathOf(st.Addr, d+1)
				}
			}
		}
		// a constant-size make([]T, n) (compiled to new [n]T + slice) that ends up in a field: named by that field,
		// wherever the store sits relative to the reads into it (dst := make(...); r.F = dst; buf.ReadBytes(dst[:k]))
		if t.Comment == "makeslice" && !x.callArgs {
			var home func(v ssa.Value, dd int) string
			home = func(v ssa.Value, dd int) string {
				if dd > 3 || v.Referrers() == nil {
					return ""
				}
				for _, ref := range *v.Referrers() {
					switch u := ref.(type) {
					case *ssa.Slice:
						// whole, the compiler's own [:n], or a prefix cut that is what gets stored (chaddr[:hlen])
						if u.X == v && u.Low == nil {
							if h := home(u, dd+1); h != "" {
								return h
							}
						}
					case *ssa.ChangeType:
						if h := home(u, dd+1); h != "" {
							return h
						}
					case *ssa.Store:
						if u.Val == v {
							if _, isFA := u.Addr.(*ssa.FieldAddr); isFA {
								if p := x.pathOf(u.Addr, d+1); p != "" && !strings.HasPrefix(p, "%") {
									return p
								}
							}
						}
					}
				}
				return ""
			}
			if h := home(t, 0); h != "" {
				return h
			}
		}
		if isResultObject(t) {
			return ""
		}
		return "%" + localAllocName(t)
	case *ssa.ChangeType:
		return x.pathOf(t.X, d+1)
	case *ssa.Convert:
		return x.pathOf(t.X, d+1)
	case *ssa.MakeInterface:
		return x.pathOf(t.X, d+1)
	case *ssa.Slice:
		if al, ok := t.X.(*ssa.Alloc); ok && x.callArgs && (al.Comment == "varargs" || al.Comment == "slicelit") {
			items := map[int64]string{}
			for _, ref := range *al.Referrers() {
				if ia, ok := ref.(*ssa.IndexAddr); ok {
					k, _ := intConst(ia.Index)
					for _, r2 := range *ia.Referrers() {
						if st, ok := r2.(*ssa.Store); ok {
							items[k] = x.pathOf(st.Val, d+1)
						}
					}
				}
			}
			var out []string
			for i := int64(0); i < int64(len(items)); i++ {
				out = append(out, items[i])
			}
			return "[" + strings.Join(out, " ") + "]"
		}
		return x.pathOf(t.X, d+1)
	case *ssa.TypeAssert:
		return x.pathOf(t.X, d+1) + ".(" + typeTag(t.AssertedType) + ")"
	case *ssa.MakeMap:
		return "make(map)"
	case *ssa.MakeSlice:
		return "make(" + x.pathOf(t.Len, d+1) + ")"
	case *ssa.Phi:
		if x.namedPhis {
			// by content, not by the variable's name: φ(edge|edge…), a reference back to a φ being rendered is "φ"
			for _, q := range x.phiStack {
				if q == t {
					return "φ"
				}
			}
			if len(x.phiStack) >= 3 {
				return "φ…"
			}
			x.phiStack = append(x.phiStack, t)
			var ps []string
			seen := map[string]bool{}
			for _, e := range t.Edges {
				p := x.pathOf(e, d+1)
				if !seen[p] {
					seen[p] = true
					ps = append(ps, p)
				}
			}
			x.phiStack = x.phiStack[:len(x.phiStack)-1]
			sort.Strings(ps)
			if len(ps) == 1 {
				return ps[0]
			}
			return "φ(" + strings.Join(ps, "|") + ")"
		}
		var ps []string
		seen := map[string]bool{}
		for _, e := range t.Edges {
			p := x.pathOf(e, d+1)
			if !seen[p] {
				seen[p] = true
				ps = append(ps, p)
			}
		}
		sort.Strings(ps)
		return strings.Join(ps, "|")
	case *ssa.Const:
		return "const:" + constText(t)
	case *ssa.BinOp:
		return "(" + x.pathOf(t.X, d+1) + t.Op.String() + x.pathOf(t.Y, d+1) + ")"
	case *ssa.Call:
		cc := t.Common()
		if isBuiltinCall(cc, "len") {
			return "len(" + x.pathOf(cc.Args[0], d+1) + ")"
		}
		if isBuiltinCall(cc, "min") || isBuiltinCall(cc, "max") {
			// a clamp: rendered like the φ of the equivalent if-form (the choice between its operands; which one is
			// taken when is judged by the dedicated clamp rules, e.g. C01-K3)
			var ps []string
			seen := map[string]bool{}
			for _, a := range cc.Args {
				p := x.pathOf(a, d+1)
				if !seen[p] {
					seen[p] = true
					ps = append(ps, p)
				}
			}
			sort.Strings(ps)
			return strings.Join(ps, "|")
		}
		if b, isB := cc.Value.(*ssa.Builtin); isB && x.callArgs {
			var as []string
			for _, a := range cc.Args {
				as = append(as, x.pathOf(a, d+1))
			}
			return b.Name() + "(" + strings.Join(as, ",") + ")"
		}
		if sf := cc.StaticCallee(); sf != nil && inUio(sf) && strings.HasPrefix(sf.Name(), "Read") {
			return "prev" + strings.TrimPrefix(sf.Name(), "Read")
		}
		if sf := cc.StaticCallee(); sf != nil && freshConstructor(sf) {
			return "" // like the local allocation the call stands for (the object being built)
		}
		constArgs := func(args []ssa.Value) string {
			if !x.callArgs {
				return ""
			}
			var as []string
			for _, a := range args {
				if k, ok := optCodeConst(a); ok {
					as = append(as, fmt.Sprint(k))
				} else if x.fullArgs {
					as = append(as, x.pathOf(a, d+1))
				}
			}
			return strings.Join(as, ",")
		}
		if sf := cc.StaticCallee(); sf != nil && sf.Signature.Recv() != nil && len(cc.Args) > 0 {
			return x.pathOf(cc.Args[0], d+1) + "." + sf.Name() + "(" + constArgs(cc.Args[1:]) + ")"
		}
		if sf := cc.StaticCallee(); sf != nil && x.callArgs && x.depth < 3 {
			// delegation transparency (E6 rendering): a call of a pure delegation is rendered as the call it makes
			if inner := delegationOf(sf); inner != nil {
				sub := &e2Ctx{c: x.c, fn: sf, lex: map[ssa.Value]bool{}, enc: true, subst: map[string]string{}, visited: map[*ssa.BasicBlock]int{}, namedPhis: x.namedPhis, callArgs: x.callArgs, fullArgs: x.fullArgs, depth: x.depth + 1}
				for i, p := range sf.Params {
					if i < len(cc.Args) {
						sub.subst[x.c.Sx().Of(p).String()] = x.apply(x.pathOf(cc.Args[i], d+1))
					}
				}
				return sub.apply(sub.pathOf(inner, 0))
			}
		}
		if sf := cc.StaticCallee(); sf != nil && len(cc.Args) > 0 {
			if s, ok := x.expandPureHelper(t, d); ok {
				return s
			}
			if x.callArgs {
				return sf.Name() + "(" + constArgsAll(x, cc.Args, d) + ")"
			}
			return x.pathOf(cc.Args[0], d+1) + "." + sf.Name() + "()"
		}
		if sf := cc.StaticCallee(); sf != nil {
			if sf.Pkg != nil {
				return sf.Pkg.Pkg.Name() + "." + sf.Name() + "()"
			}
			return sf.Name() + "()"
		}
		if cc.IsInvoke() {
			return x.pathOf(cc.Value, d+1) + "." + cc.Method.Name() + "(" + constArgs(cc.Args) + ")"
		}
	case *ssa.Global:
		return "global:" + t.Name()
	}
	return "?" + fmt.Sprintf("%T", v)
}

// expandPureHelper (E6 rendering): a call of an unexported in-module function with one return, no stores
// outside its locals and no dynamic calls is rendered as the value it returns
func (x *e2Ctx) expandPureHelper(cl *ssa.Call, d int) (string, bool) {
	sf := cl.Call.StaticCallee()
	if sf == nil || !inModule(sf) || sf.Blocks == nil || token.IsExported(sf.Name()) || sf.Parent() != nil || x.depth >= 3 || sf.Signature.Recv() != nil {
		return "", false
	}
	rets := returnsOf(sf)
	if len(rets) != 1 || len(rets[0].Results) != 1 {
		return "", false
	}
	if !x.callArgs && len(sf.Blocks) != 1 {
		// schema rendering: only straight-line expression helpers
		return "", false
	}
	pure := true
	allInstrs(sf, func(in ssa.Instruction) {
		switch t := in.(type) {
		case *ssa.Store:
			if al, _, ok := addrPath(t.Addr); !ok || al == nil {
				if ia, ok2 := t.Addr.(*ssa.IndexAddr); ok2 {
					if _, isAl := ia.X.(*ssa.Alloc); isAl {
						return
					}
				}
				pure = false
			}
		case *ssa.MapUpdate, *ssa.Send, *ssa.Go, *ssa.Defer, *ssa.Panic:
			pure = false
		case *ssa.Call:
			if t.Call.IsInvoke() {
				pure = false
			} else if _, isB := t.Call.Value.(*ssa.Builtin); !isB && t.Call.StaticCallee() == nil {
				pure = false
			}
		}
	})
	if !pure {
		return "", false
	}
	sub := &e2Ctx{c: x.c, fn: sf, lex: map[ssa.Value]bool{}, enc: true, subst: map[string]string{}, visited: map[*ssa.BasicBlock]int{}, namedPhis: x.namedPhis, callArgs: x.callArgs, fullArgs: x.fullArgs, depth: x.depth + 1}
	for i, p := range sf.Params {
		if i < len(cl.Call.Args) {
			sub.subst[x.c.Sx().Of(p).String()] = x.apply(x.pathOf(cl.Call.Args[i], d+1))
		}
	}
	return sub.apply(sub.pathOf(rets[0].Results[0], 0)), true
}

func joinPath(a, b string) string {
	if a == "" {
		return b
	}
	return a + "." + b
}

// srcOf: field + transform class of a scalar written by an encoder
func (x *e2Ctx) srcOf(v ssa.Value) (string, string) { return x.srcOfX(v, nil, 0) }

// srcOfX: srcOf with transforms already met on the way (outermost first)
func (x *e2Ctx) srcOfX(v ssa.Value, pre []string, depth int) (string, string) {
	xs := append([]string{}, pre...)
	cur := v
	for d := 0; d < 12; d++ {
		switch t := cur.(type) {
		case *ssa.Convert:
			xs = append(xs, "conv:"+types.TypeString(t.Type(), shortQual))
			cur = t.X
			continue
		case *ssa.ChangeType:
			cur = t.X
			continue
		case *ssa.BinOp:
			if k, ok := intConst(t.Y); ok {
				xs = append(xs, fmt.Sprintf("%s:%d", t.Op, k))
				cur = t.X
				continue
			}
			if k, ok := intConst(t.X); ok {
				xs = append(xs, fmt.Sprintf("%d:%s", k, t.Op))
				cur = t.Y
				continue
			}
			// two-operand expressions (flags assembled from fields)
			a, ax := x.srcOf(t.X)
			b, bx := x.srcOf(t.Y)
			return "(" + a + tildeIf(ax) + t.Op.String() + b + tildeIf(bx) + ")", xformClass(xs)
		case *ssa.Call:
			cc := t.Common()
			if sf := cc.StaticCallee(); sf != nil {
				switch funcKey(sf) {
				case "(time.Duration).Round":
					if k, ok := intConst(cc.Args[1]); ok {
						xs = append(xs, fmt.Sprintf("round:%d", k))
						cur = cc.Args[0]
						continue
					}
				case "(time.Duration).Seconds":
					xs = append(xs, "float-seconds")
					cur = cc.Args[0]
					continue
				case "(net.IPMask).Size":
				}
			}
		case *ssa.Extract:
			if cl, ok := t.Tuple.(*ssa.Call); ok {
				if sf := cl.Call.StaticCallee(); sf != nil && funcKey(sf) == "(net.IPMask).Size" && t.Index == 0 {
					xs = append(xs, "masksize")
					cur = cl.Call.Args[0]
					continue
				}
			}
		case *ssa.Phi:
			// one of two constants chosen by one branch (`var flags uint8; if c { flags |= K }`): the decision expression
			// {c}?[K : 0] below, the same as writing the constant in each branch — it keeps which constant goes with which outcome
			_, ce0 := constFold(t.Edges[0])
			_, ce1 := constFold(t.Edges[1%len(t.Edges)])
			twoConst := len(t.Edges) == 2 && ce0 && ce1 && !inCycle(t.Block())
			if fl := x.flagsOf(t); fl != "" && !twoConst {
				return fl, "flags"
			}
			// conditional constant (flag byte): if cond {mask} else {0}
			if len(t.Edges) == 2 && !twoConst {
				k0, ok0 := intConst(t.Edges[0])
				k1, ok1 := intConst(t.Edges[1])
				if ok0 && ok1 {
					if iff := ifOf(t.Block().Preds[0]); iff != nil || true {
						cond := x.phiCond(t)
						return cond, fmt.Sprintf("flag:%d/%d", k0, k1)
					}
				}
			}
			// a value chosen by an if/else before the write (v := zero; if c { v = field }; buf.Write(v)): the same
			// decision expression as writing in the two branches, {cond}?[then : else]
			if len(t.Edges) == 2 && depth < 2 && !inCycle(t.Block()) {
				if d := t.Block().Idom(); d != nil {
					if iff := ifOf(d); iff != nil && len(d.Succs) == 2 && d.Succs[0] != d.Succs[1] {
						side := func(p *ssa.BasicBlock) int { // 0 = true side, 1 = false side, -1 unknown
							for i := 0; i < 2; i++ {
								s := d.Succs[i]
								if (p == d && s == t.Block()) || (s != t.Block() && (s == p || s.Dominates(p))) {
									return i
								}
							}
							return -1
						}
						s0, s1 := side(t.Block().Preds[0]), side(t.Block().Preds[1])
						if s0 >= 0 && s1 >= 0 && s0 != s1 {
							var parts [2]string
							for i, e := range t.Edges {
								f, xf := x.srcOfX(e, xs, depth+1)
								if k, isK := constFold(e); isK {
									f, xf = fmt.Sprintf("const:%d", k), ""
								}
								sd := s0
								if i == 1 {
									sd = s1
								}
								parts[sd] = f + tildeIf(xf)
							}
							if parts[0] == parts[1] {
								return parts[0], ""
							}
							return "{" + x.apply(x.pathOf(iff.Cond, 0)) + "}?[" + parts[0] + " : " + parts[1] + "]", ""
						}
					}
				}
			}
		}
		break
	}
	return x.apply(x.pathOf(cur, 0)), xformClass(xs)
}

func tildeIf(s string) string {
	if s == "" {
		return ""
	}
	return "~" + s
}

// phiCond: the field tested by the branch that selects between the phi's constant edges
func (x *e2Ctx) phiCond(p *ssa.Phi) string {
	idom := p.Block().Idom()
	for idom != nil {
		if iff := ifOf(idom); iff != nil {
			return x.apply(x.pathOf(iff.Cond, 0))
		}
		idom = idom.Idom()
	}
	return "?"
}

// xformClass: classify a chain of scalar operations (outermost first)
func xformClass(xs []string) string {
	// drop pure integer conversions between same-or-wider integer types and named integer types
	var ops []string
	for _, o := range xs {
		if strings.HasPrefix(o, "conv:") {
			t := strings.TrimPrefix(o, "conv:")
			switch t {
			case "uint8", "uint16", "uint32", "uint64", "int", "byte", "int64", "uint":
				ops = append(ops, "c:"+t)
				continue
			case "time.Duration":
				ops = append(ops, "c:dur")
				continue
			case "float64", "float32":
				ops = append(ops, "c:float")
				continue
			}
			ops = append(ops, "c:named")
			continue
		}
		ops = append(ops, o)
	}
	s := strings.Join(ops, ",")
	switch s {
	case "", "c:named", "c:named,c:named", "c:uint8", "c:uint16", "c:uint32", "c:uint64", "c:int", "c:byte":
		return ""
	// encoder: uint32(d.Round(time.Second)/time.Second)
	case "c:uint32,/:1000000000,round:1000000000":
		return "sec"
	case "c:uint16,/:10000000,round:10000000":
		return "cs"
	// decoder: time.Duration(x) * time.Second
	case "*:1000000000,c:dur":
		return "sec"
	case "*:10000000,c:dur", "*:1000000,*:10,c:dur":
		return "cs"
	case "c:uint8,masksize", "c:uint8,c:int,masksize":
		return "plen"
	case "c:uint16,c:named", "c:uint8,c:named", "c:named,c:uint8", "c:named,c:uint16", "c:uint32,c:named", "c:named,c:uint32":
		return ""
	}
	return "xf[" + s + "]"
}

// bytesSrc: width, source and transform of a byte slice written by an encoder
func (x *e2Ctx) bytesSrc(v ssa.Value) (string, string, string) {
	switch t := v.(type) {
	case *ssa.Slice:
		// arr[:] of a fixed array
		at := t.X.Type().Underlying()
		if p, ok := at.(*types.Pointer); ok {
			at = p.Elem().Underlying()
		}
		if a, ok := at.(*types.Array); ok && t.Low == nil && t.High == nil {
			// slice literal []byte{a, b, …}
			if al, ok := t.X.(*ssa.Alloc); ok && al.Comment == "slicelit" {
				vals := make([]string, a.Len())
				for i := range vals {
					vals[i] = "const:0"
				}
				for _, ref := range *al.Referrers() {
					if ia, ok := ref.(*ssa.IndexAddr); ok {
						if k, ok := intConst(ia.Index); ok && int(k) < len(vals) {
							for _, r2 := range *ia.Referrers() {
								if st, ok := r2.(*ssa.Store); ok {
									f, xf := x.srcOf(st.Val)
									vals[k] = f + tildeIf(xf)
								}
							}
						}
					}
				}
				return fmt.Sprint(a.Len()), strings.Join(vals, ","), ""
			}
			// zeros array, or a local array filled by copy(arr[:k], src)
			if al, ok := t.X.(*ssa.Alloc); ok {
				for _, ref := range *al.Referrers() {
					if sl, ok := ref.(*ssa.Slice); ok && sl != t {
						for _, r2 := range *sl.Referrers() {
							if cp, ok := r2.(*ssa.Call); ok && isBuiltinCall(cp.Common(), "copy") && cp.Call.Args[0] == ssa.Value(sl) {
								_, f, xf := x.bytesSrc(cp.Call.Args[1])
								lim := "all"
								if sl.High != nil {
									lim = x.apply(x.pathOf(sl.High, 0))
								}
								return fmt.Sprint(a.Len()), f, xf + "pad(" + strings.TrimPrefix(lim, "const:") + ")"
							}
						}
					}
				}
				if isZeroAlloc(al) {
					return fmt.Sprint(a.Len()), "const:0", ""
				}
			}
			return fmt.Sprint(a.Len()), x.apply(x.pathOf(t.X, 0)), ""
		}
		if t.Low == nil && t.High != nil {
			w, f, xf := x.bytesSrc(t.X)
			if k, ok := intConst(t.High); ok {
				if w == fmt.Sprint(k) {
					return w, f, xf
				}
				return fmt.Sprint(k), f, xf + "cut(" + w + ")"
			}
			return "var(" + x.apply(x.pathOf(t.High, 0)) + ")", f, xf + "cut(" + w + ")"
		}
	case *ssa.ChangeType:
		return x.bytesSrc(t.X)
	case *ssa.MakeInterface:
		return x.bytesSrc(t.X)
	case *ssa.Convert:
		// []byte(string)
		return "var", x.apply(x.pathOf(t.X, 0)), "str"
	case *ssa.Phi:
		var ws, fs []string
		for _, e := range t.Edges {
			w, f, _ := x.bytesSrc(e)
			ws = append(ws, w)
			fs = append(fs, f)
		}
		same := true
		for _, w := range ws {
			if w != ws[0] {
				same = false
			}
		}
		if same {
			sort.Strings(fs)
			return ws[0], strings.Join(dedupe(fs), "|"), ""
		}
	case *ssa.Call:
		cc := t.Common()
		if sf := cc.StaticCallee(); sf != nil {
			switch funcKey(sf) {
			case "(net.IP).To4":
				return "4", x.apply(x.pathOf(cc.Args[0], 0)), "ip4"
			case "(net.IP).To16":
				return "16", x.apply(x.pathOf(cc.Args[0], 0)), "ip16"
			}
			if sf.Name() == "ToBytes" && len(cc.Args) >= 1 {
				return "enc(" + typeTag(cc.Args[0].Type()) + ")", x.apply(x.pathOf(cc.Args[0], 0)), ""
			}
			if sf.Name() == "ToBigEndian" || sf.Name() == "ToBytes" {
				return "enc(" + typeTag(unboxedType(cc.Args[0])) + ")", x.apply(x.pathOf(cc.Args[0], 0)), ""
			}
		}
		if cc.IsInvoke() && cc.Method.Name() == "ToBytes" {
			return "enc(" + typeTag(cc.Value.Type()) + ")", x.apply(x.pathOf(cc.Value, 0)), ""
		}
	}
	// a string used directly as a byte source (copy(dst, s), append(b, s...)): the same bytes as []byte(s)
	if bt, ok := v.Type().Underlying().(*types.Basic); ok && bt.Info()&types.IsString != 0 {
		return "var", x.apply(x.pathOf(v, 0)), "str"
	}
	// plain byte-slice valued field / variable
	return "var", x.apply(x.pathOf(v, 0)), ""
}

func dedupe(a []string) []string {
	var out []string
	for i, s := range a {
		if i == 0 || s != a[i-1] {
			out = append(out, s)
		}
	}
	return out
}

func isZeroAlloc(al *ssa.Alloc) bool {
	for _, ref := range *al.Referrers() {
		switch ref.(type) {
		case *ssa.Slice, *ssa.DebugRef:
		default:
			return false
		}
	}
	return true
}

func typeTag(t types.Type) string {
	if p, ok := t.(*types.Pointer); ok {
		t = p.Elem()
	}
	if n, ok := t.(*types.Named); ok {
		return n.Obj().Pkg().Name() + "." + n.Obj().Name()
	}
	return types.TypeString(t, shortQual)
}

// ---------------------------------------------------------------------------
// decoder destinations

// cellOf: name of the memory cell an address-valued argument denotes (for callee receivers)
func (x *e2Ctx) cellOf(v ssa.Value) string {
	return x.apply(x.pathOf(v, 0))
}

// dstOf: where a value read from the Lexer ends up (field path) and through which transform
func (x *e2Ctx) dstOf(v ssa.Value) (string, string) {
	type item struct {
		v  ssa.Value
		xs []string
	}
	var dsts []string
	var xfs []string
	seen := map[ssa.Value]bool{}
	flowStores := map[*ssa.Store]bool{}
	var follow func(it item, d int)
	addDst := func(p string, xs []string) {
		// an element appended to a list: mark the destination as a list element
		var keep []string
		for _, o := range xs {
			if o == "append" {
				p += "[]"
				continue
			}
			keep = append(keep, o)
		}
		xs = keep
		dsts = append(dsts, p)
		// decoder chains are recorded innermost first; reverse to outermost first
		var r []string
		for i := len(xs) - 1; i >= 0; i-- {
			r = append(r, xs[i])
		}
		xfs = append(xfs, xformClass(r))
	}
	follow = func(it item, d int) {
		if d > 12 || seen[it.v] {
			return
		}
		seen[it.v] = true
		for _, ref := range *it.v.Referrers() {
			switch t := ref.(type) {
			case *ssa.Convert:
				follow(item{t, append(append([]string{}, it.xs...), "conv:"+types.TypeString(t.Type(), shortQual))}, d+1)
			case *ssa.ChangeType:
				follow(item{t, it.xs}, d+1)
			case *ssa.SliceToArrayPointer:
				// [N]byte(p): the array value loaded through the pointer is a copy of the slice's first N bytes
				for _, r2 := range *t.Referrers() {
					if ld, ok := r2.(*ssa.UnOp); ok && ld.Op == token.MUL && ld.X == ssa.Value(t) {
						follow(item{ld, append(append([]string{}, it.xs...), "copy")}, d+1)
					}
				}
			case *ssa.MakeInterface:
				follow(item{t, it.xs}, d+1)
			case *ssa.BinOp:
				if k, ok := intConst(t.Y); ok && t.X == it.v {
					follow(item{t, append(append([]string{}, it.xs...), fmt.Sprintf("%s:%d", t.Op, k))}, d+1)
				} else if k, ok := intConst(t.X); ok && t.Y == it.v {
					follow(item{t, append(append([]string{}, it.xs...), fmt.Sprintf("%d:%s", k, t.Op))}, d+1)
				} else {
					follow(item{t, append(append([]string{}, it.xs...), "bin"+t.Op.String())}, d+1)
				}
			case *ssa.Phi:
				follow(item{t, append(append([]string{}, it.xs...), "phi")}, d+1)
			case *ssa.Slice:
				if t.X == it.v {
					follow(item{t, append(append([]string{}, it.xs...), "cut")}, d+1)
				} else if t.High == it.v || t.Low == it.v {
					follow(item{t, append(append([]string{}, it.xs...), "bound")}, d+1)
				}
			case *ssa.Store:
				if t.Val != it.v {
					continue
				}
				if al, _, ok := addrPath(t.Addr); ok && al.Comment == "varargs" {
					// argument of a variadic call (error message, append of one element)
					if ap := varargsAppend(al); ap != nil {
						follow(item{ap, append(append([]string{}, it.xs...), "append")}, d+1)
					}
					continue
				}
				if ia, ok := t.Addr.(*ssa.IndexAddr); ok {
					if al, ok := ia.X.(*ssa.Alloc); ok && al.Comment == "varargs" {
						if ap := varargsAppend(al); ap != nil {
							follow(item{ap, append(append([]string{}, it.xs...), "append")}, d+1)
						}
						continue
					}
				}
				flowStores[t] = true
				p := x.apply(x.pathOf(t.Addr, 0))
				// a local cell: continue from its loads
				if root, ok := x.localCell(t.Addr); ok && !isResultObject(root) {
					for _, ld := range x.loadsOf(root, t.Addr) {
						follow(item{ld, it.xs}, d+1)
					}
					if strings.HasPrefix(p, "%") && len(dsts) == 0 {
						// also record the cell itself in case nothing downstream is found
						defer func(p string, xs []string) {
							if len(dsts) == 0 {
								addDst(p, xs)
							}
						}(p, it.xs)
					}
					continue
				}
				addDst(p, it.xs)
			case *ssa.Call:
				cc := t.Common()
				if isBuiltinCall(cc, "copy") && len(cc.Args) == 2 && cc.Args[1] == it.v {
					addDst(x.apply(x.pathOf(cc.Args[0], 0)), append(append([]string{}, it.xs...), "copy"))
					continue
				}
				if isBuiltinCall(cc, "append") {
					// appended to a list that is then stored
					if len(cc.Args) > 1 && (cc.Args[1] == it.v || isVarargsOf(cc.Args[1], it.v)) {
						follow(item{t, append(append([]string{}, it.xs...), "append")}, d+1)
					} else if cc.Args[0] == it.v {
						follow(item{t, it.xs}, d+1)
					}
					continue
				}
				if sf := cc.StaticCallee(); sf != nil {
					name := sf.Name()
					switch {
					case funcKey(sf) == "net.CIDRMask" && cc.Args[0] == it.v:
						if k, ok := intConst(cc.Args[1]); ok {
							follow(item{t, append(append([]string{}, it.xs...), fmt.Sprintf("cidrmask:%d", k))}, d+1)
						}
					case strings.Contains(name, "romBytes") && sf.Signature.Recv() != nil && len(cc.Args) > 1 && cc.Args[0] != it.v,
						strings.HasPrefix(name, "FromBytes") || name == "FromBigEndian" || name == "DUIDFromBytes" || name == "MessageFromBytes" || name == "ParseOption":
						// delegated decoding of these bytes into the receiver/arg
						tgt := ""
						if sf.Signature.Recv() != nil {
							tgt = x.apply(x.pathOf(cc.Args[0], 0))
						} else if name == "FromBigEndian" {
							tgt = x.apply(x.pathOf(cc.Args[0], 0))
						} else {
							// result value: follow it
							if t.Type() != nil && !isErrorType(t.Type()) {
								if _, isTuple := t.Type().(*types.Tuple); !isTuple {
									follow(item{t, append(append([]string{}, it.xs...), "dec("+shortName(sf)+")")}, d+1)
								}
							}
							if ex := extractOf(t, 0); ex != nil {
								follow(item{ex, append(append([]string{}, it.xs...), "dec("+shortName(sf)+")")}, d+1)
							}
							continue
						}
						addDst(tgt, append(append([]string{}, it.xs...), "dec("+typeTagOfRecv(sf, cc)+")"))
					default:
						// a module function that stores the value handed to it (o.Add(opt), list.push(v)): where the callee
						// puts its parameter, in the caller's terms
						if inModule(sf) && sf.Blocks != nil && x.depth < 3 && (len(sf.Blocks) <= 4 || freshConstructor(sf)) {
							for ai, a := range cc.Args {
								if a != it.v || ai >= len(sf.Params) {
									continue
								}
								sub := &e2Ctx{c: x.c, fn: sf, lex: map[ssa.Value]bool{}, enc: false, subst: map[string]string{}, visited: map[*ssa.BasicBlock]int{}, depth: x.depth + 1}
								for j, p := range sf.Params {
									if j < len(cc.Args) {
										sub.subst[x.c.Sx().Of(p).String()] = x.apply(x.pathOf(cc.Args[j], 0))
									}
								}
								if dcal, xcal := sub.dstOf(sf.Params[ai]); dcal != "_" && !strings.HasPrefix(dcal, "return") {
									var r []string
									for i := len(it.xs) - 1; i >= 0; i-- {
										r = append(r, it.xs[i])
									}
									xf := xformClass(r)
									if xcal != "" {
										if xf != "" {
											xf += "&"
										}
										xf += xcal
									}
									dsts = append(dsts, dcal)
									xfs = append(xfs, xf)
								}
							}
						}
						if inModule(sf) && freshConstructor(sf) {
							// the result is a new object chosen by the value, not the value
						} else if inModule(sf) && sf.Signature.Results().Len() >= 1 {
							if _, isTuple := t.Type().(*types.Tuple); !isTuple && !isErrorType(t.Type()) {
								follow(item{t, append(append([]string{}, it.xs...), "call:"+sf.Name())}, d+1)
							}
							if ex := extractOf(t, 0); ex != nil {
								follow(item{ex, append(append([]string{}, it.xs...), "call:"+sf.Name())}, d+1)
							}
						} else if funcKey(sf) == "strings.Join" && len(cc.Args) == 2 && cc.Args[0] == it.v {
							// the pieces collected in a list and joined once are the pieces concatenated one by one: the list
							// level disappears, the value becomes part of a concatenation
							xs2 := append([]string{}, it.xs...)
							for i := len(xs2) - 1; i >= 0; i-- {
								if xs2[i] == "append" {
									xs2 = append(xs2[:i:i], xs2[i+1:]...)
									break
								}
							}
							follow(item{t, append(xs2, "bin+")}, d+1)
						} else if !inModule(sf) && !inUio(sf) && sf.Signature.Results().Len() == 1 {
							// a library function applied to the value (ip.To4(), bytes.TrimRight(b, …)): what it
							// returns may be (a transform of) the value read
							rt := sf.Signature.Results().At(0).Type()
							if bt, isB := rt.Underlying().(*types.Basic); !isErrorType(rt) && !(isB && bt.Kind() == types.Bool) {
								follow(item{t, append(append([]string{}, it.xs...), "call:"+sf.Name())}, d+1)
							}
						}
					}
				} else if cc.IsInvoke() && strings.HasPrefix(cc.Method.Name(), "FromBytes") {
					addDst(x.apply(x.pathOf(cc.Value, 0)), append(append([]string{}, it.xs...), "dec("+typeTag(cc.Value.Type())+")"))
				} else if !cc.IsInvoke() && sf == nil {
					// call through a function value (option parser)
					if ex := extractOf(t, 0); ex != nil {
						follow(item{ex, append(append([]string{}, it.xs...), "parser")}, d+1)
					}
				}
			case *ssa.Extract:
				if !isErrorType(t.Type()) {
					follow(item{t, it.xs}, d+1)
				}
			case *ssa.MapUpdate:
				if t.Value == it.v {
					addDst(x.apply(x.pathOf(t.Map, 0))+"[key]", it.xs)
				}
			case *ssa.Return:
				if !isErrorType(it.v.Type()) {
					if x.depth > 0 {
						// inlined helper: the caller continues from the k-th result of the call
						for k, rv := range t.Results {
							if rv == it.v {
								addDst(fmt.Sprintf("return#%d", k), it.xs)
							}
						}
					} else {
						addDst("return", it.xs)
					}
				}
			case *ssa.IndexAddr, *ssa.Index:
				// element access of a consumed slice (manual decode)
				if vv, ok := ref.(ssa.Value); ok {
					follow(item{vv, append(append([]string{}, it.xs...), "elem")}, d+1)
				}
			case *ssa.UnOp:
				follow(item{t, it.xs}, d+1)
			}
		}
	}
	follow(item{v, nil}, 0)
	if len(dsts) == 0 {
		return "_", ""
	}
	// other stores into a destination field whose value does not come from this read (constant overrides)
	override := false
	for st := range flowStores {
		fa, ok := st.Addr.(*ssa.FieldAddr)
		if !ok {
			continue
		}
		allInstrs(st.Parent(), func(in ssa.Instruction) {
			s2, ok := in.(*ssa.Store)
			if !ok || flowStores[s2] {
				return
			}
			f2, ok := s2.Addr.(*ssa.FieldAddr)
			if ok && f2.Field == fa.Field && f2.X == fa.X {
				if _, isConst := s2.Val.(*ssa.Const); isConst {
					override = true
				}
			}
		})
	}
	if override {
		for i := range xfs {
			xfs[i] += "+const-override"
		}
	}
	// combine
	type pr struct{ d, x string }
	var ps []pr
	seenP := map[string]bool{}
	for i := range dsts {
		k := dsts[i] + "~" + xfs[i]
		if !seenP[k] {
			seenP[k] = true
			ps = append(ps, pr{dsts[i], xfs[i]})
		}
	}
	sort.Slice(ps, func(i, j int) bool { return ps[i].d+ps[i].x < ps[j].d+ps[j].x })
	var ds, xs []string
	for _, p := range ps {
		ds = append(ds, p.d)
		if p.x != "" {
			xs = append(xs, p.x)
		}
	}
	return strings.Join(ds, "&"), strings.Join(dedupeSorted(xs), "&")
}

func dedupeSorted(a []string) []string {
	sort.Strings(a)
	return dedupe(a)
}

func typeTagOfRecv(sf *ssa.Function, cc *ssa.CallCommon) string {
	if sf.Signature.Recv() != nil {
		return typeTag(sf.Signature.Recv().Type())
	}
	if len(cc.Args) > 0 {
		return typeTag(unboxedType(cc.Args[0]))
	}
	return "?"
}

func isVarargsOf(sl ssa.Value, v ssa.Value) bool {
	s, ok := sl.(*ssa.Slice)
	if !ok {
		return false
	}
	al, ok := s.X.(*ssa.Alloc)
	if !ok {
		return false
	}
	for _, ref := range *al.Referrers() {
		if ia, ok := ref.(*ssa.IndexAddr); ok {
			for _, r2 := range *ia.Referrers() {
				if st, ok := r2.(*ssa.Store); ok && st.Val == v {
					return true
				}
			}
		}
	}
	return false
}

// varargsAppend: the append call that consumes a varargs array
func varargsAppend(al *ssa.Alloc) ssa.Value {
	for _, ref := range *al.Referrers() {
		if sl, ok := ref.(*ssa.Slice); ok {
			for _, r2 := range *sl.Referrers() {
				if cl, ok := r2.(*ssa.Call); ok && isBuiltinCall(cl.Common(), "append") {
					return cl
				}
			}
		}
	}
	return nil
}

// isResultObject: the alloc is the object under construction (returned, stored, boxed or appended somewhere)
func isResultObject(al *ssa.Alloc) bool {
	for _, ref := range *al.Referrers() {
		switch t := ref.(type) {
		case *ssa.Return, *ssa.MakeInterface:
			return true
		case *ssa.Store:
			if t.Val == ssa.Value(al) {
				return true
			}
		case *ssa.Phi:
			return true
		}
	}
	return false
}

// localCell: addr is (a field of) a local Alloc that does not denote the receiver
func (x *e2Ctx) localCell(addr ssa.Value) (*ssa.Alloc, bool) {
	al, _, ok := addrPath(addr)
	if !ok {
		return nil, false
	}
	return al, true
}

// loadsOf: loads from the same cell path of the alloc
func (x *e2Ctx) loadsOf(al *ssa.Alloc, addr ssa.Value) []ssa.Value {
	_, want, _ := addrPath(addr)
	var out []ssa.Value
	allInstrs(al.Parent(), func(in ssa.Instruction) {
		u, ok := in.(*ssa.UnOp)
		if !ok || u.Op != token.MUL {
			return
		}
		a2, p2, ok := addrPath(u.X)
		if ok && a2 == al && p2 == want {
			out = append(out, u)
		}
		// whole-struct load of the cell (returned / appended by value)
		if ok && a2 == al && p2 == "" && want != "" {
			out = append(out, u)
		}
	})
	// address of the alloc escaping into a list (append(*r, &route)) or returned
	if want != "" {
		for _, ref := range *al.Referrers() {
			switch t := ref.(type) {
			case *ssa.Store:
				if t.Val == ssa.Value(al) {
					// stored pointer: treat the pointer value as carrier
					out = append(out, al)
				}
			case *ssa.Return, *ssa.MakeInterface:
				out = append(out, al)
			}
		}
	}
	return out
}

// bytesDst: ReadBytes(p): width and destination of p
func (x *e2Ctx) bytesDst(v ssa.Value) (string, string, string) {
	switch t := v.(type) {
	case *ssa.Slice:
		at := t.X.Type().Underlying()
		if p, ok := at.(*types.Pointer); ok {
			at = p.Elem().Underlying()
		}
		if a, ok := at.(*types.Array); ok && t.Low == nil && t.High == nil {
			// a local array: follow its uses
			if al, ok := t.X.(*ssa.Alloc); ok {
				f, xf := x.arrayUse(al)
				return fmt.Sprint(a.Len()), f, xf
			}
			return fmt.Sprint(a.Len()), x.apply(x.pathOf(t.X, 0)), ""
		}
		if t.High != nil {
			return "var(" + x.apply(x.pathOf(t.High, 0)) + ")", x.apply(x.pathOf(t.X, 0)), ""
		}
	case *ssa.ChangeType:
		return x.bytesDst(t.X)
	case *ssa.UnOp:
		// load of a field slice whose length is fixed by the nearest preceding store of a make([]T, k)
		if fa, ok := t.X.(*ssa.FieldAddr); ok {
			blk := t.Block()
			for i := instrIndex(t) - 1; i >= 0; i-- {
				st, ok := blk.Instrs[i].(*ssa.Store)
				if !ok {
					continue
				}
				fa2, ok := st.Addr.(*ssa.FieldAddr)
				if !ok || fa2.X != fa.X || fa2.Field != fa.Field {
					continue
				}
				v := st.Val
				if ct, ok := v.(*ssa.ChangeType); ok {
					v = ct.X
				}
				if mk, ok := v.(*ssa.MakeSlice); ok {
					if k, ok := intConst(mk.Len); ok {
						return fmt.Sprint(k), x.apply(x.pathOf(t.X, 0)), ""
					}
				}
				if sl, ok := v.(*ssa.Slice); ok {
					if al, ok := sl.X.(*ssa.Alloc); ok {
						if a, ok := al.Type().(*types.Pointer).Elem().Underlying().(*types.Array); ok {
							return fmt.Sprint(a.Len()), x.apply(x.pathOf(t.X, 0)), ""
						}
					}
				}
				break
			}
		}
	}
	return "var(len)", x.apply(x.pathOf(v, 0)), ""
}

// arrayUse: how a local array filled by ReadBytes is used afterwards (string(arr[:n]) → field, compare → magic)
func (x *e2Ctx) arrayUse(al *ssa.Alloc) (string, string) {
	var dsts []string
	for _, ref := range *al.Referrers() {
		switch t := ref.(type) {
		case *ssa.Slice:
			f, _ := x.dstOf(t)
			if f != "_" {
				dsts = append(dsts, f)
			}
		case *ssa.UnOp:
			// whole-array load stored on (var xid [3]byte; ReadBytes(xid[:]); m.TransactionID = xid)
			if f, _ := x.dstOf(t); f != "_" && f != "" && !strings.HasPrefix(f, "%") {
				dsts = append(dsts, f)
			}
			// whole-array load: comparison with a constant/global (magic cookie)
			for _, r2 := range *t.Referrers() {
				if bo, ok := r2.(*ssa.BinOp); ok && (bo.Op == token.EQL || bo.Op == token.NEQ) {
					other := bo.X
					if other == ssa.Value(t) {
						other = bo.Y
					}
					dsts = append(dsts, "=="+x.apply(x.pathOf(other, 0)))
				}
			}
		}
	}
	sort.Strings(dsts)
	dsts = dedupe(dsts)
	if len(dsts) == 0 {
		if al.Comment != "" {
			return "%" + al.Comment, ""
		}
		return "_", ""
	}
	return strings.Join(dsts, "&"), ""
}

// ---------------------------------------------------------------------------
// entry points

// e2Extract returns the simplified schema of a codec function.
func e2Extract(c *Ctx, f *ssa.Function, enc bool) ([]*e2Node, []string) {
	return e2ExtractWith(c, f, enc, map[string]string{}, 0)
}

// e2ExtractWith: extraction of f with its parameters described in a caller's terms (subst) — used for an encoder
// whose whole body lives in an unexported helper
func e2ExtractWith(c *Ctx, f *ssa.Function, enc bool, subst map[string]string, depth int) ([]*e2Node, []string) {
	x := &e2Ctx{c: c, fn: f, lex: map[ssa.Value]bool{}, enc: enc, subst: subst, visited: map[*ssa.BasicBlock]int{}, depth: depth}
	x.ipdom = postDominators(f)
	// the tracked Lexer: a parameter, or the result of a constructor call
	for _, p := range f.Params {
		if isLexerPtr(p.Type()) {
			x.lex[p] = true
		}
	}
	n := 0
	allInstrs(f, func(in ssa.Instruction) {
		if cl, ok := in.(*ssa.Call); ok {
			if sf := cl.Call.StaticCallee(); sf != nil && inUio(sf) && strings.HasPrefix(sf.Name(), "New") && strings.HasSuffix(sf.Name(), "Buffer") {
				x.lex[cl] = true
				n++
			}
		}
	})
	// the Lexer may come from an unexported helper that builds it and writes a common prefix (newDUIDBuffer(typ, n)):
	// the helper's call is the Lexer, and what the helper wrote comes first
	var prefix []*e2Node
	if len(x.lex) == 0 && enc && depth < 3 {
		allInstrs(f, func(in ssa.Instruction) {
			cl, ok := in.(*ssa.Call)
			if !ok || len(x.lex) > 0 {
				return
			}
			g := cl.Call.StaticCallee()
			if g == nil || !inModule(g) || g.Blocks == nil || token.IsExported(g.Name()) || g == f || !isLexerPtr(cl.Type()) || len(cl.Call.Args) != len(g.Params) {
				return
			}
			built := false
			allInstrs(g, func(i2 ssa.Instruction) {
				if c2, ok := i2.(*ssa.Call); ok {
					if sf := c2.Call.StaticCallee(); sf != nil && inUio(sf) && strings.HasPrefix(sf.Name(), "New") && strings.HasSuffix(sf.Name(), "Buffer") {
						built = true
					}
				}
			})
			if !built {
				return
			}
			sub := map[string]string{}
			for j, p := range g.Params {
				sv, _ := x.srcOf(cl.Call.Args[j])
				sub[c.Sx().Of(p).String()] = sv
			}
			ns, undec := e2ExtractWith(c, g, true, sub, depth+1)
			x.undec = append(x.undec, undec...)
			for _, n := range ns {
				if n.kind != "ret" {
					prefix = append(prefix, n)
				}
			}
			x.lex[cl] = true
			n++
		})
	}
	if len(prefix) > 0 {
		ns := e2Simplify(append(prefix, x.walk(f.Blocks[0], nil)...))
		x.resolveLocals(ns)
		e2Canon(ns)
		return ns, x.undec
	}
	if len(x.lex) == 0 && enc {
		if acc := appendAccumulator(f); acc != nil {
			x.acc = acc
			raw := x.walk(f.Blocks[0], nil)
			if lit := accLiteral[f]; lit != nil {
				w, fl, xf := x.bytesSrc(lit)
				raw = append([]*e2Node{{kind: "slot", w: w, f: fl, x: xf, pos: x.c.P.pos(f.Pos())}}, raw...)
			}
			ns := e2Simplify(raw)
			x.resolveLocals(ns)
			e2Canon(ns)
			return ns, x.undec
		}
	}
	if len(x.lex) == 0 {
		return x.noLexer(f, enc), x.undec
	}
	if len(x.lex) > 1 {
		x.undecided("several Lexers in " + shortName(f))
	}
	ns := e2Simplify(x.walk(f.Blocks[0], nil))
	x.resolveLocals(ns)
	e2Canon(ns)
	return ns, x.undec
}

// noLexer: codecs that do not use a Lexer: encoders returning a byte expression directly, decoders
// that convert / copy / delegate their whole parameter.
func (x *e2Ctx) noLexer(f *ssa.Function, enc bool) []*e2Node {
	if enc {
		// the whole encoding may be produced by an unexported helper that builds the Lexer itself
		// (`return ipv6AddrsToBytes(op.NameServers)`): the helper's schema with its parameters in this function's terms
		if rets := returnsOf(f); len(rets) == 1 && len(rets[0].Results) == 1 && x.depth < 3 {
			if cl, ok := rets[0].Results[0].(*ssa.Call); ok {
				if g := cl.Call.StaticCallee(); g != nil && inModule(g) && g.Blocks != nil && !token.IsExported(g.Name()) && g.Signature.Recv() == nil && g != f && len(cl.Call.Args) == len(g.Params) && buildsEncoding(g) {
					sub := map[string]string{}
					for j, p := range g.Params {
						s, _ := x.srcOf(cl.Call.Args[j])
						sub[x.c.Sx().Of(p).String()] = s
					}
					ns, undec := e2ExtractWith(x.c, g, true, sub, x.depth+1)
					x.undec = append(x.undec, undec...)
					return ns
				}
			}
		}
		var alts [][]*e2Node
		seen := map[string]bool{}
		for _, r := range returnsOf(f) {
			if len(r.Results) == 0 {
				continue
			}
			w, fld, xf := x.bytesSrc(r.Results[0])
			n := []*e2Node{{kind: "slot", w: w, f: fld, x: xf, pos: x.c.P.ipos(r)}}
			if k := e2Str(n); !seen[k] {
				seen[k] = true
				alts = append(alts, n)
			}
		}
		sort.Slice(alts, func(i, j int) bool { return e2Str(alts[i]) < e2Str(alts[j]) })
		switch len(alts) {
		case 0:
			x.undecided("encoder without Lexer and without result in " + shortName(f))
			return nil
		case 1:
			return append(e2Simplify(alts[0]), &e2Node{kind: "ret", note: "enc"})
		}
		cur := alts[0]
		for _, a := range alts[1:] {
			cur = []*e2Node{{kind: "alt", a: cur, b: a}}
		}
		return append(cur, &e2Node{kind: "ret", note: "enc"})
	}
	// decoder: the []byte parameter as one slot
	var prm *ssa.Parameter
	for i, p := range f.Params {
		if i == 0 && f.Signature.Recv() != nil {
			continue
		}
		if isByteSlice(p.Type()) {
			prm = p
			break
		}
	}
	if prm == nil {
		x.undecided("decoder without Lexer and without []byte parameter in " + shortName(f))
		return nil
	}
	// the reads may live in an unexported helper that receives the whole parameter and builds the Lexer itself
	// (b, err := copyIPv4(data); *i = IP(b); return err): the helper's schema, with what leaves it through its k-th
	// result continued in this function, and the error it returns classified inside the helper
	if ns, ok := x.bytesHelper(f, prm); ok {
		return ns
	}
	if ns, ok := x.manualPrefix(f, prm); ok {
		return ns
	}
	fld, xf := x.dstOf(prm)
	w := "rest"
	// exact-length guard
	gc := newGuardCache(x.c)
	for _, r := range returnsOf(f) {
		if len(r.Results) > 0 && isNilConst(r.Results[len(r.Results)-1]) {
			lo, hi := gc.lenBounds(r.Block(), func(v ssa.Value) bool {
				cl, ok := v.(*ssa.Call)
				return ok && isBuiltinCall(cl.Common(), "len") && cl.Call.Args[0] == ssa.Value(prm)
			})
			if hi >= 0 && lo == hi {
				w = fmt.Sprint(lo)
			}
		}
	}
	// classify returns
	note := ""
	for _, r := range returnsOf(f) {
		n := x.retNode(r)
		if n.kind == "ret" {
			note = n.note
		}
	}
	return []*e2Node{{kind: "slot", w: w, f: fld, x: xf, pos: x.c.P.pos(f.Pos())}, {kind: "ret", note: note}}
}

// resolveLocals: replace references to local cells (%name.field) by what flows into (encoder) or out of
// (decoder) them in this function.
func (x *e2Ctx) resolveLocals(ns []*e2Node) {
	for _, n := range ns {
		switch n.kind {
		case "loop":
			x.resolveLocals(n.a)
		case "alt":
			x.resolveLocals(n.a)
			x.resolveLocals(n.b)
		case "slot":
			n.f = x.resolveLocalStr(n.f, n)
			n.w = x.resolveLocalStr(n.w, nil)
		}
	}
}

func (x *e2Ctx) resolveLocalStr(s string, n *e2Node) string {
	for iter := 0; iter < 4 && strings.Contains(s, "%"); iter++ {
		i := strings.Index(s, "%")
		j := i + 1
		for j < len(s) && (isIdentByte(s[j]) || s[j] == '.') {
			j++
		}
		ref := s[i+1 : j]
		parts := strings.Split(ref, ".")
		var al *ssa.Alloc
		allInstrs(x.fn, func(in ssa.Instruction) {
			if a, ok := in.(*ssa.Alloc); ok && localAllocName(a) == parts[0] {
				al = a
			}
		})
		if al == nil {
			break
		}
		rep := ""
		if x.enc {
			// the single store into that cell path
			for _, ref := range *al.Referrers() {
				var addr ssa.Value
				switch t := ref.(type) {
				case *ssa.FieldAddr:
					addr = t
				case *ssa.Store:
					if t.Addr == ssa.Value(al) {
						rep = x.apply(x.pathOf(t.Val, 0))
						if len(parts) > 1 {
							rep = joinPath(rep, strings.Join(parts[1:], "."))
						}
					}
				}
				if fa, ok := addr.(*ssa.FieldAddr); ok && len(parts) >= 2 {
					if derefStruct(fa.X.Type()).Field(fa.Field).Name() == parts[1] {
						for _, r2 := range *fa.Referrers() {
							if st, ok := r2.(*ssa.Store); ok && st.Addr == ssa.Value(fa) {
								f, xf := x.srcOf(st.Val)
								rep = f
								if len(parts) > 2 {
									rep = joinPath(rep, strings.Join(parts[2:], "."))
								}
								if xf != "" && n != nil {
									n.x = xf + tildeIf(n.x)
								}
							}
						}
					}
				}
			}
		} else {
			// loads of that cell path flow on
			for _, ref := range *al.Referrers() {
				if fa, ok := ref.(*ssa.FieldAddr); ok && len(parts) >= 2 && derefStruct(fa.X.Type()).Field(fa.Field).Name() == parts[1] {
					for _, r2 := range *fa.Referrers() {
						if u, ok := r2.(*ssa.UnOp); ok && u.Op == token.MUL {
							f, _ := x.dstOf(u)
							if f != "_" {
								rep = f
							}
						}
					}
				}
			}
		}
		if rep == "" {
			break
		}
		s = s[:i] + rep + s[j:]
	}
	return s
}

// localAllocName: the name under which a local cell appears in paths before it is resolved: its source
// name, or for an unnamed composite literal "c<k>" (k-th alloc of the function; several temporaries of one
// type must stay distinct)
func localAllocName(a *ssa.Alloc) string {
	if a.Comment != "" && a.Comment != "complit" {
		return a.Comment
	}
	k := 0
	if fn := a.Parent(); fn != nil {
		for _, b := range fn.Blocks {
			for _, in := range b.Instrs {
				if x, ok := in.(*ssa.Alloc); ok {
					if x == a {
						return fmt.Sprintf("c%d", k)
					}
					k++
				}
			}
		}
	}
	return "c"
}

func isIdentByte(c byte) bool {
	return c == '_' || (c >= '0' && c <= '9') || (c >= 'a' && c <= 'z') || (c >= 'A' && c <= 'Z')
}

// e2Canon: encoder idiom `k:len(F) var:F` becomes `k:len var(len):F`, matching the decoder's vocabulary
func e2Canon(ns []*e2Node) {
	for i, n := range ns {
		switch n.kind {
		case "loop":
			e2Canon(n.a)
		case "alt":
			e2Canon(n.a)
			e2Canon(n.b)
		case "slot":
			if i+1 < len(ns) && ns[i+1].kind == "slot" && strings.HasPrefix(n.f, "len(") && strings.HasSuffix(n.f, ")") {
				inner := n.f[4 : len(n.f)-1]
				nx := ns[i+1]
				if nx.f == inner || strings.HasPrefix(inner, nx.f+".") || strings.HasPrefix(inner, nx.f) {
					n.f = "len"
					if nx.w == "var" || strings.HasPrefix(nx.w, "enc(") {
						nx.w = "var(len)"
					}
				}
			}
		}
	}
}

// flagsOf: a byte assembled from constants under conditions on fields (flags |= mask): the set of
// controlling conditions and the set of masks.
func (x *e2Ctx) flagsOf(p *ssa.Phi) string {
	conds := map[string]bool{}
	masks := map[int64]bool{}
	seen := map[ssa.Value]bool{}
	ok := true
	var visit func(v ssa.Value)
	visit = func(v ssa.Value) {
		if seen[v] {
			return
		}
		seen[v] = true
		switch t := v.(type) {
		case *ssa.Phi:
			// the If controlling this join
			if id := t.Block().Idom(); id != nil {
				if iff := ifOf(id); iff != nil {
					conds[x.apply(x.pathOf(iff.Cond, 0))] = true
				}
			}
			for _, e := range t.Edges {
				visit(e)
			}
		case *ssa.Const:
			if k, isInt := intConst(t); isInt {
				masks[k] = true
			}
		case *ssa.BinOp:
			if t.Op == token.OR || t.Op == token.ADD {
				visit(t.X)
				visit(t.Y)
			} else {
				ok = false
			}
		default:
			ok = false
		}
	}
	visit(p)
	if !ok || len(conds) == 0 {
		return ""
	}
	var cs []string
	for c := range conds {
		cs = append(cs, c)
	}
	sort.Strings(cs)
	var ms []int
	for m := range masks {
		ms = append(ms, int(m))
	}
	sort.Ints(ms)
	return fmt.Sprintf("{%s}:%v", strings.Join(cs, ","), ms)
}

// stripBytesConv: x for []byte(x) / string(x) conversions, else v
func stripBytesConv(v ssa.Value) ssa.Value {
	for i := 0; i < 3; i++ {
		switch t := v.(type) {
		case *ssa.Convert:
			v = t.X
			continue
		case *ssa.ChangeType:
			v = t.X
			continue
		}
		break
	}
	return v
}

// bytesHelper: see noLexer. Recognised: exactly one call of an unexported module function h with the decoder's own
// []byte parameter as an argument; h constructs one Lexer over that parameter; the decoder returns, as its error, the
// error result of that call (on every path that is not a definite failure).
func (x *e2Ctx) bytesHelper(f *ssa.Function, prm *ssa.Parameter) ([]*e2Node, bool) {
	if x.depth > 0 {
		return nil, false
	}
	var call *ssa.Call
	nCalls := 0
	argIdx := -1
	allInstrs(f, func(in ssa.Instruction) {
		cl, ok := in.(*ssa.Call)
		if !ok {
			return
		}
		h := cl.Call.StaticCallee()
		if h == nil || !inModule(h) || h.Blocks == nil || token.IsExported(h.Name()) || h.Signature.Recv() != nil {
			return
		}
		for i, a := range cl.Call.Args {
			if a == ssa.Value(prm) {
				call, argIdx = cl, i
				nCalls++
			}
		}
	})
	if nCalls != 1 || call == nil {
		return nil, false
	}
	h := call.Call.StaticCallee()
	nres := h.Signature.Results().Len()
	if nres == 0 || !isErrorType(h.Signature.Results().At(nres-1).Type()) {
		return nil, false
	}
	sub := &e2Ctx{c: x.c, fn: h, lex: map[ssa.Value]bool{}, enc: false, depth: 1, subst: map[string]string{}, visited: map[*ssa.BasicBlock]int{}}
	sub.ipdom = postDominators(h)
	nLex := 0
	allInstrs(h, func(in ssa.Instruction) {
		if cl, ok := in.(*ssa.Call); ok {
			if sf := cl.Call.StaticCallee(); sf != nil && inUio(sf) && strings.HasPrefix(sf.Name(), "New") && strings.HasSuffix(sf.Name(), "Buffer") {
				if len(cl.Call.Args) >= 1 && cl.Call.Args[0] == ssa.Value(h.Params[argIdx]) {
					sub.lex[cl] = true
					nLex++
				}
			}
		}
	})
	if nLex != 1 {
		return nil, false
	}
	// the decoder's own error results: the helper's error, or a definite failure
	var errv ssa.Value = call
	if nres > 1 {
		ex := extractOf(call, nres-1)
		if ex == nil {
			return nil, false
		}
		errv = ex
	}
	for _, r := range returnsOf(f) {
		if len(r.Results) == 0 {
			return nil, false
		}
		ev := r.Results[len(r.Results)-1]
		if ev != errv && !definitelyError(ev, r) {
			return nil, false
		}
	}
	ns := sub.walk(h.Blocks[0], nil)
	sub.resolveLocals(ns)
	x.undec = append(x.undec, sub.undec...)
	ns = e2Simplify(ns)
	x.bindReturns(ns, call)
	e2Canon(ns)
	return ns, true
}

// splitDecision: "{cond}?[A : B]" → (cond, A, B)
func splitDecision(s string) (string, string, string, bool) {
	if !strings.HasPrefix(s, "{") || !strings.HasSuffix(s, "]") {
		return "", "", "", false
	}
	d, end := 0, -1
	for i := 0; i < len(s); i++ {
		if s[i] == '{' {
			d++
		} else if s[i] == '}' {
			d--
			if d == 0 {
				end = i
				break
			}
		}
	}
	if end < 0 || !strings.HasPrefix(s[end+1:], "?[") {
		return "", "", "", false
	}
	inner := s[end+3 : len(s)-1]
	i := splitTop(inner, " : ")
	if i < 0 {
		return "", "", "", false
	}
	return s[1:end], inner[:i], inner[i+3:], true
}

// varargsInOrder: the values stored into a variadic argument array, by index
func varargsInOrder(al *ssa.Alloc) []ssa.Value {
	items := map[int64]ssa.Value{}
	for _, ref := range *al.Referrers() {
		if ia, ok := ref.(*ssa.IndexAddr); ok {
			k, _ := intConst(ia.Index)
			for _, r2 := range *ia.Referrers() {
				if st, ok := r2.(*ssa.Store); ok && st.Addr == ssa.Value(ia) {
					items[k] = st.Val
				}
			}
		}
	}
	var out []ssa.Value
	for i := int64(0); i < int64(len(items)); i++ {
		out = append(out, items[i])
	}
	return out
}

// appendAccumulator: the encoder returns (on every path) a local []byte that starts empty and is only ever extended by
// append / binary.BigEndian.AppendUintN inside the function, with at least one such extension in a loop: the set of SSA
// values that make up that accumulator. nil when the function is not of this form.
// accLiteral: the literal an append-built result starts from, per function (set by appendAccumulator)
var accLiteral = map[*ssa.Function]ssa.Value{}

func appendAccumulator(f *ssa.Function) map[ssa.Value]bool {
	acc := map[ssa.Value]bool{}
	ok := true
	inLoop := false
	var visit func(v ssa.Value, d int)
	visit = func(v ssa.Value, d int) {
		if !ok || acc[v] || d > 24 {
			return
		}
		switch t := v.(type) {
		case *ssa.Const:
			if t.Value != nil {
				ok = false
			}
			acc[v] = true
		case *ssa.MakeSlice:
			if k, isK := intConst(t.Len); !isK || k != 0 {
				ok = false
			}
			acc[v] = true
		case *ssa.Slice:
			// the accumulator starts from a literal []byte{a, b}: its elements are the first slots
			if al, isAl := t.X.(*ssa.Alloc); isAl && al.Comment == "slicelit" && t.Low == nil && t.High == nil {
				acc[v] = true
				accLiteral[al.Parent()] = v
			} else if isAl && al.Comment == "makeslice" && t.Low == nil && t.High != nil {
				// make([]byte, 0, K) with constant K: an empty accumulator with room
				if k, isK := intConst(t.High); isK && k == 0 {
					acc[v] = true
				} else {
					ok = false
				}
			} else {
				ok = false
			}
		case *ssa.Phi:
			acc[v] = true
			for _, e := range t.Edges {
				visit(e, d+1)
			}
		case *ssa.Call:
			switch {
			case isBuiltinCall(t.Common(), "append") && len(t.Call.Args) == 2:
				acc[v] = true
				inLoop = inLoop || inCycle(t.Block())
				visit(t.Call.Args[0], d+1)
			case t.Call.StaticCallee() != nil && strings.HasPrefix(funcKey(t.Call.StaticCallee()), "(encoding/binary.bigEndian).AppendUint") && len(t.Call.Args) == 3:
				acc[v] = true
				inLoop = true // a fixed-width write: the chain is a write cursor also without a loop
				visit(t.Call.Args[1], d+1)
			default:
				ok = false
			}
		default:
			ok = false
		}
	}
	rets := returnsOf(f)
	if len(rets) == 0 {
		return nil
	}
	for _, r := range rets {
		if len(r.Results) != 1 {
			return nil
		}
		visit(r.Results[0], 0)
	}
	if !ok || !inLoop {
		return nil
	}
	return acc
}

// manualPrefix: a decoder without a Lexer that peels fixed-size big-endian fields off the front of its parameter with
// constant slice bounds and hands the remainder on: p[:2] → binary.BigEndian.Uint16, p[2:] → nested decoder. The pieces
// must tile the parameter from offset 0 with the last one open-ended.
func (x *e2Ctx) manualPrefix(f *ssa.Function, prm *ssa.Parameter) ([]*e2Node, bool) {
	type piece struct {
		lo, hi int64 // hi = -1: open end
		sl     *ssa.Slice
	}
	var ps []piece
	for _, ref := range *prm.Referrers() {
		switch t := ref.(type) {
		case *ssa.Slice:
			if t.X != ssa.Value(prm) || t.Max != nil {
				return nil, false
			}
			p := piece{0, -1, t}
			if t.Low != nil {
				k, ok := intConst(t.Low)
				if !ok {
					return nil, false
				}
				p.lo = k
			}
			if t.High != nil {
				k, ok := intConst(t.High)
				if !ok {
					return nil, false
				}
				p.hi = k
			}
			ps = append(ps, p)
		case *ssa.DebugRef:
		case *ssa.Call:
			if !isBuiltinCall(t.Common(), "len") {
				return nil, false
			}
		default:
			return nil, false
		}
	}
	if len(ps) < 2 {
		return nil, false
	}
	sort.Slice(ps, func(i, j int) bool { return ps[i].lo < ps[j].lo })
	if ps[0].lo != 0 || ps[len(ps)-1].hi != -1 {
		return nil, false
	}
	var out []*e2Node
	for i, p := range ps {
		if i+1 < len(ps) {
			if p.hi != ps[i+1].lo {
				return nil, false
			}
			// consumed by binary.BigEndian.UintN of exactly that width
			var rd *ssa.Call
			for _, ref := range *p.sl.Referrers() {
				if cl, ok := ref.(*ssa.Call); ok && cl.Call.StaticCallee() != nil {
					if w, ok := map[string]int64{"(encoding/binary.bigEndian).Uint16": 2, "(encoding/binary.bigEndian).Uint32": 4, "(encoding/binary.bigEndian).Uint64": 8}[funcKey(cl.Call.StaticCallee())]; ok && w == p.hi-p.lo {
						rd = cl
					}
				}
			}
			if rd == nil {
				return nil, false
			}
			fld, xf := x.dstOf(rd)
			out = append(out, &e2Node{kind: "slot", w: fmt.Sprint(p.hi - p.lo), f: fld, x: xf, pos: x.c.P.ipos(rd)})
			continue
		}
		fld, xf := x.dstOf(p.sl)
		out = append(out, &e2Node{kind: "slot", w: "rest", f: fld, x: xf, pos: x.c.P.ipos(p.sl)})
	}
	note := ""
	for _, r := range returnsOf(f) {
		if n := x.retNode(r); n.kind == "ret" {
			note = n.note
		}
	}
	return append(out, &e2Node{kind: "ret", note: note}), true
}

// buildsEncoding: g creates a Lexer of its own or accumulates its result by appends
func buildsEncoding(g *ssa.Function) bool {
	found := false
	allInstrs(g, func(in ssa.Instruction) {
		if cl, ok := in.(*ssa.Call); ok {
			if sf := cl.Call.StaticCallee(); sf != nil && inUio(sf) && strings.HasPrefix(sf.Name(), "New") && strings.HasSuffix(sf.Name(), "Buffer") {
				found = true
			}
		}
	})
	return found || appendAccumulator(g) != nil
}

// constFold: the integer value of a constant or of |, +, & over constants (go/ssa does not fold `0 | mask`)
func constFold(v ssa.Value) (int64, bool) {
	if k, ok := intConst(v); ok {
		return k, true
	}
	if bo, ok := v.(*ssa.BinOp); ok {
		a, okA := constFold(bo.X)
		b, okB := constFold(bo.Y)
		if okA && okB {
			switch bo.Op {
			case token.OR:
				return a | b, true
			case token.ADD:
				return a + b, true
			case token.AND:
				return a & b, true
			}
		}
	}
	if cv, ok := v.(*ssa.Convert); ok {
		return constFold(cv.X)
	}
	return 0, false
}

// loopBound: "len(<path>)" when the loop at header b runs a counter up to the length of a collection (range loops)
func (x *e2Ctx) loopBound(b *ssa.BasicBlock) string {
	iff := ifOf(b)
	if iff == nil {
		return ""
	}
	bo, ok := iff.Cond.(*ssa.BinOp)
	if !ok || bo.Op != token.LSS {
		return ""
	}
	if lo := lenOperand(bo.Y); lo != nil {
		return "len(" + x.apply(x.pathOf(lo, 0)) + ")"
	}
	return ""
}

// e2EmptyGuard: alt{cond: len(P)==0, one side: nothing but the return, other side: loops bounded by len(P) then the same
// return} → the other side
func e2EmptyGuard(n *e2Node) []*e2Node {
	c := strings.TrimSuffix(strings.TrimPrefix(n.note, "("), ")")
	var bound string
	empty, full := n.a, n.b
	switch {
	case strings.HasSuffix(c, "==const:0"):
		bound = strings.TrimSuffix(c, "==const:0")
	case strings.HasSuffix(c, "!=const:0"):
		bound = strings.TrimSuffix(c, "!=const:0")
		empty, full = n.b, n.a
	default:
		return nil
	}
	if !strings.HasPrefix(bound, "len(") || len(empty) != 1 || empty[0].kind != "ret" || len(full) < 2 {
		return nil
	}
	last := full[len(full)-1]
	if last.kind != "ret" || last.note != empty[0].note {
		return nil
	}
	for _, m := range full[:len(full)-1] {
		if m.kind != "loop" || m.note != bound {
			return nil
		}
	}
	return full
}

// freshConstructor: an unexported function of the module without loops or calls whose single result is, on every return,
// an object allocated in it (possibly boxed in an interface), and whose only stores go into those objects —
// `func newDUID(typ DUIDType) DUID { switch typ { case …: return &DUIDLLT{} … default: return &DUIDOpaque{Type: typ} } }`.
// A call of it stands for the allocation of the object a decoder is building.
var freshCtorMemo = map[*ssa.Function]bool{}

func freshConstructor(f *ssa.Function) bool {
	if v, ok := freshCtorMemo[f]; ok {
		return v
	}
	res := func() bool {
		if f == nil || f.Blocks == nil || !inModule(f) || token.IsExported(f.Name()) || f.Signature.Recv() != nil || f.Signature.Results().Len() != 1 {
			return false
		}
		for _, b := range f.Blocks {
			if inCycle(b) {
				return false
			}
		}
		allocOf := func(v ssa.Value) *ssa.Alloc {
			for {
				switch t := v.(type) {
				case *ssa.MakeInterface:
					v = t.X
					continue
				case *ssa.ChangeType:
					v = t.X
					continue
				}
				break
			}
			al, _ := v.(*ssa.Alloc)
			if al != nil && al.Heap {
				return al
			}
			return nil
		}
		fresh := map[*ssa.Alloc]bool{}
		rets := returnsOf(f)
		if len(rets) < 2 {
			return false // a single return is within reach of the source inliner
		}
		for _, r := range rets {
			al := allocOf(r.Results[0])
			if al == nil {
				return false
			}
			fresh[al] = true
		}
		ok := true
		allInstrs(f, func(in ssa.Instruction) {
			switch t := in.(type) {
			case *ssa.Call, *ssa.Go, *ssa.Defer, *ssa.Send, *ssa.MapUpdate, *ssa.Panic:
				_ = t
				ok = false
			case *ssa.Store:
				root := t.Addr
				for {
					if fa, isFA := root.(*ssa.FieldAddr); isFA {
						root = fa.X
						continue
					}
					break
				}
				al, isAl := root.(*ssa.Alloc)
				if !isAl || !(fresh[al] || !al.Heap) {
					ok = false
				}
			}
		})
		return ok
	}()
	freshCtorMemo[f] = res
	return res
}

// delegatedThenNil: `if err := d.FromBytes(rest); err != nil { return d, err }; return d, nil` is
// `return d, d.FromBytes(rest)`: the return of a nil error sits directly on the nil edge of a test of the error of a
// delegated call made in the testing block, the other edge returns that error unchanged, and nothing else happens on the
// way. Returns the note of the equivalent direct return, or "".
func (x *e2Ctx) delegatedThenNil(r *ssa.Return) string {
	b := r.Block()
	if len(b.Preds) != 1 {
		return ""
	}
	for _, in := range b.Instrs {
		switch in.(type) {
		case *ssa.Return, *ssa.DebugRef, *ssa.MakeInterface, *ssa.ChangeInterface, *ssa.UnOp:
		default:
			return ""
		}
	}
	g := b.Preds[0]
	iff := ifOf(g)
	if iff == nil {
		return ""
	}
	var errV ssa.Value
	nl, nn, ok := nilEdgesOf(iff, func(v ssa.Value) bool {
		if isErrorType(v.Type()) {
			errV = v
			return true
		}
		return false
	})
	if !ok || nl.To != b || errV == nil {
		return ""
	}
	cl, isCall := errV.(*ssa.Call)
	if !isCall || cl.Block() != g {
		return ""
	}
	// the failing side hands the same error on
	fb := nn.To
	fr, isRet := fb.Instrs[len(fb.Instrs)-1].(*ssa.Return)
	if !isRet || len(fr.Results) == 0 || fr.Results[len(fr.Results)-1] != errV || len(fr.Results) != len(r.Results) {
		return ""
	}
	for i := 0; i < len(r.Results)-1; i++ {
		if r.Results[i] != fr.Results[i] {
			return ""
		}
	}
	// the delegated call is the last call of the testing block
	for i := len(g.Instrs) - 1; i >= 0; i-- {
		if c2, ok := g.Instrs[i].(*ssa.Call); ok {
			if c2 != cl {
				return ""
			}
			break
		}
	}
	if sf := cl.Call.StaticCallee(); sf != nil {
		k := funcKey(sf)
		if strings.HasSuffix(k, "uio.Lexer).FinError") || strings.HasSuffix(k, "uio.Lexer).Error") {
			return ""
		}
		return "delegated:" + shortName(sf)
	}
	if cl.Call.IsInvoke() {
		return "delegated:" + cl.Call.Method.Name()
	}
	return ""
}
