#!/bin/bash
# false-alarm measurement: behaviour-preserving refactorings (/verif/refactors/<name>/patch.diff) x all checks.
# usage: tools/refmatrix.sh [name ...]   (default: all).  Full output per refactoring in /tmp/refout/<name>.txt
cd /verif
mkdir -p /tmp/refout /tmp/matrix-verif/spec
cp spec/*.json /tmp/matrix-verif/spec/; cp known_findings.json /tmp/matrix-verif/
names="$@"; [ -z "$names" ] && names=$(ls refactors)
for name in $names; do
  p=/verif/refactors/$name/patch.diff
  git -C /repo apply $p 2>/dev/null || { echo "$name: PATCH DOES NOT APPLY"; continue; }
  res=$(bin/dhcpverif check all --verif /tmp/matrix-verif 2>&1)
  git -C /repo checkout -- . ; git -C /repo clean -fdq
  echo "$res" > /tmp/refout/$name.txt
  props=$(echo "$res" | grep "^VIOLATION" | sed 's/.*property=\(C[0-9]*\).*/\1/' | sort -u | tr '\n' ' ')
  echo "$name: ${props:-clean}"
  echo "$res" | grep -A2 "^VIOLATION" | grep -v "^VIOLATION\|^--" | paste - - | cut -c1-260 | sort -u | head -${REF_LINES:-0}
done
