package main

// Comparison of extracted wire schemas (E2) with spec/layouts.json.

import (
	"encoding/json"
	"fmt"
	"go/token"
	"os"
	"path/filepath"
	"sort"
	"strings"

	"golang.org/x/tools/go/ssa"
)

type layoutRow struct {
	Dir         string `json:"dir"`
	RFC         string `json:"rfc"`
	RFCSkeleton string `json:"rfc_skeleton"`
	Skeleton    string `json:"skeleton"`
	Schema      string `json:"schema"`
}

func loadLayouts(verif string) (map[string]*layoutRow, error) {
	b, err := os.ReadFile(filepath.Join(verif, "spec", "layouts.json"))
	if err != nil {
		return nil, err
	}
	var f struct {
		Layouts map[string]*layoutRow `json:"layouts"`
	}
	if err := json.Unmarshal(b, &f); err != nil {
		return nil, fmt.Errorf("spec/layouts.json: %v", err)
	}
	return f.Layouts, nil
}

// e2CheckLayouts compares every codec function selected by `sel` with its reviewed row.
func e2CheckLayouts(c *Ctx, rule string, sel func(name string, f *ssa.Function) bool, minRows int) {
	r := c.R
	rows, err := loadLayouts(c.Verif)
	if err != nil {
		r.Undecided(rule, "spec/layouts.json", "-", err.Error())
		return
	}
	encs, decs := codecFuncs(c.P)
	seen := map[string]bool{}
	n := 0
	check := func(f *ssa.Function, enc bool) {
		name := shortName(f)
		if !sel(name, f) {
			return
		}
		seen[name] = true
		ns, und := e2Extract(c, f, enc)
		for _, u := range und {
			r.Undecided(rule, name+": codec idiom not recognised", c.P.pos(f.Pos()), u)
		}
		row := rows[name]
		if row == nil && f.Signature.Recv() == nil && !token.IsExported(f.Name()) && f.Parent() == nil {
			// an unexported helper of codecs (ntpAddrFromBytes(data)): it has no layout of its own; what it reads is part of the
			// schema of every codec that calls it (helper inlining), which is where it is compared with the RFC
			callers, allCodec := 0, true
			isCodec := map[*ssa.Function]bool{}
			for _, g := range encs {
				isCodec[g] = true
			}
			for _, g := range decs {
				isCodec[g] = true
			}
			for _, g := range c.P.ModuleFuncs() {
				allInstrs(g, func(in ssa.Instruction) {
					if ci, ok := in.(ssa.CallInstruction); ok && ci.Common().StaticCallee() == f {
						callers++
						if !isCodec[g] || rows[shortName(g)] == nil {
							allCodec = false
						}
					}
				})
			}
			if callers > 0 && allCodec && !hasNonCallRef(f) {
				return
			}
		}
		if row == nil {
			r.Undecided(rule, name+": codec without a reviewed layout row", c.P.pos(f.Pos()), "extracted schema: "+e2Str(ns)+" — add a row to spec/layouts.json after checking it against the RFC")
			return
		}
		n++
		sk, sc := e2Skeleton(ns), e2Str(ns)
		if normSchemaStr(sk) != normSchemaStr(row.Skeleton) {
			r.Violation(rule, name+": slot widths equal the "+row.RFC+" layout", c.P.pos(f.Pos()),
				fmt.Sprintf("width sequence is  %s\n    reviewed/RFC is    %s   (RFC skeleton: %s)\n    full schema now:   %s", sk, row.Skeleton, row.RFCSkeleton, sc))
			return
		}
		if nsc, nrow := normSchemaStr(sc), normSchemaStr(row.Schema); nsc != nrow {
			sc, row = nsc, &layoutRow{Schema: nrow, RFC: row.RFC}
			r.Violation(rule, name+": every slot is written from / read into the reviewed field with the reviewed transform", c.P.pos(f.Pos()),
				fmt.Sprintf("schema is    %s\n    reviewed is  %s\n    (both in normal form) first difference: %s", sc, row.Schema, firstDiff(sc, row.Schema)))
			return
		}
		r.OK(rule, name+": schema equals the reviewed "+row.RFC+" layout", c.P.pos(f.Pos()), "E2 extraction = spec/layouts.json (compared in normal form)", sc)
	}
	for _, f := range encs {
		check(f, true)
	}
	for _, f := range decs {
		check(f, false)
	}
	var names []string
	for k := range rows {
		names = append(names, k)
	}
	sort.Strings(names)
	for _, k := range names {
		// rows whose function disappeared
		if !seen[k] && selByName(c, sel, k) {
			r.Undecided(rule, k+": reviewed layout row without a codec function", "-", "the function named in spec/layouts.json no longer exists (renamed or removed)")
		}
	}
	r.Count(rule+"-codecs", n)
	r.Expect(rule+"-codecs", minRows)
}

func selByName(c *Ctx, sel func(string, *ssa.Function) bool, name string) bool { return sel(name, nil) }

func firstDiff(a, b string) string {
	as, bs := strings.Split(a, " "), strings.Split(b, " ")
	for i := 0; i < len(as) && i < len(bs); i++ {
		if as[i] != bs[i] {
			return fmt.Sprintf("slot %d: %q vs reviewed %q", i+1, as[i], bs[i])
		}
	}
	return fmt.Sprintf("length %d vs %d slots", len(as), len(bs))
}
