// Copyright 2024 The Go Authors. All rights reserved.
// Use of this source code is governed by a BSD-style
// license that can be found in the LICENSE file.

package typesinternal

import (
	"go/ast"
	"go/types"
	"strconv"
)

// FileQualifier returns a [types.Qualifier] function that qualifies
// imported symbols appropriately based on the import environment of a given
// file.
// If the same package is imported multiple times, the last appearance is
// recorded.
func FileQualifier(f *ast.File, pkg *types.Package) types.Qualifier {
	// Construct mapping of import paths to their defined names.
	// It is only necessary to look at renaming imports.
	imports := make(map[string]string)
	for _, imp := range f.Imports {
		if imp.Name != nil && imp.Name.Name != "_" {
			path, _ := strconv.Unquote(imp.Path.Value)
			imports[path] = imp.Name.Name
		}
	}

	// Define qualifier to replace full package paths with names of the imports.
	return func(p *types.Package) string {
		if p == nil || p == pkg {
			return ""
		}

		if name, ok := imports[p.Path()]; ok {
			if name == "." {
				return ""
			} else {
				return name
			}
		}

		// If there is no local renaming, fall back to the package name.
		return p.Name()
	}
}
