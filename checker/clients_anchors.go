package main

// Role-based anchors and lock dataflow for the nclient4 / nclient6 rules
// (C10, C11, C12, C13).

import (
	"fmt"
	"go/token"
	"go/types"

	"golang.org/x/tools/go/ssa"
)

type clientAnchors struct {
	register  *ssa.Function // unexported helper holding the registration, when send delegates it
	short     string        // nclient4 | nclient6
	pkg       *ssa.Package
	decPkg    string // dhcpv4 | dhcpv6 import path
	decName   string // FromBytes | MessageFromBytes
	client    *types.Named
	ctor      *ssa.Function // function that allocates Client (and, directly or through one callee, starts the loop)
	goIns     *ssa.Go       // the go statement starting the receive loop
	recvLoop  *ssa.Function // function run by that goroutine
	send      *ssa.Function // Client method that registers the transaction (only MapUpdate on pending)
	cancel    *ssa.Function // closure returned by send
	sar       *ssa.Function // SendAndRead
	try       *ssa.Function // closure passed to the retry driver
	retry     *ssa.Function // retry driver
	closeFn   *ssa.Function // Close
	sendCall  *ssa.Call     // call of send inside try
	errs      []string
	prog      *Prog
	entryBusy map[*ssa.Function]bool
	// deliverFn: the function holding the delivering select when it is not the receive loop itself
	// (an unexported helper called from the loop with the message and the entry), and its call site
	deliverFn   *ssa.Function
	deliverCall *ssa.Call
}

func (a *clientAnchors) fail(f string, args ...interface{}) {
	a.errs = append(a.errs, fmt.Sprintf(f, args...))
}

// clientField: v is &x.<name> (or a load of it) where x is *Client
func (a *clientAnchors) isClientFieldAddr(v ssa.Value, name string) bool {
	fa, ok := v.(*ssa.FieldAddr)
	if !ok {
		return false
	}
	pt, ok := fa.X.Type().Underlying().(*types.Pointer)
	if !ok {
		return false
	}
	n, ok := pt.Elem().(*types.Named)
	if !ok || n.Obj() != a.client.Obj() {
		return false
	}
	return n.Underlying().(*types.Struct).Field(fa.Field).Name() == name
}

// isClientFieldLoad: v = *(&c.<name>)
func (a *clientAnchors) isClientFieldLoad(v ssa.Value, name string) bool {
	u, ok := v.(*ssa.UnOp)
	if !ok {
		return false
	}
	return a.isClientFieldAddr(u.X, name)
}

func (a *clientAnchors) pkgFuncs(p *Prog) []*ssa.Function {
	var out []*ssa.Function
	for _, f := range p.ModuleFuncs() {
		if funcPkg(f) == a.pkg.Pkg {
			out = append(out, f)
		}
	}
	// closures are not in ModuleFuncs' parent==nil filter; ModuleFuncs includes them (Synthetic=="")
	return out
}

func hasReadFromInCycle(f *ssa.Function) *ssa.Call {
	var r *ssa.Call
	allInstrs(f, func(in ssa.Instruction) {
		if c, ok := in.(*ssa.Call); ok && isInvokeOf(c.Common(), "net", "PacketConn", "ReadFrom") && inCycle(c.Block()) {
			r = c
		}
	})
	return r
}

func resolveClientAnchors(c *Ctx, short string) *clientAnchors {
	a := &clientAnchors{short: short, prog: c.P}
	var path string
	if short == "nclient4" {
		path, a.decPkg, a.decName = modPath+"/dhcpv4/nclient4", modPath+"/dhcpv4", "FromBytes"
	} else {
		path, a.decPkg, a.decName = modPath+"/dhcpv6/nclient6", modPath+"/dhcpv6", "MessageFromBytes"
	}
	a.pkg = c.P.SSAPkg[path]
	if a.pkg == nil {
		a.fail("package %s not loaded", path)
		return a
	}
	tn, _ := a.pkg.Pkg.Scope().Lookup("Client").(*types.TypeName)
	if tn == nil {
		a.fail("type Client not found")
		return a
	}
	a.client = tn.Type().(*types.Named)
	fs := a.pkgFuncs(c.P)
	// receive loop: target of a go statement whose body reads from the conn in a cycle
	for _, f := range fs {
		allInstrs(f, func(in ssa.Instruction) {
			g, ok := in.(*ssa.Go)
			if !ok {
				return
			}
			var tgt *ssa.Function
			if sf := g.Call.StaticCallee(); sf != nil {
				tgt = sf
			}
			if tgt != nil && hasReadFromInCycle(tgt) != nil {
				if a.goIns != nil {
					a.fail("more than one go statement starts a receive loop")
				}
				a.goIns, a.recvLoop = g, tgt
			}
		})
	}
	if a.recvLoop == nil {
		a.fail("receive loop (go target reading from conn in a loop) not found")
	}
	// constructor: allocates Client
	for _, f := range fs {
		if f.Parent() != nil {
			continue
		}
		allInstrs(f, func(in ssa.Instruction) {
			if al, ok := in.(*ssa.Alloc); ok && al.Heap {
				if n, ok := al.Type().(*types.Pointer).Elem().(*types.Named); ok && n.Obj() == a.client.Obj() {
					if a.ctor != nil && a.ctor != f {
						a.fail("several functions allocate Client: %s, %s", shortName(a.ctor), shortName(f))
					}
					a.ctor = f
				}
			}
		})
	}
	if a.ctor == nil {
		a.fail("constructor (allocation of Client) not found")
	}
	// send: the only MapUpdate on c.pending
	for _, f := range fs {
		allInstrs(f, func(in ssa.Instruction) {
			if mu, ok := in.(*ssa.MapUpdate); ok && a.isClientFieldLoad(mu.Map, "pending") {
				if a.send != nil && a.send != f {
					a.fail("several functions store into pending: %s, %s", shortName(a.send), shortName(f))
				}
				a.send = f
			}
		})
	}
	// the registration may sit in an unexported helper called from one place (`ch, done, ok := c.register(xid)`): send is
	// then its caller, the function that makes the cancel closure
	if a.send != nil && a.send.Parent() == nil && !token.IsExported(a.send.Name()) {
		hasClosure := false
		allInstrs(a.send, func(in ssa.Instruction) {
			if _, ok := in.(*ssa.MakeClosure); ok {
				hasClosure = true
			}
		})
		if !hasClosure {
			var callers []*ssa.Function
			for _, f := range fs {
				allInstrs(f, func(in ssa.Instruction) {
					if cl, ok := in.(*ssa.Call); ok && cl.Call.StaticCallee() == a.send {
						callers = append(callers, f)
					}
				})
			}
			if len(callers) == 1 {
				a.register, a.send = a.send, callers[0]
			}
		}
	}
	if a.send == nil {
		a.fail("send (function storing into Client.pending) not found")
	} else {
		// cancel: the closure created in send and returned
		for _, r := range returnsOf(a.send) {
			for _, v := range r.Results {
				if mc, ok := v.(*ssa.MakeClosure); ok {
					a.cancel = mc.Fn.(*ssa.Function)
				}
			}
		}
		if a.cancel == nil {
			// named results: look for the single closure made in send
			allInstrs(a.send, func(in ssa.Instruction) {
				if mc, ok := in.(*ssa.MakeClosure); ok {
					a.cancel = mc.Fn.(*ssa.Function)
				}
			})
		}
		if a.cancel == nil {
			a.fail("cancel closure of send not found")
		}
	}
	// retry driver: Client method calling a func-typed parameter inside a cycle
	for _, f := range fs {
		if f.Parent() != nil || recvNamed(f) == nil || recvNamed(f).Obj() != a.client.Obj() {
			continue
		}
		allInstrs(f, func(in ssa.Instruction) {
			if cl, ok := in.(*ssa.Call); ok && inCycle(cl.Block()) {
				if prm, ok := cl.Call.Value.(*ssa.Parameter); ok && prm.Parent() == f {
					a.retry = f
				}
			}
		})
	}
	if a.retry == nil {
		a.fail("retry driver not found")
	}
	// try closure: a closure calling send; SendAndRead = its parent
	if a.send != nil {
		for _, f := range fs {
			if f.Parent() == nil {
				continue
			}
			allInstrs(f, func(in ssa.Instruction) {
				if cl, ok := in.(*ssa.Call); ok && cl.Call.StaticCallee() == a.send {
					if a.try != nil && a.try != f {
						a.fail("several closures call send")
					}
					a.try, a.sar, a.sendCall = f, f.Parent(), cl
				}
			})
		}
	}
	if a.try == nil {
		a.fail("try closure (closure calling send) not found")
	}
	// Close: Client method performing a CAS on c.closed
	for _, f := range fs {
		if recvNamed(f) == nil || recvNamed(f).Obj() != a.client.Obj() {
			continue
		}
		allInstrs(f, func(in ssa.Instruction) {
			if cl, ok := in.(*ssa.Call); ok && isClosedCAS(a, cl.Common()) {
				a.closeFn = f
			}
		})
	}
	if a.closeFn == nil {
		a.fail("Close (CAS on Client.closed) not found")
	}
	return a
}

// ---------------------------------------------------------------------------
// lock dataflow: must-hold / may-hold of Client.pendingMu at each instruction

type lockInfo struct {
	must    map[ssa.Instruction]bool // lock definitely held before the instruction
	may     map[ssa.Instruction]bool
	exitMay map[*ssa.BasicBlock]bool
}

func (a *clientAnchors) isMuCall(in ssa.Instruction, name string) bool {
	var cc *ssa.CallCommon
	switch x := in.(type) {
	case *ssa.Call:
		cc = x.Common()
	default:
		return false
	}
	f := cc.StaticCallee()
	if f == nil || f.Name() != name || len(cc.Args) == 0 {
		return false
	}
	if n := recvNamed(f); n == nil || n.Obj().Pkg() == nil || n.Obj().Pkg().Path() != "sync" {
		return false
	}
	return a.isClientFieldAddr(cc.Args[0], "pendingMu")
}

// entryLock: (must, may) hold of pendingMu on entry to fn, from its call sites in the package
func (a *clientAnchors) entryLock(fn *ssa.Function) (bool, bool) {
	if a.entryBusy == nil {
		a.entryBusy = map[*ssa.Function]bool{}
	}
	if fn.Parent() != nil || token.IsExported(fn.Name()) || a.entryBusy[fn] || hasNonCallRef(fn) || a.prog == nil {
		return false, false
	}
	a.entryBusy[fn] = true
	defer delete(a.entryBusy, fn)
	n, must, may := 0, true, false
	for _, g := range a.pkgFuncs(a.prog) {
		if g == fn {
			continue
		}
		var li *lockInfo
		allInstrs(g, func(in ssa.Instruction) {
			ci, ok := in.(ssa.CallInstruction)
			if !ok || ci.Common().StaticCallee() != fn {
				return
			}
			if _, isGo := in.(*ssa.Go); isGo {
				must = false
				n++
				return
			}
			if li == nil {
				li = a.lockFlow(g)
			}
			n++
			must = must && li.must[in]
			may = may || li.may[in]
		})
	}
	if n == 0 {
		return false, false
	}
	return must, may || must
}

func (a *clientAnchors) lockFlow(fn *ssa.Function) *lockInfo {
	li := &lockInfo{must: map[ssa.Instruction]bool{}, may: map[ssa.Instruction]bool{}, exitMay: map[*ssa.BasicBlock]bool{}}
	// must/may: the lock is held; dMust/dMay: an Unlock of it has been deferred (released at RunDefers)
	type st struct{ must, may, dMust, dMay bool }
	isDeferUnlock := func(i ssa.Instruction) bool {
		d, ok := i.(*ssa.Defer)
		if !ok {
			return false
		}
		sf := d.Call.StaticCallee()
		return sf != nil && sf.Name() == "Unlock" && len(d.Call.Args) > 0 && a.isClientFieldAddr(d.Call.Args[0], "pendingMu")
	}
	step := func(s st, i ssa.Instruction) st {
		switch {
		case a.isMuCall(i, "Lock"):
			s.must, s.may = true, true
		case a.isMuCall(i, "Unlock"):
			s.must, s.may = false, false
		case isDeferUnlock(i):
			s.dMust, s.dMay = true, true
		default:
			if _, ok := i.(*ssa.RunDefers); ok {
				if s.dMust {
					s.must, s.may = false, false
				} else if s.dMay {
					s.must = false
				}
			}
		}
		return s
	}
	in := map[*ssa.BasicBlock]st{}
	out := map[*ssa.BasicBlock]st{}
	for _, b := range fn.Blocks {
		in[b] = st{true, false, true, false}
		out[b] = st{true, false, true, false}
	}
	if len(fn.Blocks) == 0 {
		return li
	}
	// entry state: an unexported function of the package that is only ever called (statically) with the lock
	// held starts with the lock held ("c.pendingMu must be held by the caller" helpers)
	em, ey := a.entryLock(fn)
	in[fn.Blocks[0]] = st{em, ey, false, false}
	for changed := true; changed; {
		changed = false
		for _, b := range fn.Blocks {
			s := in[b]
			if b != fn.Blocks[0] {
				s = st{true, false, true, false}
				if len(b.Preds) == 0 {
					s = st{false, false, false, false}
				}
				for _, p := range b.Preds {
					s.must = s.must && out[p].must
					s.may = s.may || out[p].may
					s.dMust = s.dMust && out[p].dMust
					s.dMay = s.dMay || out[p].dMay
				}
			}
			in[b] = s
			for _, i := range b.Instrs {
				s = step(s, i)
			}
			if out[b] != s {
				out[b] = s
				changed = true
			}
		}
	}
	for _, b := range fn.Blocks {
		s := in[b]
		for _, i := range b.Instrs {
			li.must[i] = s.must
			li.may[i] = s.may
			s = step(s, i)
		}
		li.exitMay[b] = s.may
	}
	return li
}

// isClosedCAS: the once-only guard of Close — atomic.CompareAndSwapUint32(&c.closed, 0, 1), or the method form of the
// typed atomics, c.closed.CompareAndSwap(false, true) / (0, 1)
func isClosedCAS(a *clientAnchors, cc *ssa.CallCommon) bool {
	sf := cc.StaticCallee()
	if sf == nil || pkgPathOf(sf) != "sync/atomic" || len(cc.Args) != 3 || !a.isClientFieldAddr(cc.Args[0], "closed") {
		return false
	}
	if sf.Name() != "CompareAndSwapUint32" && sf.Name() != "CompareAndSwapInt32" && sf.Name() != "CompareAndSwap" {
		return false
	}
	isZero := func(v ssa.Value) bool {
		if b, ok := boolConst(v); ok {
			return !b
		}
		k, ok := intConst(v)
		return ok && k == 0
	}
	isOne := func(v ssa.Value) bool {
		if b, ok := boolConst(v); ok {
			return b
		}
		k, ok := intConst(v)
		return ok && k == 1
	}
	return isZero(cc.Args[1]) && isOne(cc.Args[2])
}
